# Per-property configuration of ./check: statement files, correspondence streams, trusted base.
COMMON_ASSUME = [
    'Go semantics of the modelled fragment and of the standard library functions named in DESIGN.md section 9 are modelled, not verified',
]

PROPS = {
    'C11': {
        'props': ['theories/Props/C11.v'],
        'deps': ['theories/Theory/ValidatorsFacts.v', 'theories/Theory/BytesFacts.v', 'theories/Model/Validators.v',
                 'gen/Classes.v', 'gen/Codes.v', 'gen/Currency.v', 'theories/Spec/Faim.v'],
        'streams': ['l1-validators'],
        'trusted_base': ['hand model of validators.go shapes (Model/Validators.v) tied by stream l1-validators',
                         'regexp/syntax reading of the three negated character classes (translator/classes.go)',
                         'Spec/Faim.v: FAIM character set, published code lists, date and identifier shapes (my reading of the documentation)',
                         'golang.org/x/text/currency table as ISO 4217 oracle'],
        'assumptions': COMMON_ASSUME + ['regexp matches invalid UTF-8 bytes as U+FFFD (outside every ASCII class); exercised by the stream on all 256 bytes and all code points'],
    },
}
