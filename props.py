# Per-property configuration of ./check: statement files, correspondence streams, trusted base.
COMMON_ASSUME = [
    'Go semantics of the modelled fragment and of the standard library functions named in DESIGN.md section 9 are modelled, not verified',
]
GOV_TB = ['translator reading of Validate/fieldInclusion/verify into GoV programs (translator/gov.go), tied by streams l2-tags / l3-validate (exact error labels compared)',
          'GoV semantics (Model/GoV.v) and the validator primitives (Model/Validators.v)']
VERIFY_DEPS = ['theories/Theory/VerifyFacts.v', 'theories/Theory/VerifyProps.v', 'theories/Theory/DLFacts.v', 'theories/Model/DL.v',
               'theories/Model/GoV.v', 'theories/Spec/Rules.v', 'gen/Tags.v', 'gen/Verify.v']

PROPS = {
    'C05': {
        'props': ['theories/Props/C05.v'], 'deps': VERIF_DEPS if False else VERIFY_DEPS,
        'streams': ['l3-validate'],
        'trusted_base': GOV_TB + ['Spec/Rules.v: the documented edit rules as reject cubes (DESIGN.md appendix A)'],
        'assumptions': COMMON_ASSUME + ['the unspecified region listed in Spec/Rules.v (unspecified) carries no rule on either side'],
    },
    'C06': {
        'props': ['theories/Props/C06.v'], 'deps': VERIFY_DEPS + ['theories/Theory/WriterFacts.v', 'theories/Model/Writer.v', 'gen/Writer.v'],
        'streams': ['l3-write'],
        'trusted_base': GOV_TB + ['translator reading of writer.go (emission plan, mandatory checks, Write/epilogue shape)', 'bufio.Writer: the destination is reached only by the final flush (modelled)'],
        'assumptions': COMMON_ASSUME,
    },
    'C10': {
        'props': ['theories/Props/C10.v'], 'deps': VERIFY_DEPS,
        'streams': ['l3-validate', 'l2-tags'],
        'trusted_base': GOV_TB,
        'assumptions': COMMON_ASSUME,
    },
    'C11': {
        'props': ['theories/Props/C11.v'],
        'deps': ['theories/Theory/ValidatorsFacts.v', 'theories/Theory/BytesFacts.v', 'theories/Model/Validators.v',
                 'gen/Classes.v', 'gen/Codes.v', 'gen/Currency.v', 'theories/Spec/Faim.v'],
        'streams': ['l1-validators'],
        'trusted_base': ['hand model of validators.go shapes (Model/Validators.v) tied by stream l1-validators',
                         'regexp/syntax reading of the three negated character classes (translator/classes.go)',
                         'Spec/Faim.v: FAIM character set, published code lists, date and identifier shapes (my reading of the documentation)',
                         'golang.org/x/text/currency table as ISO 4217 oracle'],
        'assumptions': COMMON_ASSUME + ['regexp matches invalid UTF-8 bytes as U+FFFD (outside every ASCII class); exercised by the stream on all 256 bytes and all code points'],
    },
    'C12': {
        'props': ['theories/Props/C12.v'], 'deps': VERIFY_DEPS + ['theories/Theory/WriterFacts.v'],
        'streams': ['l3-validate', 'l3-write'],
        'trusted_base': GOV_TB + ['Spec/Rules.v option_rules'],
        'assumptions': COMMON_ASSUME + ['route agreement (reader presets, JSON, HTTP query) is covered by the streams of C04/C14/C17, not by these theorems'],
    },
    'C19': {
        'props': ['theories/Props/C19.v'], 'deps': VERIFY_DEPS,
        'streams': ['l3-validate', 'l3-write'],
        'trusted_base': GOV_TB,
        'assumptions': COMMON_ASSUME,
    },
}
