# Per-property configuration of ./check: statement files, correspondence streams, trusted base.
COMMON_ASSUME = [
    'Go semantics of the modelled fragment and of the standard library functions named in DESIGN.md section 9 are modelled, not verified',
]
GOV_TB = ['translator reading of Validate/fieldInclusion/verify into GoV programs (translator/gov.go), tied by streams l2-tags / l3-validate (exact error labels compared)',
          'GoV semantics (Model/GoV.v) and the validator primitives (Model/Validators.v)']
VERIFY_DEPS = ['theories/Theory/VerifyFacts.v', 'theories/Theory/VerifyProps.v', 'theories/Theory/DLFacts.v', 'theories/Model/DL.v',
               'theories/Model/GoV.v', 'theories/Spec/Rules.v', 'gen/Tags.v', 'gen/Verify.v']

READER_DEPS = ['theories/Model/Reader.v', 'theories/Theory/ReaderFacts.v', 'theories/Theory/DispatchFacts.v', 'gen/Reader.v', 'gen/Tags.v']
READER_TB = ['translator reading of reader.go (dispatch table, shapes of read loop / splitter / constructors)',
             'bufio.Scanner model (Model/Reader.v scan_one: sticky status, 64 KiB limit, buffer growth) tied by stream l4-reader',
             'hand model of the splitter and of the re-split, tied by stream l4-reader (13k reads: chunkings, fault offsets, 64 KiB boundaries)']
CODEC_DEPS = ['theories/Model/Layout.v', 'theories/Theory/ConvFacts.v', 'theories/Theory/CodecFacts.v', 'theories/Theory/CodecRoundTrip.v', 'theories/Theory/CodecTags.v', 'gen/Tags.v']

SERVER_DEPS = ['theories/Model/Server.v', 'theories/Theory/ServerFacts.v', 'gen/Handlers.v']
SERVER_TB = ['translator reading of cmd/server/files.go and storage.go (routes, repository calls per handler, captured-variable assignments, lock discipline, normalised handler text)',
             'hand model of the handlers (Model/Server.v) tied by streams l6-http (sequential histories) and l6-sched (every interleaving of repository steps of 2- and 3-request combinations): responses and final store compared']

PROPS = {
    'C01': {
        'props': ['theories/Props/C01.v', 'theories/Props/C01File.v'],
        'deps': CODEC_DEPS + READER_DEPS + ['theories/Theory/ScanSpec.v', 'theories/Theory/Segments.v', 'theories/Theory/FileRoundTrip.v', 'theories/Theory/FormatShape.v',
                                           'theories/Theory/TagLocal.v', 'theories/Theory/TagSpecial.v', 'theories/Theory/FileRoundTripFull.v', 'theories/Theory/WriterFacts.v', 'gen/Writer.v'],
        'streams': ['l2-tags', 'l5-props'],
        'trusted_base': ['translator reading of the 60 Parse/Format functions into step lists (translator/tags.go), tied by stream l2-tags (300k cases, zero disagreements)',
                         'hand model of converters.go (Model/Converters.v)'],
        'assumptions': COMMON_ASSUME + ['the file-level theorem covers messages whose present tags are all 60 tags (56 regular tags, {1120}, {1500}, {3600}, {8200}); for the 8 tags whose minimum-length guard is not static the canonical-value condition includes that the text of the value meets the guard',
                                        'the file-level theorem assumes the written text is shorter than the 64 KiB scanner limit (all tags together stay below 27 KiB)'],
    },
    'C04': {
        'props': ['theories/Props/C04.v'], 'deps': READER_DEPS + VERIFY_DEPS + ['theories/Theory/ReaderTotal.v', 'theories/Theory/ScanSpec.v', 'theories/Theory/Segments.v', 'theories/Theory/SegmentsGen.v'],
        'streams': ['l4-reader'],
        'trusted_base': READER_TB + GOV_TB + ['Spec/Faim.v faim_markers'],
        'assumptions': COMMON_ASSUME,
    },
    'C08': {
        'props': ['theories/Props/C08.v'], 'deps': READER_DEPS + ['theories/Theory/WriterFacts.v'],
        'streams': ['l4-reader', 'l5-faults', 'l6-http'],
        'trusted_base': READER_TB + ['bufio.Writer: a short write surfaces as io.ErrShortWrite from Flush (modelled)'],
        'assumptions': COMMON_ASSUME + ['OS-level behaviour appears only as: the source returned an error after k bytes / the destination accepted k bytes'],
    },
    'C09': {
        'props': ['theories/Props/C09.v'], 'deps': READER_DEPS + ['theories/Theory/ReaderTotal.v', 'theories/Theory/ScanSpec.v', 'theories/Theory/Segments.v', 'theories/Theory/SegmentsGen.v'],
        'streams': ['l5-props', 'l4-reader'],
        'trusted_base': READER_TB,
        'assumptions': COMMON_ASSUME + ['separator independence is proved for texts below the 64 KiB token limit whose segments hold no further brace and no line break (what the writer emits for FAIM values); runs of line breaks (any concatenation of LF and CRLF) before / between / after the segments are proved irrelevant as well; a lone CR or other stray bytes between segments are decided on the implementation by stream l5-props'],
    },
    'C02': {
        'props': ['theories/Props/C02.v'], 'deps': READER_DEPS + CODEC_DEPS + ['theories/Theory/WriterFacts.v', 'theories/Model/Writer.v', 'gen/Writer.v', 'theories/Theory/Segments.v', 'theories/Theory/FileRoundTripFull.v', 'theories/Theory/ElementValues.v'],
        'streams': ['l5-props', 'l5-reread', 'l2-tags'],
        'trusted_base': READER_TB + ['translator reading of writer.go and of the 60 Parse/Format functions, tied by streams l2-tags / l3-write / l4-reader'],
        'assumptions': COMMON_ASSUME + ['the stabilisation statement (second read equals first read) is decided on the implementation by streams l5-props (read-write-read) and l5-reread (over-width, blank-padded, inner-blank elements); the theorems cover: an accepted text yields a valid message, which the writer does not refuse'],
    },
    'C07': {
        'props': ['theories/Props/C07.v'], 'deps': CODEC_DEPS + ['theories/Theory/WriterFacts.v', 'theories/Model/Writer.v', 'gen/Writer.v', 'theories/Theory/FixedLength.v'],
        'streams': ['l5-props', 'l3-write'],
        'trusted_base': ['translator reading of writer.go (emission plan, Write/epilogue shape) and of the 60 Format functions', 'hand model of converters.go (Model/Converters.v)'],
        'assumptions': COMMON_ASSUME,
    },
    'C16': {
        'props': ['theories/Props/C16.v'], 'deps': SERVER_DEPS,
        'streams': ['l6-sched', 'l6-conc', 'l6-http'],
        'trusted_base': SERVER_TB + ['scheduling wrapper around WireFileRepository in the verif-tagged test hook (grant/ack per repository call)', 'porcupine v1.3.0 linearizability checker for the stress histories (supports the search only)'],
        'assumptions': COMMON_ASSUME + ['sync.Mutex gives mutual exclusion: each repository method is one atomic step (obligation repo_methods_locked)',
                                        'the linearizability theorems (any interleaving; real-time order with arrivals) cover handlers with a single repository call; add-message (getFile then saveFile) is refuted in Findings/C16.v and recorded as a known finding'],
    },
    'C17': {
        'props': ['theories/Props/C17.v'], 'deps': SERVER_DEPS + ['theories/Theory/WriterFacts.v', 'theories/Theory/ReaderFacts.v'],
        'streams': ['l6-http'],
        'trusted_base': SERVER_TB + ['encoding/json decoding of request bodies is outside the model: JSON requests enter the model as decoded messages (the harness decodes with the library)'],
        'assumptions': COMMON_ASSUME,
    },
    'C18': {
        'props': ['theories/Props/C18.v'], 'deps': SERVER_DEPS,
        'streams': ['l6-conc', 'l6-http'],
        'trusted_base': SERVER_TB + ['Go race detector (go test -race) over the real router with 2..64 concurrent clients: the data-race half of the property is runtime behaviour the Coq model cannot exhibit'],
        'assumptions': COMMON_ASSUME + ['partial: data-race freedom is established by the effect discipline obligations (no assignment to captured variables, repository under mutex) plus race-detector runs, not by a theorem about the Go memory model'],
    },
    'C03': {
        'props': ['theories/Props/C03.v'], 'deps': READER_DEPS + VERIFY_DEPS + ['theories/Theory/ParseSafety.v', 'theories/Theory/ReaderTotal.v'],
        'streams': ['l4-reader', 'l2-tags', 'l7-json'],
        'trusted_base': READER_TB + GOV_TB + ['translator reading of the 60 Parse functions into step lists, tied by stream l2-tags',
                                             'hand model of converters.go: slicing inside parseFixedStringField / parseVariableStringField is modelled as total (tied by 300k tag cases incl. multi-byte and invalid UTF-8)'],
        'assumptions': COMMON_ASSUME + ['encoding/json is outside the model: totality of FileFromJSON is decided on the implementation by stream l7-json (hand-written and mutated documents), not by a theorem',
                                        'memory: the theorem bounds the scanner buffer (64 KiB); allocation inside the Go runtime and in {8200} handling is observed, not proved'],
    },
    'C13': {
        'props': ['theories/Props/C13.v'], 'deps': VERIFY_DEPS + ['theories/Theory/WriterFacts.v', 'gen/Effects.v', 'gen/Writer.v'],
        'streams': ['l7-purity'],
        'trusted_base': GOV_TB + ['translator effect scan (translator/effects.go): assignments through receiver / pointer, map, slice parameters / package variables, call graph by name inside package wire; calls into imported packages are assumed read-only',
                                  'Go race detector for the shared-use half (binary built with -race, 2..64 goroutines per message)'],
        'assumptions': COMMON_ASSUME + ['partial: absence of data races under the Go memory model is runtime behaviour the Coq model cannot exhibit; it follows informally from the effect-scan obligation and is tested under the race detector',
                                        'the effect scan tracks locals bound to the receiver, to a shared parameter, to one of their members or to the address of one (writes through such aliases count); pointers returned by calls are not tracked'],
    },
    'C14': {
        'props': ['theories/Props/C14.v'], 'deps': ['theories/Model/Json.v', 'theories/Theory/JsonFacts.v', 'gen/Json.v', 'gen/Tags.v'],
        'streams': ['l7-json'],
        'trusted_base': ['translator reading of the struct tags (json names, omitempty) and of UnmarshalJSON (alias type, restored marker constant) in the 60 tag files and fedWireMessage.go',
                         'translator reading of client/model_*.go and of openapi.yaml (block-mapping subset reader in translator/json.go)',
                         'model of encoding/json (Model/Json.v): member lookup by exact name, omitempty on strings and nil pointers, null -> nil, struct values always emitted; tied by stream l7-json (2,000+ encode / decode cases incl. dropped, unknown, misspelt, null and {} members)'],
        'assumptions': COMMON_ASSUME + ['case-insensitive member matching of encoding/json is not modelled (the generated documents use exact names)',
                                        'element values are taken to be valid UTF-8: json.Marshal replaces invalid bytes by U+FFFD, which is behaviour of encoding/json outside the model',
                                        'name agreement is proved for the 29 message elements outside the recorded list of 31; those 31 are recorded findings (Findings/C14.v)'],
    },
    'C15': {
        'props': ['theories/Props/C15.v'], 'deps': READER_DEPS + ['theories/Theory/ReaderTotal.v', 'theories/Theory/ScanSpec.v', 'theories/Theory/Segments.v', 'theories/Theory/SegmentsGen.v'],
        'streams': ['l5-props', 'l4-reader'],
        'trusted_base': READER_TB,
        'assumptions': COMMON_ASSUME,
    },
    'C05': {
        'props': ['theories/Props/C05.v'], 'deps': VERIF_DEPS if False else VERIFY_DEPS,
        'streams': ['l3-validate'],
        'trusted_base': GOV_TB + ['Spec/Rules.v: the documented edit rules as reject cubes (DESIGN.md appendix A)'],
        'assumptions': COMMON_ASSUME + ['the unspecified region listed in Spec/Rules.v (unspecified) carries no rule on either side'],
    },
    'C06': {
        'props': ['theories/Props/C06.v'], 'deps': VERIFY_DEPS + ['theories/Theory/WriterFacts.v', 'theories/Model/Writer.v', 'gen/Writer.v'],
        'streams': ['l3-write', 'l5-edits'],
        'trusted_base': GOV_TB + ['translator reading of writer.go (emission plan, mandatory checks, Write/epilogue shape)', 'bufio.Writer: the destination is reached only by the final flush (modelled)'],
        'assumptions': COMMON_ASSUME,
    },
    'C10': {
        'props': ['theories/Props/C10.v'], 'deps': VERIFY_DEPS + ['theories/Theory/WriterFacts.v', 'theories/Theory/Segments.v', 'theories/Theory/FileRoundTripFull.v'],
        'streams': ['l3-validate', 'l2-tags', 'l5-props'],
        'trusted_base': GOV_TB,
        'assumptions': COMMON_ASSUME,
    },
    'C11': {
        'props': ['theories/Props/C11.v'],
        'deps': ['theories/Theory/ValidatorsFacts.v', 'theories/Theory/BytesFacts.v', 'theories/Model/Validators.v',
                 'gen/Classes.v', 'gen/Codes.v', 'gen/Currency.v', 'theories/Spec/Faim.v'],
        'streams': ['l1-validators', 'l2-tags'],
        'trusted_base': ['hand model of validators.go shapes (Model/Validators.v) tied by stream l1-validators',
                         'regexp/syntax reading of the three negated character classes (translator/classes.go)',
                         'Spec/Faim.v: FAIM character set, published code lists, date and identifier shapes (my reading of the documentation)',
                         'golang.org/x/text/currency table as ISO 4217 oracle'],
        'assumptions': COMMON_ASSUME + ['regexp matches invalid UTF-8 bytes as U+FFFD (outside every ASCII class); exercised by the stream on all 256 bytes and all code points'],
    },
    'C12': {
        'props': ['theories/Props/C12.v'], 'deps': VERIFY_DEPS + ['theories/Theory/WriterFacts.v'] + ['theories/Model/Server.v', 'gen/Handlers.v'],
        'streams': ['l3-validate', 'l3-write', 'l6-http', 'l5-props'],
        'trusted_base': GOV_TB + ['Spec/Rules.v option_rules'],
        'assumptions': COMMON_ASSUME + ['route agreement (reader presets, JSON, HTTP query) is covered by the streams of C04/C14/C17, not by these theorems'],
    },
    'C19': {
        'props': ['theories/Props/C19.v'], 'deps': VERIFY_DEPS + ['theories/Model/Codec.v', 'theories/Model/Converters.v'],
        'streams': ['l3-validate', 'l3-write', 'l5-props'],
        'trusted_base': GOV_TB,
        'assumptions': COMMON_ASSUME,
    },
}
