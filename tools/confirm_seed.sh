#!/bin/bash
# Confirms a seeded change: applies seeded/<id>/patch.diff in a scratch worktree of /repo HEAD, runs the
# pinned suite (must pass), runs the demonstration test (must FAIL with the patch, PASS without).
# usage: confirm_seed.sh <seed-dir> <package-dir-relative (. or cmd/server)>
export GOFLAGS=-mod=mod GOPROXY=off GOSUMDB=off GOTOOLCHAIN=local
SEED=$(realpath "$1"); PKG=${2:-.}
WT=$(mktemp -d /tmp/confirm-seed.XXXXXX)
git -C /repo worktree add -q --detach "$WT" HEAD || exit 2
cd "$WT"
if ! git apply "$SEED/patch.diff"; then echo "PATCH DOES NOT APPLY"; git -C /repo worktree remove --force "$WT"; exit 2; fi
echo "== suite with patch"; /verif/tools/baseline.sh "$WT"; SUITE=$?
cp "$SEED/demo_test.go" "$WT/$PKG/zz_seed_demo_test.go"
RUN=$(grep -oE '^func (Test[A-Za-z0-9_]+)' "$SEED/demo_test.go" | awk '{print $2}' | paste -sd'|')
RUN="^($RUN)\$"
echo "== demo with patch (expect FAIL)"; (cd "$WT/$PKG" && go test -vet=off -count=1 -run "$RUN" . 2>&1 | tail -5); 
(cd "$WT/$PKG" && go test -vet=off -count=1 -run "$RUN" . >/dev/null 2>&1); WITH=$?
git apply -R "$SEED/patch.diff"
echo "== demo without patch (expect PASS)"; (cd "$WT/$PKG" && go test -vet=off -count=1 -run "$RUN" . 2>&1 | tail -3)
(cd "$WT/$PKG" && go test -vet=off -count=1 -run "$RUN" . >/dev/null 2>&1); WITHOUT=$?
cd /; git -C /repo worktree remove --force "$WT"
echo "RESULT suite_rc=$SUITE demo_with_patch_rc=$WITH demo_without_patch_rc=$WITHOUT"
[ $SUITE -eq 0 ] && [ $WITH -ne 0 ] && [ $WITHOUT -eq 0 ]
