#!/bin/bash
# Runs the repository's pinned test suite with the verif build tag OFF and checks that every
# test listed as stable in /root/.vp/BASELINE.json passes. Usage: baseline.sh [repo-dir]
export GOFLAGS=-mod=mod GOPROXY=off GOSUMDB=off GOTOOLCHAIN=local
REPO=${1:-/repo}
OUT=$(mktemp /var/tmp/verif-baseline.XXXXXX)
(cd "$REPO" && go test -mod=mod -json -vet=off -count=1 -timeout 25m ./... > "$OUT" 2>/dev/null)
python3 - "$OUT" <<'PY'
import json, sys
passed=set(); failed=set()
for line in open(sys.argv[1], errors='replace'):
    try: ev=json.loads(line)
    except Exception: continue
    t=ev.get('Test')
    if not t: continue
    k=ev['Package']+'::'+t
    if ev.get('Action')=='pass': passed.add(k)
    elif ev.get('Action')=='fail': failed.add(k)
base=json.load(open('/root/.vp/BASELINE.json'))['stable_pass']
missing=[t for t in base if t not in passed]
print(f"baseline: {len(base)} stable tests, {len(base)-len(missing)} passed, {len(missing)} not passed, {len(failed)} failed overall")
for t in missing[:20]: print("  NOT PASSED:", t)
for t in sorted(failed)[:20]: print("  FAILED:", t)
sys.exit(1 if missing or failed else 0)
PY
rc=$?
rm -f "$OUT"
exit $rc
