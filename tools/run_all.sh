#!/bin/bash
# Runs every claimed check (quick tier) on the current tree; prints one summary line per property.
cd /verif
rc=0
for p in $(python3 -c "import json; print(' '.join(c['property_id'] for c in json.load(open('MANIFEST.json'))['checks']))"); do
  timeout 1200 ./check $p 2>&1 | grep -E "^(VIOLATION|KNOWN-FINDING|C[0-9]+:)" || echo "$p: no summary"
  [ ${PIPESTATUS[0]} -ne 0 ] && rc=1
done
exit $rc
