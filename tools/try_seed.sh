#!/bin/bash
# Applies a seeded patch to /repo, runs the given checks, and always restores /repo.
# usage: try_seed.sh <seed-dir> <Cxx> [<Cyy> ...]
SEED=$(realpath "$1"); shift
cd /verif
if ! git -C /repo apply "$SEED/patch.diff"; then echo "PATCH DOES NOT APPLY to /repo"; exit 2; fi
trap 'git -C /repo checkout -- . ; echo "(repo restored)"' EXIT
for p in "$@"; do
  echo "=== ./check $p with $(basename $SEED)"
  ./check "$p" 2>&1 | tail -4
done
