#!/usr/bin/env python3
"""Regenerates the seeded-change table of DESIGN.md section 0.7 from seeded/*/meta.json."""
import json, os, re
V = os.path.dirname(os.path.dirname(os.path.abspath(__file__))) + '/'
s = open(V + 'DESIGN.md').read()
rows = []
for d in sorted(os.listdir(V + 'seeded')):
    mp = V + 'seeded/' + d + '/meta.json'
    if not os.path.exists(mp):
        continue
    m = json.load(open(mp))
    det = m['detected_by']
    how = '; '.join(f"{k}: {v}" for k, v in det.items()).replace('|', '/').replace('\n', ' ')
    if len(how) > 330:
        how = how[:327] + '...'
    rows.append(f"| {d} | {', '.join(det.keys())} | {how} |")
start = s.index('| seed | caught by | how (from meta.json) |')
end = s.index('coqchk (independent checker) over all Props')
tbl = '| seed | caught by | how (from meta.json) |\n|------|-----------|-----|\n' + '\n'.join(rows) + '\n\n'
s = s[:start] + tbl + s[end:]
s = re.sub(r'^\d+ seeded source changes', f'{len(rows)} seeded source changes', s, flags=re.M)
open(V + 'DESIGN.md', 'w').write(s)
print(len(rows), 'rows')
