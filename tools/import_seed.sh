#!/bin/bash
# usage: import_seed.sh <scratch-worktree> <seed-name> <package dir (. or cmd/server)>
# copies seed/{patch.diff,demo_test.go,notes.md} into seeded/<seed-name>, removes the worktree, confirms the seed
WT=$1; NAME=$2; PKG=${3:-.}
D=/verif/seeded/$NAME
mkdir -p "$D" && cp "$WT"/seed/patch.diff "$WT"/seed/demo_test.go "$WT"/seed/notes.md "$D"/ || exit 2
git -C /repo worktree remove --force "$WT"
/verif/tools/confirm_seed.sh "$D" "$PKG" 2>&1 | grep "RESULT\|NOT APPLY"
