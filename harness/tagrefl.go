//go:build verif

package main

import (
	"fmt"
	"reflect"
	"sort"
	"strings"
	"unsafe"

	"github.com/moov-io/wire"
)

// Reflection view of the 60 tag types: elements are the exported string fields, flattened depth-first
// in declaration order (the order the translator uses), the marker is the unexported `tag` field.
type elemInfo struct {
	Index []int
	Path  string
}

type TagType struct {
	Name     string
	Type     reflect.Type // struct type
	MsgField int          // field index in wire.FEDWireMessage
	Elems    []elemInfo
	tagIdx   int
}

var tagTypes []*TagType
var tagByName = map[string]*TagType{}

func flattenType(t reflect.Type, idx []int, path string, out *[]elemInfo) {
	for i := 0; i < t.NumField(); i++ {
		f := t.Field(i)
		if f.Name == "tag" || f.Type.Name() == "validator" || f.Type.Name() == "converters" {
			continue
		}
		p := f.Name
		if path != "" {
			p = path + "." + f.Name
		}
		ni := append(append([]int{}, idx...), i)
		switch f.Type.Kind() {
		case reflect.String:
			if f.IsExported() {
				*out = append(*out, elemInfo{ni, p})
			}
		case reflect.Struct:
			flattenType(f.Type, ni, p, out)
		}
	}
}

func init() {
	mt := reflect.TypeOf(wire.FEDWireMessage{})
	for i := 0; i < mt.NumField(); i++ {
		f := mt.Field(i)
		if f.Type.Kind() != reflect.Ptr || f.Type.Elem().Kind() != reflect.Struct {
			continue
		}
		st := f.Type.Elem()
		tf, ok := st.FieldByName("tag")
		if !ok {
			continue
		}
		tt := &TagType{Name: st.Name(), Type: st, MsgField: i, tagIdx: tf.Index[0]}
		flattenType(st, nil, "", &tt.Elems)
		tagTypes = append(tagTypes, tt)
		tagByName[tt.Name] = tt
	}
	sort.Slice(tagTypes, func(i, j int) bool { return tagTypes[i].Name < tagTypes[j].Name })
}

func (tt *TagType) New(marker string, vals []string) reflect.Value {
	p := reflect.New(tt.Type)
	tt.SetMarker(p, marker)
	for i, e := range tt.Elems {
		if i < len(vals) {
			p.Elem().FieldByIndex(e.Index).SetString(vals[i])
		}
	}
	return p
}

func (tt *TagType) SetMarker(p reflect.Value, marker string) {
	f := p.Elem().Field(tt.tagIdx)
	*(*string)(unsafe.Pointer(f.UnsafeAddr())) = marker
}

func (tt *TagType) Marker(p reflect.Value) string {
	f := p.Elem().Field(tt.tagIdx)
	return *(*string)(unsafe.Pointer(f.UnsafeAddr()))
}

func (tt *TagType) Vals(p reflect.Value) []string {
	out := make([]string, len(tt.Elems))
	for i, e := range tt.Elems {
		out[i] = p.Elem().FieldByIndex(e.Index).String()
	}
	return out
}

type validator interface{ Validate() error }
type parser interface{ Parse(string) error }
type stringer interface{ String() string }
type formatter interface {
	Format(wire.FormatOptions) string
}

func protect(f func()) (panicked bool, msg string) {
	defer func() {
		if r := recover(); r != nil {
			panicked = true
			msg = fmt.Sprint(r)
		}
	}()
	f()
	return
}

func verdictString(err error) string {
	if err == nil {
		return "ok"
	}
	return "rej:" + fieldOf(err) + ":" + errName(err)
}

func (tt *TagType) Validate(p reflect.Value) string {
	var res string
	if pn, _ := protect(func() { res = verdictString(p.Interface().(validator).Validate()) }); pn {
		return "panic"
	}
	return res
}

func encVals(marker string, vals []string) string {
	parts := []string{hx(marker)}
	for _, v := range vals {
		parts = append(parts, hx(v))
	}
	return strings.Join(parts, ":")
}

// Parse runs <Type>.Parse on a fresh value.
func (tt *TagType) Parse(record string) (string, reflect.Value) {
	p := reflect.New(tt.Type)
	var err error
	if pn, _ := protect(func() { err = p.Interface().(parser).Parse(record) }); pn {
		return "panic", p
	}
	if err != nil {
		return "err:" + fieldOf(err) + ":" + errName(err), p
	}
	return "ok:" + encVals(tt.Marker(p), tt.Vals(p)), p
}

// Format runs Format(options) when the type has it, String() otherwise.
func (tt *TagType) Format(p reflect.Value, variable bool) string {
	var out string
	pn, _ := protect(func() {
		if f, ok := p.Interface().(formatter); ok {
			out = f.Format(wire.FormatOptions{VariableLengthFields: variable})
		} else {
			out = p.Interface().(stringer).String()
		}
	})
	if pn {
		return "panic"
	}
	return "ok:" + hx(out)
}

func (tt *TagType) HasFormat() bool {
	_, ok := reflect.New(tt.Type).Interface().(formatter)
	return ok
}

// tagArgs is the argument list identifying a tag value on a case line.
func tagArgs(tt *TagType, marker string, vals []string) []string {
	a := []string{tt.Name, marker}
	return append(a, vals...)
}

// ---- messages ----
type Msg struct {
	Tags map[string]reflect.Value // type name -> pointer
	Opts *wire.ValidateOpts
}

func (m *Msg) Clone() *Msg {
	n := &Msg{Tags: map[string]reflect.Value{}}
	for k, v := range m.Tags {
		tt := tagByName[k]
		n.Tags[k] = tt.New(tt.Marker(v), tt.Vals(v))
	}
	if m.Opts != nil {
		o := *m.Opts
		n.Opts = &o
	}
	return n
}

func (m *Msg) ToWire() *wire.FEDWireMessage {
	fwm := &wire.FEDWireMessage{}
	v := reflect.ValueOf(fwm).Elem()
	for k, p := range m.Tags {
		v.Field(tagByName[k].MsgField).Set(p)
	}
	if m.Opts != nil {
		o := *m.Opts
		fwm.ValidateOptions = &o
	}
	return fwm
}

func MsgFromWire(fwm *wire.FEDWireMessage) *Msg {
	m := &Msg{Tags: map[string]reflect.Value{}}
	v := reflect.ValueOf(fwm).Elem()
	for _, tt := range tagTypes {
		f := v.Field(tt.MsgField)
		if !f.IsNil() {
			m.Tags[tt.Name] = f
		}
	}
	if fwm.ValidateOptions != nil {
		o := *fwm.ValidateOptions
		m.Opts = &o
	}
	return m
}

func optsArg(o *wire.ValidateOpts) string {
	if o == nil {
		return "nil"
	}
	s := ""
	if o.SkipMandatoryIMAD {
		s += "1"
	} else {
		s += "0"
	}
	if o.AllowMissingSenderSupplied {
		s += "1"
	} else {
		s += "0"
	}
	return s
}

// Args encodes a message as case-line arguments: options, then name, marker, elements per present tag
// (tags in type-name order).
func (m *Msg) Args() []string {
	a := []string{optsArg(m.Opts)}
	var names []string
	for k := range m.Tags {
		names = append(names, k)
	}
	sort.Strings(names)
	for _, k := range names {
		tt := tagByName[k]
		a = append(a, tagArgs(tt, tt.Marker(m.Tags[k]), tt.Vals(m.Tags[k]))...)
	}
	return a
}

func (m *Msg) Validate() string {
	f := &wire.File{FEDWireMessage: *m.ToWire()}
	var res string
	if pn, _ := protect(func() { res = verdictString(f.Validate()) }); pn {
		return "panic"
	}
	return res
}
