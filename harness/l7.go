//go:build verif

package main

import (
	"bytes"
	"encoding/json"
	"fmt"
	"io"
	"os"
	"os/exec"
	"path/filepath"
	"reflect"
	"sort"
	"strings"
	"sync"

	"github.com/moov-io/wire"
	client "github.com/moov-io/wire/client"
)

// ---- JSON documents as sorted leaf lists (the model's doc_str format) ----
type jleaf struct {
	path []string
	kind string // S N O X
	val  string
}

func flattenJSON(v interface{}, path []string, out *[]jleaf) {
	switch x := v.(type) {
	case map[string]interface{}:
		if len(x) == 0 {
			*out = append(*out, jleaf{append([]string{}, path...), "O", ""})
			return
		}
		ks := make([]string, 0, len(x))
		for k := range x {
			ks = append(ks, k)
		}
		sort.Strings(ks) // deterministic leaf order: the mutations below pick a leaf by index
		for _, k := range ks {
			flattenJSON(x[k], append(append([]string{}, path...), k), out)
		}
	case string:
		*out = append(*out, jleaf{append([]string{}, path...), "S", x})
	case nil:
		*out = append(*out, jleaf{append([]string{}, path...), "N", ""})
	default:
		*out = append(*out, jleaf{append([]string{}, path...), "X", fmt.Sprint(x)})
	}
}

func msgLeaves(m *Msg) ([]jleaf, error) {
	b, err := json.Marshal(m.ToWire())
	if err != nil {
		return nil, err
	}
	var top map[string]interface{}
	if err := json.Unmarshal(b, &top); err != nil {
		return nil, err
	}
	delete(top, "id")
	delete(top, "validateOptions")
	var out []jleaf
	tks := make([]string, 0, len(top))
	for k := range top {
		tks = append(tks, k)
	}
	sort.Strings(tks)
	for _, k := range tks {
		flattenJSON(top[k], []string{k}, &out)
	}
	return out, nil
}

func docString(ls []jleaf) string {
	var items []string
	for _, l := range ls {
		s := strings.Join(l.path, ".") + "="
		switch l.kind {
		case "S":
			s += "S" + hx(l.val)
		default:
			s += l.kind
		}
		items = append(items, s)
	}
	sort.Strings(items)
	return strings.Join(items, ";")
}

func buildJSON(ls []jleaf) []byte {
	root := map[string]interface{}{}
	for _, l := range ls {
		cur := root
		for i, k := range l.path {
			if i == len(l.path)-1 {
				switch l.kind {
				case "S":
					cur[k] = l.val
				case "N":
					cur[k] = nil
				case "O":
					if _, ok := cur[k].(map[string]interface{}); !ok {
						cur[k] = map[string]interface{}{}
					}
				}
			} else {
				nx, ok := cur[k].(map[string]interface{})
				if !ok {
					nx = map[string]interface{}{}
					cur[k] = nx
				}
				cur = nx
			}
		}
	}
	b, _ := json.Marshal(map[string]interface{}{"fedWireMessage": root})
	return b
}

func leavesArgs(ls []jleaf) []string {
	var a []string
	for _, l := range ls {
		a = append(a, strings.Join(l.path, "."), l.kind, l.val)
	}
	return a
}

// every string leaf of a value, with its JSON path (through struct tags)
func stringLeaves(v reflect.Value, path []string, out map[string]string) {
	switch v.Kind() {
	case reflect.Ptr:
		if !v.IsNil() {
			stringLeaves(v.Elem(), path, out)
		}
	case reflect.Struct:
		t := v.Type()
		for i := 0; i < t.NumField(); i++ {
			name := strings.Split(t.Field(i).Tag.Get("json"), ",")[0]
			if name == "" || name == "-" || !t.Field(i).IsExported() {
				continue
			}
			stringLeaves(v.Field(i), append(append([]string{}, path...), name), out)
		}
	case reflect.String:
		out[strings.Join(path, ".")] = v.String()
	}
}

// goLeaves collects the string leaves below v keyed by their Go field path
func goLeaves(v reflect.Value, path []string, out map[string]string) {
	switch v.Kind() {
	case reflect.Ptr:
		if !v.IsNil() {
			goLeaves(v.Elem(), path, out)
		}
	case reflect.Struct:
		t := v.Type()
		for i := 0; i < t.NumField(); i++ {
			if t.Field(i).IsExported() {
				goLeaves(v.Field(i), append(append([]string{}, path...), t.Field(i).Name), out)
			}
		}
	case reflect.String:
		out[strings.Join(path, ".")] = v.String()
	}
}

func setAllStrings(v reflect.Value, prefix string, n *int) {
	switch v.Kind() {
	case reflect.Struct:
		for i := 0; i < v.NumField(); i++ {
			if v.Type().Field(i).IsExported() {
				setAllStrings(v.Field(i), prefix, n)
			}
		}
	case reflect.String:
		*n++
		v.SetString(fmt.Sprintf("%s%d", prefix, *n))
	}
}

func deepSnapshot(m *wire.FEDWireMessage) string {
	var b strings.Builder
	v := reflect.ValueOf(m).Elem()
	for i := 0; i < v.NumField(); i++ {
		f := v.Field(i)
		if f.Kind() == reflect.Ptr {
			if f.IsNil() {
				fmt.Fprintf(&b, "%s=nil;", v.Type().Field(i).Name)
			} else {
				fmt.Fprintf(&b, "%s=%#v;", v.Type().Field(i).Name, f.Elem().Interface())
			}
		} else {
			fmt.Fprintf(&b, "%s=%#v;", v.Type().Field(i).Name, f.Interface())
		}
	}
	return b.String()
}

// the pure operations on one message: verdict, texts in the six layouts, JSON, per-tag strings
func pureOutputs(fwm *wire.FEDWireMessage) string {
	var b strings.Builder
	f := &wire.File{FEDWireMessage: *fwm}
	fmt.Fprintf(&b, "validate=%v;", f.Validate())
	for _, l := range layouts6 {
		var buf bytes.Buffer
		err := wire.NewWriter(&buf, wire.VariableLengthFields(l.v), wire.NewlineCharacter(l.nl)).Write(f)
		fmt.Fprintf(&b, "write[%v,%q]=%v:%x;", l.v, l.nl, err, buf.Bytes())
	}
	js, err := json.Marshal(fwm)
	fmt.Fprintf(&b, "json=%v:%x;", err, js)
	m := MsgFromWire(fwm)
	var names []string
	for k := range m.Tags {
		names = append(names, k)
	}
	sort.Strings(names)
	for _, k := range names {
		tt := tagByName[k]
		fmt.Fprintf(&b, "%s:%s|%s|%s;", k, tt.Validate(m.Tags[k]), tt.Format(m.Tags[k], true), tt.Format(m.Tags[k], false))
	}
	return b.String()
}

func purityPool(samples map[string]*Msg, thorough bool) ([]string, []*Msg) {
	var names []string
	var pool []*Msg
	for _, n := range sortedSampleNames(samples) {
		names = append(names, n)
		pool = append(pool, samples[n])
		bad := samples[n].Clone()
		delete(bad.Tags, "Amount")
		bad.setElem("SenderDepositoryInstitution", "SenderShortName", "Bad*Name\n")
		names = append(names, n+"#invalid")
		pool = append(pool, bad)
		// options present but waiving nothing (what OutgoingFile() / SetValidation(&ValidateOpts{}) / "validateOptions":{} leave)
		if len(pool) < 40 {
			eo := samples[n].Clone()
			eo.Opts = &wire.ValidateOpts{}
			names = append(names, n+"#empty-options")
			pool = append(pool, eo)
		}
		// no options of its own and a waivable tag missing: the verdict rests on the defaults alone
		for _, wt := range []string{"SenderSupplied", "InputMessageAccountabilityData"} {
			if _, has := samples[n].Tags[wt]; has && len(pool) < 40 {
				nw := samples[n].Clone()
				delete(nw.Tags, wt)
				nw.Opts = nil
				names = append(names, n+"#no-"+wt)
				pool = append(pool, nw)
			}
		}
		// every tag of the sample with one element longer than its width / its declared length
		k := 0
		for _, tn := range sortedKeys(samples[n].Tags) {
			tt := tagByName[tn]
			k++
			if k%4 != 0 && tn != "UnstructuredAddenda" {
				continue
			}
			vals := tt.Vals(samples[n].Tags[tn])
			for i := range vals {
				if i%2 == 0 || tn == "UnstructuredAddenda" {
					ov := samples[n].Clone()
					ov.Tags[tn] = tt.New(tt.Marker(samples[n].Tags[tn]), setAt(vals, i, vals[i]+"OVERLONG VALUE OVERLONG VALUE OVERLONG"))
					names = append(names, fmt.Sprintf("%s#%s.%d-overlong", n, tn, i))
					pool = append(pool, ov)
				}
			}
		}
		if (!thorough && len(pool) >= 120) || len(pool) >= 600 {
			break
		}
	}
	return names, pool
}

func init() {
	// C14 (and the JSON half of C03): encode / decode against the model, round trip, published names, totality
	streams["l7-json"] = func(o *Out, rng *Rng, thorough bool) {
		samples := loadSamples()
		bases := baseTags(samples)
		var pool []*Msg
		for _, n := range sortedSampleNames(samples) {
			pool = append(pool, samples[n])
			e := samples[n].Clone() // a present-but-empty tag, and an optional tag with every element empty
			tt := tagByName["SenderReference"]
			e.Tags["SenderReference"] = tt.New(tt.OwnMarker(), make([]string, len(tt.Elems)))
			pool = append(pool, e)
			d := samples[n].Clone()
			delete(d.Tags, "SenderSupplied")
			delete(d.Tags, "Amount")
			pool = append(pool, d)
		}
		// single-tag messages: every tag, every element distinct and non-empty, and each element emptied in turn
		var tnames []string
		for n := range bases {
			tnames = append(tnames, n)
		}
		sort.Strings(tnames)
		for _, tn := range tnames {
			tt := tagByName[tn]
			vals := make([]string, len(tt.Elems))
			for i := range vals {
				vals[i] = fmt.Sprintf("v%d", i+1)
			}
			m := &Msg{Tags: map[string]reflect.Value{tn: tt.New(tt.OwnMarker(), vals)}}
			pool = append(pool, m)
			for i := range vals {
				if i%3 == 0 || thorough {
					m2 := &Msg{Tags: map[string]reflect.Value{tn: tt.New(tt.OwnMarker(), setAt(vals, i, ""))}}
					pool = append(pool, m2)
				}
			}
			pool = append(pool, &Msg{Tags: map[string]reflect.Value{tn: tt.New(tt.OwnMarker(), make([]string, len(vals)))}})
		}
		for pi, m := range pool {
			ls, err := msgLeaves(m)
			if err != nil {
				o.Case("json:encode", "error:"+err.Error(), m.Args()...)
				continue
			}
			o.Case("json:encode", docString(ls), m.Args()...)
			// decode: the document itself and mutations of it
			docs := [][]jleaf{ls}
			if len(ls) > 0 {
				k := rng.Intn(len(ls))
				docs = append(docs, append(append([]jleaf{}, ls[:k]...), ls[k+1:]...)) // a leaf dropped
				un := append([]jleaf{}, ls...)
				un = append(un, jleaf{[]string{ls[k].path[0], "zzUnknown"}, "S", "ignored"}) // unknown member
				docs = append(docs, un)
				ren := append([]jleaf{}, ls...)
				ren[k] = jleaf{append(append([]string{}, ls[k].path[:len(ls[k].path)-1]...), "zz"+ls[k].path[len(ls[k].path)-1]), ls[k].kind, ls[k].val}
				docs = append(docs, ren) // a misspelt member name
				var nul []jleaf
				for _, l := range ls {
					if l.path[0] != ls[k].path[0] {
						nul = append(nul, l)
					}
				}
				docs = append(docs, append(append([]jleaf{}, nul...), jleaf{[]string{ls[k].path[0]}, "N", ""})) // tag: null
				docs = append(docs, append(append([]jleaf{}, nul...), jleaf{[]string{ls[k].path[0]}, "O", ""})) // tag: {}
			}
			for _, d := range docs {
				var res string
				pn, _ := protect(func() {
					f, err := wire.FileFromJSON(buildJSON(d))
					if err != nil || f == nil {
						res = "error"
					} else {
						res = strings.TrimPrefix(msgResult(*f), "ok|")
					}
				})
				if pn {
					res = "panic"
				}
				o.Case("json:decode", res, leavesArgs(d)...)
			}
			// C14 on the implementation: Marshal -> FileFromJSON gives the same message, verdict and text
			rt := "same"
			pn, _ := protect(func() {
				f0 := &wire.File{FEDWireMessage: *m.ToWire()}
				b, err := json.Marshal(f0)
				if err != nil {
					rt = "differ:marshal-error"
					return
				}
				f1, err := wire.FileFromJSON(b)
				if err != nil || f1 == nil {
					rt = "differ:load-error"
					return
				}
				if msgResult(*f1) != msgResult(*f0) {
					rt = "differ:message " + firstDiff(MsgFromWire(&f0.FEDWireMessage), MsgFromWire(&f1.FEDWireMessage))
					return
				}
				if fmt.Sprint(f0.Validate()) != fmt.Sprint(f1.Validate()) {
					rt = "differ:verdict"
					return
				}
				if f0.Validate() == nil {
					var a, c bytes.Buffer
					wire.NewWriter(&a).Write(f0)
					wire.NewWriter(&c).Write(f1)
					if a.String() != c.String() {
						rt = "differ:text"
					}
				}
			})
			if pn {
				rt = "differ:panic"
			}
			o.Case("prop:json-roundtrip", rt, fmt.Sprint(pi), docString(ls))
		}
		// C14: published names. Server -> client model: no element may be lost; client model -> server likewise.
		for _, tn := range tnames {
			tt := tagByName[tn]
			vals := make([]string, len(tt.Elems))
			for i := range vals {
				vals[i] = fmt.Sprintf("q%dq", i+1)
			}
			m := &Msg{Tags: map[string]reflect.Value{tn: tt.New(tt.OwnMarker(), vals)}}
			b, _ := json.Marshal(m.ToWire())
			var c client.FedWireMessage
			res := "same"
			if err := json.Unmarshal(b, &c); err != nil {
				res = "differ:client model cannot decode the server's " + tn + ": " + short(err.Error())
			} else {
				got := map[string]string{}
				stringLeaves(reflect.ValueOf(&c), nil, got)
				have := map[string]bool{}
				for _, v := range got {
					have[v] = true
				}
				var lost []string
				for i, v := range vals {
					if !have[v] {
						lost = append(lost, tt.Elems[i].Path)
					}
				}
				if len(lost) > 0 {
					res = fmt.Sprintf("differ:client model loses %s elements [%s]", tn, strings.Join(lost, " "))
				}
			}
			o.Case("prop:json-client-agree", res, "server-to-client", tn)
			// element by element: the value of the server's Go field path P must arrive in the client model's
			// field path P, when the client model of this tag has one (exchanged names keep the set of names)
			res = "same"
			var top map[string]json.RawMessage
			_ = json.Unmarshal(b, &top)
			cv := reflect.ValueOf(&c).Elem()
			for i := 0; i < cv.NumField(); i++ {
				jn := strings.Split(cv.Type().Field(i).Tag.Get("json"), ",")[0]
				if raw, has := top[jn]; !has || string(raw) == "null" || jn == "id" {
					continue
				}
				leaves := map[string]string{}
				goLeaves(cv.Field(i), nil, leaves)
				var crossed []string
				for k, v := range vals {
					if got, has := leaves[tt.Elems[k].Path]; has && got != v {
						where := "nowhere"
						for p, x := range leaves {
							if x == v {
								where = p
							}
						}
						if where != "nowhere" { // a lost element is the business of the case above
							crossed = append(crossed, fmt.Sprintf("%s arrives in %s", tt.Elems[k].Path, where))
						}
					}
				}
				if len(crossed) > 0 {
					sort.Strings(crossed)
					res = fmt.Sprintf("differ:elements of %s cross [%s]", tn, strings.Join(crossed, "; "))
				}
			}
			o.Case("prop:json-client-agree", res, "server-to-client-elementwise", tn)
			// and the tag as a whole is emitted under the JSON name of the client member of the same Go name (names
			// compared without case; the wrapper members of the recorded finding lose the values, so the keys decide)
			res = "same"
			for i := 0; i < cv.NumField(); i++ {
				if !strings.EqualFold(cv.Type().Field(i).Name, tn) {
					continue
				}
				want := strings.Split(cv.Type().Field(i).Tag.Get("json"), ",")[0]
				var emitted []string
				for k, raw := range top {
					if string(raw) != "null" && k != "id" {
						emitted = append(emitted, k)
					}
				}
				sort.Strings(emitted)
				found := false
				for _, k := range emitted {
					if strings.EqualFold(k, want) {
						found = true
					}
				}
				if !found && len(emitted) > 0 {
					res = fmt.Sprintf("differ:the server emits %s as %s, the client model reads it from %s", tn, strings.Join(emitted, " "), want)
				}
			}
			o.Case("prop:json-client-agree", res, "server-to-client-tag", tn)
		}
		// client -> server: fill each member of the client message, encode, load with the library
		{
			ct := reflect.TypeOf(client.FedWireMessage{})
			for i := 0; i < ct.NumField(); i++ {
				name := strings.Split(ct.Field(i).Tag.Get("json"), ",")[0]
				if name == "" || name == "ID" || ct.Field(i).Type.Kind() != reflect.Struct {
					continue
				}
				var c client.FedWireMessage
				n := 0
				setAllStrings(reflect.ValueOf(&c).Elem().Field(i), "c", &n)
				b, _ := json.Marshal(&c)
				var fwm wire.FEDWireMessage
				res := "same"
				if err := json.Unmarshal(b, &fwm); err != nil {
					res = "differ:the library cannot decode the client's " + name + ": " + short(err.Error())
				} else {
					got := map[string]string{}
					stringLeaves(reflect.ValueOf(&fwm), nil, got)
					have := map[string]bool{}
					for _, v := range got {
						have[v] = true
					}
					lost := 0
					for k := 1; k <= n; k++ {
						if !have[fmt.Sprintf("c%d", k)] {
							lost++
						}
					}
					if lost > 0 {
						res = fmt.Sprintf("differ:the library loses %d of %d elements of the client's %s", lost, n, name)
					}
				}
				o.Case("prop:json-client-agree", res, "client-to-server", name)
			}
		}
		// C03: arbitrary JSON documents never panic the loader, nor validation / writing of what it returns
		docs := []string{``, `null`, `{}`, `[]`, `"x"`, `{"fedWireMessage":null}`, `{"fedWireMessage":{}}`, `{"fedWireMessage":[]}`,
			`{"fedWireMessage":{"amount":{}}}`, `{"fedWireMessage":{"amount":{"amount":12}}}`, `{"fedWireMessage":{"amount":"x"}}`,
			`{"fedWireMessage":{"unstructuredAddenda":{"addendaLength":"9999","addenda":"x"}}}`,
			`{"fedWireMessage":{"unstructuredAddenda":{"addendaLength":"-1"}}}`, `{"fedWireMessage":{"senderSupplied":{"formatVersion":"\u0000"}}}`,
			`{"fedWireMessage":{"validateOptions":{"skipMandatoryIMAD":"yes"}}}`, `{"id":5}`, `{"fedWireMessage":{"amount":{"amount":"` + strings.Repeat("9", 100000) + `"}}}`,
			"{\"fedWireMessage\":{\"amount\":{\"amount\":\"\xff\xfe\"}}}", strings.Repeat("[", 10000), `{"fedWireMessage":{"amount":{"amount":"1"}`}
		files, _ := filepath.Glob(filepath.Join(repoDir, "test", "testdata", "*.json"))
		sort.Strings(files)
		for _, f := range files {
			b, err := os.ReadFile(f)
			if err != nil {
				continue
			}
			docs = append(docs, string(b))
			nm := 8
			if thorough {
				nm = 80
			}
			for k := 0; k < nm; k++ { // byte-level mutations: cut, duplicate a span, flip a byte
				mb := append([]byte{}, b...)
				switch rng.Intn(3) {
				case 0:
					mb = mb[:rng.Intn(len(mb))]
				case 1:
					i, j := rng.Intn(len(mb)), rng.Intn(len(mb))
					if i > j {
						i, j = j, i
					}
					mb = append(append(append([]byte{}, mb[:j]...), mb[i:j]...), mb[j:]...)
				case 2:
					mb[rng.Intn(len(mb))] = byte(rng.Intn(256))
				}
				docs = append(docs, string(mb))
			}
		}
		// structure-aware: every string member of the sample documents replaced by hostile values (numbers
		// with signs and overflow in length fields, empty, NUL, very long), one member at a time
		hostileVals := []string{"", "-011", "-9999", "-99999999999999999999", " -42 ", "99999999999999999999", "9999", "\u0000", "*", "{1500}", strings.Repeat("Z", 20000)}
		for fi, f := range files {
			if !thorough && fi%4 != 0 {
				continue
			}
			b, err := os.ReadFile(f)
			if err != nil {
				continue
			}
			var top interface{}
			if json.Unmarshal(b, &top) != nil {
				continue
			}
			var leaves []jleaf
			flattenJSON(top, nil, &leaves)
			for li, lf := range leaves {
				if lf.kind != "S" {
					continue
				}
				for hi, hv := range hostileVals {
					if !thorough && (li+hi)%3 != 0 {
						continue
					}
					var doc interface{}
					json.Unmarshal(b, &doc)
					setJSONPath(doc, lf.path, hv)
					if mb, err := json.Marshal(doc); err == nil {
						docs = append(docs, string(mb))
					}
				}
			}
			// the same hostile values in combination with another business function / local instrument code
			for _, combo := range [][2]string{{"CTP", "PROP"}, {"CTP", "ANSI"}, {"BTR", ""}} {
				for _, hv := range hostileVals {
					var doc interface{}
					json.Unmarshal(b, &doc)
					fw, _ := doc.(map[string]interface{})["fedWireMessage"].(map[string]interface{})
					if fw == nil {
						continue
					}
					fw["businessFunctionCode"] = map[string]interface{}{"businessFunctionCode": combo[0]}
					if combo[1] != "" {
						fw["localInstrument"] = map[string]interface{}{"LocalInstrument": combo[1], "proprietaryCode": "PCODE"}
					}
					fw["unstructuredAddenda"] = map[string]interface{}{"addendaLength": hv, "addenda": "some addenda text"}
					if mb, err := json.Marshal(doc); err == nil {
						docs = append(docs, string(mb))
					}
				}
			}
		}
		for i, d := range docs {
			res := "same"
			pn, msg := protect(func() {
				f, err := wire.FileFromJSON([]byte(d))
				if err != nil || f == nil {
					return
				}
				_ = f.Validate()
				var buf bytes.Buffer
				_ = wire.NewWriter(&buf).Write(f)
				_ = wire.NewWriter(&buf, wire.VariableLengthFields(true)).Write(f)
				_, _ = json.Marshal(f)
			})
			if pn {
				res = "differ:panic " + short(msg)
			}
			o.Case("prop:total", res, "json", fmt.Sprint(i), short(d))
		}
	}

	// C13: purity and determinism, single goroutine: deep snapshot before/after, repeated outputs
	streams["l7-purity"] = func(o *Out, rng *Rng, thorough bool) {
		samples := loadSamples()
		names, pool := purityPool(samples, thorough)
		for i, m := range pool {
			fwm := m.ToWire()
			before := deepSnapshot(fwm)
			out1 := pureOutputs(fwm)
			mid := deepSnapshot(fwm)
			out2 := pureOutputs(fwm)
			after := deepSnapshot(fwm)
			res := "same"
			switch {
			case before != mid || mid != after:
				res = "differ:the message changed under Validate/Write/Format/Marshal"
			case out1 != out2:
				res = "differ:repeating the operations gave different results"
			}
			o.Case("prop:pure", res, names[i])
		}
		// independent readers, writers and files between two observations of a message leave it - and what the
		// operations answer for it - alone (shared defaults, package-level state)
		texts := sampleTexts()
		var tnames []string
		for tn := range texts {
			tnames = append(tnames, tn)
		}
		sort.Strings(tnames)
		activities := []struct {
			name string
			run  func()
		}{
			{"new-file-incoming", func() { _ = wire.NewFile(wire.IncomingFile()) }},
			{"new-file-outgoing", func() { _ = wire.NewFile(wire.OutgoingFile()) }},
			{"reader-incoming", func() { _ = doRead(texts[tnames[0]], 0, nil, io.EOF, "in", nil) }},
			{"reader-outgoing", func() { _ = doRead(texts[tnames[0]], 0, nil, io.EOF, "out", nil) }},
			{"reader-with-options", func() {
				_ = doRead(texts[tnames[0]], 0, nil, io.EOF, "nil", &wire.ValidateOpts{SkipMandatoryIMAD: true, AllowMissingSenderSupplied: true})
			}},
			{"set-validation-elsewhere", func() {
				f := wire.NewFile()
				f.SetValidation(&wire.ValidateOpts{SkipMandatoryIMAD: true, AllowMissingSenderSupplied: true})
				_ = f.Validate()
			}},
			{"other-message-written", func() {
				if len(pool) > 0 {
					_ = pureOutputs(pool[0].ToWire())
				}
			}},
		}
		for i, m := range pool {
			if !thorough && i >= 40 {
				break
			}
			fwm := m.ToWire()
			for _, a := range activities {
				before := deepSnapshot(fwm)
				out1 := pureOutputs(fwm)
				a.run()
				after := deepSnapshot(fwm)
				out2 := pureOutputs(fwm)
				res := "same"
				switch {
				case before != after:
					res = "differ:the message changed while an independent " + a.name + " ran"
				case out1 != out2:
					res = "differ:verdict / text / JSON of the message differ after an independent " + a.name
				}
				o.Case("prop:pure", res, names[i], a.name)
			}
		}
		// independent writers used in turn: what one Writer delivers does not depend on other Writers created or used
		// between its writes (A writes, B is created, A writes again, B writes; then both flush)
		for i, m := range pool {
			if !thorough && i >= 20 {
				break
			}
			f := &wire.File{FEDWireMessage: *m.ToWire()}
			for _, l := range layouts6 {
				var solo, bufA, bufB bytes.Buffer
				res := "same"
				pn, _ := protect(func() {
					e0 := wire.NewWriter(&solo, wire.VariableLengthFields(l.v), wire.NewlineCharacter(l.nl)).Write(f)
					wa := wire.NewWriter(&bufA, wire.VariableLengthFields(l.v), wire.NewlineCharacter(l.nl))
					e1 := wa.Write(f)
					wb := wire.NewWriter(&bufB, wire.VariableLengthFields(l.v), wire.NewlineCharacter(l.nl))
					e2 := wa.Write(f)
					e3 := wb.Write(f)
					wa.Flush()
					wb.Flush()
					if e0 != nil {
						if e1 == nil || e2 == nil || e3 == nil || bufA.Len()+bufB.Len() > 0 {
							res = "differ:a message one Writer refuses is written by Writers used in turn"
						}
						return
					}
					switch {
					case e1 != nil || e2 != nil || e3 != nil:
						res = "differ:a Writer used in turn with another refuses a message a lone Writer writes"
					case bufA.String() != solo.String()+solo.String():
						res = fmt.Sprintf("differ:Writer A wrote the message twice but delivered %d bytes, twice the lone output is %d", bufA.Len(), 2*solo.Len())
					case bufB.String() != solo.String():
						res = fmt.Sprintf("differ:Writer B wrote the message once but delivered %d bytes, the lone output is %d", bufB.Len(), solo.Len())
					}
				})
				if pn {
					res = "differ:panic"
				}
				o.Case("prop:pure", res, names[i], fmt.Sprint(l.v), l.nl, "writers-in-turn")
			}
		}
		// shared use under the race detector: a separate binary built with -race
		race := filepath.Join(filepath.Dir(os.Args[0]), "harness-race")
		if _, err := os.Stat(race); err != nil {
			o.Case("prop:shared-race-free", "differ:race-instrumented harness not built", "build")
			return
		}
		tmp, _ := os.CreateTemp("/var/tmp", "verif-race")
		tmp.Close()
		defer os.Remove(tmp.Name())
		tier := "quick"
		if thorough {
			tier = "thorough"
		}
		cmd := exec.Command(race, "-stream", "l7-shared", "-tier", tier, "-out", tmp.Name())
		cmd.Env = append(os.Environ(), "GORACE=halt_on_error=0 exitcode=0")
		outb, err := cmd.CombinedOutput()
		outs := string(outb)
		if strings.Contains(outs, "DATA RACE") {
			i := strings.Index(outs, "DATA RACE")
			o.Case("prop:shared-race-free", "differ:the race detector reports a data race between goroutines sharing a message: "+strings.ReplaceAll(strings.ReplaceAll(short(outs[i:]), "\t", " "), "\n", " / "), tier)
		} else if err != nil {
			o.Case("prop:shared-race-free", "differ:race run failed: "+strings.ReplaceAll(short(tail(outs, 300)), "\n", " / "), tier)
		} else {
			o.Case("prop:shared-race-free", "same", tier)
		}
		if b, err := os.ReadFile(tmp.Name()); err == nil {
			o.Raw(string(b))
		}
	}

	// run by the -race binary: goroutines sharing one message, and independent readers / writers side by side
	streams["l7-shared"] = func(o *Out, rng *Rng, thorough bool) {
		samples := loadSamples()
		names, pool := purityPool(samples, thorough)
		texts := sampleTexts()
		// independent messages that differ in a coded element, validated and written side by side before anything
		// else has run in this process (tables or memos filled on first use), then once more alone
		for _, sn := range sortedSampleNames(samples) {
			if _, has := samples[sn].Tags["InstructedAmount"]; !has {
				continue
			}
			side := make([]string, len(currencyCodes))
			var wg sync.WaitGroup
			for k, code := range currencyCodes {
				wg.Add(1)
				go func(k int, code string) {
					defer wg.Done()
					m := samples[sn].Clone()
					m.setElem("InstructedAmount", "CurrencyCode", code)
					side[k] = pureOutputs(m.ToWire())
				}(k, code)
			}
			wg.Wait()
			res := "same"
			for k, code := range currencyCodes {
				m := samples[sn].Clone()
				m.setElem("InstructedAmount", "CurrencyCode", code)
				if pureOutputs(m.ToWire()) != side[k] {
					res = "differ:a message validated and written next to other messages got a different result than alone (currency " + code + ")"
					break
				}
			}
			o.Case("prop:shared-same-results", res, sn, "side-by-side-coded-elements")
			break
		}
		for i, m := range pool {
			fwm := m.ToWire()
			solo := pureOutputs(fwm)
			{
				var own bytes.Buffer
				w := wire.NewWriter(&own)
				f := &wire.File{FEDWireMessage: *fwm}
				e1 := w.Write(f)
				e2 := w.Write(f)
				w.Flush()
				solo += fmt.Sprintf("own-writer=%v,%v:%x;", e1, e2, own.Bytes())
			}
			for _, g := range []int{2, 8, 64} {
				if g == 64 && i%4 != 0 && !thorough {
					continue
				}
				results := make([]string, g)
				var wg sync.WaitGroup
				for k := 0; k < g; k++ {
					wg.Add(1)
					go func(k int) {
						defer wg.Done()
						defer func() {
							if r := recover(); r != nil {
								results[k] = fmt.Sprint("panic:", r)
							}
						}()
						results[k] = pureOutputs(fwm)
						// its own Writer, used twice and flushed: independent of every other goroutine's Writer
						var own bytes.Buffer
						w := wire.NewWriter(&own)
						f := &wire.File{FEDWireMessage: *fwm}
						e1 := w.Write(f)
						e2 := w.Write(f)
						w.Flush()
						results[k] += fmt.Sprintf("own-writer=%v,%v:%x;", e1, e2, own.Bytes())
					}(k)
				}
				// independent readers and writers next to them
				var side []string
				var mu sync.Mutex
				for _, tn := range []string{"fedWireMessage-BankTransfer.txt", "fedWireMessage-CustomerTransfer.txt"} {
					if t := texts[tn]; t != "" {
						wg.Add(1)
						go func(t string) {
							defer wg.Done()
							r := doRead(t, 7, nil, nil, "nil", nil)
							_ = doRead(t, 7, nil, nil, "in", nil)
							_ = doRead(t, 7, nil, nil, "out", nil)
							mu.Lock()
							side = append(side, r)
							mu.Unlock()
						}(t)
					}
				}
				wg.Wait()
				res := "same"
				for k := range results {
					if results[k] != solo {
						res = fmt.Sprintf("differ:goroutine %d of %d sharing the message got a different result than a lone caller", k, g)
						break
					}
				}
				o.Case("prop:shared-same-results", res, names[i], fmt.Sprint(g))
			}
		}
	}
}

func sortedKeys(m map[string]reflect.Value) []string {
	var ks []string
	for k := range m {
		ks = append(ks, k)
	}
	sort.Strings(ks)
	return ks
}

// setJSONPath replaces the member addressed by path (object members only) with a string value
func setJSONPath(doc interface{}, path []string, v string) {
	cur, ok := doc.(map[string]interface{})
	for i, k := range path {
		if !ok {
			return
		}
		if i == len(path)-1 {
			cur[k] = v
			return
		}
		cur, ok = cur[k].(map[string]interface{})
	}
}
