//go:build verif

package main

import (
	"bytes"
	"errors"
	"fmt"
	"io"
	"sort"
	"strings"

	"github.com/moov-io/wire"
)

// failing destinations for the writer
type failAfter struct {
	n     int
	got   int
	short bool // accept fewer bytes without an error (short write)
}

func (f *failAfter) Write(p []byte) (int, error) {
	room := f.n - f.got
	if room >= len(p) {
		f.got += len(p)
		return len(p), nil
	}
	if room < 0 {
		room = 0
	}
	f.got += room
	if f.short {
		return room, nil
	}
	return room, errors.New("destination failed")
}

type failAfterS struct{ failAfter }

func (f *failAfterS) WriteString(s string) (int, error) { return f.Write([]byte(s)) }

func init() {
	streams["l5-faults"] = func(o *Out, rng *Rng, thorough bool) {
		samples := loadSamples()
		for _, sn := range sortedSampleNames(samples) {
			m := samples[sn]
			for _, l := range layouts6 {
				res, _ := m.Write(l.v, l.nl)
				if !strings.HasPrefix(res, "ok:") {
					continue
				}
				total := len(unhexs(res[3:]))
				ks := []int{0, 1, 5, 6, 7, 100, 4095, 4096, 4097, total / 2, total - 1}
				if thorough {
					for k := 0; k < total; k += total/80 + 1 {
						ks = append(ks, k)
					}
				}
				for _, k := range ks {
					if k >= total || k < 0 {
						continue
					}
					for _, short := range []bool{false, true} {
						for _, sw := range []bool{false, true} {
							if short && sw {
								continue // a StringWriter returning (0, nil) breaks the io contract and bufio spins on it
							}
							var dst io.Writer
							fa := failAfter{n: k, short: short}
							if sw {
								dst = &failAfterS{fa}
							} else {
								dst = &fa
							}
							f := &wire.File{FEDWireMessage: *m.ToWire()}
							var err error
							pn, _ := protect(func() {
								err = wire.NewWriter(dst, wire.VariableLengthFields(l.v), wire.NewlineCharacter(l.nl)).Write(f)
							})
							r := "same"
							if pn {
								r = "differ:panic"
							} else if err == nil {
								r = fmt.Sprintf("differ:Write returned nil although the destination accepted only %d of %d bytes", k, total)
							}
							o.Case("prop:write-fault", r, sn, fmt.Sprint(l.v), l.nl, fmt.Sprint(k), fmt.Sprint(short), fmt.Sprint(sw))
						}
					}
				}
			}
		}
	}

	// C06 over a sequence: read a valid file, edit it through its exported fields so that validation
	// rejects it, write it - the writer must refuse and deliver nothing, in every layout
	streams["l5-edits"] = func(o *Out, rng *Rng, thorough bool) {
		texts := sampleTexts()
		var names []string
		for n := range texts {
			names = append(names, n)
		}
		sort.Strings(names)
		edits := []struct {
			name string
			do   func(f *wire.File) bool
		}{
			{"zero-amount", func(f *wire.File) bool {
				if f.FEDWireMessage.Amount == nil {
					return false
				}
				f.FEDWireMessage.Amount.Amount = "000000000000"
				return true
			}},
			{"bad-sender-name", func(f *wire.File) bool {
				if f.FEDWireMessage.SenderDepositoryInstitution == nil {
					return false
				}
				f.FEDWireMessage.SenderDepositoryInstitution.SenderShortName = "Bad*Name"
				return true
			}},
			{"switch-business-function", func(f *wire.File) bool {
				if f.FEDWireMessage.BusinessFunctionCode == nil {
					return false
				}
				if f.FEDWireMessage.BusinessFunctionCode.BusinessFunctionCode == "BTR" {
					f.FEDWireMessage.BusinessFunctionCode.BusinessFunctionCode = "CTP"
				} else {
					f.FEDWireMessage.BusinessFunctionCode.BusinessFunctionCode = "BTR"
				}
				return true
			}},
			{"drop-type-subtype", func(f *wire.File) bool { f.FEDWireMessage.TypeSubType = nil; return true }},
			{"drop-amount", func(f *wire.File) bool { f.FEDWireMessage.Amount = nil; return true }},
			{"bad-amount", func(f *wire.File) bool {
				if f.FEDWireMessage.Amount == nil {
					return false
				}
				f.FEDWireMessage.Amount.Amount = "12345X"
				return true
			}},
		}
		for _, n := range names {
			for _, opts := range []*wire.ValidateOpts{nil, {AllowMissingSenderSupplied: true}, {SkipMandatoryIMAD: true, AllowMissingSenderSupplied: true}} {
				for _, e := range edits {
					var f wire.File
					var err error
					if opts == nil {
						f, err = wire.NewReader(strings.NewReader(texts[n])).Read()
					} else {
						f, err = wire.NewReader(strings.NewReader(texts[n])).ReadWithOpts(opts)
					}
					if err != nil || !e.do(&f) {
						continue
					}
					if f.Validate() == nil {
						continue // the edit left the message valid: nothing to refuse
					}
					for _, l := range layouts6 {
						var buf bytes.Buffer
						var werr error
						pn, _ := protect(func() {
							werr = wire.NewWriter(&buf, wire.VariableLengthFields(l.v), wire.NewlineCharacter(l.nl)).Write(&f)
						})
						res := "same"
						switch {
						case pn:
							res = "differ:panic"
						case werr == nil:
							res = fmt.Sprintf("differ:Write accepted a message that validation rejects (%d bytes written)", buf.Len())
						case buf.Len() > 0:
							res = fmt.Sprintf("differ:Write refused but %d bytes reached the destination", buf.Len())
						}
						o.Case("prop:write-after-edit", res, n, optsArg(opts), e.name, fmt.Sprint(l.v), l.nl)
					}
					// one Writer used for several messages: a refusal is about that message only - the valid original
					// written next through the same Writer succeeds with the bytes a fresh Writer produces, and so
					// does a second refusal deliver nothing
					var orig wire.File
					if opts == nil {
						orig, err = wire.NewReader(strings.NewReader(texts[n])).Read()
					} else {
						orig, err = wire.NewReader(strings.NewReader(texts[n])).ReadWithOpts(opts)
					}
					if err != nil {
						continue
					}
					for _, l := range layouts6 {
						var fresh, shared bytes.Buffer
						res := "same"
						pn, _ := protect(func() {
							_ = wire.NewWriter(&fresh, wire.VariableLengthFields(l.v), wire.NewlineCharacter(l.nl)).Write(&orig)
							w := wire.NewWriter(&shared, wire.VariableLengthFields(l.v), wire.NewlineCharacter(l.nl))
							e1 := w.Write(&f)
							n1 := shared.Len()
							e2 := w.Write(&orig)
							n2 := shared.Len()
							e3 := w.Write(&f)
							switch {
							case e1 == nil || n1 > 0:
								res = "differ:the first (invalid) message was not refused cleanly"
							case e2 != nil:
								res = "differ:after a refusal the same Writer refuses a valid message: " + short(e2.Error())
							case shared.String()[:n2] != fresh.String():
								res = "differ:after a refusal the same Writer writes other bytes for a valid message than a fresh Writer"
							case e3 == nil || shared.Len() != n2:
								res = "differ:a later invalid message was not refused cleanly by the same Writer"
							}
						})
						if pn {
							res = "differ:panic"
						}
						o.Case("prop:write-after-edit", res, n, optsArg(opts), e.name, fmt.Sprint(l.v), l.nl, "reused-writer")
					}
				}
			}
		}
	}

	// C02 at text level: accepted texts with over-width, blank-padded and short elements
	streams["l5-reread"] = func(o *Out, rng *Rng, thorough bool) {
		samples := loadSamples()
		bases := baseTags(samples)
		var names []string
		for n := range bases {
			names = append(names, n)
		}
		sort.Strings(names)
		for _, tn := range names {
			tt := tagByName[tn]
			for _, b := range bases[tn] {
				for i := range tt.Elems {
					w := tt.WidthOf(i)
					if w < 3 {
						continue
					}
					vals := setAt(b.vals, i, strings.Repeat("Q", w))
					p := tt.New(b.marker, vals)
					if tt.Validate(p) != "ok" {
						continue
					}
					for _, variable := range []bool{true, false} {
						fr := tt.Format(p, variable)
						if !strings.HasPrefix(fr, "ok:") {
							continue
						}
						t := string(unhexs(fr[3:]))
						run := strings.Repeat("Q", w)
						if strings.Count(t, run) != 1 {
							continue
						}
						muts := map[string]string{
							"over-width-blank-at-cut": strings.Repeat("Q", w-1) + " ZZ",
							"over-width":              strings.Repeat("Q", w) + "ZZ",
							"inner-blanks":            "Q" + strings.Repeat(" ", w-2) + "Q",
							"leading-blank":           " " + strings.Repeat("Q", w-1),
							"short-padded-left":       strings.Repeat(" ", w-1) + "Q",
							"over-width-multibyte":    strings.Repeat("Q", w-1) + "\u00e9",
							"multibyte-at-width":      strings.Repeat("Q", w-2) + "\u00e9",
							"over-width-invalid-utf8": strings.Repeat("Q", w-1) + "\xff\xfe",
							"over-width-4byte-rune":   strings.Repeat("Q", w-2) + "\U0001F600",
						}
						var mk []string
						for k := range muts {
							mk = append(mk, k)
						}
						sort.Strings(mk)
						for _, k := range mk {
							t1 := strings.Replace(t, run, muts[k], 1)
							r1, p1 := tt.Parse(t1)
							if !strings.HasPrefix(r1, "ok:") || tt.Validate(p1) != "ok" {
								continue // not accepted: nothing to re-read
							}
							stable := "same"
							for _, v2 := range []bool{true, false} {
								f2 := tt.Format(p1, v2)
								if !strings.HasPrefix(f2, "ok:") {
									stable = "differ:format-refused"
									break
								}
								r2, p2 := tt.Parse(string(unhexs(f2[3:])))
								if !strings.HasPrefix(r2, "ok:") {
									stable = "differ:unreadable:" + k
									break
								}
								if strings.Join(tt.Vals(p2), "\x00") != strings.Join(tt.Vals(p1), "\x00") {
									stable = "differ:" + k
									break
								}
							}
							o.Case("prop:text-reread", stable, tt.Name, fmt.Sprint(i), k, fmt.Sprint(variable), t1)
						}
					}
				}
			}
		}
		// numeric slots: blank- or short-padded numerics that the reader accepts
		for _, sn := range sortedSampleNames(samples) {
			m := samples[sn]
			res, _ := m.Write(false, "\n")
			if !strings.HasPrefix(res, "ok:") {
				continue
			}
			text := string(unhexs(res[3:]))
			for _, mut := range [][2]string{{"{2000}0", "{2000} "}, {"{2000}00", "{2000}  "}} {
				if !strings.Contains(text, mut[0]) {
					continue
				}
				t1 := strings.Replace(text, mut[0], mut[1], 1)
				m1, _ := readText(t1, nil)
				if m1 == nil {
					continue
				}
				r2, _ := m1.Write(false, "\n")
				stable := "same"
				if !strings.HasPrefix(r2, "ok:") {
					stable = "differ:rewrite-refused"
				} else if m2, _ := readText(string(unhexs(r2[3:])), nil); m2 == nil {
					stable = "differ:unreadable-after-rewrite"
				} else if msgKey(m2) != msgKey(m1) {
					stable = "differ:blank-padded-numeric"
				}
				o.Case("prop:text-reread", stable, sn, mut[1], t1)
			}
		}
	}
}
