//go:build verif

package main

import (
	"bufio"
	"bytes"
	"encoding/hex"
	"encoding/json"
	"fmt"
	"net/url"
	"os"
	"os/exec"
	"path/filepath"
	"reflect"
	"regexp"
	"sort"
	"strconv"
	"strings"

	"github.com/moov-io/wire"
)

type httpOp struct {
	Op     string `json:"op"`
	ID     string `json:"id"`
	CT     string `json:"ct"`
	Query  string `json:"query"`
	Body   string `json:"body"`
	ReqID  string `json:"reqid"`
	Client int    `json:"client"`
	// model-side description (not sent to the server harness)
	margs []string
}

type httpRes struct {
	Status int      `json:"status"`
	Body   string   `json:"body"`
	Count  string   `json:"count"`
	CT     string   `json:"ct"`
	NewID  string   `json:"newid"`
	IDs    []string `json:"ids"`
}

// runServerScripts hands the scripts to the hook test in /repo/cmd/server and returns one decoded
// JSON object per script.
func runServerScripts(scripts []map[string]interface{}, race bool) ([]map[string]json.RawMessage, error) {
	dir, err := os.MkdirTemp("/var/tmp", "verif-http")
	if err != nil {
		return nil, err
	}
	defer os.RemoveAll(dir)
	sp, op := filepath.Join(dir, "script.jsonl"), filepath.Join(dir, "out.jsonl")
	f, _ := os.Create(sp)
	w := bufio.NewWriter(f)
	for _, s := range scripts {
		b, _ := json.Marshal(s)
		w.Write(b)
		w.WriteByte('\n')
	}
	w.Flush()
	f.Close()
	args := []string{"test", "-tags", "verif", "-count=1", "-vet=off", "-run", "^TestVerifHarness$"}
	if race {
		args = append(args, "-race")
	}
	args = append(args, ".")
	cmd := exec.Command("go", args...)
	cmd.Dir = filepath.Join(repoDir, "cmd", "server")
	cmd.Env = append(os.Environ(), "VERIF_SCRIPT="+sp, "VERIF_OUT="+op, "CGO_ENABLED="+map[bool]string{true: "1", false: "0"}[race])
	out, err := cmd.CombinedOutput()
	if i := strings.Index(string(out), "WARNING: DATA RACE"); race && i >= 0 {
		rep := string(out)[i:]
		if len(rep) > 2500 {
			rep = rep[:2500]
		}
		return nil, fmt.Errorf("DATA RACE reported:\n%s", rep)
	}
	if err != nil {
		return nil, fmt.Errorf("go test failed: %v\n%s", err, tail(string(out), 3000))
	}
	if race && strings.Contains(string(out), "DATA RACE") {
		return nil, fmt.Errorf("DATA RACE reported:\n%s", tail(string(out), 3000))
	}
	of, err := os.Open(op)
	if err != nil {
		return nil, err
	}
	defer of.Close()
	var res []map[string]json.RawMessage
	sc := bufio.NewScanner(of)
	sc.Buffer(make([]byte, 1<<20), 1<<28)
	for sc.Scan() {
		var m map[string]json.RawMessage
		if err := json.Unmarshal(sc.Bytes(), &m); err != nil {
			return nil, err
		}
		res = append(res, m)
	}
	return res, nil
}

// canonListing renders a listing independently of the order the repository's map yields the files in
func canonListing(body []byte) string {
	var files []json.RawMessage
	if err := json.Unmarshal(body, &files); err != nil {
		return "undecodable:" + string(body)
	}
	items := make([]string, len(files))
	for i, f := range files {
		items[i] = string(f)
	}
	sort.Strings(items)
	return strings.Join(items, "\n")
}

var markerRe = regexp.MustCompile(`\{[0-9]{4}\}`)

func tail(s string, n int) string {
	if len(s) > n {
		return s[len(s)-n:]
	}
	return s
}

func fileJSON(id string, m *Msg) string {
	f := wire.File{ID: id, FEDWireMessage: *m.ToWire()}
	b, _ := json.Marshal(&f)
	return string(b)
}

func msgJSON(m *Msg) string {
	b, _ := json.Marshal(m.ToWire())
	return string(b)
}

func optQ(v string) string {
	if v == "" {
		return "~"
	}
	return v
}

// msgOfFileJSON decodes a response body into the canonical message string.
func msgOfFileJSON(body []byte) (string, string) {
	f, err := wire.FileFromJSON(body)
	if err != nil || f == nil {
		return "", "undecodable"
	}
	return f.ID, strings.TrimPrefix(msgResult(*f), "ok|")
}

func init() {
	streams["l6-http"] = func(o *Out, rng *Rng, thorough bool) {
		samples := loadSamples()
		texts := sampleTexts()
		var snames []string
		for n := range samples {
			snames = append(snames, n)
		}
		sort.Strings(snames)
		bases := baseTags(samples)
		// a pool of messages: valid samples and invalidated variants
		type poolMsg struct {
			m *Msg
		}
		var pool []*Msg
		for _, n := range snames {
			pool = append(pool, samples[n])
			m := samples[n].Clone()
			delete(m.Tags, "Amount")
			pool = append(pool, m)
			m2 := samples[n].Clone()
			m2.setElem("SenderDepositoryInstitution", "SenderShortName", "Bad*Name")
			pool = append(pool, m2)
			m3 := samples[n].Clone()
			delete(m3.Tags, "InputMessageAccountabilityData")
			m3.Opts = &wire.ValidateOpts{SkipMandatoryIMAD: true}
			pool = append(pool, m3)
			m4 := samples[n].Clone()
			delete(m4.Tags, "SenderSupplied")
			m4.Opts = &wire.ValidateOpts{AllowMissingSenderSupplied: true}
			pool = append(pool, m4)
			// characters that mean something to formatting or templating layers but are plain FAIM text
			m5 := samples[n].Clone()
			m5.setElem("SenderDepositoryInstitution", "SenderShortName", "5%d off %s 100%")
			pool = append(pool, m5)
		}
		_ = bases
		var tnames []string
		for n := range texts {
			tnames = append(tnames, n)
		}
		sort.Strings(tnames)
		nh := 60
		if thorough {
			nh = 600
		}
		var scripts []map[string]interface{}
		var allOps [][]httpOp
		noModel := map[int]bool{}
		boolVals := []string{"", "true", "false", "1", "T", "yes", "TRUE", "0"}
		for h := 0; h < nh; h++ {
			var ops []httpOp
			ncreated := 0
			ids := []string{"A", "B", "C", "a"} // "a" and "A" are different identifiers
			odd := []string{"%ff", "%c3%28", "a%00b", "%e2%82", "id%20with%20blank", strings.Repeat("L", 300)}
			pick := func() string {
				if rng.Intn(12) == 0 {
					return odd[rng.Intn(len(odd))] // non-UTF-8, NUL, blanks, very long: unknown identifiers
				}
				if ncreated > 0 && rng.Intn(2) == 0 {
					return fmt.Sprintf("$%d", rng.Intn(ncreated+1)) // may point one past: unknown id
				}
				return ids[rng.Intn(len(ids))]
			}
			n := 5 + rng.Intn(25)
			for i := 0; i < n; i++ {
				switch rng.Intn(10) {
				case 0, 1:
					// text create
					txt := texts[tnames[rng.Intn(len(tnames))]]
					if rng.Intn(4) == 0 {
						segs := splitSegments(txt)
						if len(segs) > 2 {
							k := rng.Intn(len(segs))
							segs = append(segs[:k], segs[k+1:]...)
							txt = strings.Join(segs, "\n")
						}
					}
					sk, al := boolVals[rng.Intn(len(boolVals))], boolVals[rng.Intn(len(boolVals))]
					var q []string
					if sk != "" {
						q = append(q, "skipMandatoryIMAD="+sk)
					}
					if al != "" {
						q = append(q, "allowMissingSenderSupplied="+al)
					}
					if rng.Intn(5) == 0 {
						q = append(q, "other=1")
					}
					// every content type that is not JSON is a text upload, whatever else the type suggests
					cts := []string{"text/plain", "text/plain", "", "application/octet-stream", "application/x-www-form-urlencoded", "multipart/form-data; boundary=x"}
					ops = append(ops, httpOp{Op: "create", CT: cts[rng.Intn(len(cts))], Query: strings.Join(q, "&"), Body: hex.EncodeToString([]byte(txt)),
						margs: []string{"ct", optQ(sk), optQ(al), txt}})
					ncreated++ // optimistic; references past the real count resolve to an unknown id on both sides
				case 2, 3:
					m := pool[rng.Intn(len(pool))]
					id := ""
					if rng.Intn(3) > 0 {
						id = ids[rng.Intn(len(ids))]
					}
					ma := append([]string{"cj", optQ(id)}, m.Args()...)
					ma = append(ma, ";")
					ops = append(ops, httpOp{Op: "create", CT: "application/json", Body: hex.EncodeToString([]byte(fileJSON(id, m))), margs: ma})
					ncreated++
				case 4:
					if rng.Intn(3) == 0 {
						ops = append(ops, httpOp{Op: "create", CT: "application/json; charset=utf-8", Body: hex.EncodeToString([]byte("{not json")), margs: []string{"cx"}})
					} else {
						id := pick()
						ops = append(ops, httpOp{Op: "validate", ID: id, margs: []string{"v", id}})
					}
				case 5:
					id := pick()
					ops = append(ops, httpOp{Op: "get", ID: id, margs: []string{"g", id}})
				case 6:
					ops = append(ops, httpOp{Op: "list", margs: []string{"l"}})
				case 7:
					id := pick()
					fm := []string{"", "variable", "fixed", "VARIABLE"}[rng.Intn(4)]
					nl := []string{"", "true", "false", "garbage", "0", "1"}[rng.Intn(6)]
					var q []string
					if fm != "" {
						q = append(q, "format="+fm)
					}
					if nl != "" {
						q = append(q, "newline="+nl)
					}
					ops = append(ops, httpOp{Op: "contents", ID: id, Query: strings.Join(q, "&"), margs: []string{"c", id, optQ(fm), optQ(nl)}})
				case 8:
					id := pick()
					m := pool[rng.Intn(len(pool))]
					ma := append([]string{"a", id}, m.Args()...)
					ma = append(ma, ";")
					ops = append(ops, httpOp{Op: "add", ID: id, CT: "application/json", Body: hex.EncodeToString([]byte(msgJSON(m))), margs: ma})
				case 9:
					id := pick()
					ops = append(ops, httpOp{Op: "delete", ID: id, margs: []string{"d", id}})
				}
				if rng.Intn(3) == 0 {
					ops[len(ops)-1].ReqID = fmt.Sprintf("rq%dx%dz", h, i)
				}
			}
			allOps = append(allOps, ops)
			scripts = append(scripts, map[string]interface{}{"mode": "seq", "ops": ops})
		}
		// over-long uploads: an accepted message followed by more than a scanner buffer of line breaks and another
		// segment; one segment longer than the buffer; the same after a first, ordinary create (C08: never a 201
		// built from a prefix of the body)
		if len(tnames) > 0 {
			base := texts[tnames[0]]
			long1 := strings.TrimRight(base, "\r\n") + strings.Repeat("\n", 66000) + "{6000}trailing segment*"
			long2 := strings.TrimRight(base, "\r\n") + "\n{6000}" + strings.Repeat("A", 70000) + "*"
			long3 := strings.Repeat("\n", 70000) + base
			longs := []string{long1, long2, long3}
			var seg36 string
			for _, sg := range splitSegments(base) {
				if strings.HasPrefix(sg, "{3600}") {
					seg36 = sg
				}
			}
			if seg36 != "" {
				for _, L := range []int{1 << 16, 1 << 18, 1 << 20} {
					prefix := strings.TrimRight(base, "\r\n") + "\n"
					unit := seg36 + "\n"
					k := (L - len(prefix)) / len(unit)
					body := prefix + strings.Repeat(unit, k)
					body += strings.Repeat("\n", L-len(body)) // valid up to exactly L bytes (line breaks are ignored)
					longs = append(longs, body+"{9999}not a tag\n")
				}
			}
			for li, lb := range longs {
				if len(lb) > 200000 {
					noModel[len(allOps)] = true // the model's scanner is quadratic on such a text: implementation-side oracles only
				}
				if len(lb) > 600000 && !thorough && li < 0 {
					continue
				}
				ops := []httpOp{
					{Op: "create", CT: "text/plain", Body: hex.EncodeToString([]byte(base)), margs: []string{"ct", "~", "~", base}},
					{Op: "create", CT: "text/plain", Body: hex.EncodeToString([]byte(lb)), margs: []string{"ct", "~", "~", lb}},
					{Op: "list", margs: []string{"l"}},
				}
				allOps = append(allOps, ops)
				scripts = append(scripts, map[string]interface{}{"mode": "seq", "ops": ops})
			}
		}
		// fail closed: a stored file with options of its own, then requests that are refused (an invalid message
		// carrying other options, an invalid replacement, malformed JSON) - the listing before and after is the same
		nFixedFailClosed := 0
		if len(snames) > 0 {
			good := samples[snames[0]]
			for _, q := range []string{"skipMandatoryIMAD=true", "allowMissingSenderSupplied=true", ""} {
				for _, badOpts := range []*wire.ValidateOpts{nil, {SkipMandatoryIMAD: true}, {AllowMissingSenderSupplied: true}, {SkipMandatoryIMAD: true, AllowMissingSenderSupplied: true}} {
					bad := good.Clone()
					delete(bad.Tags, "Amount")
					bad.Opts = badOpts
					txt := texts[tnames[0]]
					sk, al := "~", "~"
					if strings.HasPrefix(q, "skip") {
						sk = "true"
					}
					if strings.HasPrefix(q, "allow") {
						al = "true"
					}
					ma := append([]string{"a", "$0"}, bad.Args()...)
					ma = append(ma, ";")
					mc := append([]string{"cj", "$0"}, bad.Args()...)
					mc = append(mc, ";")
					ops := []httpOp{
						{Op: "create", CT: "text/plain", Query: q, Body: hex.EncodeToString([]byte(txt)), margs: []string{"ct", sk, al, txt}},
						{Op: "list", margs: []string{"l"}},
						{Op: "add", ID: "$0", CT: "application/json", Body: hex.EncodeToString([]byte(msgJSON(bad))), margs: ma},
						{Op: "list", margs: []string{"l"}},
						{Op: "create", CT: "application/json; charset=utf-8", Body: hex.EncodeToString([]byte("{not json")), margs: []string{"cx"}},
						{Op: "get", ID: "$0", margs: []string{"g", "$0"}},
						{Op: "list", margs: []string{"l"}},
					}
					allOps = append(allOps, ops)
					scripts = append(scripts, map[string]interface{}{"mode": "seq", "ops": ops})
					nFixedFailClosed++
				}
			}
		}
		results, err := runServerScripts(scripts, false)
		if err != nil {
			o.Case("http:harness", "failed:"+strings.ReplaceAll(tail(err.Error(), 400), "\t", " "), "seq")
			return
		}
		for h, ops := range allOps {
			var rs []httpRes
			json.Unmarshal(results[h]["results"], &rs)
			var created []string
			json.Unmarshal(results[h]["created"], &created)
			var logs []string
			json.Unmarshal(results[h]["logs"], &logs)
			sym := func(real string) string {
				for _, x := range []string{"A", "B", "C", "a"} {
					if real == x {
						return x
					}
				}
				for k, c := range created {
					if c == real {
						return fmt.Sprintf("$%d", k)
					}
				}
				return "?" + real
			}
			var obs []string
			var margs []string
			seenCreate := 0
			lib := map[string]*wire.File{} // what direct library calls on the same bytes produce
			faithful := "same"
			listConsistent := "same"
			optionsAgree := "same" // C12: the query parameters select the same options as the library routes
			noTruncation := "same" // C08: every marked segment of an accepted text upload is in the stored message
			ownParams := "same"    // C18: a rendering depends on its own request's parameters only
			failClosed := "same"   // C18: a refused request changes nothing: listings around it are identical
			lastList, refusedSince, changedSince := "", -1, true
			for i, op := range ops {
				margs = append(margs, op.margs...)
				r := rs[i]
				body, _ := hex.DecodeString(r.Body)
				if os.Getenv("VERIF_DEBUG") == fmt.Sprint(h) {
					fmt.Fprintf(os.Stderr, "h%d #%d %s id=%s ct=%s -> %d new=%s\n", h, i, op.Op, op.ID, op.CT, r.Status, r.NewID)
				}
				if op.Op == "list" && r.Status == 200 && listConsistent == "same" {
					// C16: the listing shows exactly the files get returns - same identifiers, same content, count header = length
					var listed []*wire.File
					if err := json.Unmarshal(body, &listed); err != nil {
						listConsistent = fmt.Sprintf("differ:request %d: listing is not a JSON array of files", i)
					} else {
						seen := map[string]bool{}
						for _, lf := range listed {
							want := lib[lf.ID]
							switch {
							case lf == nil || want == nil:
								listConsistent = fmt.Sprintf("differ:request %d: the listing contains a file that is not stored", i)
							case msgResult(*lf) != msgResult(*want):
								listConsistent = fmt.Sprintf("differ:request %d: the listing shows other content for a file than get returns (stale entry)", i)
							}
							if lf != nil {
								seen[lf.ID] = true
							}
						}
						if len(seen) != len(lib) || len(listed) != len(lib) {
							listConsistent = fmt.Sprintf("differ:request %d: %d files listed, %d stored", i, len(listed), len(lib))
						}
						if r.Count != fmt.Sprint(len(listed)) {
							listConsistent = fmt.Sprintf("differ:request %d: X-Total-Count %s for %d listed files", i, r.Count, len(listed))
						}
					}
				}
				if op.Op == "create" && !strings.Contains(op.CT, "json") && r.Status == 201 && noTruncation == "same" {
					reqText, _ := hex.DecodeString(op.Body)
					flat := strings.ReplaceAll(strings.ReplaceAll(string(reqText), "\r\n", ""), "\n", "")
					if sf, err := wire.FileFromJSON(body); err == nil && sf != nil {
						var wb bytes.Buffer
						_ = wire.NewWriter(&wb, wire.NewlineCharacter("")).Write(sf)
						stored := wb.String()
						for _, mk := range markerRe.FindAllString(flat, -1) {
							if !strings.Contains(stored, mk) {
								noTruncation = fmt.Sprintf("differ:request %d: 201 Created, but the segment %s of the %d-byte body is not in the stored message", i, mk, len(reqText))
								break
							}
						}
					}
				}
				switch {
				case op.Op == "list" && r.Status == 200:
					if !changedSince && refusedSince >= 0 && lastList != canonListing(body) && failClosed == "same" {
						failClosed = fmt.Sprintf("differ:request %d (%s) was refused, yet the listing after it differs from the listing before it", refusedSince, ops[refusedSince].Op)
					}
					lastList, refusedSince, changedSince = canonListing(body), -1, false
				case (op.Op == "create" || op.Op == "add" || op.Op == "delete") && (r.Status == 200 || r.Status == 201):
					changedSince = true
				case r.Status >= 400 && (op.Op == "create" || op.Op == "add"):
					refusedSince = i
				}
				d := libraryVerdict(lib, op, r, body, created[:min(seenCreate, len(created))])
				if d != "" && op.Op == "create" && !strings.Contains(op.CT, "json") && r.Status == 201 && noTruncation == "same" {
					noTruncation = fmt.Sprintf("differ:request %d: 201 Created for a body the reader itself refuses: %s", i, d)
				}
				if d != "" && faithful == "same" {
					if op.Op == "contents" && ownParams == "same" {
						ownParams = fmt.Sprintf("differ:request %d: contents?%s is not the rendering its own parameters select: %s", i, op.Query, d)
					}
					faithful = fmt.Sprintf("differ:request %d (%s): %s", i, op.Op, d)
					if op.Op == "create" && !strings.Contains(op.CT, "json") && op.Query != "" && optionsAgree == "same" {
						optionsAgree = fmt.Sprintf("differ:POST /files/create?%s: %s", op.Query, d)
					}
				}
				s := fmt.Sprint(r.Status)
				switch {
				case op.Op == "create" && r.Status == 201:
					s += ":" + sym(r.NewID)
					seenCreate++
				case (op.Op == "get" || op.Op == "add") && r.Status == 200:
					id, ms := msgOfFileJSON(body)
					s += ":" + sym(id) + ":" + ms
				case op.Op == "list" && r.Status == 200:
					var ss []string
					for _, x := range r.IDs {
						ss = append(ss, sym(x))
					}
					sort.Strings(ss)
					s += ":" + r.Count + ":" + strings.Join(ss, ",")
					if r.Count != fmt.Sprint(len(r.IDs)) {
						s += ":count-header-mismatch"
					}
				case op.Op == "contents" && r.Status == 200:
					s += ":" + hx(string(body))
				}
				// C18: documented statuses, JSON error bodies, no foreign identifiers in this request's log lines
				if r.Status == 599 {
					o.Case("prop:http-no-panic", "differ:the handler panicked: "+short(string(body))+" on "+op.Op+" "+op.ID, fmt.Sprint(h), fmt.Sprint(i))
				} else if r.Status != 200 && r.Status != 201 && r.Status != 400 && r.Status != 404 {
					o.Case("prop:http-status-documented", fmt.Sprintf("differ:status %d for %s", r.Status, op.Op), fmt.Sprint(h), fmt.Sprint(i))
				}
				if r.Status == 400 {
					var e map[string]interface{}
					if json.Unmarshal(body, &e) != nil || e["error"] == nil {
						o.Case("prop:http-error-body-json", "differ:"+short(string(body)), fmt.Sprint(h), fmt.Sprint(i))
					}
				}
				if i < len(logs) {
					for j, other := range ops {
						if j != i && other.ReqID != "" && strings.Contains(logs[i], other.ReqID) {
							o.Case("prop:http-log-isolation", fmt.Sprintf("differ:request %d logs the request id of request %d", i, j), fmt.Sprint(h), fmt.Sprint(i))
						}
					}
				}
				obs = append(obs, s)
			}
			if noModel[h] {
				margs = []string{fmt.Sprint("history ", h, " (over-long upload, not evaluated by the model)")}
			} else {
				o.Case("http:seq", strings.Join(obs, "|"), margs...)
			}
			o.Case("prop:http-faithful", faithful, margs...)
			o.Case("prop:http-list-consistent", listConsistent, margs...)
			o.Case("prop:http-options-agree", optionsAgree, margs...)
			o.Case("prop:http-no-truncation", noTruncation, fmt.Sprint(h))
			o.Case("prop:http-contents-own-params", ownParams, fmt.Sprint(h))
			o.Case("prop:http-fail-closed", failClosed, fmt.Sprint(h))
			o.Case("prop:http-status-documented", "same", fmt.Sprint(h))
			o.Case("prop:http-log-isolation", "same", fmt.Sprint(h))
			o.Case("prop:http-error-body-json", "same", fmt.Sprint(h))
		}
		_ = reflect.TypeOf
	}
}

// libraryVerdict performs the request's work by direct library calls on the same bytes, compares
// with the HTTP response and keeps lib (ID -> file) up to date. "" = the endpoint is a faithful wrapper.
func libraryVerdict(lib map[string]*wire.File, op httpOp, r httpRes, body []byte, created []string) string {
	id := op.ID
	if strings.HasPrefix(id, "$") {
		var k int
		fmt.Sscanf(id[1:], "%d", &k)
		if k < len(created) {
			id = created[k]
		} else {
			id = "unknown-" + id[1:]
		}
	}
	reqBody, _ := hex.DecodeString(op.Body)
	q, _ := url.ParseQuery(op.Query)
	same := func(a, b *wire.File) bool { return msgResult(*a) == msgResult(*b) }
	switch op.Op {
	case "create":
		var f *wire.File
		if strings.Contains(op.CT, "application/json") {
			f = wire.NewFile()
			if err := json.NewDecoder(bytes.NewReader(reqBody)).Decode(f); err != nil {
				f = nil
			} else if f.Validate() != nil {
				f = nil
			}
		} else {
			var opts *wire.ValidateOpts
			for _, name := range []string{"skipMandatoryIMAD", "allowMissingSenderSupplied"} {
				if set, _ := strconv.ParseBool(q.Get(name)); set {
					if opts == nil {
						opts = &wire.ValidateOpts{}
					}
					if name == "skipMandatoryIMAD" {
						opts.SkipMandatoryIMAD = true
					} else {
						opts.AllowMissingSenderSupplied = true
					}
				}
			}
			g, err := wire.NewReader(bytes.NewReader(reqBody)).ReadWithOpts(opts)
			if err == nil {
				f = &g
			}
		}
		if f == nil {
			if r.Status != 400 {
				return fmt.Sprintf("the library rejects the body but the endpoint answered %d", r.Status)
			}
			return ""
		}
		if r.Status != 201 {
			return fmt.Sprintf("the library accepts the body but the endpoint answered %d", r.Status)
		}
		got, err := wire.FileFromJSON(body)
		if err != nil || got == nil {
			return "201 body is not a file"
		}
		if !same(got, f) {
			return "201 body differs from the message the library produces"
		}
		f.ID = got.ID
		lib[got.ID] = f
	case "get":
		f := lib[id]
		if f == nil {
			if r.Status != 404 {
				return fmt.Sprintf("unknown id answered %d", r.Status)
			}
			return ""
		}
		got, err := wire.FileFromJSON(body)
		if r.Status != 200 || err != nil || got == nil || !same(got, f) {
			if os.Getenv("VERIF_DEBUG") != "" {
				fmt.Fprintf(os.Stderr, "GET id=%s status=%d err=%v body=%s\n", id, r.Status, err, short(string(body)))
			}
			return "get does not return the stored file"
		}
	case "contents":
		f := lib[id]
		if f == nil {
			if r.Status != 404 {
				return fmt.Sprintf("unknown id answered %d", r.Status)
			}
			return ""
		}
		variable := q.Get("format") == "variable"
		nl := "\n"
		if v := q.Get("newline"); v != "" {
			b, err := strconv.ParseBool(v)
			if err != nil {
				if r.Status != 400 {
					return fmt.Sprintf("unparsable newline parameter answered %d", r.Status)
				}
				return ""
			}
			if !b {
				nl = ""
			}
		}
		var buf bytes.Buffer
		if err := wire.NewWriter(&buf, wire.VariableLengthFields(variable), wire.NewlineCharacter(nl)).Write(f); err != nil {
			if r.Status != 400 {
				return fmt.Sprintf("the library writer refuses the file but the endpoint answered %d", r.Status)
			}
			return ""
		}
		if r.Status != 200 || !bytes.Equal(buf.Bytes(), body) {
			return "contents differ from the library writer's output for the requested format and newline parameters"
		}
	case "validate":
		f := lib[id]
		if f == nil {
			if r.Status != 404 {
				return fmt.Sprintf("unknown id answered %d", r.Status)
			}
			return ""
		}
		want := 200
		if f.Validate() != nil {
			want = 400
		}
		if r.Status != want {
			return fmt.Sprintf("library validation says %d, the endpoint answered %d", want, r.Status)
		}
	case "add":
		var req wire.FEDWireMessage
		if err := json.NewDecoder(bytes.NewReader(reqBody)).Decode(&req); err != nil {
			if r.Status != 400 {
				return fmt.Sprintf("undecodable message answered %d", r.Status)
			}
			return ""
		}
		f := lib[id]
		if f == nil {
			if r.Status != 404 {
				return fmt.Sprintf("unknown id answered %d", r.Status)
			}
			return ""
		}
		g := *f
		g.FEDWireMessage = g.AddFEDWireMessage(req)
		if g.Validate() != nil {
			if r.Status != 400 {
				return fmt.Sprintf("the library rejects the resulting file but the endpoint answered %d", r.Status)
			}
			return ""
		}
		got, err := wire.FileFromJSON(body)
		if r.Status != 200 || err != nil || got == nil || !same(got, &g) {
			return "add-message does not answer with the file the library produces"
		}
		lib[id] = &g
	case "delete":
		delete(lib, id)
	}
	// C17: every stored file is valid and its contents re-readable
	for k, f := range lib {
		if f.Validate() != nil {
			return "stored file " + k + " is invalid"
		}
		var buf bytes.Buffer
		if err := wire.NewWriter(&buf).Write(f); err != nil {
			return "stored file " + k + " cannot be written"
		}
		if _, err := wire.NewReader(bytes.NewReader(buf.Bytes())).ReadWithOpts(f.FEDWireMessage.ValidateOptions); err != nil {
			return "contents of stored file " + k + " cannot be read back"
		}
	}
	return ""
}
