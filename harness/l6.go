//go:build verif

package main

import (
	"bufio"
	"encoding/hex"
	"encoding/json"
	"fmt"
	"os"
	"os/exec"
	"path/filepath"
	"reflect"
	"sort"
	"strings"

	"github.com/moov-io/wire"
)

type httpOp struct {
	Op     string `json:"op"`
	ID     string `json:"id"`
	CT     string `json:"ct"`
	Query  string `json:"query"`
	Body   string `json:"body"`
	ReqID  string `json:"reqid"`
	Client int    `json:"client"`
	// model-side description (not sent to the server harness)
	margs []string
}

type httpRes struct {
	Status int      `json:"status"`
	Body   string   `json:"body"`
	Count  string   `json:"count"`
	CT     string   `json:"ct"`
	NewID  string   `json:"newid"`
	IDs    []string `json:"ids"`
}

// runServerScripts hands the scripts to the hook test in /repo/cmd/server and returns one decoded
// JSON object per script.
func runServerScripts(scripts []map[string]interface{}, race bool) ([]map[string]json.RawMessage, error) {
	dir, err := os.MkdirTemp("/var/tmp", "verif-http")
	if err != nil {
		return nil, err
	}
	defer os.RemoveAll(dir)
	sp, op := filepath.Join(dir, "script.jsonl"), filepath.Join(dir, "out.jsonl")
	f, _ := os.Create(sp)
	w := bufio.NewWriter(f)
	for _, s := range scripts {
		b, _ := json.Marshal(s)
		w.Write(b)
		w.WriteByte('\n')
	}
	w.Flush()
	f.Close()
	args := []string{"test", "-tags", "verif", "-count=1", "-vet=off", "-run", "^TestVerifHarness$"}
	if race {
		args = append(args, "-race")
	}
	args = append(args, ".")
	cmd := exec.Command("go", args...)
	cmd.Dir = filepath.Join(repoDir, "cmd", "server")
	cmd.Env = append(os.Environ(), "VERIF_SCRIPT="+sp, "VERIF_OUT="+op, "CGO_ENABLED="+map[bool]string{true: "1", false: "0"}[race])
	out, err := cmd.CombinedOutput()
	if err != nil {
		return nil, fmt.Errorf("go test failed: %v\n%s", err, tail(string(out), 3000))
	}
	if race && strings.Contains(string(out), "DATA RACE") {
		return nil, fmt.Errorf("DATA RACE reported:\n%s", tail(string(out), 3000))
	}
	of, err := os.Open(op)
	if err != nil {
		return nil, err
	}
	defer of.Close()
	var res []map[string]json.RawMessage
	sc := bufio.NewScanner(of)
	sc.Buffer(make([]byte, 1<<20), 1<<28)
	for sc.Scan() {
		var m map[string]json.RawMessage
		if err := json.Unmarshal(sc.Bytes(), &m); err != nil {
			return nil, err
		}
		res = append(res, m)
	}
	return res, nil
}

func tail(s string, n int) string {
	if len(s) > n {
		return s[len(s)-n:]
	}
	return s
}

func fileJSON(id string, m *Msg) string {
	f := wire.File{ID: id, FEDWireMessage: *m.ToWire()}
	b, _ := json.Marshal(&f)
	return string(b)
}

func msgJSON(m *Msg) string {
	b, _ := json.Marshal(m.ToWire())
	return string(b)
}

func optQ(v string) string {
	if v == "" {
		return "~"
	}
	return v
}

// msgOfFileJSON decodes a response body into the canonical message string.
func msgOfFileJSON(body []byte) (string, string) {
	f, err := wire.FileFromJSON(body)
	if err != nil || f == nil {
		return "", "undecodable"
	}
	return f.ID, strings.TrimPrefix(msgResult(*f), "ok|")
}

func init() {
	streams["l6-http"] = func(o *Out, rng *Rng, thorough bool) {
		samples := loadSamples()
		texts := sampleTexts()
		var snames []string
		for n := range samples {
			snames = append(snames, n)
		}
		sort.Strings(snames)
		bases := baseTags(samples)
		// a pool of messages: valid samples and invalidated variants
		type poolMsg struct {
			m *Msg
		}
		var pool []*Msg
		for _, n := range snames {
			pool = append(pool, samples[n])
			m := samples[n].Clone()
			delete(m.Tags, "Amount")
			pool = append(pool, m)
			m2 := samples[n].Clone()
			m2.setElem("SenderDepositoryInstitution", "SenderShortName", "Bad*Name")
			pool = append(pool, m2)
			m3 := samples[n].Clone()
			delete(m3.Tags, "InputMessageAccountabilityData")
			m3.Opts = &wire.ValidateOpts{SkipMandatoryIMAD: true}
			pool = append(pool, m3)
			m4 := samples[n].Clone()
			delete(m4.Tags, "SenderSupplied")
			m4.Opts = &wire.ValidateOpts{AllowMissingSenderSupplied: true}
			pool = append(pool, m4)
		}
		_ = bases
		var tnames []string
		for n := range texts {
			tnames = append(tnames, n)
		}
		sort.Strings(tnames)
		nh := 60
		if thorough {
			nh = 600
		}
		var scripts []map[string]interface{}
		var allOps [][]httpOp
		boolVals := []string{"", "true", "false", "1", "T", "yes", "TRUE", "0"}
		for h := 0; h < nh; h++ {
			var ops []httpOp
			ncreated := 0
			ids := []string{"A", "B", "C"}
			pick := func() string {
				if ncreated > 0 && rng.Intn(2) == 0 {
					return fmt.Sprintf("$%d", rng.Intn(ncreated+1)) // may point one past: unknown id
				}
				return ids[rng.Intn(len(ids))]
			}
			n := 5 + rng.Intn(25)
			for i := 0; i < n; i++ {
				switch rng.Intn(10) {
				case 0, 1:
					// text create
					txt := texts[tnames[rng.Intn(len(tnames))]]
					if rng.Intn(4) == 0 {
						segs := splitSegments(txt)
						if len(segs) > 2 {
							k := rng.Intn(len(segs))
							segs = append(segs[:k], segs[k+1:]...)
							txt = strings.Join(segs, "\n")
						}
					}
					sk, al := boolVals[rng.Intn(len(boolVals))], boolVals[rng.Intn(len(boolVals))]
					var q []string
					if sk != "" {
						q = append(q, "skipMandatoryIMAD="+sk)
					}
					if al != "" {
						q = append(q, "allowMissingSenderSupplied="+al)
					}
					if rng.Intn(5) == 0 {
						q = append(q, "other=1")
					}
					ops = append(ops, httpOp{Op: "create", CT: "text/plain", Query: strings.Join(q, "&"), Body: hex.EncodeToString([]byte(txt)),
						margs: []string{"ct", optQ(sk), optQ(al), txt}})
					ncreated++ // optimistic; references past the real count resolve to an unknown id on both sides
				case 2, 3:
					m := pool[rng.Intn(len(pool))]
					id := ""
					if rng.Intn(3) > 0 {
						id = ids[rng.Intn(len(ids))]
					}
					ma := append([]string{"cj", optQ(id)}, m.Args()...)
					ma = append(ma, ";")
					ops = append(ops, httpOp{Op: "create", CT: "application/json", Body: hex.EncodeToString([]byte(fileJSON(id, m))), margs: ma})
					ncreated++
				case 4:
					if rng.Intn(3) == 0 {
						ops = append(ops, httpOp{Op: "create", CT: "application/json; charset=utf-8", Body: hex.EncodeToString([]byte("{not json")), margs: []string{"cx"}})
					} else {
						id := pick()
						ops = append(ops, httpOp{Op: "validate", ID: id, margs: []string{"v", id}})
					}
				case 5:
					id := pick()
					ops = append(ops, httpOp{Op: "get", ID: id, margs: []string{"g", id}})
				case 6:
					ops = append(ops, httpOp{Op: "list", margs: []string{"l"}})
				case 7:
					id := pick()
					fm := []string{"", "variable", "fixed", "VARIABLE"}[rng.Intn(4)]
					nl := []string{"", "true", "false", "garbage", "0", "1"}[rng.Intn(6)]
					var q []string
					if fm != "" {
						q = append(q, "format="+fm)
					}
					if nl != "" {
						q = append(q, "newline="+nl)
					}
					ops = append(ops, httpOp{Op: "contents", ID: id, Query: strings.Join(q, "&"), margs: []string{"c", id, optQ(fm), optQ(nl)}})
				case 8:
					id := pick()
					m := pool[rng.Intn(len(pool))]
					ma := append([]string{"a", id}, m.Args()...)
					ma = append(ma, ";")
					ops = append(ops, httpOp{Op: "add", ID: id, CT: "application/json", Body: hex.EncodeToString([]byte(msgJSON(m))), margs: ma})
				case 9:
					id := pick()
					ops = append(ops, httpOp{Op: "delete", ID: id, margs: []string{"d", id}})
				}
				if rng.Intn(3) == 0 {
					ops[len(ops)-1].ReqID = fmt.Sprintf("rq%dx%dz", h, i)
				}
			}
			allOps = append(allOps, ops)
			scripts = append(scripts, map[string]interface{}{"mode": "seq", "ops": ops})
		}
		results, err := runServerScripts(scripts, false)
		if err != nil {
			o.Case("http:harness", "failed:"+strings.ReplaceAll(tail(err.Error(), 400), "\t", " "), "seq")
			return
		}
		for h, ops := range allOps {
			var rs []httpRes
			json.Unmarshal(results[h]["results"], &rs)
			var created []string
			json.Unmarshal(results[h]["created"], &created)
			var logs []string
			json.Unmarshal(results[h]["logs"], &logs)
			sym := func(real string) string {
				for _, x := range []string{"A", "B", "C"} {
					if real == x {
						return x
					}
				}
				for k, c := range created {
					if c == real {
						return fmt.Sprintf("$%d", k)
					}
				}
				return "?" + real
			}
			var obs []string
			var margs []string
			seenCreate := 0
			for i, op := range ops {
				margs = append(margs, op.margs...)
				r := rs[i]
				body, _ := hex.DecodeString(r.Body)
				s := fmt.Sprint(r.Status)
				switch {
				case op.Op == "create" && r.Status == 201:
					s += ":" + sym(r.NewID)
					seenCreate++
				case (op.Op == "get" || op.Op == "add") && r.Status == 200:
					id, ms := msgOfFileJSON(body)
					s += ":" + sym(id) + ":" + ms
				case op.Op == "list" && r.Status == 200:
					var ss []string
					for _, x := range r.IDs {
						ss = append(ss, sym(x))
					}
					sort.Strings(ss)
					s += ":" + r.Count + ":" + strings.Join(ss, ",")
					if r.Count != fmt.Sprint(len(r.IDs)) {
						s += ":count-header-mismatch"
					}
				case op.Op == "contents" && r.Status == 200:
					s += ":" + hx(string(body))
				}
				// C18: documented statuses, JSON error bodies, no foreign identifiers in this request's log lines
				if r.Status != 200 && r.Status != 201 && r.Status != 400 && r.Status != 404 {
					o.Case("prop:http-status-documented", fmt.Sprintf("differ:status %d for %s", r.Status, op.Op), fmt.Sprint(h), fmt.Sprint(i))
				}
				if r.Status == 400 {
					var e map[string]interface{}
					if json.Unmarshal(body, &e) != nil || e["error"] == nil {
						o.Case("prop:http-error-body-json", "differ:"+short(string(body)), fmt.Sprint(h), fmt.Sprint(i))
					}
				}
				if i < len(logs) {
					for j, other := range ops {
						if j != i && other.ReqID != "" && strings.Contains(logs[i], other.ReqID) {
							o.Case("prop:http-log-isolation", fmt.Sprintf("differ:request %d logs the request id of request %d", i, j), fmt.Sprint(h), fmt.Sprint(i))
						}
					}
				}
				obs = append(obs, s)
			}
			o.Case("http:seq", strings.Join(obs, "|"), margs...)
			o.Case("prop:http-status-documented", "same", fmt.Sprint(h))
			o.Case("prop:http-log-isolation", "same", fmt.Sprint(h))
			o.Case("prop:http-error-body-json", "same", fmt.Sprint(h))
		}
		_ = reflect.TypeOf
	}
}
