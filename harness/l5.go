//go:build verif

package main

import (
	"fmt"
	"io"
	"os"
	"sort"
	"strings"

	"github.com/moov-io/wire"
)

// Property oracles evaluated on the implementation itself (independent of the Coq model): each case
// records "same" when the property held on that input and "differ:<what>" otherwise.

func msgKey(m *Msg) string { return strings.Join(m.Args()[1:], "\x00") }

func readText(text string, opts *wire.ValidateOpts) (*Msg, string) {
	res := doRead(text, 0, nil, io.EOF, "nil", opts)
	if !strings.HasPrefix(res, "ok|") {
		return nil, res
	}
	cr := strings.NewReader(text)
	r := wire.NewReader(cr)
	var f wire.File
	var err error
	if opts == nil {
		f, err = r.Read()
	} else {
		f, err = r.ReadWithOpts(opts)
	}
	if err != nil {
		return nil, "err"
	}
	fwm := f.FEDWireMessage
	return MsgFromWire(&fwm), res
}

// canonicalMsg: every element trimmed, within its width, numerics/raw slices full width is implied by validity here
func (m *Msg) canonical() bool {
	for k, p := range m.Tags {
		tt := tagByName[k]
		for i, v := range tt.Vals(p) {
			if v != strings.TrimSpace(v) {
				// the one blank-valued code ({1500} message duplication code " ") is canonical as is
				if !(k == "SenderSupplied" && tt.Elems[i].Path == "MessageDuplicationCode") {
					return false
				}
			}
			if w := tt.WidthOf(i); w >= 0 && len(v) > w {
				return false
			}
			// the zero-padded numeric of {1120} is canonical only at full width
			if k == "OutputMessageAccountabilityData" && tt.Elems[i].Path == "OutputSequenceNumber" && len(v) != 6 {
				return false
			}
			// likewise the {2000} amount (validation accepts 1..12 digits) and the {8200} length field
			if k == "Amount" && tt.Elems[i].Path == "Amount" && len(v) != 12 {
				return false
			}
			if k == "UnstructuredAddenda" && tt.Elems[i].Path == "AddendaLength" && len(v) != 4 {
				return false
			}
		}
	}
	return true
}

var layouts6 = []struct {
	v  bool
	nl string
}{{false, "\n"}, {true, "\n"}, {false, "\r\n"}, {true, "\r\n"}, {false, ""}, {true, ""}}

func init() {
	streams["l5-props"] = func(o *Out, rng *Rng, thorough bool) {
		samples := loadSamples()
		bases := baseTags(samples)
		widthCache := map[string][]int{}
		widths := func(tt *TagType) []int {
			if w, ok := widthCache[tt.Name]; ok {
				return w
			}
			w := make([]int, len(tt.Elems))
			for i := range tt.Elems {
				w[i] = tt.WidthOf(i)
			}
			widthCache[tt.Name] = w
			return w
		}
		// candidate messages: samples, plus variants with boundary element values that stay valid and canonical
		var msgs []*Msg
		for _, sn := range sortedSampleNames(samples) {
			base := samples[sn]
			msgs = append(msgs, base)
			n := 40
			if thorough {
				n = 600
			}
			for i := 0; i < n; i++ {
				m := base.Clone()
				names := make([]string, 0, len(m.Tags))
				for k := range m.Tags {
					names = append(names, k)
				}
				sort.Strings(names)
				// change 1-3 elements to boundary values
				for j := 0; j < 1+rng.Intn(3); j++ {
					k := names[rng.Intn(len(names))]
					tt := tagByName[k]
					if len(tt.Elems) == 0 {
						continue
					}
					e := rng.Intn(len(tt.Elems))
					w := widths(tt)[e]
					var v string
					switch rng.Intn(5) {
					case 0:
						v = ""
					case 1:
						v = "A"
					case 2:
						v = strings.Repeat("B", max0(w-1))
					case 3:
						v = strings.Repeat("C", w)
					default:
						v = "A B"
						if w >= 8 && rng.Intn(2) == 0 {
							v = "AB  CD" // two blanks in a row inside a value
						}
					}
					vals := tt.Vals(m.Tags[k])
					m.Tags[k] = tt.New(tt.Marker(m.Tags[k]), setAt(vals, e, v))
				}
				// occasionally add an optional tag with a repaired valid value
				if rng.Intn(3) == 0 {
					tt := tagTypes[rng.Intn(len(tagTypes))]
					if b := bases[tt.Name]; len(b) > 0 {
						if _, has := m.Tags[tt.Name]; !has {
							m.Tags[tt.Name] = tt.New(b[0].marker, b[0].vals)
						}
					}
				}
				if rng.Intn(4) == 0 {
					m.Opts = optionSets()[rng.Intn(5)]
					if m.Opts != nil && m.Opts.AllowMissingSenderSupplied && rng.Bool() {
						delete(m.Tags, "SenderSupplied")
					}
					if m.Opts != nil && m.Opts.SkipMandatoryIMAD && rng.Bool() {
						delete(m.Tags, "InputMessageAccountabilityData")
					}
				}
				if m.Validate() == "ok" {
					msgs = append(msgs, m)
				}
			}
		}
		// C07: an over-width value is cut to its leading width characters, in both layouts
		{
			alphabet := "ABCDEFGHJKLMNPQRSTUVWXYZ23456789"
			for si, sn := range sortedSampleNames(samples) {
				if !thorough && si%3 != 0 {
					continue
				}
				base := samples[sn]
				for _, k := range sortedKeys(base.Tags) {
					tt := tagByName[k]
					for i := range tt.Elems {
						w := widths(tt)[i]
						if w < 4 || (!thorough && (i+len(k))%2 != 0) {
							continue
						}
						var vb strings.Builder
						for j := 0; j < w+6; j++ {
							vb.WriteByte(alphabet[(j*7+i*3+len(k))%len(alphabet)])
						}
						v := vb.String()
						m := base.Clone()
						m.Tags[k] = tt.New(tt.Marker(base.Tags[k]), setAt(tt.Vals(base.Tags[k]), i, v))
						if m.Validate() != "ok" {
							continue
						}
						for _, l := range layouts6 {
							res, _ := m.Write(l.v, l.nl)
							if !strings.HasPrefix(res, "ok:") {
								continue
							}
							text := string(unhexs(res[3:]))
							r := "same"
							if strings.Contains(text, v[:w+1]) {
								r = fmt.Sprintf("differ:over-width value of %s.%s is not cut to its %d characters (variable=%v)", k, tt.Elems[i].Path, w, l.v)
							} else if !strings.Contains(text, v[:w]) && !strings.Contains(text, v[len(v)-w:]) {
								r = fmt.Sprintf("differ:over-width value of %s.%s does not appear with its leading %d characters (variable=%v)", k, tt.Elems[i].Path, w, l.v)
							}
							o.Case("prop:text-shape", r, sn, k, fmt.Sprint(i), fmt.Sprint(l.v), l.nl, "over-width")
						}
					}
				}
			}
		}
		// C12: every route applies explicit options the same way - they replace presets and earlier options
		{
			texts := sampleTexts()
			for si, tn := range sortedTextNames(texts) {
				if !thorough && si%4 != 0 {
					continue
				}
				segs := splitSegments(texts[tn])
				for _, dropMarker := range []string{"", "{1500}", "{1520}"} {
					var kept []string
					for _, sg := range segs {
						if dropMarker == "" || !strings.HasPrefix(sg, dropMarker) {
							kept = append(kept, sg)
						}
					}
					text := strings.Join(kept, "\n")
					// no options at all: the verdict of a plain read does not depend on presets used by unrelated readers
					// and files before it (options are per message, never process-wide)
					plain0 := doRead(text, 0, nil, io.EOF, "nil", nil)
					for _, preset := range []string{"in", "out", "in"} {
						_ = doRead(texts[tn], 0, nil, io.EOF, preset, nil)
						if preset == "in" {
							_ = wire.NewFile(wire.IncomingFile())
						} else {
							_ = wire.NewFile(wire.OutgoingFile())
						}
						again := doRead(text, 0, nil, io.EOF, "nil", nil)
						o.Case("prop:options-routes-agree", sameOr(verdictOnly(plain0), verdictOnly(again)), text, preset, "nil", "plain-read-after-unrelated-preset")
					}
					for _, op := range optionSets() {
						if op == nil {
							continue
						}
						plain := doRead(text, 0, nil, io.EOF, "nil", op)
						for _, preset := range []string{"in", "out"} {
							withPreset := doRead(text, 0, nil, io.EOF, preset, op)
							o.Case("prop:options-routes-agree", sameOr(verdictOnly(plain), verdictOnly(withPreset)), text, preset, optsArg(op), "reader")
						}
						// SetValidation twice: the later options are the ones in force
						if m, _ := readText(texts[tn], nil); m != nil {
							w := m.ToWire()
							if dropMarker == "{1500}" {
								w.SenderSupplied = nil
							}
							if dropMarker == "{1520}" {
								w.InputMessageAccountabilityData = nil
							}
							// a preset applied to a file that already holds options changes AllowMissingSenderSupplied only
							for _, preset := range []string{"in", "out"} {
								f1 := &wire.File{FEDWireMessage: *w}
								f1.FEDWireMessage.ValidateOptions = nil
								f1.SetValidation(&wire.ValidateOpts{SkipMandatoryIMAD: op.SkipMandatoryIMAD, AllowMissingSenderSupplied: op.AllowMissingSenderSupplied})
								if preset == "in" {
									wire.IncomingFile()(f1)
								} else {
									wire.OutgoingFile()(f1)
								}
								f2 := &wire.File{FEDWireMessage: *w}
								f2.FEDWireMessage.ValidateOptions = nil
								f2.SetValidation(&wire.ValidateOpts{SkipMandatoryIMAD: op.SkipMandatoryIMAD, AllowMissingSenderSupplied: preset == "in"})
								a, b := fmt.Sprint(f1.Validate() == nil), fmt.Sprint(f2.Validate() == nil)
								o.Case("prop:options-routes-agree", sameOr(b, a), tn, dropMarker, preset, optsArg(op), "preset-after-options")
							}
							for _, first := range optionSets() {
								f1 := &wire.File{FEDWireMessage: *w}
								f1.FEDWireMessage.ValidateOptions = nil
								f1.SetValidation(first)
								f1.SetValidation(op)
								f2 := &wire.File{FEDWireMessage: *w}
								f2.FEDWireMessage.ValidateOptions = nil
								f2.SetValidation(op)
								a, b := fmt.Sprint(f1.Validate() == nil), fmt.Sprint(f2.Validate() == nil)
								o.Case("prop:options-routes-agree", sameOr(b, a), tn, dropMarker, optsArg(first), optsArg(op), "set-validation-twice")
							}
						}
					}
				}
			}
		}
		// values with consecutive blanks inside, in every element wide enough, and near-maximal {8200} addenda
		for _, sn := range sortedSampleNames(samples) {
			base := samples[sn]
			for _, k := range sortedKeys(base.Tags) {
				tt := tagByName[k]
				for i := range tt.Elems {
					if w := widths(tt)[i]; w >= 8 && (thorough || (i+len(k))%3 == 0) {
						m := base.Clone()
						m.Tags[k] = tt.New(tt.Marker(base.Tags[k]), setAt(tt.Vals(base.Tags[k]), i, "AB  CD"))
						if m.Validate() == "ok" {
							msgs = append(msgs, m)
						}
					}
				}
			}
			if p, has := base.Tags["UnstructuredAddenda"]; has {
				tt := tagByName["UnstructuredAddenda"]
				for _, al := range []int{8994, 8995, 9000, 9500, 9999} {
					m := base.Clone()
					m.Tags["UnstructuredAddenda"] = tt.New(tt.Marker(p), []string{fmt.Sprintf("%04d", al), strings.Repeat("A", al)})
					if m.Validate() == "ok" {
						msgs = append(msgs, m)
					}
				}
				// a declared length far above the text held: the fill is as long as the difference (129 .. 9979 blanks)
				for _, al := range []int{149, 300, 1100, 2068, 2069, 2500, 4200, 9000, 9999} {
					m := base.Clone()
					m.Tags["UnstructuredAddenda"] = tt.New(tt.Marker(p), []string{fmt.Sprintf("%04d", al), "Twenty characters ab"})
					if m.Validate() == "ok" {
						msgs = append(msgs, m)
					}
				}
			}
		}
		// sparse tails: of the last elements of a tag only one is kept (optional trailing blocks, early returns);
		// every tag type, placed in the first sample message that accepts it
		sparseNames := sortedSampleNames(samples)
		for _, tt := range tagTypes {
			bl := bases[tt.Name]
			if len(bl) == 0 {
				continue
			}
			placed := false
			seenSparse := map[string]bool{}
			for _, b := range bl {
				vals := b.vals
				if len(vals) < 4 {
					continue
				}
				for tail := 2; tail <= 8 && tail < len(vals); tail++ {
					from := len(vals) - tail
					for keep := from; keep < len(vals); keep++ {
						if vals[keep] == "" {
							continue
						}
						nv := append([]string{}, vals...)
						for j := from; j < len(vals); j++ {
							if j != keep {
								nv[j] = ""
							}
						}
						if k := strings.Join(nv, "\x00"); seenSparse[k] {
							continue
						} else {
							seenSparse[k] = true
						}
						for _, sn := range sparseNames {
							m := samples[sn].Clone()
							m.Tags[tt.Name] = tt.New(b.marker, nv)
							if m.Validate() == "ok" {
								msgs = append(msgs, m)
								placed = true
								break
							}
						}
					}
				}
			}
			// sparse heads and holes: the first 1..4 elements emptied, and every single element emptied (blank codes
			// in front of a tag are written as nothing in the variable layout but read by position)
			for _, b := range bl {
				vals := b.vals
				var cands [][]string
				for head := 1; head <= 4 && head < len(vals); head++ {
					nv := append([]string{}, vals...)
					for j := 0; j < head; j++ {
						nv[j] = ""
					}
					cands = append(cands, nv)
				}
				for j := range vals {
					if vals[j] != "" {
						cands = append(cands, setAt(vals, j, ""))
					}
				}
				for _, nv := range cands {
					if k := strings.Join(nv, "\x00"); seenSparse[k] {
						continue
					} else {
						seenSparse[k] = true
					}
					for _, sn := range sparseNames {
						m := samples[sn].Clone()
						m.Tags[tt.Name] = tt.New(b.marker, nv)
						if m.Validate() == "ok" {
							msgs = append(msgs, m)
							break
						}
					}
				}
			}
			if !placed && os.Getenv("VERIF_DEBUG") != "" {
				fmt.Fprintln(os.Stderr, "sparse tails: no valid message for", tt.Name)
			}
		}
		// C10 / C04: framing and non-FAIM characters in every element of every tag, inside a whole message:
		// whatever validation still accepts must be written and read back
		hostile := []string{" ", "  ", "*", "{", "}", "\n", "A*B", "A{1510}B", "A\nB", "A\r\nB", "\xc3\xa9", "A\tB", "%", "5%d", "100%", "%s%v", "A%%B"}
		snames := sortedSampleNames(samples)
		for _, tt := range tagTypes {
			bl := bases[tt.Name]
			if len(bl) == 0 {
				continue
			}
			b := bl[len(bl)-1]
			for i := range tt.Elems {
				w := widths(tt)[i]
				derived := []string{" " + b.vals[i], b.vals[i] + " ", "\t" + b.vals[i], "\u00a0" + b.vals[i], "  " + b.vals[i] + "  ", strings.ToLower(b.vals[i])}
				if w > 0 {
					// over-width values whose first w characters are degenerate (validation sees the whole value, the writer
					// emits the first w characters only)
					derived = append(derived, strings.Repeat("0", w)+b.vals[i], strings.Repeat(".", w)+b.vals[i], strings.Repeat(",", w)+b.vals[i], b.vals[i]+b.vals[i]+b.vals[i])
				}
				for hi, h := range append(append([]string{}, hostile...), derived...) {
					if hi < len(hostile) && w >= 0 && len(h) > w {
						continue
					}
					if hi >= len(hostile) && b.vals[i] == "" {
						continue
					}
					for _, sn := range snames {
						m := samples[sn].Clone()
						m.Tags[tt.Name] = tt.New(b.marker, setAt(b.vals, i, h))
						if m.Validate() == "ok" {
							msgs = append(msgs, m)
							break
						}
					}
				}
				// framing characters inside otherwise well-formed structured values (mailbox, URL, date-like), with every
				// code-like element of the same tag set to every code of the same length: a validator that depends on a code
				// of its tag is reached whichever code the base message happens to hold
				for _, h := range []string{"a*b@example.com", "A*B <x@example.com>", "ap*{3320}X@example.com", "http://x.example/*", "x{1510}@example.com"} {
					if w >= 0 && len(h) > w {
						continue
					}
					for j := range tt.Elems {
						if j == i || !codeLike(b.vals[j]) {
							continue
						}
						for _, code := range valuePool {
							if len(code) != len(b.vals[j]) || !codeLike(code) || code == b.vals[j] {
								continue
							}
							vals := setAt(setAt(b.vals, i, h), j, code)
							inMessage := false
							for _, sn := range snames {
								m := samples[sn].Clone()
								m.Tags[tt.Name] = tt.New(b.marker, vals)
								if m.Validate() == "ok" {
									msgs = append(msgs, m)
									inMessage = true
									break
								}
							}
							// no sample message takes this tag: the tag on its own - what its Validate accepts, its own Format
							// and Parse give back (the four FED-appended tags have no validation: recorded finding, left out)
							if fed := map[string]bool{"MessageDisposition": true, "ReceiptTimeStamp": true, "OutputMessageAccountabilityData": true, "ErrorWire": true}; !inMessage && !fed[tt.Name] {
								p := tt.New(b.marker, vals)
								if tt.Validate(p) == "ok" {
									for _, variable := range []bool{false, true} {
										f := tt.Format(p, variable)
										v := "same"
										if !strings.HasPrefix(f, "ok:") {
											v = "differ:tag-level: a valid tag is not formatted: " + f
										} else if res, _ := tt.Parse(string(unhexs(f[3:]))); res != "ok:"+encVals(b.marker, vals) {
											v = fmt.Sprintf("differ:tag-level: %s validates with %q next to code %s, but its own text is read back as %s", tt.Name, h, code, short(res))
										}
										o.Case("prop:valid-reads-back", v, "tag-level", tt.Name, h, code, fmt.Sprint(variable))
									}
								}
							}
						}
					}
				}
			}
		}
		for _, m := range msgs {
			canon := m.canonical()
			note := framingIn(m)
			for _, l := range layouts6 {
				vs := "0"
				if l.v {
					vs = "1"
				}
				res, _ := m.Write(l.v, l.nl)
				args := append([]string{vs, l.nl}, m.Args()...)
				if !strings.HasPrefix(res, "ok:") {
					o.Case("prop:valid-writes", "differ:"+res, args...)
					continue
				}
				o.Case("prop:valid-writes", "same", args...)
				text := string(unhexs(res[3:]))
				// C07 shape facts
				if probs := textShape(text, l.nl, m, l.v); len(probs) == 0 {
					o.Case("prop:text-shape", "same", args...)
				} else {
					for pi, pr := range probs {
						o.Case("prop:text-shape", annotate(pr, note), append(append([]string{}, args...), fmt.Sprint("problem ", pi))...)
					}
				}
				// C10: whatever validation accepted, the reader accepts back
				back, rres := readText(text, m.Opts)
				if back == nil {
					o.Case("prop:valid-reads-back", annotate("differ:"+short(rres), note), args...)
					continue
				}
				o.Case("prop:valid-reads-back", "same", args...)
				// C01: canonical => same message
				if canon {
					if msgKey(back) == msgKey(m) {
						o.Case("prop:write-read", "same", args...)
					} else {
						o.Case("prop:write-read", annotate("differ:"+firstDiff(m, back), note), args...)
					}
				}
				// C02: read -> write -> read stable, second write byte-identical
				res2, _ := back.Write(l.v, l.nl)
				if !strings.HasPrefix(res2, "ok:") {
					o.Case("prop:read-write-read", annotate("differ:rewrite-refused", note), args...)
					continue
				}
				text2 := string(unhexs(res2[3:]))
				back2, _ := readText(text2, m.Opts)
				switch {
				case back2 == nil:
					o.Case("prop:read-write-read", annotate("differ:reread-failed", note), args...)
				case msgKey(back2) != msgKey(back):
					o.Case("prop:read-write-read", annotate("differ:"+firstDiff(back, back2), note), args...)
				default:
					res3, _ := back2.Write(l.v, l.nl)
					if res3 != res2 {
						o.Case("prop:read-write-read", "differ:second-write-bytes", args...)
					} else {
						o.Case("prop:read-write-read", "same", args...)
					}
				}
			}
		}
		// C02 on texts: fill blanks of the sample texts replaced by other white space (CR, TAB, VT, FF, NEL, NBSP) at
		// the start and the end of every run of blanks: whatever the reader still accepts must survive
		// write -> read in every layout
		{
			texts := sampleTexts()
			for ti, tn := range sortedTextNames(texts) {
				if !thorough && ti%3 != 0 && !strings.Contains(texts[tn], "{11") {
					continue
				}
				segs := splitSegments(texts[tn])
				for si, sg := range segs {
					if !thorough && ti%3 != 0 && !strings.HasPrefix(sg, "{11") {
						continue
					}
					var pos []int
					fixedPos := !strings.Contains(sg, "*") && len(sg) <= 60 // a fixed-position tag: every character is tried
					for p := 6; p < len(sg); p++ {
						if fixedPos || p+1 == len(sg) || (sg[p] == ' ' && (sg[p+1] != ' ' || sg[p-1] != ' ')) {
							pos = append(pos, p)
						}
					}
					for _, p := range pos {
						fills := []string{"\r", "\t", "\v", "\f", "\u0085", "\u00a0"}
						if strings.HasPrefix(sg, "{2000}") {
							fills = append(fills, " ", "+", "-", ".", ",", "\u0663", "\uff11", "\u2003", "\u3000", "e")
						}
						for _, ws := range fills {
							for _, joiner := range []string{"\n", ""} {
								alt := append([]string{}, segs...)
								alt[si] = sg[:p] + ws + sg[p+1:]
								text := strings.Join(alt, joiner)
								first, _ := readText(text, nil)
								if first == nil {
									continue
								}
								res := "same"
								for _, l := range layouts6 {
									w1, _ := first.Write(l.v, l.nl)
									if !strings.HasPrefix(w1, "ok:") {
										res = fmt.Sprintf("differ:the accepted text cannot be written (variable=%v newline=%q)", l.v, l.nl)
										break
									}
									second, _ := readText(string(unhexs(w1[3:])), first.Opts)
									if second == nil {
										res = fmt.Sprintf("differ:the written text cannot be read back (variable=%v newline=%q)", l.v, l.nl)
										break
									}
									if msgKey(second) != msgKey(first) {
										res = fmt.Sprintf("differ:%s (variable=%v newline=%q)", firstDiff(first, second), l.v, l.nl)
										break
									}
								}
								o.Case("prop:read-write-read", annotate(res, framingIn(first)), tn, fmt.Sprint(si), fmt.Sprint(p), ws, joiner, "white-space-fill")
								// C19: an accepted {2000} holds exactly the amount written in the text - twelve digits, none cut, none
								// re-interpreted
								if strings.HasPrefix(sg, "{2000}") {
									ar := "same"
									body := alt[si][6:]
									if a, has := first.Tags["Amount"]; !has {
										ar = "differ:the text was accepted without its {2000} amount"
									} else if got := tagByName["Amount"].Vals(a)[0]; got != body {
										ar = fmt.Sprintf("differ:the text holds %q in {2000}, the accepted message holds the amount %q", body, got)
									}
									o.Case("prop:amount-as-read", ar, tn, fmt.Sprint(p), ws, joiner)
								}
							}
						}
					}
				}
			}
		}
		// C09 on texts: chunkings, separators, permutations
		texts := sampleTexts()
		var names []string
		for n := range texts {
			names = append(names, n)
		}
		sort.Strings(names)
		for _, n := range names {
			text := texts[n]
			base := doRead(text, 0, nil, io.EOF, "nil", nil)
			var ks []int
			for _, k := range []int{1, 2, 3, 5, 6, 7, 11, 64, 4095, 4096, 4097} {
				ks = append(ks, k)
			}
			stride := len(text)/16 + 1
			if thorough {
				stride = len(text)/400 + 1
			}
			for k := 1; k <= len(text); k += stride {
				ks = append(ks, k)
			}
			for _, k := range ks {
				r := doRead(text, k, nil, io.EOF, "nil", nil)
				o.Case("prop:chunk-agree", sameOr(base, r), text, fmt.Sprint(k))
			}
			segs := splitSegments(text)
			if len(segs) == 0 {
				continue
			}
			// chunk boundaries inside and around every separator, for each separator style
			for _, sep := range []string{"\r\n", "", "\n\n"} {
				t2 := strings.Join(segs, sep) + sep
				b2 := doRead(t2, 0, nil, io.EOF, "nil", nil)
				for _, k := range []int{1, 2, 3, 5, 7, 64} {
					o.Case("prop:chunk-agree", sameOr(b2, doRead(t2, k, nil, io.EOF, "nil", nil)), t2, fmt.Sprint(k))
				}
				pos := 0
				for si, sg := range segs {
					pos += len(sg)
					if si%3 == 0 || thorough {
						for d := -1; d <= len(sep)+1; d++ {
							if c := pos + d; c > 0 && c < len(t2) {
								o.Case("prop:chunk-agree", sameOr(b2, doRead(t2, 0, []int{c}, io.EOF, "nil", nil)), t2, fmt.Sprintf("@%d", c))
							}
						}
					}
					pos += len(sep)
				}
			}
			ref := doRead(strings.Join(segs, "\n"), 0, nil, io.EOF, "nil", nil)
			for _, sep := range []string{"", "\n", "\r\n", "\n\n", "\r\n\r\n"} {
				r := doRead(strings.Join(segs, sep), 0, nil, io.EOF, "nil", nil)
				o.Case("prop:separator-agree", sameOr(ref, r), strings.Join(segs, "\x1f"), sep)
			}
			np := 6
			if thorough {
				np = 60
			}
			if !strings.HasPrefix(ref, "ok|") {
				np = 0 // order independence is claimed for accepted texts (error entries carry line numbers)
			}
			for i := 0; i < np; i++ {
				perm := append([]string{}, segs...)
				for j := len(perm) - 1; j > 0; j-- {
					k := rng.Intn(j + 1)
					perm[j], perm[k] = perm[k], perm[j]
				}
				r := doRead(strings.Join(perm, "\n"), 0, nil, io.EOF, "nil", nil)
				o.Case("prop:order-agree", sameOr(ref, r), strings.Join(perm, "\x1f"))
			}
			// a near-maximal {8200} segment: its position among the segments and the separator must not matter
			if strings.Contains(n, "UnstructuredAddenda") {
				var rest []string
				for _, sg := range segs {
					if !strings.HasPrefix(sg, "{8200}") {
						rest = append(rest, sg)
					}
				}
				lens := []int{9990, 9994, 9996, 9999}
				if thorough {
					lens = []int{9000, 9985, 9990, 9991, 9992, 9993, 9994, 9995, 9996, 9997, 9998, 9999}
				}
				for _, al := range lens {
					big := fmt.Sprintf("{8200}%04d%s", al, strings.Repeat("A", al))
					last := append(append([]string{}, rest...), big)
					refBig := doRead(strings.Join(last, "\n"), 0, nil, io.EOF, "nil", nil)
					first := append([]string{big}, rest...)
					mid := append(append(append([]string{}, rest[:len(rest)/2]...), big), rest[len(rest)/2:]...)
					for _, sep := range []string{"", "\n", "\r\n"} {
						for pi, perm := range [][]string{last, first, mid} {
							r := doRead(strings.Join(perm, sep), 0, nil, io.EOF, "nil", nil)
							if strings.HasPrefix(refBig, "ok|") {
								o.Case("prop:order-agree", sameOr(refBig, r), fmt.Sprint("long-addenda ", al, " position ", pi), sep)
							}
						}
						r := doRead(strings.Join(last, sep)+sep, 0, nil, io.EOF, "nil", nil)
						o.Case("prop:separator-agree", sameOr(refBig, r), fmt.Sprint("long-addenda ", al, " trailing separator"), sep)
					}
				}
			}
			// C15: corrupt subsets of segments, compare reported (line, record) with the per-segment verdicts
			ops := []func(string) string{
				func(s string) string { return s + "\x01" },
				func(s string) string { return s[:len(s)-1] + "*x" },
				func(s string) string { return "{9999}" + s[6:] },
				func(s string) string { return s[:6] },
				func(s string) string {
					if i := strings.LastIndex(s, "*"); i > 6 {
						return s[:i] + s[i+1:]
					}
					return s + "{"
				},
			}
			nsub := 10
			if thorough {
				nsub = 80
			}
			for i := 0; i < len(segs)+nsub; i++ {
				cor := append([]string{}, segs...)
				var idx []int
				if i < len(segs) {
					idx = []int{i}
				} else {
					for j := 0; j < 2+rng.Intn(2); j++ {
						idx = append(idx, rng.Intn(len(segs)))
					}
				}
				for _, j := range idx {
					cor[j] = ops[rng.Intn(len(ops))](segs[j])
				}
				for _, sep := range []string{"\n", ""} {
					if sep == "" && strings.Contains(strings.Join(cor, ""), "{9999}") {
						// an unknown marker glued without separator is still one segment per marker: fine
					}
					o.Case("prop:error-positions", errorPositions(cor, sep), strings.Join(cor, "\x1f"), sep)
				}
			}
		}
	}
}

func max0(n int) int {
	if n < 0 {
		return 0
	}
	return n
}

func sameOr(a, b string) string {
	if a == b {
		return "same"
	}
	return "differ:" + short(a) + " / " + short(b)
}

func short(s string) string {
	if len(s) > 120 {
		return s[:120]
	}
	return s
}

func firstDiff(a, b *Msg) string {
	for k, p := range a.Tags {
		q, ok := b.Tags[k]
		if !ok {
			return k + " missing"
		}
		tt := tagByName[k]
		va, vb := tt.Vals(p), tt.Vals(q)
		for i := range va {
			if va[i] != vb[i] {
				return fmt.Sprintf("%s.%s %q -> %q", k, tt.Elems[i].Path, va[i], vb[i])
			}
		}
	}
	for k := range b.Tags {
		if _, ok := a.Tags[k]; !ok {
			return k + " extra"
		}
	}
	return "markers"
}

// textShape checks the C07 framing facts of an emitted text: one segment per present tag, own marker
// first, markers strictly ascending, separated and terminated by exactly nl, no { } CR LF inside a
// segment after its marker.
// textShape lists every way in which the text is not a well-formed rendering of the message (empty = well formed)
func textShape(text, nl string, m *Msg, variable bool) []string {
	var problems []string
	if !strings.HasSuffix(text, nl) {
		return []string{"differ:no-trailing-separator"}
	}
	body := strings.TrimSuffix(text, nl)
	var segs []string
	if nl == "" {
		segs = splitSegments(body)
		if strings.Join(segs, "") != body {
			problems = append(problems, "differ:text-before-first-marker")
		}
	} else {
		segs = strings.Split(body, nl)
	}
	if len(segs) != len(m.Tags) {
		problems = append(problems, fmt.Sprintf("differ:%d segments for %d tags", len(segs), len(m.Tags)))
	}
	prev := ""
	want := map[string]bool{}
	for k := range m.Tags {
		want[tagByName[k].OwnMarker()] = true
	}
	for _, s := range segs {
		if len(s) < 6 || !want[s[:6]] {
			problems = append(problems, "differ:segment-without-own-marker "+short(s))
			continue
		}
		if s[:6] <= prev {
			problems = append(problems, "differ:markers-not-ascending")
		}
		prev = s[:6]
		if strings.ContainsAny(s[6:], "{}\r\n") {
			problems = append(problems, "differ:framing-character-in-segment "+short(s))
		}
		// fixed layout: a tag's segment length is constant ({8200}: marker + 4 + the declared addenda length)
		if !variable {
			if s[:6] == "{8200}" {
				var al int
				if len(s) >= 10 {
					fmt.Sscanf(s[6:10], "%d", &al)
				}
				if len(s) != 10+al {
					problems = append(problems, fmt.Sprintf("differ:{8200} declares %d addenda characters but the segment holds %d", al, len(s)-10))
				}
			} else if want := fixedSegmentLen(s[:6]); want > 0 && len(s) != want {
				problems = append(problems, fmt.Sprintf("differ:fixed-width segment %s has length %d, other instances of the tag have %d", s[:6], len(s), want))
			}
		}
	}
	return problems
}

var fixedLenCache = map[string]int{}

// fixedSegmentLen: the length of the tag's fixed-layout segment for a reference value (all elements empty
// except what Format itself supplies); 0 when the tag has no fixed layout of its own
func fixedSegmentLen(marker string) int {
	if n, ok := fixedLenCache[marker]; ok {
		return n
	}
	n := 0
	for _, tt := range tagTypes {
		if tt.OwnMarker() == marker {
			vals := make([]string, len(tt.Elems))
			for i := range vals {
				vals[i] = "A"
			}
			if r := tt.Format(tt.New(marker, vals), false); strings.HasPrefix(r, "ok:") {
				n = len(unhexs(r[3:]))
			}
		}
	}
	fixedLenCache[marker] = n
	return n
}

// errorPositions reads the joined segments and compares the reader's (line, record) list with the
// verdicts of parsing and validating each segment on its own.
func errorPositions(segs []string, sep string) string {
	text := strings.Join(segs, sep)
	// the reader re-splits at markers: compute the segments it will see
	seen := splitSegments(text)
	type ent struct {
		line int
		rec  string
	}
	var want []ent
	for i, s := range seen {
		var tt *TagType
		for _, t := range tagTypes {
			if t.OwnMarker() == s[:6] {
				tt = t
			}
		}
		if tt == nil {
			want = append(want, ent{i + 1, "invalid-tag:" + s[:6]})
			continue
		}
		res, p := tt.Parse(s)
		if !strings.HasPrefix(res, "ok:") {
			want = append(want, ent{i + 1, strings.ToLower(tt.Name)})
			continue
		}
		if tt.Validate(p) != "ok" {
			want = append(want, ent{i + 1, strings.ToLower(tt.Name)})
		}
	}
	res := doRead(text, 0, nil, io.EOF, "nil", nil)
	var got []ent
	if strings.HasPrefix(res, "err|") {
		for _, e := range strings.Split(res[4:], "|") {
			f := strings.Split(e, ":")
			switch f[0] {
			case "P":
				var ln int
				fmt.Sscan(f[1], &ln)
				got = append(got, ent{ln, strings.ToLower(f[2])})
			case "T":
				got = append(got, ent{0, "invalid-tag:" + string(unhexs(f[1]))})
			case "V":
				got = append(got, ent{-1, "file-validation"})
			default:
				got = append(got, ent{-2, e})
			}
		}
	}
	if len(want) == 0 {
		// all segments individually fine: success, or a single file-validation failure
		if res[:2] == "ok" || (len(got) == 1 && got[0].rec == "file-validation") {
			return "same"
		}
		return "differ:healthy segments but " + short(res)
	}
	if len(got) != len(want) {
		return fmt.Sprintf("differ:%d entries for %d bad segments: %s", len(got), len(want), short(res))
	}
	for i := range want {
		if want[i].rec != got[i].rec {
			return fmt.Sprintf("differ:entry %d record %s vs %s", i, got[i].rec, want[i].rec)
		}
		if got[i].line != 0 && got[i].line != want[i].line {
			return fmt.Sprintf("differ:entry %d line %d vs %d", i, got[i].line, want[i].line)
		}
	}
	return "same"
}

// framingIn names the first element of the message that holds a framing character ('*', '{', '}', a line
// break) or a byte outside printable ASCII - values that element validation is expected to have rejected.
func framingIn(m *Msg) string {
	for _, k := range sortedKeys(m.Tags) {
		tt := tagByName[k]
		for i, v := range tt.Vals(m.Tags[k]) {
			if v != "" && strings.TrimSpace(v) == "" && !(k == "SenderSupplied" && tt.Elems[i].Path == "MessageDuplicationCode") {
				return "blank-only value " + k + "." + tt.Elems[i].Path
			}
			for j := 0; j < len(v); j++ {
				if c := v[j]; c == '*' || c == '{' || c == '}' || c < 0x20 || c > 0x7e {
					return k + "." + tt.Elems[i].Path
				}
			}
		}
	}
	return ""
}

func annotate(res, note string) string {
	if note == "" || !strings.HasPrefix(res, "differ") {
		return res
	}
	if strings.HasPrefix(note, "blank-only value ") {
		return res + " [" + note + "]"
	}
	return res + " [non-FAIM character in " + note + "]"
}

func sortedTextNames(m map[string]string) []string {
	var ks []string
	for k := range m {
		ks = append(ks, k)
	}
	sort.Strings(ks)
	return ks
}

// verdictOnly reduces a read result to accepted / rejected
func verdictOnly(res string) string {
	if strings.HasPrefix(res, "ok|") {
		return "accepted"
	}
	return "rejected"
}

func codeLike(v string) bool {
	if len(v) < 2 || len(v) > 4 {
		return false
	}
	for i := 0; i < len(v); i++ {
		if v[i] < 'A' || v[i] > 'Z' {
			return false
		}
	}
	return true
}
