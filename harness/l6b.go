//go:build verif

package main

import (
	"encoding/hex"
	"encoding/json"
	"fmt"
	"sort"
	"strings"
	"time"

	"github.com/anishathalye/porcupine"
	"github.com/moov-io/wire"
)

// ---- request builders shared by the scheduled and the concurrent streams ----
func opCreateText(txt, sk, al string) httpOp {
	var q []string
	if sk != "" {
		q = append(q, "skipMandatoryIMAD="+sk)
	}
	if al != "" {
		q = append(q, "allowMissingSenderSupplied="+al)
	}
	return httpOp{Op: "create", CT: "text/plain", Query: strings.Join(q, "&"), Body: hex.EncodeToString([]byte(txt)),
		margs: []string{"ct", optQ(sk), optQ(al), txt}}
}

func opCreateJSON(id string, m *Msg) httpOp {
	ma := append([]string{"cj", optQ(id)}, m.Args()...)
	ma = append(ma, ";")
	return httpOp{Op: "create", CT: "application/json", Body: hex.EncodeToString([]byte(fileJSON(id, m))), margs: ma}
}

func opAdd(id string, m *Msg) httpOp {
	ma := append([]string{"a", id}, m.Args()...)
	ma = append(ma, ";")
	return httpOp{Op: "add", ID: id, CT: "application/json", Body: hex.EncodeToString([]byte(msgJSON(m))), margs: ma}
}

func opSimple(kind, id string) httpOp {
	switch kind {
	case "get":
		return httpOp{Op: "get", ID: id, margs: []string{"g", id}}
	case "list":
		return httpOp{Op: "list", margs: []string{"l"}}
	case "contents":
		return httpOp{Op: "contents", ID: id, margs: []string{"c", id, "~", "~"}}
	case "validate":
		return httpOp{Op: "validate", ID: id, margs: []string{"v", id}}
	case "delete":
		return httpOp{Op: "delete", ID: id, margs: []string{"d", id}}
	case "badjson":
		return httpOp{Op: "create", CT: "application/json", Body: hex.EncodeToString([]byte("{not json")), margs: []string{"cx"}}
	}
	panic(kind)
}

// canonical rendering of one response (same format as the model's resp_str)
func renderRes(op httpOp, r httpRes, sym func(string) string) string {
	body, _ := hex.DecodeString(r.Body)
	s := fmt.Sprint(r.Status)
	switch {
	case op.Op == "create" && r.Status == 201:
		s += ":" + sym(r.NewID)
	case (op.Op == "get" || op.Op == "add") && r.Status == 200:
		id, ms := msgOfFileJSON(body)
		s += ":" + sym(id) + ":" + ms
	case op.Op == "list" && r.Status == 200:
		var ss []string
		for _, x := range r.IDs {
			ss = append(ss, sym(x))
		}
		sort.Strings(ss)
		s += ":" + r.Count + ":" + strings.Join(ss, ",")
		if r.Count != fmt.Sprint(len(r.IDs)) {
			s += ":count-header-mismatch"
		}
	case op.Op == "contents" && r.Status == 200:
		s += ":" + hx(string(body))
	}
	return s
}

func renderStore(files []string, sym func(string) string) string {
	var items []string
	for _, h := range files {
		b, _ := hex.DecodeString(h)
		id, ms := msgOfFileJSON(b)
		items = append(items, sym(id)+":"+ms)
	}
	sort.Strings(items)
	return strings.Join(items, ",")
}

func permutations(n int) [][]int {
	if n == 0 {
		return [][]int{{}}
	}
	var out [][]int
	for _, p := range permutations(n - 1) {
		for i := 0; i <= len(p); i++ {
			q := append(append(append([]int{}, p[:i]...), n-1), p[i:]...)
			out = append(out, q)
		}
	}
	return out
}

// every order in which n requests can take (up to) two repository steps each
func orders(n int) []string {
	var out []string
	var rec func(rem []int, cur string)
	rec = func(rem []int, cur string) {
		done := true
		for i, r := range rem {
			if r > 0 {
				done = false
				rem[i]--
				rec(rem, cur+fmt.Sprint(i))
				rem[i]++
			}
		}
		if done {
			out = append(out, cur)
		}
	}
	rem := make([]int, n)
	for i := range rem {
		rem[i] = 2
	}
	rec(rem, "")
	return out
}

type kindOp struct {
	name string
	op   httpOp
}

func init() {
	// C16: every interleaving of the repository steps of every 2- (and 3-) request combination
	streams["l6-sched"] = func(o *Out, rng *Rng, thorough bool) {
		samples := loadSamples()
		texts := sampleTexts()
		m0 := samples["fedWireMessage-BankTransfer.json"]
		m1 := samples["fedWireMessage-CustomerTransfer.json"]
		m2 := samples["fedWireMessage-FEDFundsSold.json"]
		if m0 == nil || m1 == nil || m2 == nil {
			var names []string
			for n := range samples {
				names = append(names, n)
			}
			sort.Strings(names)
			if len(names) < 3 {
				o.Case("http:harness", "failed:not enough samples", "sched")
				return
			}
			m0, m1, m2 = samples[names[0]], samples[names[1]], samples[names[2]]
		}
		bad := m1.Clone()
		delete(bad.Tags, "Amount")
		txt := texts["fedWireMessage-BankTransfer.txt"]
		kinds := []kindOp{
			{"createText()", opCreateText(txt, "", "")},
			{"createJSON(A)", opCreateJSON("A", m1)},
			{"createJSON2(A)", opCreateJSON("A", m2)},
			{"createJSONinvalid(A)", opCreateJSON("A", bad)},
			{"get(A)", opSimple("get", "A")},
			{"list()", opSimple("list", "")},
			{"contents(A)", opSimple("contents", "A")},
			{"validate(A)", opSimple("validate", "A")},
			{"add(A)", opAdd("A", m2)},
			{"addinvalid(A)", opAdd("A", bad)},
			{"delete(A)", opSimple("delete", "A")},
			{"get(B)", opSimple("get", "B")},
			{"createJSON(B)", opCreateJSON("B", m2)},
		}
		setups := [][]httpOp{{}, {opCreateJSON("A", m0)}}
		type combo struct {
			setup int
			ks    []int
		}
		var combos []combo
		for s := range setups {
			for a := range kinds {
				for b := a; b < len(kinds); b++ {
					combos = append(combos, combo{s, []int{a, b}})
				}
			}
		}
		// three requests: the state-changing kinds and one observer
		kindIdx := func(names ...string) []int {
			var out []int
			for _, n := range names {
				for i, k := range kinds {
					if k.name == n {
						out = append(out, i)
					}
				}
			}
			return out
		}
		tri := kindIdx("createJSON(A)", "createJSON2(A)", "get(A)", "list()", "add(A)", "delete(A)")
		if thorough {
			tri = kindIdx("createText()", "createJSON(A)", "createJSON2(A)", "get(A)", "list()", "validate(A)", "add(A)", "addinvalid(A)", "delete(A)")
		}
		for s := range setups {
			for _, a := range tri {
				for _, b := range tri {
					for _, c := range tri {
						if a <= b && b <= c {
							combos = append(combos, combo{s, []int{a, b, c}})
						}
					}
				}
			}
		}
		type job struct {
			c     combo
			order string
			idx   int // script index of the scheduled run
			perms []int
		}
		var scripts []map[string]interface{}
		var jobs []job
		seqIdx := map[string]int{}
		mkOps := func(c combo, perm []int) []httpOp {
			var ops []httpOp
			for _, s := range setups[c.setup] {
				s.Client = -1
				ops = append(ops, s)
			}
			for _, i := range perm {
				k := kinds[c.ks[i]].op
				k.Client = i
				ops = append(ops, k)
			}
			return ops
		}
		for _, c := range combos {
			n := len(c.ks)
			ident := make([]int, n)
			for i := range ident {
				ident[i] = i
			}
			ords := orders(n)
			if n == 3 && !thorough {
				// a spread of the 90 orders
				var sel []string
				for i := 0; i < len(ords); i += 7 {
					sel = append(sel, ords[i])
				}
				ords = sel
			}
			var permIdx []int
			for _, p := range permutations(n) {
				key := fmt.Sprint(c.setup, c.ks, p)
				if _, ok := seqIdx[key]; !ok {
					seqIdx[key] = len(scripts)
					scripts = append(scripts, map[string]interface{}{"mode": "seq", "ops": mkOps(c, p), "perm": p})
				}
				permIdx = append(permIdx, seqIdx[key])
			}
			for _, od := range ords {
				var order []int
				for _, ch := range od {
					order = append(order, int(ch-'0'))
				}
				jobs = append(jobs, job{c, od, len(scripts), permIdx})
				scripts = append(scripts, map[string]interface{}{"mode": "sched", "ops": mkOps(c, ident), "order": order})
			}
		}
		results, err := runServerScripts(scripts, false)
		if err != nil || len(results) != len(scripts) {
			o.Case("http:harness", "failed:"+strings.ReplaceAll(tail(fmt.Sprint(err), 400), "\t", " "), "sched")
			return
		}
		// outcome of a script: responses by original request index, then the store
		outcome := func(si int, c combo, perm []int, withBodies bool) string {
			var rs []httpRes
			json.Unmarshal(results[si]["results"], &rs)
			var created []string
			json.Unmarshal(results[si]["created"], &created)
			var files []string
			json.Unmarshal(results[si]["final_files"], &files)
			ns := len(setups[c.setup])
			isSeq := len(rs) == ns+len(perm)
			byReq := make([]httpRes, len(perm))
			for pos, i := range perm {
				if isSeq {
					byReq[i] = rs[ns+pos]
				} else {
					byReq[i] = rs[pos]
				}
			}
			sym := func(real string) string {
				for _, x := range []string{"A", "B", "C"} {
					if real == x {
						return x
					}
				}
				for i, r := range byReq {
					if r.NewID == real && real != "" {
						return fmt.Sprintf("$c%d", i)
					}
				}
				for k, cr := range created {
					if cr == real {
						return fmt.Sprintf("$%d", k)
					}
				}
				return "?" + real
			}
			var parts []string
			for i, r := range byReq {
				p := renderRes(kinds[c.ks[i]].op, r, sym)
				if withBodies && r.Status == 201 { // a create answers with the file it stored: its own content
					body, _ := hex.DecodeString(r.Body)
					_, ms := msgOfFileJSON(body)
					p += ":" + ms
				}
				parts = append(parts, p)
			}
			return strings.Join(parts, "|") + "||" + renderStore(files, sym)
		}
		for _, j := range jobs {
			n := len(j.c.ks)
			ident := make([]int, n)
			for i := range ident {
				ident[i] = i
			}
			got := outcome(j.idx, j.c, ident, false)
			gotFull := outcome(j.idx, j.c, ident, true)
			var margs []string
			for _, s := range setups[j.c.setup] {
				margs = append(margs, s.margs...)
			}
			margs = append(margs, "#")
			var names []string
			for _, k := range j.c.ks {
				margs = append(margs, kinds[k].op.margs...)
				names = append(names, kinds[k].name)
			}
			margs = append(margs, "#", j.order)
			o.Case("http:sched", got, margs...)
			explained := false
			perms := permutations(n)
			for pi, si := range j.perms {
				if outcome(si, j.c, perms[pi], true) == gotFull {
					explained = true
					break
				}
			}
			sig := fmt.Sprintf("setup=%d ops=[%s] order=%s", j.c.setup, strings.Join(names, " "), j.order)
			if explained {
				o.Case("prop:http-linearizable", "same", sig)
			} else {
				o.Case("prop:http-linearizable", "differ:no sequential order of the requests produces this outcome: "+sig+" outcome="+short(gotFull), sig)
			}
		}
	}

	// C16 / C18: 16 clients against the real router under the race detector; the recorded history is
	// checked for linearizability against the map specification
	streams["l6-conc"] = func(o *Out, rng *Rng, thorough bool) {
		samples := loadSamples()
		var names []string
		for n := range samples {
			names = append(names, n)
		}
		sort.Strings(names)
		var pool []*Msg
		for _, n := range names {
			if samples[n].Validate() == "ok" {
				pool = append(pool, samples[n])
			}
		}
		if len(pool) < 3 {
			o.Case("http:harness", "failed:not enough valid samples", "conc")
			return
		}
		keyOf := func(m *Msg) string {
			k := strings.TrimPrefix(msgResult(wire.File{FEDWireMessage: *m.ToWire()}), "ok|")
			if _, ok := linTextOf[k]; !ok {
				if res, _ := m.Write(false, "\n"); strings.HasPrefix(res, "ok:") {
					linTextOf[k] = string(unhexs(res[3:]))
				}
				// the renderings the contents endpoint owes for each query of the bursts
				for _, bq := range burstQueries {
					if bq.q == "" {
						continue
					}
					if res, _ := m.Write(bq.variable, bq.nl); strings.HasPrefix(res, "ok:") {
						linTextOf[k+"|"+bq.q] = string(unhexs(res[3:]))
					}
				}
			}
			return k
		}
		nh := 6
		if thorough {
			nh = 40
		}
		texts := sampleTexts()
		var tnames []string
		for n := range texts {
			tnames = append(tnames, n)
		}
		sort.Strings(tnames)
		var scripts []map[string]interface{}
		var all [][]httpOp
		var keys [][]string
		for h := 0; h < nh; h++ {
			clients := []int{2, 4, 16, 16, 32, 64}[h%6]
			per := 12
			if clients > 16 {
				per = 3
			}
			var ops []httpOp
			var ks []string
			for c := 0; c < clients; c++ {
				for i := 0; i < per; i++ {
					var op httpOp
					k := ""
					// A and B: created, read, deleted; C: created, read, replaced through add-message (never deleted)
					switch rng.Intn(14) {
					case 0, 1:
						m := pool[rng.Intn(len(pool))]
						id := []string{"A", "B", "C"}[rng.Intn(3)]
						op, k = opCreateJSON(id, m), keyOf(m)
					case 2:
						op = opSimple("get", []string{"A", "B", "C", "D"}[rng.Intn(4)])
					case 3:
						if clients <= 4 {
							op = opSimple("list", "") // couples all identifiers: only in the small histories
						} else {
							op = opSimple("get", []string{"A", "B", "C"}[rng.Intn(3)])
						}
					case 4, 12, 13:
						op = opSimple("contents", []string{"A", "B", "C"}[rng.Intn(3)])
					case 5:
						op = opSimple("validate", []string{"A", "B", "C"}[rng.Intn(3)])
					case 6, 7:
						m := pool[rng.Intn(len(pool))]
						op, k = opAdd("C", m), keyOf(m)
					case 8, 9:
						op = opSimple("delete", []string{"A", "B"}[rng.Intn(2)])
					case 10:
						op = opSimple("badjson", "")
					case 11:
						op = opCreateText(texts[tnames[rng.Intn(len(tnames))]], "", "")
					}
					op.Client = c
					if rng.Intn(2) == 0 {
						op.ReqID = fmt.Sprintf("rq%dx%dx%dz", h, c, i)
					}
					ops = append(ops, op)
					ks = append(ks, k)
				}
			}
			all = append(all, ops)
			keys = append(keys, ks)
			scripts = append(scripts, map[string]interface{}{"mode": "conc", "clients": clients, "ops": ops})
		}
		// bursts of overlapping renderings: every client stores a fixed message under its identifier and then
		// fetches the contents of all three identifiers over and over (responses must never mix)
		nb := 2
		if thorough {
			nb = 10
		}
		for bsi := 0; bsi < nb; bsi++ {
			var ops []httpOp
			var ks []string
			for c := 0; c < 16; c++ {
				ids := []string{"A", "B", "C"}
				m := pool[(c%3)%len(pool)]
				op := opCreateJSON(ids[c%3], m)
				op.Client = c
				ops = append(ops, op)
				ks = append(ks, keyOf(m))
				for i := 0; i < 30; i++ {
					op := opSimple("contents", ids[(c+i)%3])
					// every client asks for its own layout: a request must be rendered under its own parameters only
					op.Query = burstQueries[(c+bsi)%len(burstQueries)].q
					op.Client = c
					ops = append(ops, op)
					ks = append(ks, "")
				}
			}
			all = append(all, ops)
			keys = append(keys, ks)
			scripts = append(scripts, map[string]interface{}{"mode": "conc", "clients": 16, "ops": ops})
		}
		// bursts of creates whose messages differ in a coded element (currency codes): tables or memos the library
		// fills on first use are touched by several requests at once
		for _, m0 := range pool {
			if _, has := m0.Tags["InstructedAmount"]; !has {
				continue
			}
			var ops []httpOp
			var ks []string
			for c := 0; c < 16; c++ {
				for i := 0; i < 2; i++ {
					m := m0.Clone()
					m.setElem("InstructedAmount", "CurrencyCode", currencyCodes[(c*2+i)%len(currencyCodes)])
					op := opCreateJSON("", m)
					op.Client = c
					ops = append(ops, op)
					ks = append(ks, "")
				}
			}
			all = append(all, ops)
			keys = append(keys, ks)
			scripts = append(scripts, map[string]interface{}{"mode": "conc", "clients": 16, "ops": ops})
			break
		}
		results, err := runServerScripts(scripts, true)
		if err != nil {
			msg := err.Error()
			if strings.Contains(msg, "DATA RACE") {
				i := strings.Index(msg, "DATA RACE")
				o.Case("prop:http-race-free", "differ:the race detector reports a data race while serving concurrent requests: "+strings.ReplaceAll(strings.ReplaceAll(short(msg[i:]), "\t", " "), "\n", " / "), fmt.Sprint(nh))
			} else {
				o.Case("http:harness", "failed:"+strings.ReplaceAll(tail(msg, 400), "\t", " "), "conc")
			}
			return
		}
		o.Case("prop:http-race-free", "same", fmt.Sprint(nh))
		for h, ops := range all {
			var rs []httpRes
			json.Unmarshal(results[h]["results"], &rs)
			var calls, rets []int64
			json.Unmarshal(results[h]["calls"], &calls)
			json.Unmarshal(results[h]["rets"], &rets)
			var panics int
			json.Unmarshal(results[h]["panics"], &panics)
			var log string
			json.Unmarshal(results[h]["log"], &log)
			hs := fmt.Sprint(h)
			if panics > 0 {
				o.Case("prop:http-no-panic", fmt.Sprintf("differ:%d client goroutines panicked", panics), hs)
			} else {
				o.Case("prop:http-no-panic", "same", hs)
			}
			okStatus, okBody := "same", "same"
			for i, r := range rs {
				if r.Status != 200 && r.Status != 201 && r.Status != 400 && r.Status != 404 {
					okStatus = fmt.Sprintf("differ:status %d for %s", r.Status, ops[i].Op)
				}
				if r.Status == 400 {
					body, _ := hex.DecodeString(r.Body)
					var e map[string]interface{}
					if json.Unmarshal(body, &e) != nil || e["error"] == nil {
						okBody = "differ:" + short(string(body))
					}
				}
			}
			o.Case("prop:http-status-documented", okStatus, hs, "conc")
			o.Case("prop:http-error-body-json", okBody, hs, "conc")
			// log isolation: a log line carries at most one request id
			iso := "same"
			for _, line := range strings.Split(log, "\n") {
				if strings.Count(line, "requestID=") > 1 {
					iso = "differ:a log line carries more than one request id: " + short(line)
					break
				}
				n := 0
				for _, op := range ops {
					if op.ReqID != "" && strings.Contains(line, op.ReqID) {
						n++
					}
				}
				if n > 1 {
					iso = "differ:a log line carries the request ids of several requests: " + short(line)
					break
				}
			}
			o.Case("prop:http-log-isolation", iso, hs, "conc")
			// linearizability against the map specification
			var events []porcupine.Operation
			for i, op := range ops {
				events = append(events, porcupine.Operation{ClientId: op.Client, Input: linIn{op.Op, op.ID, keys[h][i], op.CT, op.Query}, Call: calls[i],
					Output: linOut{rs[i].Status, rs[i], op}, Return: rets[i]})
			}
			if clientsOf(ops) > 16 {
				continue // 32 and 64 clients: race detector, statuses, panics and log isolation only (the search does not finish)
			}
			res := porcupine.CheckOperationsTimeout(linModel, events, 30*time.Second)
			switch res {
			case porcupine.Ok:
				o.Case("prop:http-linearizable", "same", "stress", hs)
			case porcupine.Unknown:
				o.Case("prop:http-linearizable", "same", "stress-undecided", hs)
			default:
				o.Case("prop:http-linearizable", "differ:the history of "+fmt.Sprint(len(ops))+" concurrent requests has no linearization", "stress", hs, describeHistory(ops, rs, calls, rets))
			}
		}
	}
}

// default-layout text of each pool message, by content key
var linTextOf = map[string]string{}

type linIn struct{ op, id, key, ct, q string }

// ISO 4217 codes used to vary a coded element between concurrent requests
var currencyCodes = []string{"EUR", "GBP", "JPY", "CHF", "CAD", "AUD", "NZD", "SEK", "NOK", "DKK", "PLN", "CZK", "HUF", "MXN", "BRL", "ZAR",
	"INR", "CNY", "HKD", "SGD", "KRW", "TRY", "ILS", "AED", "SAR", "THB", "MYR", "IDR", "PHP", "CLP", "COP", "PEN"}

// queries of the contents requests in the bursts and the layout each one selects
var burstQueries = []struct {
	q        string
	variable bool
	nl       string
}{
	{"", false, "\n"}, {"format=variable", true, "\n"}, {"newline=true", false, "\n"}, {"newline=false", false, ""},
	{"format=variable&newline=false", true, ""}, {"format=fixed&newline=true", false, "\n"},
}

type linOut struct {
	status int
	res    httpRes
	op     httpOp
}

func describeHistory(ops []httpOp, rs []httpRes, calls, rets []int64) string {
	var b strings.Builder
	for i, op := range ops {
		fmt.Fprintf(&b, "c%d %s(%s) [%d,%d] -> %d; ", op.Client, op.Op, op.ID, calls[i], rets[i], rs[i].Status)
	}
	return b.String()
}

// the specification: a map from file ID to content key
var linModel = porcupine.Model{
	Init: func() interface{} { return "" },
	Step: func(state, input, output interface{}) (bool, interface{}) {
		st := decodeLin(state.(string))
		in, out := input.(linIn), output.(linOut)
		body, _ := hex.DecodeString(out.res.Body)
		switch in.op {
		case "create":
			if out.status != 201 {
				return out.status == 400, state
			}
			if in.key == "" { // text create or generated id: a fresh id
				id := out.res.NewID
				if _, dup := st[id]; dup || id == "" {
					return false, state
				}
				_, ms := msgOfFileJSON(body)
				st[id] = ms
				return true, encodeLin(st)
			}
			id, _ := msgOfFileJSON(body)
			st[id] = in.key
			return true, encodeLin(st)
		case "get":
			v, ok := st[in.id]
			if !ok {
				return out.status == 404, state
			}
			_, ms := msgOfFileJSON(body)
			return out.status == 200 && ms == v, state
		case "list":
			var ids []string
			for k := range st {
				ids = append(ids, k)
			}
			sort.Strings(ids)
			got := append([]string{}, out.res.IDs...)
			sort.Strings(got)
			return out.status == 200 && strings.Join(ids, ",") == strings.Join(got, ",") && out.res.Count == fmt.Sprint(len(ids)), state
		case "contents", "validate":
			v, ok := st[in.id]
			if !ok {
				return out.status == 404, state
			}
			if in.op == "contents" && out.status == 200 {
				tk := v
				if in.q != "" {
					tk = v + "|" + in.q
				}
				if want, known := linTextOf[tk]; known && want != string(body) {
					return false, state // the body is not the text of the file stored under this identifier
				}
			}
			return out.status == 200, state
		case "add":
			_, ok := st[in.id]
			if !ok {
				return out.status == 404, state
			}
			if out.status != 200 {
				return false, state
			}
			st[in.id] = in.key
			return true, encodeLin(st)
		case "delete":
			delete(st, in.id)
			return out.status == 200, encodeLin(st)
		}
		return false, state
	},
	Equal: func(a, b interface{}) bool { return a.(string) == b.(string) },
	// requests on different identifiers commute unless a listing is present
	Partition: func(history []porcupine.Operation) [][]porcupine.Operation {
		for _, h := range history {
			if h.Input.(linIn).op == "list" {
				return [][]porcupine.Operation{history}
			}
		}
		groups := map[string][]porcupine.Operation{}
		var order []string
		for _, h := range history {
			in, out := h.Input.(linIn), h.Output.(linOut)
			id := in.id
			if in.op == "create" {
				if out.status == 201 {
					id = out.res.NewID
				} else {
					id = "\x00failed"
				}
			}
			if _, ok := groups[id]; !ok {
				order = append(order, id)
			}
			groups[id] = append(groups[id], h)
		}
		var out [][]porcupine.Operation
		for _, id := range order {
			out = append(out, groups[id])
		}
		return out
	},
}

func decodeLin(s string) map[string]string {
	m := map[string]string{}
	if s == "" {
		return m
	}
	for _, kv := range strings.Split(s, "\x1e") {
		i := strings.Index(kv, "\x1f")
		m[kv[:i]] = kv[i+1:]
	}
	return m
}

func encodeLin(m map[string]string) string {
	var ks []string
	for k := range m {
		ks = append(ks, k)
	}
	sort.Strings(ks)
	var parts []string
	for _, k := range ks {
		parts = append(parts, k+"\x1f"+m[k])
	}
	return strings.Join(parts, "\x1e")
}

func clientsOf(ops []httpOp) int {
	n := 0
	for _, op := range ops {
		if op.Client+1 > n {
			n = op.Client + 1
		}
	}
	return n
}
