//go:build verif

package main

import (
	"encoding/hex"
	"fmt"
	"sort"
	"strings"
)

func setAt(vals []string, i int, v string) []string {
	n := append([]string{}, vals...)
	n[i] = v
	return n
}

func mutateText(t string, rng *Rng, thorough bool) []string {
	out := []string{t + "*", t + "X", t + " ", t + "**", t + "{", "X" + t}
	// every cut (bounded), dropped/doubled delimiters, byte substitutions
	step := 1
	if !thorough && len(t) > 24 {
		step = len(t)/24 + 1
	}
	for k := 0; k < len(t); k += step {
		out = append(out, t[:k])
	}
	for i := 0; i < len(t); i++ {
		if t[i] == '*' {
			out = append(out, t[:i]+t[i+1:], t[:i]+"**"+t[i+1:])
		}
	}
	subs := []string{"\xc3\xa9", "{", "*", " ", "\n", "\xff", ""}
	n := 8
	if thorough {
		n = 24
	}
	for j := 0; j < n && len(t) > 6; j++ {
		i := 6 + rng.Intn(len(t)-6)
		out = append(out, t[:i]+subs[rng.Intn(len(subs))]+t[i+1:])
	}
	return out
}

func init() {
	// meta: element layout per tag type, for cross-checking against the translator's table
	streams["l2-meta"] = func(o *Out, rng *Rng, thorough bool) {
		for _, tt := range tagTypes {
			var paths []string
			for _, e := range tt.Elems {
				paths = append(paths, e.Path)
			}
			o.Case("meta:elems", strings.Join(paths, ","), tt.Name)
			o.Case("meta:marker", tt.OwnMarker(), tt.Name)
			o.Case("meta:hasformat", fmt.Sprint(tt.HasFormat()), tt.Name)
		}
	}

	streams["l2-tags"] = func(o *Out, rng *Rng, thorough bool) {
		samples := loadSamples()
		bases := baseTags(samples)
		var names []string
		for n := range bases {
			names = append(names, n)
		}
		sort.Strings(names)
		for _, tt := range tagTypes {
			if len(bases[tt.Name]) == 0 {
				o.Case("meta:novalid", "none", tt.Name)
			}
			widths := make([]int, len(tt.Elems))
			for i := range tt.Elems {
				widths[i] = tt.WidthOf(i)
			}
			own := tt.OwnMarker()
			texts := map[string]bool{}
			emit := func(marker string, vals []string, doFormat bool) {
				p := tt.New(marker, vals)
				o.Case("tag:validate", tt.Validate(p), tagArgs(tt, marker, vals)...)
				if doFormat {
					for _, variable := range []bool{false, true} {
						res := tt.Format(p, variable)
						vs := "0"
						if variable {
							vs = "1"
						}
						o.Case("tag:format", res, append([]string{vs}, tagArgs(tt, marker, vals)...)...)
						if strings.HasPrefix(res, "ok:") {
							texts[string(unhexs(res[3:]))] = true
						}
					}
				}
			}
			// all-empty with own marker and with no marker (struct literal)
			empty := make([]string, len(tt.Elems))
			emit(own, empty, true)
			emit("", empty, true)
			for _, b := range bases[tt.Name] {
				emit(b.marker, b.vals, true)
				emit("{0000}", b.vals, false)
				emit("", b.vals, true)
				emit(own+" ", b.vals, false)
				for i := range tt.Elems {
					for _, v := range valueClasses(widths[i], b.vals[i]) {
						emit(b.marker, setAt(b.vals, i, v), true)
					}
					// pool values: exercises code lists and shapes
					for _, v := range valuePool {
						emit(b.marker, setAt(b.vals, i, v), false)
					}
					// short coded elements: the valid value doubled, joined with the other bases' values of this element
					// and with a neighbouring letter (a membership test must not accept runs or fragments of codes)
					if v0 := b.vals[i]; v0 != "" && len(v0) <= 4 {
						cands := []string{v0 + v0, v0 + "X", "X" + v0, v0[:len(v0)-1], strings.ToLower(v0)}
						for _, b2 := range bases[tt.Name] {
							if v2 := b2.vals[i]; v2 != "" && v2 != v0 {
								cands = append(cands, v0+v2, v2+v0)
							}
						}
						for _, c := range codeRuns {
							cands = append(cands, c)
						}
						for _, v := range cands {
							emit(b.marker, setAt(b.vals, i, v), false)
						}
					}
				}
				// pairs of emptied elements (trailing-delimiter collapsing)
				for i := range tt.Elems {
					for j := i + 1; j < len(tt.Elems); j++ {
						emit(b.marker, setAt(setAt(b.vals, i, ""), j, ""), true)
					}
				}
				// all elements at exact width / one below
				full := make([]string, len(tt.Elems))
				less := make([]string, len(tt.Elems))
				for i := range tt.Elems {
					full[i] = strings.Repeat("B", widths[i])
					if widths[i] > 0 {
						less[i] = strings.Repeat("C", widths[i]-1)
					}
				}
				emit(b.marker, full, true)
				emit(b.marker, less, true)
			}
			// {8200}: declared lengths far above the text held (long fills), for both layouts
			if tt.Name == "UnstructuredAddenda" {
				for _, al := range []string{"0149", "0300", "1100", "2068", "2069", "2500", "4200", "9000", "9999"} {
					emit(own, []string{al, "Twenty characters ab"}, true)
					emit(own, []string{al, ""}, true)
				}
			}
			// parse every text produced, and mutations of them
			var tl []string
			for t := range texts {
				tl = append(tl, t)
			}
			sort.Strings(tl)
			budget := 40
			if thorough {
				budget = 400
			}
			stride := len(tl)/budget + 1
			for k, t := range tl {
				res, _ := tt.Parse(t)
				o.Case("tag:parse", res, tt.Name, t)
				if k%stride == 0 {
					for _, mt := range mutateText(t, rng, thorough) {
						res, _ := tt.Parse(mt)
						o.Case("tag:parse", res, tt.Name, mt)
					}
				}
			}
			// over-width elements made of bytes that are not character starts (continuation bytes), of
			// invalid bytes and of multi-byte characters: each delimited element of a few texts in turn
			nsub := 3
			if thorough {
				nsub = 25
			}
			done := 0
			for _, t := range tl {
				if done >= nsub || !strings.Contains(t, "*") || len(t) < 7 {
					continue
				}
				done++
				segs := strings.Split(t[6:], "*")
				for j := range segs {
					for _, fill := range []string{"\x80", "\xbf", "\xff", "\xc3\xa9", "\xf0\x9f\x98\x80", "\x80A"} {
						for _, extra := range []int{0, 1, 2, 40} {
							n := len(segs[j]) + extra
							if n == 0 {
								n = 1
							}
							alt := append([]string{}, segs...)
							alt[j] = strings.Repeat(fill, n)
							mt := t[:6] + strings.Join(alt, "*")
							res, _ := tt.Parse(mt)
							o.Case("tag:parse", res, tt.Name, mt)
						}
					}
				}
			}
			// signed numbers next to multi-byte white space, and runs of multi-byte white space: byte length and
			// character count differ, TrimSpace removes them, Atoi accepts a sign (guards on one measure, slices on the other)
			for _, pre := range []string{"", "\u00a0", "\u2003"} {
				for _, num := range []string{"-1", "+1", "-0", "1", "-9999", "-12"} {
					for _, suf := range []string{"", "\u00a0", "\u0085", "\u3000", "\u00a0\u00a0", "\u00a0*", " "} {
						mt := own + pre + num + suf
						res, _ := tt.Parse(mt)
						o.Case("tag:parse", res, tt.Name, mt)
					}
				}
			}
			for k := 1; k <= 12; k++ {
				for _, wsr := range []string{"\u00a0", "\u3000"} {
					mt := own + strings.Repeat(wsr, k)
					res, _ := tt.Parse(mt)
					o.Case("tag:parse", res, tt.Name, mt)
				}
			}
			for _, t := range []string{"", own, own + "*", own + "**", own[:3], "{9999}ABC", own + strings.Repeat("*", 40), own + strings.Repeat("A", 5000), own + "\xc3\xa9\xc3\xa9\xc3\xa9\xc3\xa9\xc3\xa9\xc3\xa9\xc3\xa9\xc3\xa9\xc3\xa9\xc3\xa9\xc3\xa9\xc3\xa9"} {
				res, _ := tt.Parse(t)
				o.Case("tag:parse", res, tt.Name, t)
			}
		}
	}
}

// runs of adjacent one-letter codes (identification codes, charge details, test/production codes)
var codeRuns = []string{"BC", "CD", "DF", "FU", "BCD", "CDF", "DFU", "BCDFU", "TP", "BS", "12", "123", "BCDFTU"}

func unhexs(h string) []byte {
	if h == "-" {
		return nil
	}
	b, err := hex.DecodeString(h)
	if err != nil {
		return nil
	}
	return b
}
