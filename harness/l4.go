//go:build verif

package main

import (
	"bufio"
	"errors"
	"fmt"
	"io"
	"os"
	"path/filepath"
	"sort"
	"strings"

	"github.com/moov-io/base"
	"github.com/moov-io/wire"
)

// chunkReader delivers the text in the given chunk sizes (the rest in one piece) and then reports
// the final status: io.EOF or a named error.
type chunkReader struct {
	data  []byte
	sizes []int
	uni   int
	final error
	idx   int
}

func (c *chunkReader) Read(p []byte) (int, error) {
	if len(c.data) == 0 {
		return 0, c.final
	}
	n := len(c.data)
	if c.uni > 0 {
		n = c.uni
	} else if c.idx < len(c.sizes) {
		n = c.sizes[c.idx]
	}
	if n > len(c.data) {
		n = len(c.data)
	}
	if n > len(p) {
		// the scanner offers less room than the chunk: deliver what fits, keep the rest of this chunk
		n = len(p)
		if c.uni == 0 && c.idx < len(c.sizes) {
			c.sizes[c.idx] -= n
			c.idx--
		}
	}
	copy(p, c.data[:n])
	c.data = c.data[n:]
	c.idx++
	return n, nil
}

type namedErr struct{ name string }

func (e namedErr) Error() string { return e.name }

func sizesArg(uni int, sizes []int) string {
	if uni > 0 {
		return fmt.Sprint(uni)
	}
	if len(sizes) == 0 {
		return "0"
	}
	parts := make([]string, len(sizes))
	for i, s := range sizes {
		parts[i] = fmt.Sprint(s)
	}
	if len(parts) == 1 {
		return parts[0] + ","
	}
	return strings.Join(parts, ",")
}

func readErrString(err error) string {
	var parts []string
	add := func(e error) {
		var pe *base.ParseError
		switch {
		case errors.As(e, &pe):
			parts = append(parts, fmt.Sprintf("P:%d:%s:%s:%s", pe.Line, pe.Record, fieldOf(pe.Err), errName(pe.Err)))
		case errors.Is(e, bufio.ErrTooLong):
			parts = append(parts, "S:ErrTooLong")
		case strings.HasPrefix(e.Error(), "file validation failed"):
			parts = append(parts, "V")
		case strings.Contains(e.Error(), "is too short for tag"):
			parts = append(parts, "X")
		default:
			var it wire.ErrInvalidTag
			var ne namedErr
			if errors.As(e, &it) {
				parts = append(parts, "T:"+hx(it.Type))
			} else if errors.As(e, &ne) {
				parts = append(parts, "S:"+ne.name)
			} else {
				parts = append(parts, "other:"+fmt.Sprintf("%T", e))
			}
		}
	}
	var el base.ErrorList
	if errors.As(err, &el) {
		for _, e := range el {
			add(e)
		}
	} else {
		add(err)
	}
	return "err|" + strings.Join(parts, "|")
}

func msgResult(f wire.File) string {
	fwm := f.FEDWireMessage
	m := MsgFromWire(&fwm)
	type kv struct{ mk, s string }
	var items []kv
	for k, p := range m.Tags {
		tt := tagByName[k]
		items = append(items, kv{tt.OwnMarker(), k + ":" + encVals(tt.Marker(p), tt.Vals(p))})
	}
	sort.Slice(items, func(i, j int) bool { return items[i].mk < items[j].mk })
	parts := []string{optsArg(m.Opts)}
	for _, it := range items {
		parts = append(parts, it.s)
	}
	return "ok|" + strings.Join(parts, "|")
}

// doRead runs the reader; preset: "nil" | "in" | "out"; opts as optsArg.
func doRead(text string, uni int, sizes []int, final error, preset string, opts *wire.ValidateOpts) string {
	cr := &chunkReader{data: []byte(text), sizes: append([]int{}, sizes...), uni: uni, final: final}
	var res string
	pn, _ := protect(func() {
		var r *wire.Reader
		switch preset {
		case "in":
			r = wire.NewReader(cr, wire.IncomingFile())
		case "out":
			r = wire.NewReader(cr, wire.OutgoingFile())
		default:
			r = wire.NewReader(cr)
		}
		var f wire.File
		var err error
		if opts == nil {
			f, err = r.Read()
		} else {
			f, err = r.ReadWithOpts(opts)
		}
		if err != nil {
			res = readErrString(err)
		} else {
			res = msgResult(f)
		}
	})
	if pn {
		return "panic"
	}
	return res
}

func presetArg(p string) string {
	switch p {
	case "in":
		return "01"
	case "out":
		return "00"
	}
	return "nil"
}

func finalArg(e error) string {
	if e == io.EOF {
		return "eof"
	}
	return "err:" + e.Error()
}

func sampleTexts() map[string]string {
	out := map[string]string{}
	files, _ := filepath.Glob(filepath.Join(repoDir, "test", "testdata", "*.txt"))
	for _, f := range files {
		b, err := os.ReadFile(f)
		if err == nil {
			out[filepath.Base(f)] = string(b)
		}
	}
	return out
}

func init() {
	streams["l4-reader"] = func(o *Out, rng *Rng, thorough bool) {
		texts := sampleTexts()
		var names []string
		for n := range texts {
			names = append(names, n)
		}
		sort.Strings(names)
		rec2 := func(text string) string { return doRead(text, 0, nil, io.EOF, "nil", nil) }
		rec := func(text string, uni int, sizes []int, final error, preset string, opts *wire.ValidateOpts) {
			res := doRead(text, uni, sizes, final, preset, opts)
			o.Case("read:run", res, presetArg(preset), optsArg(opts), finalArg(final), text, sizesArg(uni, sizes))
			if strings.HasPrefix(res, "ok|") && uni == 0 && len(sizes) == 0 && final == io.EOF && preset == "nil" {
				// C04: whatever the reader accepts passes file validation and every tag's own validation
				if m, _ := readText(text, opts); m != nil {
					v := m.Validate()
					for k, p := range m.Tags {
						if tv := tagByName[k].Validate(p); tv != "ok" && v == "ok" {
							v = "tag " + k + " " + tv
						}
						if w := tagByName[k]; true {
							for i, x := range w.Vals(p) {
								if k == "UnstructuredAddenda" {
									continue // the addenda width is the declared AddendaLength, checked by its own Parse
								}
								if wd := w.WidthOf(i); wd >= 0 && len(x) > wd && v == "ok" {
									v = fmt.Sprintf("element %s.%s longer than its width", k, w.Elems[i].Path)
								}
								for j := 0; j < len(x) && v == "ok"; j++ {
									if c := x[j]; c == '*' || c == '{' || c == '}' || c < 0x20 || c > 0x7e {
										v = fmt.Sprintf("element outside the FAIM character class [non-FAIM character in %s.%s]", k, w.Elems[i].Path)
									}
								}
							}
						}
					}
					// in bounds: a tag whose Parse demands an exact length (counted in characters, sliced in bytes) must not be
					// accepted from a segment whose byte length differs - its elements were shifted and trailing bytes never examined
					if v == "ok" {
						for _, seg := range splitSegments(text) {
							if n, ok := exactLenTags[seg[:6]]; ok && len(seg) != n {
								v = fmt.Sprintf("exact-length tag %s accepted from a %d-byte segment (it reads exactly %d bytes): elements shifted, trailing bytes never examined", seg[:6], len(seg), n)
								break
							}
						}
					}
					if v == "ok" {
						o.Case("prop:accepted-valid", "same", text, optsArg(opts))
					} else {
						o.Case("prop:accepted-valid", "differ:"+v, text, optsArg(opts))
					}
				}
			}
		}
		// written forms of the samples in all layouts
		var written []string
		samples := loadSamples()
		for _, sn := range sortedSampleNames(samples) {
			for _, v := range []bool{false, true} {
				for _, nl := range []string{"\n", "\r\n", ""} {
					if res, _ := samples[sn].Write(v, nl); strings.HasPrefix(res, "ok:") {
						written = append(written, string(unhexs(res[3:])))
					}
				}
			}
		}
		all := []string{}
		for _, n := range names {
			all = append(all, texts[n])
		}
		all = append(all, written...)
		for ti, text := range all {
			rec(text, 0, nil, io.EOF, "nil", nil)
			for _, k := range []int{1, 2, 3, 5, 7, 64, 100, 4095, 4096, 4097} {
				if !thorough && ti%3 != 0 && k != 1 {
					continue
				}
				rec(text, k, nil, io.EOF, "nil", nil)
			}
			rec(text, 0, []int{len(text) / 2}, io.EOF, "nil", nil)
			// every k in thorough mode; strided otherwise
			stride := len(text)/12 + 1
			if thorough {
				stride = len(text)/150 + 1
			}
			for k := 1; k < len(text); k += stride {
				rec(text, 0, []int{k}, io.EOF, "nil", nil)
			}
			// faults at offsets
			for k := 0; k <= len(text); k += stride {
				for _, e := range []string{"timeout", "closed", "unexpectedEOF"} {
					if !thorough && e != "timeout" && k%3 != 0 {
						continue
					}
					rec(text[:k], 0, nil, namedErr{e}, "nil", nil)
				}
			}
			// presets and options
			for _, p := range []string{"in", "out"} {
				rec(text, 0, nil, io.EOF, p, nil)
			}
			for _, op := range optionSets() {
				rec(text, 0, nil, io.EOF, "nil", op)
				rec(text, 0, nil, io.EOF, "in", op)
			}
			if ti%4 == 0 || thorough {
				// segment-level mutations: drop / duplicate / swap / corrupt segments, unknown markers, junk before
				segs := splitSegments(text)
				for i := range segs {
					var drop []string
					drop = append(drop, segs[:i]...)
					drop = append(drop, segs[i+1:]...)
					for _, op := range []*wire.ValidateOpts{nil, {SkipMandatoryIMAD: true, AllowMissingSenderSupplied: true}} {
						rec(strings.Join(drop, "\n"), 0, nil, io.EOF, "nil", op)
						rec(strings.Join(drop, "\n"), 0, nil, io.EOF, "in", op)
					}
					cor := append([]string{}, segs...)
					cor[i] = cor[i] + "*"
					rec(strings.Join(cor, "\n"), 0, nil, io.EOF, "nil", nil)
					cor[i] = segs[i][:len(segs[i])/2]
					rec(strings.Join(cor, "\n"), 0, nil, io.EOF, "nil", nil)
					cor[i] = "{9999}" + segs[i][6:]
					rec(strings.Join(cor, "\n"), 0, nil, io.EOF, "nil", nil)
					cor[i] = segs[i] + "\xc3\xa9"
					rec(strings.Join(cor, ""), 0, nil, io.EOF, "nil", nil)
					dup := append(append([]string{}, segs...), segs[i])
					rec(strings.Join(dup, "\n"), 3, nil, io.EOF, "nil", nil)
				}
				rec("junk before "+text, 0, nil, io.EOF, "nil", nil)
				rec("junk{12"+text, 2, nil, io.EOF, "nil", nil)
				rec(strings.Join(segs, "\n\n"), 0, nil, io.EOF, "nil", nil)
				rec(strings.Join(segs, "\r\n"), 1, nil, io.EOF, "nil", nil)
				rec(strings.Join(segs, ""), 5, nil, io.EOF, "nil", nil)
				rev := append([]string{}, segs...)
				sort.Sort(sort.Reverse(sort.StringSlice(rev)))
				rec(strings.Join(rev, "\n"), 0, nil, io.EOF, "nil", nil)
				rec(strings.ReplaceAll(text, "{15", "{15\n"), 0, nil, io.EOF, "nil", nil)
			}
		}
		// C04: every four-digit marker {0000}..{9999}, before a valid message, after it, and alone
		if small := texts["fedWireMessage-BankTransfer.txt"]; small != "" {
			for n := 0; n < 10000; n++ {
				mk := fmt.Sprintf("{%04d}", n)
				rec(mk+"ANYTHING*\n"+small, 0, nil, io.EOF, "nil", nil)
				if n%7 == 0 || thorough {
					rec(mk+"ANYTHING*", 0, nil, io.EOF, "nil", nil)
					rec(small+mk+"X*", 0, nil, io.EOF, "nil", &wire.ValidateOpts{SkipMandatoryIMAD: true, AllowMissingSenderSupplied: true})
				}
			}
		}
		// the first read ends inside the first marker (after 1..8 of its bytes), with and without text before it:
		// an unknown marker or an invalid first segment must still be reported
		if small := texts["fedWireMessage-BankTransfer.txt"]; small != "" {
			var without1500 []string
			for _, sg := range splitSegments(small) {
				if !strings.HasPrefix(sg, "{1500}") {
					without1500 = append(without1500, sg)
				}
			}
			allow := &wire.ValidateOpts{AllowMissingSenderSupplied: true}
			for _, pre := range []string{"", "HEADER LINE\n", strings.Repeat("x", 4091)} {
				for k := 1; k <= 8; k++ {
					rec(pre+"{9999}ANYTHING*\n"+small, 0, []int{len(pre) + k}, io.EOF, "nil", nil)
					rec(pre+"{1500}3\n"+strings.Join(without1500, "\n"), 0, []int{len(pre) + k}, io.EOF, "nil", allow)
				}
				rec(pre+"{9999}ANYTHING*\n"+small, 1, nil, io.EOF, "nil", nil)
				rec(pre+"{9999}ANYTHING*\n"+small, 0, nil, io.EOF, "nil", nil)
			}
		}
		// markers wrapped over a line break: the re-split after removing line breaks must see them
		if small := texts["fedWireMessage-BankTransfer.txt"]; small != "" {
			base := doRead(small, 0, nil, io.EOF, "nil", nil)
			segs := splitSegments(small)
			for _, nl := range []string{"\n", "\r\n"} {
				for cut := 1; cut <= 5; cut++ {
					rec(small+"{9999}BOGUS"[:cut]+nl+"{9999}BOGUS"[cut:], 0, nil, io.EOF, "nil", nil)
					rec("{0123}X*"[:cut]+nl+"{0123}X*"[cut:]+"\n"+small, 0, nil, io.EOF, "nil", nil)
					rec(small+"{6000}Line|One*"[:cut]+nl+"{6000}Line|One*"[cut:], 0, nil, io.EOF, "nil", nil)
					// every segment's own marker wrapped: the result must be that of the unwrapped text
					for i := range segs {
						w := append([]string{}, segs...)
						w[i] = segs[i][:cut] + nl + segs[i][cut:]
						t := strings.Join(w, "\n")
						r := rec2(t)
						o.Case("prop:wrap-agree", sameOr(base, r), t)
					}
				}
			}
		}
		// accepted texts must hold FAIM characters only: non-FAIM bytes in elements of several tags
		if small := texts["fedWireMessage-BankTransfer.txt"]; small != "" {
			for _, seg := range []string{"{1100}30P \xc3\xa9", "{1110}0131\xc3\xa91234ABCD", "{1130}1XYZdescr\xc3\xa9ption*", "{3320}Ref\xc3\xa9rence*", "{4320}Ref\x01*", "{6000}Line~One*"} {
				rec(small+"\n"+seg, 0, nil, io.EOF, "nil", nil)
				rec(seg+"\n"+small, 0, nil, io.EOF, "nil", nil)
			}
		}
		// degenerate inputs
		for _, t := range []string{"", "\n", "{", "{1500", "{1500}", "{1500}{1510}", "no markers at all", "{abcd}", "{12345}", "}{1500}", strings.Repeat("{1500}", 50)} {
			for _, k := range []int{0, 1, 3} {
				rec(t, k, nil, io.EOF, "nil", nil)
				rec(t, k, nil, namedErr{"timeout"}, "nil", nil)
			}
		}
		// a segment whose head parses cleanly but which runs past the scanner limit with filler the reader would drop
		if small := texts["fedWireMessage-BankTransfer.txt"]; small != "" {
			for _, fill := range []string{"\n", "\r\n", " ", "*"} {
				for _, n := range []int{66000, 70000, 140000} {
					if n > 70000 && !thorough {
						continue
					}
					reps := n / len(fill)
					rec(small+"{4320}Reference*"+strings.Repeat(fill, reps)+"trailing text that must not vanish", 0, nil, io.EOF, "nil", nil)
					rec("{3320}Sender Reference*"+strings.Repeat(fill, reps)+"trailing text\n"+small, 4096, nil, io.EOF, "nil", nil)
				}
			}
		}
		// over-long segments around the scanner limit
		base := texts["fedWireMessage-CustomerTransfer.txt"]
		if base != "" {
			sizes := []int{65529, 65530, 65535, 65536, 65537}
			if thorough {
				sizes = append(sizes, 70000, 131072, 1<<20)
			}
			for _, n := range sizes {
				big := base + "{9000}" + strings.Repeat("A", n-6)
				rec(big, 0, nil, io.EOF, "nil", nil)
				rec(big, 4096, nil, io.EOF, "nil", nil)
				rec(strings.Repeat("B", n)+base, 0, nil, io.EOF, "nil", nil)
			}
		}
		// exact-length tags holding a multi-byte blank: the character count is right, the byte positions are not
		if base != "" {
			for _, c := range []struct{ from, to string }{
				{"{1520}20190410Source08000001", "{1520}20190410Source08000\xe3\x80\x80XY"},
				{"{1520}20190410Source08000001", "{1520}20190410Source08000\xc2\xa01"},
				{"{1520}20190410Source08000001", "{1520}20190410Source\xe3\x80\x80000001XY"},
				{"{1510}1000", "{1510}10\xe3\x80\x8000"},
				{"{1510}1000", "{1510}100\xc2\xa00"},
				{"{2000}000001234567", "{2000}00000123456\xe3\x80\x8099"},
			} {
				if strings.Contains(base, c.from) {
					rec(strings.Replace(base, c.from, c.to, 1), 0, nil, io.EOF, "nil", nil)
				}
			}
		}
		// C04 far into a long stream: a valid message followed by many repeats of one of its own segments and then a
		// tail the reader must refuse (a marker outside FAIM, a known tag too short to parse) - however far in the tail is
		if segs := splitSegments(base); len(segs) > 3 {
			head := strings.Join(segs, "\n") + "\n"
			fill := segs[len(segs)-1] + "\n"
			if strings.HasPrefix(rec2(head+fill+fill), "ok|") {
				sizes := []int{200 << 10, 1<<20 + 4096, 5 << 20}
				if thorough {
					sizes = append(sizes, 64<<10, 1<<20 - 7, 2<<20 + 1, 17 << 20)
				}
				for _, n := range sizes {
					body := head + strings.Repeat(fill, n/len(fill)+1)
					for _, tail := range []string{"{9999}not a FAIM tag\n", "{1520}2019\n", "{2000}12AB\n"} {
						res := rec2(body + tail)
						v := "same"
						if strings.HasPrefix(res, "ok|") {
							v = fmt.Sprintf("differ:a stream of %d bytes ending in %q was accepted: the tail was never examined", len(body)+len(tail), tail)
						}
						o.Case("prop:accepted-valid", v, "long-stream", fmt.Sprint(n), tail)
					}
					if !strings.HasPrefix(rec2(body), "ok|") {
						o.Case("prop:accepted-valid", "differ:a long stream of valid segments was refused", "long-stream", fmt.Sprint(n), "")
					}
				}
			}
		}
	}
}

func splitSegments(text string) []string {
	t := strings.ReplaceAll(strings.ReplaceAll(text, "\r\n", ""), "\n", "")
	var segs []string
	last := -1
	for i := 0; i+6 <= len(t); i++ {
		if t[i] == '{' && t[i+5] == '}' && isDigits(t[i+1:i+5]) {
			if last >= 0 {
				segs = append(segs, t[last:i])
			}
			last = i
		}
	}
	if last >= 0 {
		segs = append(segs, t[last:])
	}
	return segs
}

func isDigits(s string) bool {
	for i := 0; i < len(s); i++ {
		if s[i] < '0' || s[i] > '9' {
			return false
		}
	}
	return true
}

// tags whose Parse compares the character count of the segment with one exact length
var exactLenTags = map[string]int{"{1510}": 10, "{1520}": 28, "{2000}": 18, "{8650}": 14}
