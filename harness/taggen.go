//go:build verif

package main

import (
	"encoding/json"
	"os"
	"path/filepath"
	"reflect"
	"sort"
	"strings"

	"github.com/moov-io/wire"
)

var repoDir = "/repo"

func init() {
	if d := os.Getenv("VERIF_REPO"); d != "" {
		repoDir = d
	}
}

// MarkerOf obtains a type's own marker through its UnmarshalJSON (which restores the constant).
func (tt *TagType) OwnMarker() string {
	p := reflect.New(tt.Type)
	_ = json.Unmarshal([]byte("{}"), p.Interface())
	return tt.Marker(p)
}

// WidthOf measures the text width of element i by formatting a probe value (fixed layout).
func (tt *TagType) WidthOf(i int) int {
	vals := make([]string, len(tt.Elems))
	vals[i] = strings.Repeat("\x01", 12000)
	p := tt.New(tt.OwnMarker(), vals)
	out := tt.Format(p, false)
	if !strings.HasPrefix(out, "ok:") {
		return -1
	}
	return strings.Count(out, "01") // hex of \x01; no other 0x01 bytes can occur
}

var valuePool = []string{
	"A", "1", "30", "P", "T", " ", "B", "S", "D", "F", "C", "U", "2", "3", "4", "5", "9", "OI", "PI",
	"BTR", "CTR", "CTP", "CKS", "DEP", "DRB", "DRC", "DRW", "FFR", "FFS", "SVC", "10", "15", "16", "00", "01", "02", "08", "31", "32", "33", "90",
	"ANSI", "COVS", "GXML", "IXML", "NARR", "PROP", "RMTS", "RRMT", "S820", "SWIF", "UEDI",
	"HLD", "LTR", "PHN", "TLX", "WRE", "EDIC", "EMAL", "FAXI", "POST", "SMSM", "URID",
	"ADDR", "HOME", "BIZZ", "MLTO", "DLVY", "PBOX", "BANK", "CUST", "DUNS", "EMPL", "GS1G", "SWBB", "TXID", "ARNU", "CCPT", "DPOB", "NIDN", "SOSE",
	"AROI", "BOLD", "CINV", "CMCN", "CNFA", "CREN", "DEBN", "DISP", "DNFA", "HIRI", "MSIN", "PUOR", "SBIN", "SOAC", "TSUT", "VCHR", "CRDT", "DBIT", "CM", "03", "59",
	"USD", "EUR", "1,00", "1234.56", "000000001234", "20240102", "0102", "1234", "/123456", "1/SMITH JOHN", "2/123 MAIN STREET", "3/US/NEW YORK", "SOSE/123-45",
	"12345678", "123456789", "000001", "0005", "HELLO", "Name Here", "121042882", "CHECK", "COV", "Y", "N", "0", "E", "H", "I", "W", "X", "1234567890123456",
}

// ValidInstance searches for element values that the tag's own Validate accepts, by greedy repair
// driven by the field named in the validation error.
func (tt *TagType) ValidInstance() (string, []string, bool) {
	marker := tt.OwnMarker()
	vals := make([]string, len(tt.Elems))
	seen := map[string]bool{}
	for iter := 0; iter < 80; iter++ {
		p := tt.New(marker, vals)
		v := tt.Validate(p)
		if v == "ok" {
			return marker, vals, true
		}
		if seen[v+"|"+strings.Join(vals, "\x00")] {
			return marker, vals, false
		}
		seen[v+"|"+strings.Join(vals, "\x00")] = true
		field := ""
		if parts := strings.SplitN(v, ":", 3); len(parts) == 3 {
			field = parts[1]
		}
		var cands []int
		for i, e := range tt.Elems {
			if e.Path == field || strings.HasSuffix(e.Path, "."+field) {
				cands = append(cands, i)
			}
		}
		if len(cands) == 0 {
			for i := range tt.Elems {
				cands = append(cands, i)
			}
		}
		progressed := false
	search:
		for _, i := range cands {
			old := vals[i]
			for _, pv := range valuePool {
				vals[i] = pv
				v2 := tt.Validate(tt.New(marker, vals))
				if v2 == "ok" || (v2 != v && !seen[v2+"|"+strings.Join(vals, "\x00")]) {
					progressed = true
					break search
				}
			}
			vals[i] = old
		}
		if !progressed {
			return marker, vals, false
		}
	}
	return marker, vals, false
}

// loadSamples reads every test/testdata/*.txt the reader accepts.
func loadSamples() map[string]*Msg {
	out := map[string]*Msg{}
	files, _ := filepath.Glob(filepath.Join(repoDir, "test", "testdata", "*.txt"))
	sort.Strings(files)
	for _, f := range files {
		fd, err := os.Open(f)
		if err != nil {
			continue
		}
		file, err := wire.NewReader(fd).Read()
		fd.Close()
		if err != nil {
			continue
		}
		fwm := file.FEDWireMessage
		out[filepath.Base(f)] = MsgFromWire(&fwm)
	}
	return out
}

type baseTag struct {
	marker string
	vals   []string
	source string
}

// baseTags returns, per tag type, valid instances: the ones found in the samples plus a repaired one.
func baseTags(samples map[string]*Msg) map[string][]baseTag {
	out := map[string][]baseTag{}
	var names []string
	for n := range samples {
		names = append(names, n)
	}
	sort.Strings(names)
	for _, n := range names {
		for k, p := range samples[n].Tags {
			tt := tagByName[k]
			bt := baseTag{tt.Marker(p), tt.Vals(p), n}
			dup := false
			for _, e := range out[k] {
				if reflect.DeepEqual(e.vals, bt.vals) {
					dup = true
				}
			}
			if !dup && len(out[k]) < 3 {
				out[k] = append(out[k], bt)
			}
		}
	}
	for _, tt := range tagTypes {
		if m, v, ok := tt.ValidInstance(); ok {
			out[tt.Name] = append(out[tt.Name], baseTag{m, v, "repair"})
		}
	}
	return out
}

// element value classes for one element of width w
func valueClasses(w int, valid string) []string {
	if w < 1 {
		w = 1
	}
	rep := func(n int) string {
		if n < 0 {
			n = 0
		}
		return strings.Repeat("A", n)
	}
	out := []string{"", " ", "   ", "A", rep(w - 1), rep(w), rep(w + 1), rep(w) + " ", " " + rep(w-1), rep(w + 3),
		"A B", " A", "A ", "a", "*", "A*", "*A", "A*B", "{", "A{1500}", "}", "\n", "A\nB", "\r\n", "\t", "A\t",
		"\xc3\xa9", "A\xc3\xa9", "\xff", "A\xa0", "\xc2\xa0A", "~", "[", "^", "|", "0", "00", "1,5", "1.5", "-1", "+1"}
	if valid != "" {
		out = append(out, valid, valid+" ", " "+valid, strings.ToLower(valid), valid+"*", valid+"X")
		if len(valid) > 1 {
			out = append(out, valid[:len(valid)-1], valid[1:])
		}
	}
	return out
}
