//go:build verif

package main

import (
	"encoding/json"
	"fmt"
	"reflect"
	"sort"
	"strings"

	"github.com/moov-io/wire"
)

var bfcCodes = []string{"BTR", "CKS", "CTP", "CTR", "DEP", "DRB", "DRC", "DRW", "FFR", "FFS", "SVC", "XXX", ""}
var typeCodes = []string{"10", "15", "16", "11"}
var subTypeCodes = []string{"00", "01", "02", "07", "08", "31", "32", "33", "90", "99"}
var liCodes = []string{"ANSI", "COVS", "GXML", "IXML", "NARR", "PROP", "RMTS", "RRMT", "S820", "SWIF", "UEDI", "ZZZZ"}

func optionSets() []*wire.ValidateOpts {
	return []*wire.ValidateOpts{nil, {}, {SkipMandatoryIMAD: true}, {AllowMissingSenderSupplied: true}, {SkipMandatoryIMAD: true, AllowMissingSenderSupplied: true}}
}

func (m *Msg) setElem(tag, path, v string) bool {
	p, ok := m.Tags[tag]
	if !ok {
		return false
	}
	tt := tagByName[tag]
	for _, e := range tt.Elems {
		if e.Path == path {
			p.Elem().FieldByIndex(e.Index).SetString(v)
			return true
		}
	}
	return false
}

func sortedSampleNames(s map[string]*Msg) []string {
	var names []string
	for n := range s {
		names = append(names, n)
	}
	sort.Strings(names)
	return names
}

func init() {
	streams["l3-validate"] = func(o *Out, rng *Rng, thorough bool) {
		samples := loadSamples()
		bases := baseTags(samples)
		rec := func(m *Msg) { o.Case("msg:validate", m.Validate(), m.Args()...) }
		addTag := func(m *Msg, name string, k int) bool {
			b := bases[name]
			if len(b) == 0 {
				return false
			}
			bt := b[k%len(b)]
			m.Tags[name] = tagByName[name].New(bt.marker, bt.vals)
			return true
		}
		for _, sn := range sortedSampleNames(samples) {
			base := samples[sn]
			for _, op := range optionSets() {
				m := base.Clone()
				m.Opts = op
				rec(m)
			}
			// Hamming distance 1: toggle each tag
			for _, tt := range tagTypes {
				for _, op := range []*wire.ValidateOpts{nil, {SkipMandatoryIMAD: true, AllowMissingSenderSupplied: true}} {
					m := base.Clone()
					m.Opts = op
					if _, has := m.Tags[tt.Name]; has {
						delete(m.Tags, tt.Name)
					} else if !addTag(m, tt.Name, 0) {
						continue
					}
					rec(m)
				}
			}
			// Hamming distance 2
			stride := 1
			if !thorough {
				stride = 3
			}
			cnt := 0
			for i, a := range tagTypes {
				for _, b := range tagTypes[i+1:] {
					cnt++
					if cnt%stride != 0 {
						continue
					}
					m := base.Clone()
					for _, tt := range []*TagType{a, b} {
						if _, has := m.Tags[tt.Name]; has {
							delete(m.Tags, tt.Name)
						} else {
							addTag(m, tt.Name, cnt)
						}
					}
					rec(m)
				}
			}
			// code combinations on this presence vector
			for _, bfc := range bfcCodes {
				for _, tc := range typeCodes {
					for _, sc := range subTypeCodes {
						if !thorough && rng.Intn(3) != 0 {
							continue
						}
						m := base.Clone()
						m.setElem("BusinessFunctionCode", "BusinessFunctionCode", bfc)
						m.setElem("TypeSubType", "TypeCode", tc)
						m.setElem("TypeSubType", "SubTypeCode", sc)
						rec(m)
					}
				}
			}
			for _, ttc := range []string{"", "   ", "COV", "XYZ", " "} {
				m := base.Clone()
				m.setElem("BusinessFunctionCode", "TransactionTypeCode", ttc)
				rec(m)
			}
			for _, li := range liCodes {
				for _, prop := range []string{"", "PROPCODE"} {
					m := base.Clone()
					if _, has := m.Tags["LocalInstrument"]; !has {
						addTag(m, "LocalInstrument", 0)
					}
					m.setElem("LocalInstrument", "LocalInstrumentCode", li)
					m.setElem("LocalInstrument", "ProprietaryCode", prop)
					rec(m)
					// with each remittance / cover / addenda tag toggled
					for _, tn := range []string{"UnstructuredAddenda", "RelatedRemittance", "RemittanceOriginator", "RemittanceBeneficiary", "PrimaryRemittanceDocument",
						"ActualAmountPaid", "GrossAmountRemittanceDocument", "AmountNegotiatedDiscount", "Adjustment", "DateRemittanceDocument",
						"SecondaryRemittanceDocument", "RemittanceFreeText", "OrderingCustomer", "BeneficiaryCustomer", "BeneficiaryReference", "Charges",
						"InstructedAmount", "ExchangeRate", "CurrencyInstructedAmount", "ServiceMessage"} {
						if prop != "" {
							continue
						}
						m2 := m.Clone()
						if _, has := m2.Tags[tn]; has {
							delete(m2.Tags, tn)
						} else {
							addTag(m2, tn, 0)
						}
						rec(m2)
					}
				}
			}
			// identification code T for beneficiary / originator; amount variants
			for _, tag := range []string{"Beneficiary", "Originator"} {
				for _, code := range []string{"T", "D", ""} {
					m := base.Clone()
					if _, has := m.Tags[tag]; !has {
						addTag(m, tag, 0)
					}
					m.setElem(tag, "Personal.IdentificationCode", code)
					rec(m)
				}
			}
			for _, amt := range []string{"000000000000", "00000000000", "0", "0000000000000", "000000000001", "1", "1234567890123", "12345678901x", "",
				"-00001234567", "+00001234567", "-1", "+1", "-00000000000", "+0", "1e5", "0x10", " 1234", "1234 ", "12 34", "1,234", "12.34", "00000000000000000000", "99999999999999999999", "\xef\xbc\x91234"} {
				for _, st := range []string{"00", "90"} {
					m := base.Clone()
					m.setElem("Amount", "Amount", amt)
					m.setElem("TypeSubType", "SubTypeCode", st)
					rec(m)
				}
			}
			// C19, routes: the same amount supplied through the struct and through JSON (File and bare message documents):
			// the verdicts agree, the decoded message holds the supplied characters, an accepted amount is 1..12 ASCII
			// digits written zero-filled to twelve, and an all-zero amount is accepted only with subtype 90
			if _, has := base.Tags["Amount"]; has && base.Validate() == "ok" {
				for _, amt := range amountFamily(rng, thorough) {
					for _, st := range []string{"00", "90"} {
						m := base.Clone()
						m.setElem("Amount", "Amount", amt)
						m.setElem("TypeSubType", "SubTypeCode", st)
						o.Case("prop:amount-routes", amountRoutes(base, m, amt, st), sn, amt, st)
					}
				}
			}
			// every present tag made invalid by a forbidden character in its first element / wrong marker
			for _, name := range sortedKeys(base.Tags) {
				tt := tagByName[name]
				for _, op := range []*wire.ValidateOpts{nil, {SkipMandatoryIMAD: true, AllowMissingSenderSupplied: true}} {
					if len(tt.Elems) > 0 {
						m := base.Clone()
						m.Opts = op
						v := tt.Vals(m.Tags[name])
						last := len(tt.Elems) - 1
						m.Tags[name] = tt.New(tt.Marker(m.Tags[name]), setAt(v, last, v[last]+"*"))
						rec(m)
					}
					m := base.Clone()
					m.Opts = op
					m.Tags[name] = tt.New("{0000}", tt.Vals(m.Tags[name]))
					rec(m)
				}
			}
			// random presence vectors
			n := 150
			if thorough {
				n = 3000
			}
			for i := 0; i < n; i++ {
				m := base.Clone()
				k := 1 + rng.Intn(6)
				for j := 0; j < k; j++ {
					tt := tagTypes[rng.Intn(len(tagTypes))]
					if _, has := m.Tags[tt.Name]; has {
						delete(m.Tags, tt.Name)
					} else {
						addTag(m, tt.Name, rng.Intn(4))
					}
				}
				if rng.Intn(4) == 0 {
					m.Opts = optionSets()[rng.Intn(5)]
				}
				rec(m)
			}
		}
		// empty message and near-empty ones (verify must not panic)
		e := &Msg{Tags: map[string]reflect.Value{}}
		rec(e)
		for _, tt := range tagTypes {
			m := &Msg{Tags: map[string]reflect.Value{}}
			addTag(m, tt.Name, 0)
			rec(m)
			for _, op := range optionSets() {
				m2 := m.Clone()
				m2.Opts = op
				rec(m2)
			}
		}
	}
}

// amountFamily: all-zero amounts of every length 1..20, digit strings of lengths 0..20 (several shapes at the
// boundary lengths 11..14), and one non-digit substituted at every position of 12- and 13-character amounts.
func amountFamily(rng *Rng, thorough bool) []string {
	var out []string
	for n := 1; n <= 20; n++ {
		out = append(out, strings.Repeat("0", n))
	}
	for n := 0; n <= 20; n++ {
		out = append(out, strings.Repeat("9", n))
		if n > 0 {
			out = append(out, "1"+strings.Repeat("0", n-1), strings.Repeat("0", n-1)+"1")
		}
		if n >= 11 && n <= 14 {
			out = append(out, "1234567890123456"[:n], "0"+"1234567890123456"[:n-1], "10"+strings.Repeat("0", n-3)+"5")
		}
	}
	subs := []string{" ", "-", "+", ".", ",", "x", "e", "\x00", "\xc2\xa0", "\xef\xbc\x91", "\xd9\xa1", "\"", "\\"}
	for _, n := range []int{12, 13} {
		for pos := 0; pos < n; pos++ {
			for si, sub := range subs {
				if !thorough && (pos+si)%4 != int(rng.Intn(4)) {
					continue
				}
				d := "123456789012345"[:n]
				out = append(out, d[:pos]+sub+d[pos+1:])
			}
		}
	}
	return out
}

func allDigits(s string) bool {
	for i := 0; i < len(s); i++ {
		if s[i] < '0' || s[i] > '9' {
			return false
		}
	}
	return true
}

// amountRoutes returns "same" when the struct and JSON routes treat the supplied amount alike and as C19 demands.
func amountRoutes(base, m *Msg, amt, st string) string {
	structV := m.Validate()
	// JSON documents carrying exactly the supplied characters: built from the base message with a marker amount
	const mark = "777777777777"
	b := base.Clone()
	b.setElem("Amount", "Amount", mark)
	b.setElem("TypeSubType", "SubTypeCode", st)
	q, _ := json.Marshal(strings.ToValidUTF8(amt, "\uFFFD"))
	utf8ok := strings.ToValidUTF8(amt, "\uFFFD") == amt
	doc := fileJSON("amt", b)
	if strings.Count(doc, `"`+mark+`"`) != 1 {
		return "same" // the marker is not unique in this sample: nothing decided
	}
	doc = strings.Replace(doc, `"`+mark+`"`, string(q), 1)
	var f *wire.File
	var err error
	if pn, _ := protect(func() { f, err = wire.FileFromJSON([]byte(doc)) }); pn {
		return "differ:FileFromJSON panicked"
	}
	if err != nil || f == nil {
		return fmt.Sprintf("differ:FileFromJSON refused a document whose only change is the amount string: %v", err)
	}
	if f.FEDWireMessage.Amount == nil {
		return "differ:the decoded message has no {2000}"
	}
	held := f.FEDWireMessage.Amount.Amount
	if utf8ok && held != amt {
		return fmt.Sprintf("differ:JSON supplied the amount %q, the decoded message holds %q", amt, held)
	}
	var jsonV string
	if pn, _ := protect(func() { jsonV = verdictString(f.Validate()) }); pn {
		return "differ:Validate panicked on the decoded file"
	}
	if utf8ok && (jsonV == "ok") != (structV == "ok") {
		return fmt.Sprintf("differ:amount %q subtype %s: struct route %s, JSON route %s", amt, st, structV, jsonV)
	}
	for route, v := range map[string]string{"struct": structV, "JSON": jsonV} {
		if v != "ok" {
			continue
		}
		if route == "JSON" && !utf8ok {
			continue
		}
		if len(amt) < 1 || len(amt) > 12 || !allDigits(amt) {
			return fmt.Sprintf("differ:%s route accepted the amount %q, which is not 1..12 digits", route, amt)
		}
		if strings.Trim(amt, "0") == "" && st != "90" {
			return fmt.Sprintf("differ:%s route accepted the all-zero amount %q with subtype %s", route, amt, st)
		}
	}
	// what an accepted message writes: the supplied digits, zero-filled to twelve
	if jsonV == "ok" && utf8ok {
		for _, variable := range []bool{false, true} {
			var sb strings.Builder
			var werr error
			if pn, _ := protect(func() { werr = wire.NewWriter(&sb, wire.VariableLengthFields(variable)).Write(f) }); pn {
				return "differ:Write panicked on the decoded file"
			}
			if werr != nil {
				return fmt.Sprintf("differ:the decoded file validates but is not written: %v", werr)
			}
			want := "{2000}" + strings.Repeat("0", 12-len(amt)) + amt
			if !strings.Contains(sb.String(), want) {
				return fmt.Sprintf("differ:amount %q accepted through JSON is not written as %s", amt, want)
			}
		}
	}
	return "same"
}
