//go:build verif

package main

import (
	"reflect"
	"sort"

	"github.com/moov-io/wire"
)

var bfcCodes = []string{"BTR", "CKS", "CTP", "CTR", "DEP", "DRB", "DRC", "DRW", "FFR", "FFS", "SVC", "XXX", ""}
var typeCodes = []string{"10", "15", "16", "11"}
var subTypeCodes = []string{"00", "01", "02", "07", "08", "31", "32", "33", "90", "99"}
var liCodes = []string{"ANSI", "COVS", "GXML", "IXML", "NARR", "PROP", "RMTS", "RRMT", "S820", "SWIF", "UEDI", "ZZZZ"}

func optionSets() []*wire.ValidateOpts {
	return []*wire.ValidateOpts{nil, {}, {SkipMandatoryIMAD: true}, {AllowMissingSenderSupplied: true}, {SkipMandatoryIMAD: true, AllowMissingSenderSupplied: true}}
}

func (m *Msg) setElem(tag, path, v string) bool {
	p, ok := m.Tags[tag]
	if !ok {
		return false
	}
	tt := tagByName[tag]
	for _, e := range tt.Elems {
		if e.Path == path {
			p.Elem().FieldByIndex(e.Index).SetString(v)
			return true
		}
	}
	return false
}

func sortedSampleNames(s map[string]*Msg) []string {
	var names []string
	for n := range s {
		names = append(names, n)
	}
	sort.Strings(names)
	return names
}

func init() {
	streams["l3-validate"] = func(o *Out, rng *Rng, thorough bool) {
		samples := loadSamples()
		bases := baseTags(samples)
		rec := func(m *Msg) { o.Case("msg:validate", m.Validate(), m.Args()...) }
		addTag := func(m *Msg, name string, k int) bool {
			b := bases[name]
			if len(b) == 0 {
				return false
			}
			bt := b[k%len(b)]
			m.Tags[name] = tagByName[name].New(bt.marker, bt.vals)
			return true
		}
		for _, sn := range sortedSampleNames(samples) {
			base := samples[sn]
			for _, op := range optionSets() {
				m := base.Clone()
				m.Opts = op
				rec(m)
			}
			// Hamming distance 1: toggle each tag
			for _, tt := range tagTypes {
				for _, op := range []*wire.ValidateOpts{nil, {SkipMandatoryIMAD: true, AllowMissingSenderSupplied: true}} {
					m := base.Clone()
					m.Opts = op
					if _, has := m.Tags[tt.Name]; has {
						delete(m.Tags, tt.Name)
					} else if !addTag(m, tt.Name, 0) {
						continue
					}
					rec(m)
				}
			}
			// Hamming distance 2
			stride := 1
			if !thorough {
				stride = 3
			}
			cnt := 0
			for i, a := range tagTypes {
				for _, b := range tagTypes[i+1:] {
					cnt++
					if cnt%stride != 0 {
						continue
					}
					m := base.Clone()
					for _, tt := range []*TagType{a, b} {
						if _, has := m.Tags[tt.Name]; has {
							delete(m.Tags, tt.Name)
						} else {
							addTag(m, tt.Name, cnt)
						}
					}
					rec(m)
				}
			}
			// code combinations on this presence vector
			for _, bfc := range bfcCodes {
				for _, tc := range typeCodes {
					for _, sc := range subTypeCodes {
						if !thorough && rng.Intn(3) != 0 {
							continue
						}
						m := base.Clone()
						m.setElem("BusinessFunctionCode", "BusinessFunctionCode", bfc)
						m.setElem("TypeSubType", "TypeCode", tc)
						m.setElem("TypeSubType", "SubTypeCode", sc)
						rec(m)
					}
				}
			}
			for _, ttc := range []string{"", "   ", "COV", "XYZ", " "} {
				m := base.Clone()
				m.setElem("BusinessFunctionCode", "TransactionTypeCode", ttc)
				rec(m)
			}
			for _, li := range liCodes {
				for _, prop := range []string{"", "PROPCODE"} {
					m := base.Clone()
					if _, has := m.Tags["LocalInstrument"]; !has {
						addTag(m, "LocalInstrument", 0)
					}
					m.setElem("LocalInstrument", "LocalInstrumentCode", li)
					m.setElem("LocalInstrument", "ProprietaryCode", prop)
					rec(m)
					// with each remittance / cover / addenda tag toggled
					for _, tn := range []string{"UnstructuredAddenda", "RelatedRemittance", "RemittanceOriginator", "RemittanceBeneficiary", "PrimaryRemittanceDocument",
						"ActualAmountPaid", "GrossAmountRemittanceDocument", "AmountNegotiatedDiscount", "Adjustment", "DateRemittanceDocument",
						"SecondaryRemittanceDocument", "RemittanceFreeText", "OrderingCustomer", "BeneficiaryCustomer", "BeneficiaryReference", "Charges",
						"InstructedAmount", "ExchangeRate", "CurrencyInstructedAmount", "ServiceMessage"} {
						if prop != "" {
							continue
						}
						m2 := m.Clone()
						if _, has := m2.Tags[tn]; has {
							delete(m2.Tags, tn)
						} else {
							addTag(m2, tn, 0)
						}
						rec(m2)
					}
				}
			}
			// identification code T for beneficiary / originator; amount variants
			for _, tag := range []string{"Beneficiary", "Originator"} {
				for _, code := range []string{"T", "D", ""} {
					m := base.Clone()
					if _, has := m.Tags[tag]; !has {
						addTag(m, tag, 0)
					}
					m.setElem(tag, "Personal.IdentificationCode", code)
					rec(m)
				}
			}
			for _, amt := range []string{"000000000000", "00000000000", "0", "0000000000000", "000000000001", "1", "1234567890123", "12345678901x", "",
				"-00001234567", "+00001234567", "-1", "+1", "-00000000000", "+0", "1e5", "0x10", " 1234", "1234 ", "12 34", "1,234", "12.34", "00000000000000000000", "99999999999999999999", "\xef\xbc\x91234"} {
				for _, st := range []string{"00", "90"} {
					m := base.Clone()
					m.setElem("Amount", "Amount", amt)
					m.setElem("TypeSubType", "SubTypeCode", st)
					rec(m)
				}
			}
			// every present tag made invalid by a forbidden character in its first element / wrong marker
			for _, name := range sortedKeys(base.Tags) {
				tt := tagByName[name]
				for _, op := range []*wire.ValidateOpts{nil, {SkipMandatoryIMAD: true, AllowMissingSenderSupplied: true}} {
					if len(tt.Elems) > 0 {
						m := base.Clone()
						m.Opts = op
						v := tt.Vals(m.Tags[name])
						last := len(tt.Elems) - 1
						m.Tags[name] = tt.New(tt.Marker(m.Tags[name]), setAt(v, last, v[last]+"*"))
						rec(m)
					}
					m := base.Clone()
					m.Opts = op
					m.Tags[name] = tt.New("{0000}", tt.Vals(m.Tags[name]))
					rec(m)
				}
			}
			// random presence vectors
			n := 150
			if thorough {
				n = 3000
			}
			for i := 0; i < n; i++ {
				m := base.Clone()
				k := 1 + rng.Intn(6)
				for j := 0; j < k; j++ {
					tt := tagTypes[rng.Intn(len(tagTypes))]
					if _, has := m.Tags[tt.Name]; has {
						delete(m.Tags, tt.Name)
					} else {
						addTag(m, tt.Name, rng.Intn(4))
					}
				}
				if rng.Intn(4) == 0 {
					m.Opts = optionSets()[rng.Intn(5)]
				}
				rec(m)
			}
		}
		// empty message and near-empty ones (verify must not panic)
		e := &Msg{Tags: map[string]reflect.Value{}}
		rec(e)
		for _, tt := range tagTypes {
			m := &Msg{Tags: map[string]reflect.Value{}}
			addTag(m, tt.Name, 0)
			rec(m)
			for _, op := range optionSets() {
				m2 := m.Clone()
				m2.Opts = op
				rec(m2)
			}
		}
	}
}
