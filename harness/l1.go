//go:build verif

package main

import (
	"fmt"
	"strings"

	"github.com/moov-io/wire"
)

// small alphabet whose members exercise every branch of the kernel functions
var l1Alphabet = []string{"*", "{", "}", " ", "0", "9", "A", "z", "\n", "\r", "/", "1", ",", ".", "\xc3", "\xa9", "\xc2", "\xa0", "\x85", "\xe2", "\x80", "\t", "~", "[", "^"}

func smallStrings(maxLen int, alpha []string) []string {
	out := []string{""}
	cur := []string{""}
	for l := 1; l <= maxLen; l++ {
		var next []string
		for _, p := range cur {
			for _, a := range alpha {
				next = append(next, p+a)
			}
		}
		out = append(out, next...)
		cur = next
	}
	return out
}

var validatorNames = []string{"isAlphanumeric", "isNumeric", "isAmount", "isAmountImplied", "isTypeCode", "isSubTypeCode",
	"isLocalInstrumentCode", "isTestProductionCode", "isMessageDuplicationCode", "isBusinessFunctionCode", "isChargeDetails",
	"isTransactionTypeCode", "isIdentificationCode", "isAdviceCode", "isAddressType", "isRemittanceLocationMethod",
	"isIdentificationType", "isOrganizationIdentificationCode", "isPrivateIdentificationCode", "isDocumentTypeCode",
	"isCreditDebitIndicator", "isAdjustmentReasonCode", "isCurrencyCode", "isCentury", "isYear", "isMonth",
	"validateDate", "validatePartyIdentifier", "validateUIDPartyIdentifier", "validateOptionFLine", "validateOptionFName"}

func callValidator(o *Out, name string, args ...string) {
	err, ok := wire.VerifValidator(name, args...)
	if !ok {
		o.Case("validator:"+name, "missing-hook", args...)
		return
	}
	o.Case("validator:"+name, errName(err), args...)
}

func randString(rng *Rng, n int) string {
	var b strings.Builder
	for i := 0; i < n; i++ {
		switch rng.Intn(10) {
		case 0:
			b.WriteString(l1Alphabet[rng.Intn(len(l1Alphabet))])
		case 1:
			b.WriteByte(byte(rng.Intn(256)))
		default:
			b.WriteByte("ABCDEFGHIJKLMNOPQRSTUVWXYZabcdefghijklmnopqrstuvwxyz0123456789 .,/-"[rng.Intn(67)])
		}
	}
	return b.String()
}

func init() {
	streams["l1-validators"] = func(o *Out, rng *Rng, thorough bool) {
		// every single byte, alone and embedded first/middle/last
		for b := 0; b < 256; b++ {
			c := string([]byte{byte(b)})
			for _, s := range []string{c, c + "AB", "A" + c + "B", "AB" + c} {
				for _, n := range []string{"isAlphanumeric", "isNumeric", "isAmount", "isAmountImplied"} {
					callValidator(o, n, s)
				}
			}
		}
		// code points: every rune below 0x3000 (quick) / all (thorough), as 1-char value and embedded
		maxRune := 0x3100
		if thorough {
			maxRune = 0x110000
		}
		for r := 0x80; r < maxRune; r++ {
			if r >= 0xD800 && r < 0xE000 {
				continue
			}
			c := string(rune(r))
			step := 1
			if !thorough && r > 0x800 && r%7 != 0 {
				_ = step
				continue
			}
			callValidator(o, "isAlphanumeric", c)
			callValidator(o, "isAlphanumeric", "A"+c+"B")
			callValidator(o, "isNumeric", "1"+c)
			callValidator(o, "isAmount", c+"1")
		}
		// numeric / amount validators: signs, exponents, radix prefixes, blanks, full-width digits
		for _, s := range []string{"+1", "-1", "+", "-", "-0", "+00001234567", "-00001234567", "1e5", "1E5", "0x10", "0b1", "0o7", "1_000", " 1", "1 ", "1 2",
			"\xef\xbc\x91", "\xd9\xa1", "1,000", "1.5", ".5", "5.", ",", ".", "1,,2", ",1,", "1..2", "Inf", "NaN", "١٢٣"} {
			for _, n := range []string{"isNumeric", "isAmount", "isAmountImplied", "isAlphanumeric"} {
				callValidator(o, n, s)
			}
		}
		// code lists: all strings up to length 2 over a reduced alphabet, members, near-misses
		small := smallStrings(2, []string{" ", "0", "1", "3", "9", "B", "C", "P", "T", "O", "I", "M", "b", "*"})
		members := []string{"BTR", "CKS", "CTP", "CTR", "DEP", "DRB", "DRC", "DRW", "FFR", "FFS", "SVC", "10", "15", "16", "00", "01", "02", "07", "08", "31", "32", "33", "90",
			"ANSI", "COVS", "GXML", "IXML", "NARR", "PROP", "RMTS", "RRMT", "S820", "SWIF", "UEDI", "HLD", "LTR", "PHN", "TLX", "WRE", "EDIC", "EMAL", "FAXI", "POST", "SMSM", "URID",
			"ADDR", "HOME", "BIZZ", "MLTO", "DLVY", "PBOX", "OI", "PI", "BANK", "CUST", "DUNS", "EMPL", "GS1G", "SWBB", "TXID", "ARNU", "CCPT", "DPOB", "NIDN", "SOSE",
			"AROI", "BOLD", "CINV", "CMCN", "CNFA", "CREN", "DEBN", "DISP", "DNFA", "HIRI", "MSIN", "PUOR", "SBIN", "SOAC", "TSUT", "VCHR", "CRDT", "DBIT", "CM", "03", "04", "05", "06", "11", "12", "59", "75", "81",
			"COV", "   ", "USD", "usd", "EUR", "XXX", "ZZZ", "US", "USDD", "B", "C", "D", "F", "T", "U", "S", "P", " ", "1", "2", "3", "4", "5", "9", "DRLC"}
		var near []string
		for _, m := range members {
			near = append(near, m, strings.ToLower(m), m+" ", " "+m, m[:len(m)-1], m+"X")
			if len(m) > 1 {
				near = append(near, m[1:]+m[:1])
			}
		}
		for _, n := range validatorNames {
			if !strings.HasPrefix(n, "is") || n == "isAlphanumeric" || n == "isNumeric" || n == "isAmount" || n == "isAmountImplied" {
				continue
			}
			for _, s := range small {
				callValidator(o, n, s)
			}
			for _, s := range near {
				callValidator(o, n, s)
			}
		}
		// isDay over all month/day pairs of two digits plus junk
		for m := 0; m < 14; m++ {
			for d := 0; d < 34; d++ {
				callValidator(o, "isDay", fmt.Sprintf("%02d", m), fmt.Sprintf("%02d", d))
			}
		}
		callValidator(o, "isDay", "1", "01")
		callValidator(o, "isDay", "01", "1")
		callValidator(o, "isDay", "x2", "0x")
		// dates: structured sweep + single-position substitutions + random digits
		subs := []string{"x", "*", "{", " ", ":", "/", "\xff", "\xc3\xa9", ""}
		var dates []string
		for _, cc := range []string{"19", "20", "21", "25", "29", "30", "2", "2x"} {
			for _, yy := range []string{"00", "07", "24", "99", "9:", "1x", "0\xff", "9 "} {
				for mm := 0; mm <= 13; mm++ {
					for _, dd := range []int{0, 1, 9, 10, 28, 29, 30, 31, 32} {
						dates = append(dates, fmt.Sprintf("%s%s%02d%02d", cc, yy, mm, dd))
					}
				}
			}
		}
		nrand := 3000
		if thorough {
			nrand = 300000
		}
		for i := 0; i < nrand; i++ {
			dates = append(dates, fmt.Sprintf("%08d", 19000000+rng.Intn(11999999)))
		}
		for _, d := range dates {
			callValidator(o, "validateDate", d)
		}
		for i := 0; i < 400; i++ {
			d := fmt.Sprintf("20%02d%02d%02d", rng.Intn(100), 1+rng.Intn(12), 1+rng.Intn(28))
			for pos := 0; pos <= 8; pos++ {
				for _, s := range subs {
					if pos < 8 {
						callValidator(o, "validateDate", d[:pos]+s+d[pos+1:])
					} else {
						callValidator(o, "validateDate", d+s)
					}
				}
			}
		}
		// identifier shapes
		shapeAlpha := []string{"/", "1", "2", "9", "A", " ", "*", "{", "\xc3\xa9", "\xa0", ""}
		for _, s := range smallStrings(4, shapeAlpha) {
			callValidator(o, "validatePartyIdentifier", s)
			callValidator(o, "validateOptionFLine", s)
			callValidator(o, "validateOptionFName", s)
		}
		for _, uid := range []string{"ARNU", "CCPT", "CUST", "DRLC", "EMPL", "NIDN", "SOSE", "TXID", "XXXX", "arnu", "SOS"} {
			for _, tail := range smallStrings(3, []string{"/", "1", " ", "*", "\xc3\xa9", "A"}) {
				callValidator(o, "validatePartyIdentifier", uid+tail)
				callValidator(o, "validateUIDPartyIdentifier", uid+tail)
			}
		}
		n := 2000
		if thorough {
			n = 100000
		}
		for i := 0; i < n; i++ {
			s := randString(rng, rng.Intn(12))
			pre := []string{"/", "1/", "2/", "SOSE/", "TXID/", "8/", "", "/ ", "1/ "}[rng.Intn(9)]
			callValidator(o, "validatePartyIdentifier", pre+s)
			callValidator(o, "validateOptionFLine", pre+s)
			callValidator(o, "validateOptionFName", pre+s)
			callValidator(o, "isAlphanumeric", s)
			callValidator(o, "isAmount", s)
		}
	}
}
