//go:build verif

// Correspondence harness: runs the moov-io/wire implementation (built from /repo's working
// tree with -tags verif) on generated inputs and records canonical observations, one per line.
// The extracted Coq model is then run on the same lines by coq/extraction/driver.
package main

import (
	"encoding/json"
	"flag"
	"fmt"
	"os"
	"sort"
	"strconv"
)

type streamFn func(o *Out, rng *Rng, thorough bool)

var streams = map[string]streamFn{}

func main() {
	stream := flag.String("stream", "", "stream name")
	out := flag.String("out", "", "cases file to write")
	stats := flag.String("stats", "", "stats json to write")
	tier := flag.String("tier", "quick", "quick|thorough")
	seedFlag := flag.String("seed", "", "seed (default $VERIF_SEED or 1)")
	flag.Parse()
	seed := uint64(1)
	s := *seedFlag
	if s == "" {
		s = os.Getenv("VERIF_SEED")
	}
	if s != "" {
		if v, err := strconv.ParseUint(s, 10, 64); err == nil {
			seed = v
		}
	}
	fn, ok := streams[*stream]
	if !ok {
		var names []string
		for n := range streams {
			names = append(names, n)
		}
		sort.Strings(names)
		fmt.Fprintf(os.Stderr, "unknown stream %q; have %v\n", *stream, names)
		os.Exit(2)
	}
	o := NewOut(*out)
	fn(o, NewRng(seed), *tier == "thorough")
	o.Close()
	if *stats != "" {
		b, _ := json.MarshalIndent(map[string]any{
			"stream": *stream, "seed": seed, "tier": *tier, "cases": o.n,
			"by_function": o.byFn, "result_kinds": o.kinds, "samples": o.sample,
		}, "", " ")
		os.WriteFile(*stats, b, 0o644)
	}
	fmt.Printf("stream=%s cases=%d\n", *stream, o.n)
}
