//go:build verif

package main

import (
	"bytes"
	"fmt"

	"github.com/moov-io/wire"
)

func (m *Msg) Write(variable bool, nl string) (string, int) {
	var buf bytes.Buffer
	f := &wire.File{FEDWireMessage: *m.ToWire()}
	var err error
	pn, _ := protect(func() {
		w := wire.NewWriter(&buf, wire.VariableLengthFields(variable), wire.NewlineCharacter(nl))
		err = w.Write(f)
	})
	if pn {
		return "panic", buf.Len()
	}
	if err != nil {
		return verdictString(err), buf.Len()
	}
	return "ok:" + hx(buf.String()), buf.Len()
}

func init() {
	streams["l3-write"] = func(o *Out, rng *Rng, thorough bool) {
		samples := loadSamples()
		bases := baseTags(samples)
		layouts := []struct {
			v  bool
			nl string
		}{{false, "\n"}, {true, "\n"}, {false, "\r\n"}, {true, "\r\n"}, {false, ""}, {true, ""}}
		rec := func(m *Msg) {
			for _, l := range layouts {
				res, n := m.Write(l.v, l.nl)
				vs := "0"
				if l.v {
					vs = "1"
				}
				args := append([]string{vs, l.nl}, m.Args()...)
				o.Case("msg:write", res, args...)
				if res[:2] != "ok" {
					o.Case("msg:write-refusal-bytes", fmt.Sprint(n), args...)
				}
			}
		}
		addTag := func(m *Msg, name string, k int) bool {
			b := bases[name]
			if len(b) == 0 {
				return false
			}
			bt := b[k%len(b)]
			m.Tags[name] = tagByName[name].New(bt.marker, bt.vals)
			return true
		}
		for _, sn := range sortedSampleNames(samples) {
			base := samples[sn]
			for _, op := range optionSets() {
				m := base.Clone()
				m.Opts = op
				rec(m)
				// each mandatory tag removed, under each option set
				for _, tn := range []string{"SenderSupplied", "TypeSubType", "InputMessageAccountabilityData", "Amount",
					"SenderDepositoryInstitution", "ReceiverDepositoryInstitution", "BusinessFunctionCode"} {
					m2 := m.Clone()
					delete(m2.Tags, tn)
					rec(m2)
				}
			}
			// toggles (valid and invalid results), boundary element values
			n := 12
			if thorough {
				n = 200
			}
			for i := 0; i < n; i++ {
				m := base.Clone()
				tt := tagTypes[rng.Intn(len(tagTypes))]
				if _, has := m.Tags[tt.Name]; has {
					delete(m.Tags, tt.Name)
				} else {
					addTag(m, tt.Name, i)
				}
				rec(m)
			}
			// element values at boundary widths, blank, over width, hostile characters in every present tag
			for _, name := range sortedKeys(base.Tags) {
				tt := tagByName[name]
				for i := range tt.Elems {
					if !thorough && rng.Intn(3) != 0 {
						continue
					}
					w := tt.WidthOf(i)
					cls := valueClasses(w, tt.Vals(base.Tags[name])[i])
					for k := 0; k < 4; k++ {
						v := cls[rng.Intn(len(cls))]
						m := base.Clone()
						m.Tags[name] = tt.New(tt.Marker(m.Tags[name]), setAt(tt.Vals(m.Tags[name]), i, v))
						rec(m)
					}
				}
			}
		}
	}
}
