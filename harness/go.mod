module verif/harness

go 1.21

require (
	github.com/anishathalye/porcupine v1.3.0
	github.com/moov-io/base v0.51.1
	github.com/moov-io/wire v0.0.0
)

require (
	github.com/antihax/optional v1.0.0 // indirect
	golang.org/x/oauth2 v0.22.0 // indirect
)

require (
	github.com/rickar/cal/v2 v2.1.17 // indirect
	golang.org/x/text v0.17.0 // indirect
)

replace github.com/moov-io/wire => /repo
