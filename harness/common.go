//go:build verif

package main

import (
	"bufio"
	"encoding/hex"
	"errors"
	"fmt"
	"os"
	"strings"

	"github.com/moov-io/wire"
)

// ---- deterministic PRNG (splitmix64): every random choice derives from VERIF_SEED ----
type Rng struct{ s uint64 }

func NewRng(seed uint64) *Rng { return &Rng{s: seed*0x9E3779B97F4A7C15 + 0x1234567} }
func (r *Rng) Next() uint64 {
	r.s += 0x9E3779B97F4A7C15
	z := r.s
	z = (z ^ (z >> 30)) * 0xBF58476D1CE4E5B9
	z = (z ^ (z >> 27)) * 0x94D049BB133111EB
	return z ^ (z >> 31)
}
func (r *Rng) Intn(n int) int {
	if n <= 0 {
		return 0
	}
	return int(r.Next() % uint64(n))
}
func (r *Rng) Bool() bool              { return r.Next()&1 == 1 }
func (r *Rng) Pick(ss []string) string { return ss[r.Intn(len(ss))] }

// ---- case file writer ----
type Out struct {
	w      *bufio.Writer
	f      *os.File
	n      int
	byFn   map[string]int
	seen   map[string]bool // distinct (fn,args)
	kinds  map[string]int  // result kinds (distribution)
	sample []string
}

func NewOut(path string) *Out {
	f, err := os.Create(path)
	if err != nil {
		panic(err)
	}
	return &Out{w: bufio.NewWriterSize(f, 1<<20), f: f, byFn: map[string]int{}, seen: map[string]bool{}, kinds: map[string]int{}}
}

func hx(s string) string {
	if s == "" {
		return "-"
	}
	return hex.EncodeToString([]byte(s))
}

// Case records one observation: function id, arguments (byte strings, written hex-encoded;
// numbers are passed as decimal text) and the canonical observed result (plain ASCII, no tabs).
func (o *Out) Case(fn string, result string, args ...string) {
	result = resultEscaper.Replace(result) // one case per line, tab-separated
	var b strings.Builder
	b.WriteString(fn)
	for _, a := range args {
		b.WriteByte('\t')
		b.WriteString(hx(a))
	}
	key := b.String()
	if o.seen[key] {
		return
	}
	o.seen[key] = true
	b.WriteString("\t=>\t")
	b.WriteString(result)
	b.WriteByte('\n')
	o.w.WriteString(b.String())
	o.n++
	o.byFn[fn]++
	k := result
	if i := strings.IndexAny(k, "|:"); i >= 0 {
		k = k[:i]
	}
	if len(k) > 24 {
		k = k[:24]
	}
	o.kinds[fn+"/"+k]++
	if len(o.sample) < 12 && o.n%97 == 1 {
		o.sample = append(o.sample, strings.TrimSpace(b.String()))
	}
}

func (o *Out) Close() {
	o.w.Flush()
	o.f.Close()
}

// ---- canonical error names ----
var sentinels = []struct {
	name string
	err  error
}{
	{"ErrValidTagForType", wire.ErrValidTagForType}, {"ErrNonNumeric", wire.ErrNonNumeric},
	{"ErrNonAlphanumeric", wire.ErrNonAlphanumeric}, {"ErrNonAmount", wire.ErrNonAmount},
	{"ErrNonCurrencyCode", wire.ErrNonCurrencyCode}, {"ErrUpperAlpha", wire.ErrUpperAlpha},
	{"ErrFieldInclusion", wire.ErrFieldInclusion}, {"ErrConstructor", wire.ErrConstructor},
	{"ErrFieldRequired", wire.ErrFieldRequired}, {"ErrNotPermitted", wire.ErrNotPermitted},
	{"ErrValidMonth", wire.ErrValidMonth}, {"ErrValidDay", wire.ErrValidDay},
	{"ErrValidYear", wire.ErrValidYear}, {"ErrValidCentury", wire.ErrValidCentury},
	{"ErrValidDate", wire.ErrValidDate}, {"ErrInvalidProperty", wire.ErrInvalidProperty},
	{"ErrFormatVersion", wire.ErrFormatVersion}, {"ErrTestProductionCode", wire.ErrTestProductionCode},
	{"ErrMessageDuplicationCode", wire.ErrMessageDuplicationCode}, {"ErrTypeCode", wire.ErrTypeCode},
	{"ErrSubTypeCode", wire.ErrSubTypeCode}, {"ErrBusinessFunctionCode", wire.ErrBusinessFunctionCode},
	{"ErrTransactionTypeCode", wire.ErrTransactionTypeCode},
	{"ErrLocalInstrumentNotPermitted", wire.ErrLocalInstrumentNotPermitted},
	{"ErrLocalInstrumentCode", wire.ErrLocalInstrumentCode},
	{"ErrPaymentNotificationIndicator", wire.ErrPaymentNotificationIndicator},
	{"ErrChargeDetails", wire.ErrChargeDetails}, {"ErrIdentificationCode", wire.ErrIdentificationCode},
	{"ErrAdviceCode", wire.ErrAdviceCode}, {"ErrRemittanceLocationMethod", wire.ErrRemittanceLocationMethod},
	{"ErrAddressType", wire.ErrAddressType}, {"ErrIdentificationType", wire.ErrIdentificationType},
	{"ErrOrganizationIdentificationCode", wire.ErrOrganizationIdentificationCode},
	{"ErrPrivateIdentificationCode", wire.ErrPrivateIdentificationCode},
	{"ErrDocumentTypeCode", wire.ErrDocumentTypeCode}, {"ErrCreditDebitIndicator", wire.ErrCreditDebitIndicator},
	{"ErrAdjustmentReasonCode", wire.ErrAdjustmentReasonCode}, {"ErrPartyIdentifier", wire.ErrPartyIdentifier},
	{"ErrOptionFLine", wire.ErrOptionFLine}, {"ErrOptionFName", wire.ErrOptionFName},
	{"ErrValidLength", wire.ErrValidLength}, {"ErrRequireDelimiter", wire.ErrRequireDelimiter},
}

// errName maps an error to the name of the sentinel it wraps, or to its dynamic type.
func errName(err error) string {
	if err == nil {
		return "ok"
	}
	for _, s := range sentinels {
		if errors.Is(err, s.err) {
			return s.name
		}
	}
	var fe *wire.FieldError
	if errors.As(err, &fe) && fe.Err != nil && fe.Err != err {
		return errName(fe.Err)
	}
	switch err.(type) {
	case wire.TagWrongLengthErr, *wire.TagWrongLengthErr:
		return "TagWrongLengthErr"
	case wire.ErrInvalidTag, *wire.ErrInvalidTag:
		return "ErrInvalidTag"
	case wire.ErrBusinessFunctionCodeProperty, *wire.ErrBusinessFunctionCodeProperty:
		return "ErrBusinessFunctionCodeProperty"
	case wire.ErrInvalidPropertyForProperty, *wire.ErrInvalidPropertyForProperty:
		return "ErrInvalidPropertyForProperty"
	case wire.FieldWrongLengthErr, *wire.FieldWrongLengthErr:
		return "FieldWrongLengthErr"
	}
	return fmt.Sprintf("other(%T)", err)
}

// fieldOf returns the FieldName of the outermost FieldError, or "".
func fieldOf(err error) string {
	var fe *wire.FieldError
	if errors.As(err, &fe) {
		return fe.FieldName
	}
	return ""
}

// Raw appends case lines produced by another harness process.
func (o *Out) Raw(lines string) {
	for _, l := range strings.Split(lines, "\n") {
		if l == "" || o.seen[l] {
			continue
		}
		o.seen[l] = true
		o.w.WriteString(l + "\n")
		o.n++
	}
}

var resultEscaper = strings.NewReplacer("\n", "\\n", "\r", "\\r", "\t", "\\t")
