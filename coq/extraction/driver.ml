(* Reads case lines "fn \t arg ... \t => \t observed", evaluates the extracted model on the
   same arguments and reports every line where the model's canonical result differs. *)

let rec pos_of_int n = if n = 1 then Model.XH else if n land 1 = 0 then Model.XO (pos_of_int (n lsr 1)) else Model.XI (pos_of_int (n lsr 1))
let n_of_int n = if n = 0 then Model.N0 else Model.Npos (pos_of_int n)
let rec int_of_pos = function Model.XH -> 1 | Model.XO p -> 2 * int_of_pos p | Model.XI p -> 2 * int_of_pos p + 1
let int_of_n = function Model.N0 -> 0 | Model.Npos p -> int_of_pos p

let byte_tbl = Array.init 256 (fun i -> match Model.byte_of_n (n_of_int i) with Some b -> b | None -> failwith "byte")
let int_of_byte b = int_of_n (Model.byte_to_n b)

let bytes_of_string (s : string) =
  let rec go i acc = if i < 0 then acc else go (i - 1) (byte_tbl.(Char.code s.[i]) :: acc) in
  go (String.length s - 1) []

let string_of_bytes l =
  let b = Buffer.create 64 in
  List.iter (fun x -> Buffer.add_char b (Char.chr (int_of_byte x))) l;
  Buffer.contents b

let unhex s =
  if s = "-" then "" else begin
    let n = String.length s / 2 in
    String.init n (fun i -> Char.chr (int_of_string ("0x" ^ String.sub s (2 * i) 2)))
  end

let decode_arg a = unhex a

let () =
  let ic = if Array.length Sys.argv > 1 then open_in_bin Sys.argv.(1) else stdin in
  let oc = if Array.length Sys.argv > 2 then open_out_bin Sys.argv.(2) else stdout in
  let pid = bytes_of_string (if Array.length Sys.argv > 3 then Sys.argv.(3) else "") in
  let total = ref 0 and bad = ref 0 and decided = ref 0 and specfail = ref 0 and shown_sf = ref 0 in
  let shown = ref 0 in
  (try
     while true do
       let line = input_line ic in
       if line <> "" then begin
         let fields = String.split_on_char '\t' line in
         match fields with
         | fn :: rest ->
           let rec split acc = function
             | "=>" :: [obs] -> (List.rev acc, obs)
             | x :: t -> split (x :: acc) t
             | [] -> (List.rev acc, "<none>") in
           let (args, obs) = split [] rest in
           let margs = List.map (fun a -> bytes_of_string (decode_arg a)) args in
           let r = string_of_bytes (Model.run (bytes_of_string fn) margs) in
           incr total;
           (match Model.oracle pid (bytes_of_string fn) margs with
            | Some e ->
              incr decided;
              let e = string_of_bytes e in
              let is_ok = obs = "ok" || (String.length obs >= 3 && (String.sub obs 0 3 = "ok:" || String.sub obs 0 3 = "ok|")) in
              let obs_class = if is_ok then "ok" else "reject" in
              let bad =
                if e = "no-panic" then obs = "panic"
                else if e = "ok" || e = "reject" then e <> obs_class
                else e <> obs in
              if bad then begin
                incr specfail;
                if !shown_sf < 100000 then begin incr shown_sf; Printf.fprintf oc "SPECFAIL\t%s\tspec=%s\n" line e end
              end
            | None -> ());
           if r <> obs && r <> "unmodelled" then begin
             incr bad;
             if !shown < 100000 then begin
               incr shown;
               Printf.fprintf oc "MISMATCH\t%s\tmodel=%s\n" line r
             end
           end
         | [] -> ()
       end
     done
   with End_of_file -> ());
  if oc != stdout then close_out oc;
  Printf.printf "SUMMARY total=%d mismatches=%d spec_decided=%d specfail=%d\n" !total !bad !decided !specfail
