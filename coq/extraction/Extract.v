(* Extraction of the executable model. Only ExtrOcamlBasic's directives are used
   (bool, option, unit, list, prod, sumbool, sumor); nat, N, Z, positive, byte, string stay
   as extracted inductives. No Extract Constant. *)
From Coq Require Extraction ExtrOcamlBasic.
From Wire Require Import Base.Bytes Model.Harness.
Extraction "model.ml" run oracle byte_of_n byte_to_n.
