(* Specification side, written from the FAIM documentation quoted in /repo (validators.go
   header comment, const.go comments, openapi.yaml enums) - NOT derived from the code. *)
From Wire Require Import Base.Bytes.

Definition is_upper (b : byte) : bool := in_rng b 65 90.
Definition is_lower (b : byte) : bool := in_rng b 97 122.

(* FAIM 3.0.6: alpha-numeric including spaces and the 25 special characters listed in validators.go *)
Definition faim_specials : bytes := bs ".?!,;:_@&/\'""`~()<>$#%+-=".

Definition faim_char (b : byte) : bool :=
  is_upper b || is_lower b || is_digit b || beqb b x20 || existsb (beqb b) faim_specials.

Definition amount_char (b : byte) : bool := is_digit b || beqb b x2c || beqb b x2e.

(* the characters that would break segment framing *)
Definition framing_char (b : byte) : bool :=
  beqb b x2a || beqb b x7b || beqb b x7d || beqb b x0a || beqb b x0d.

(* published code lists *)
Definition code_lists : list (string * list bytes) :=
  [ ("isTypeCode"%string, [bs "10"; bs "15"; bs "16"]);
    ("isSubTypeCode"%string, [bs "00"; bs "01"; bs "02"; bs "07"; bs "08"; bs "31"; bs "32"; bs "33"; bs "90"]);
    ("isBusinessFunctionCode"%string,
       [bs "BTR"; bs "CKS"; bs "CTP"; bs "CTR"; bs "DEP"; bs "DRB"; bs "DRC"; bs "DRW"; bs "FFR"; bs "FFS"; bs "SVC"]);
    ("isLocalInstrumentCode"%string,
       [bs "ANSI"; bs "COVS"; bs "GXML"; bs "IXML"; bs "NARR"; bs "PROP"; bs "RMTS"; bs "RRMT"; bs "S820"; bs "SWIF"; bs "UEDI"]);
    ("isTestProductionCode"%string, [bs "T"; bs "P"]);
    ("isMessageDuplicationCode"%string, [bs " "; bs "P"]);
    ("isChargeDetails"%string, [bs "B"; bs "S"]);
    ("isTransactionTypeCode"%string, [bs ""; bs "   "; bs "COV"]);
    ("isIdentificationCode"%string,
       [bs "B"; bs "C"; bs "D"; bs "F"; bs "T"; bs "U"; bs "1"; bs "2"; bs "3"; bs "4"; bs "5"; bs "9"]);
    ("isAdviceCode"%string, [bs "HLD"; bs "LTR"; bs "PHN"; bs "TLX"; bs "WRE"]);
    ("isAddressType"%string, [bs "ADDR"; bs "HOME"; bs "BIZZ"; bs "MLTO"; bs "DLVY"; bs "PBOX"]);
    ("isRemittanceLocationMethod"%string, [bs "EDIC"; bs "EMAL"; bs "FAXI"; bs "POST"; bs "SMSM"; bs "URID"]);
    ("isIdentificationType"%string, [bs "OI"; bs "PI"]);
    ("isOrganizationIdentificationCode"%string,
       [bs "BANK"; bs "CUST"; bs "DUNS"; bs "EMPL"; bs "GS1G"; bs "PROP"; bs "SWBB"; bs "TXID"]);
    ("isPrivateIdentificationCode"%string,
       [bs "ARNU"; bs "CCPT"; bs "CUST"; bs "DPOB"; bs "EMPL"; bs "NIDN"; bs "PROP"; bs "SOSE"; bs "TXID"]);
    ("isDocumentTypeCode"%string,
       [bs "AROI"; bs "BOLD"; bs "CINV"; bs "CMCN"; bs "CNFA"; bs "CREN"; bs "DEBN"; bs "DISP"; bs "DNFA"; bs "HIRI";
        bs "MSIN"; bs "PROP"; bs "PUOR"; bs "SBIN"; bs "SOAC"; bs "TSUT"; bs "VCHR"]);
    ("isCreditDebitIndicator"%string, [bs "CRDT"; bs "DBIT"]);
    ("isAdjustmentReasonCode"%string,
       [bs "01"; bs "03"; bs "04"; bs "05"; bs "06"; bs "07"; bs "11"; bs "12"; bs "59"; bs "75"; bs "81"; bs "CM"]);
    ("isMonth"%string,
       [bs "01"; bs "02"; bs "03"; bs "04"; bs "05"; bs "06"; bs "07"; bs "08"; bs "09"; bs "10"; bs "11"; bs "12"]) ].

(* coded elements that the tag files check against a table of their own rather than through a validator:
   the identification code of the four financial-institution tags ({4000} {4100} {5100} {5200}): B C D F U *)
Definition tag_code_lists : list (string * nat * list bytes) :=
  let fi := [bs "B"; bs "C"; bs "D"; bs "F"; bs "U"] in
  [ ("BeneficiaryIntermediaryFI"%string, 0, fi); ("BeneficiaryFI"%string, 0, fi);
    ("OriginatorFI"%string, 0, fi); ("InstructingFI"%string, 0, fi) ].

(* CCYYMMDD: eight digits, century 20-29, month 01-12, a day that exists in the month
   (February has 29 days in every year, as the FAIM edit does not look at the year) *)
Definition dig (b : byte) : nat := N.to_nat (bN b - 48).
Definition days_in_month (m : nat) : nat :=
  match m with
  | 2 => 29
  | 4 | 6 | 9 | 11 => 30
  | 1 | 3 | 5 | 7 | 8 | 10 | 12 => 31
  | _ => 0
  end.
Definition date_ok (s : bytes) : bool :=
  match s with
  | [c1; c2; y1; y2; m1; m2; d1; d2] =>
      forallb is_digit s &&
      (let cc := 10 * dig c1 + dig c2 in (20 <=? cc) && (cc <=? 29)) &&
      (let mm := 10 * dig m1 + dig m2 in let dd := 10 * dig d1 + dig d2 in
       (1 <=? mm) && (mm <=? 12) && (1 <=? dd) && (dd <=? days_in_month mm))
  | _ => false
  end.

(* party identifier: slash + account number, or a 4-letter unique-identifier code + slash + identifier;
   in both forms at least one non-blank character follows the slash and every character after the
   slash is a FAIM character *)
Definition uid_codes : list bytes :=
  [bs "ARNU"; bs "CCPT"; bs "CUST"; bs "DRLC"; bs "EMPL"; bs "NIDN"; bs "SOSE"; bs "TXID"].
Definition nonblank_faim (b : byte) : bool := faim_char b && negb (beqb b x20).
Definition party_identifier_ok (s : bytes) : bool :=
  match s with
  | [] => false
  | a :: t =>
      if beqb a x2f then
        match t with
        | c :: rest => nonblank_faim c && forallb faim_char rest
        | [] => false
        end
      else
        match t with
        | b :: c :: d :: sl :: e :: rest =>
            mem_bytes [a; b; c; d] uid_codes && beqb sl x2f && nonblank_faim e && forallb faim_char rest
        | _ => false
        end
  end.

(* Option-F line: empty, or line code 1-8, slash, a non-blank character, FAIM characters *)
Definition option_f_line_ok (s : bytes) : bool :=
  match s with
  | [] => true
  | n :: sl :: c :: rest => in_rng n 49 56 && beqb sl x2f && nonblank_faim c && forallb faim_char rest
  | _ => false
  end.
Definition option_f_name_ok (s : bytes) : bool :=
  match s with
  | n :: sl :: c :: rest => beqb n x31 && beqb sl x2f && nonblank_faim c && forallb faim_char rest
  | _ => false
  end.

(* the 60 FAIM tag markers *)
Definition faim_markers : list bytes :=
  map bs ["{1100}"; "{1110}"; "{1120}"; "{1130}"; "{1500}"; "{1510}"; "{1520}"; "{2000}"; "{3100}"; "{3320}";
          "{3400}"; "{3500}"; "{3600}"; "{3610}"; "{3620}"; "{3700}"; "{3710}"; "{3720}"; "{4000}"; "{4100}";
          "{4200}"; "{4320}"; "{4400}"; "{5000}"; "{5010}"; "{5100}"; "{5200}"; "{5400}"; "{6000}"; "{6100}";
          "{6110}"; "{6200}"; "{6210}"; "{6300}"; "{6310}"; "{6400}"; "{6410}"; "{6420}"; "{6500}"; "{7033}";
          "{7050}"; "{7052}"; "{7056}"; "{7057}"; "{7059}"; "{7070}"; "{7072}"; "{8200}"; "{8250}"; "{8300}";
          "{8350}"; "{8400}"; "{8450}"; "{8500}"; "{8550}"; "{8600}"; "{8650}"; "{8700}"; "{8750}"; "{9000}"]%string.
