(* The documented cross-tag edit rules (C05), written as reject cubes from the doc-comments of
   fedWireMessage.go / associatedTypeSubTypes.go (DESIGN.md appendix A) - NOT derived from the code.
   A message must be rejected exactly when one of these cubes holds (for the specified region).
   Tags and elements are named; indices are looked up in the regenerated tag table. *)
From Wire Require Import Base.Bytes Model.GoV Model.Codec Model.DL.
From WireGen Require Import Tags.
Local Open Scope string_scope.
Local Open Scope list_scope.

Fixpoint index_where {A} (p : A -> bool) (l : list A) (i : nat) : nat :=
  match l with
  | [] => 999
  | x :: t => if p x then i else index_where p t (S i)
  end.

Definition tix (n : string) : nat := index_where (fun d => String.eqb (t_name d) n) tags 0.
Definition eix (n p : string) : nat :=
  index_where (fun e => String.eqb (e_path e) p) (t_elems (nth (tix n) tags tag_Amount)) 0.
Definition fld (n p : string) : sexpr := SField (tix n) (eix n p).

Definition P (n : string) : lit := (AB (BNil (tix n)), false).   (* present *)
Definition A (n : string) : lit := (AB (BNil (tix n)), true).    (* absent *)
Definition IS (e : sexpr) (vs : list bytes) : lit := (AB (BIn e vs), true).
Definition ISNT (e : sexpr) (vs : list bytes) : lit := (AB (BIn e vs), false).
Definition BAD (n : string) : lit := (ATagBad (tix n), true).

Definition bfc : sexpr := fld "BusinessFunctionCode" "BusinessFunctionCode".
Definition ttc : sexpr := fld "BusinessFunctionCode" "TransactionTypeCode".
Definition typ : sexpr := fld "TypeSubType" "TypeCode".
Definition sub : sexpr := fld "TypeSubType" "SubTypeCode".
Definition lic : sexpr := fld "LocalInstrument" "LocalInstrumentCode".
Definition prop : sexpr := fld "LocalInstrument" "ProprietaryCode".
Definition ben_id : sexpr := fld "Beneficiary" "Personal.IdentificationCode".
Definition org_id : sexpr := fld "Originator" "Personal.IdentificationCode".
Definition amt : sexpr := fld "Amount" "Amount".

Definition code (c : string) : lit := IS bfc [bs c].

Definition all_tag_names : list string := map t_name tags.

Definition cover_tags : list string :=
  ["CurrencyInstructedAmount"; "OrderingCustomer"; "OrderingInstitution"; "IntermediaryInstitution";
   "InstitutionAccount"; "BeneficiaryCustomer"; "Remittance"; "SenderToReceiver"]%string.

Definition remittance_tags : list string :=
  ["RelatedRemittance"; "RemittanceOriginator"; "RemittanceBeneficiary"; "PrimaryRemittanceDocument";
   "ActualAmountPaid"; "GrossAmountRemittanceDocument"; "AmountNegotiatedDiscount"; "Adjustment";
   "DateRemittanceDocument"; "SecondaryRemittanceDocument"; "RemittanceFreeText"]%string.

(* type/subtype pairs permitted per business function code (section 15 of the format guide) *)
Definition cross (ts ss : list string) : list bytes := flat_map (fun t => map (fun s => bs t ++ bs s) ss) ts.
Definition typesub_table (c : string) : list bytes :=
  if String.eqb c "BTR" then cross ["10"; "15"; "16"] ["00"; "02"; "08"]
  else if String.eqb c "CTR" then cross ["10"; "15"; "16"] ["00"; "02"; "08"]
  else if String.eqb c "CTP" then cross ["10"; "15"; "16"] ["00"; "01"; "02"; "07"; "08"]
  else if String.eqb c "DRW" then cross ["10"; "16"] ["32"]
  else if String.eqb c "DRB" then cross ["16"] ["31"; "33"]
  else if String.eqb c "DRC" then cross ["10"] ["31"; "33"]
  else if String.eqb c "SVC" then cross ["10"; "15"; "16"] ["01"; "07"; "90"] ++ cross ["10"; "16"] ["33"]
  else cross ["16"] ["00"; "02"; "08"].  (* CKS DEP FFR FFS *)

Definition all_codes : list string := ["BTR"; "CTR"; "CTP"; "CKS"; "DEP"; "FFR"; "FFS"; "DRW"; "DRB"; "DRC"; "SVC"]%string.

(* tags not permitted with code c *)
Definition prohibited_tags (c : string) : list string :=
  let shared := ["LocalInstrument"; "PaymentNotification"; "Charges"; "InstructedAmount"; "ExchangeRate";
                 "OriginatorOptionF"; "UnstructuredAddenda"]%string ++ cover_tags ++ remittance_tags in
  let drawdown := ["AccountDebitedDrawdown"; "AccountCreditedDrawdown"; "FIDrawdownDebitAccountAdvice"]%string in
  if String.eqb c "BTR" then shared ++ drawdown ++ ["ServiceMessage"]%string
  else if String.eqb c "CTR" then
    ["LocalInstrument"; "PaymentNotification"; "OriginatorOptionF"; "UnstructuredAddenda"; "ServiceMessage"]%string
      ++ drawdown ++ cover_tags ++ remittance_tags
  else if String.eqb c "CTP" then drawdown
  else if String.eqb c "SVC" then shared
  else if String.eqb c "DRW" || String.eqb c "DRB" || String.eqb c "DRC" then shared ++ ["ServiceMessage"]%string
  else shared ++ drawdown ++ ["ServiceMessage"]%string.  (* CKS DEP FFR FFS *)

(* tags mandatory with code c in addition to the always-mandatory ones *)
Definition required_tags (c : string) : list string :=
  if String.eqb c "CTR" then ["Beneficiary"; "Originator"]%string
  else if String.eqb c "CTP" then ["Beneficiary"]%string
  else if String.eqb c "DRW" then ["Beneficiary"; "Originator"]%string
  else if String.eqb c "DRB" then ["AccountDebitedDrawdown"; "AccountCreditedDrawdown"]%string
  else if String.eqb c "DRC" then ["Beneficiary"; "AccountDebitedDrawdown"; "AccountCreditedDrawdown"]%string
  else [].

Definition blank_ttc : lit := IS (STrim ttc) [bs ""].
Definition nonblank_ttc : lit := ISNT (STrim ttc) [bs ""].

Definition per_code_rules (c : string) : list cube :=
  (* type/subtype pair not permitted for the code *)
  [[code c; ISNT (SCat typ sub) (typesub_table c)]] ++
  (* element 02 of {3600}: not permitted, except that CTR only forbids COV *)
  (if String.eqb c "CTR" then [[code c; IS ttc [bs "COV"]]] else [[code c; nonblank_ttc]]) ++
  map (fun t => [code c; P t]) (prohibited_tags c) ++
  map (fun t => [code c; A t]) (required_tags c) ++
  (* identification code T (SWIFT BIC or BEI and account number) only with CTR / CTP *)
  (if String.eqb c "CTR" || String.eqb c "CTP" then []
   else [[code c; P "Beneficiary"; IS ben_id [bs "T"]]; [code c; P "Originator"; IS org_id [bs "T"]]]) ++
  (* reversal subtypes need the previous message identifier (customer / bank transfers) *)
  (if String.eqb c "BTR" || String.eqb c "CTR" || String.eqb c "CTP"
   then [[code c; IS sub [bs "02"; bs "08"]; A "PreviousMessageIdentifier"]] else []).

Definition ua_formats : list bytes := [bs "ANSI"; bs "GXML"; bs "IXML"; bs "NARR"; bs "S820"; bs "SWIF"; bs "UEDI"].

Definition structured_remittance : list string :=
  ["RemittanceOriginator"; "RemittanceBeneficiary"; "PrimaryRemittanceDocument"; "ActualAmountPaid";
   "GrossAmountRemittanceDocument"; "Adjustment"; "DateRemittanceDocument"; "SecondaryRemittanceDocument";
   "RemittanceFreeText"]%string.

Definition ctp : lit := code "CTP".
Definition not_ctp : lit := ISNT bfc [bs "CTP"].

(* a tag that must be present exactly under (CTP, {3610} present, {3610} code in cs) *)
Definition exactly_when (t : string) (cs : list bytes) : list cube :=
  [ [ctp; P "LocalInstrument"; IS lic cs; A t];
    [not_ctp; P t];
    [ctp; A "LocalInstrument"; P t];
    [ctp; P "LocalInstrument"; ISNT lic cs; P t] ].

Definition or_optionf (t : string) : list cube :=
  (* t requires {5000}; for CTP {5010} is accepted instead *)
  [ [not_ctp; P t; A "Originator"]; [ctp; P t; A "Originator"; A "OriginatorOptionF"] ].

Definition needs (t : string) (rs : list string) : list cube := map (fun r => [P t; A r]) rs.

(* the only rules that look at the validation options: {1500} and {1520} are mandatory unless waived *)
Definition option_rules : list cube :=
  [ [(AB BRequireSS, true); A "SenderSupplied"];
    [(AB BOptsNil, true); A "InputMessageAccountabilityData"];
    [(AB BOptsNil, false); (AB BOptSkipIMAD, false); A "InputMessageAccountabilityData"] ].

Definition plain_rules : list cube :=
  (* always mandatory *)
  [ [A "TypeSubType"]; [A "Amount"]; [A "SenderDepositoryInstitution"]; [A "ReceiverDepositoryInstitution"];
    [A "BusinessFunctionCode"] ] ++
  (* every tag present is individually valid *)
  map (fun t => [P t; BAD t]) all_tag_names ++
  (* an all-zero amount only with subtype 90 *)
  [ [ISNT amt [bs ""]; IS (STrimByte x30 amt) [bs ""]; ISNT sub [bs "90"]] ] ++
  flat_map per_code_rules all_codes ++
  (* CTP: originator or option F; {3610}-driven requirements *)
  [ [ctp; A "Originator"; A "OriginatorOptionF"];
    [ctp; P "LocalInstrument"; IS lic [bs "COVS"]; A "BeneficiaryReference"];
    [ctp; P "LocalInstrument"; IS lic [bs "COVS"]; A "OrderingCustomer"];
    [ctp; P "LocalInstrument"; IS lic [bs "COVS"]; A "BeneficiaryCustomer"];
    [ctp; P "LocalInstrument"; IS lic [bs "PROP"]; IS prop [bs ""]];
    [P "LocalInstrument"; IS lic [bs "COVS"]; P "Charges"];
    [P "LocalInstrument"; IS lic [bs "COVS"]; P "InstructedAmount"];
    [P "LocalInstrument"; IS lic [bs "COVS"]; P "ExchangeRate"] ] ++
  map (fun t => [ctp; P "LocalInstrument"; ISNT lic [bs "COVS"]; P t]) cover_tags ++
  (* {3610} only with CTP; {3700} {3710} {3720} only with CTR / CTP; {3720} needs {3710} *)
  [ [P "LocalInstrument"; not_ctp];
    [P "Charges"; ISNT bfc [bs "CTR"; bs "CTP"]];
    [P "InstructedAmount"; ISNT bfc [bs "CTR"; bs "CTP"]];
    [P "ExchangeRate"; ISNT bfc [bs "CTR"; bs "CTP"]];
    [P "ExchangeRate"; A "InstructedAmount"] ] ++
  (* {8200} / {8250} / structured remittance: present exactly under their {3610} codes *)
  exactly_when "UnstructuredAddenda" ua_formats ++
  exactly_when "RelatedRemittance" [bs "RRMT"] ++
  flat_map (fun t => exactly_when t [bs "RMTS"]) structured_remittance ++
  (* dependencies between party / advice tags *)
  needs "BeneficiaryIntermediaryFI" ["BeneficiaryFI"; "Beneficiary"]%string ++
  needs "BeneficiaryFI" ["Beneficiary"]%string ++
  or_optionf "OriginatorFI" ++
  or_optionf "InstructingFI" ++ needs "InstructingFI" ["OriginatorFI"]%string ++
  needs "OriginatorToBeneficiary" ["Beneficiary"]%string ++ or_optionf "OriginatorToBeneficiary" ++
  needs "FIIntermediaryFI" ["BeneficiaryIntermediaryFI"; "BeneficiaryFI"; "Beneficiary"]%string ++
  needs "FIIntermediaryFIAdvice" ["BeneficiaryIntermediaryFI"; "BeneficiaryFI"; "Beneficiary"]%string ++
  needs "FIBeneficiaryFI" ["BeneficiaryFI"; "Beneficiary"]%string ++
  needs "FIBeneficiaryFIAdvice" ["BeneficiaryFI"; "Beneficiary"]%string ++
  needs "FIBeneficiary" ["Beneficiary"]%string ++
  needs "FIBeneficiaryAdvice" ["Beneficiary"]%string ++
  needs "FIPaymentMethodToBeneficiary" ["FIBeneficiaryAdvice"; "Beneficiary"]%string.

Definition rule_cubes : list cube := option_rules ++ plain_rules.

(* Region the repository's documentation does not specify (DESIGN.md appendix A): none of the rules
   above speaks about it, and the code has no rule there either; listed for the record. *)
Definition unspecified : list string :=
  ["{7xxx} tags with CTP when {3610} is absent"; "{8550} with CTP"; "{9000} required for SVC";
   "{6100} {6110} {6500} dependencies"]%string.
