(* Entry point of the extracted model for the correspondence check: one function from
   (function id, arguments) to the canonical observation string the Go harness records. *)
From Wire Require Import Base.Bytes Model.Converters Model.Validators.

Definition str (s : string) : bytes := list_byte_of_string s.

Fixpoint split_colon (s : bytes) (acc : bytes) : bytes * bytes :=
  match s with
  | [] => (rev acc, [])
  | b :: t => if beqb b x3a then (rev acc, t) else split_colon t (b :: acc)
  end.

Definition res_err (o : option string) : bytes := match o with None => bs "ok" | Some e => str e end.

Definition run (fn : bytes) (args : list bytes) : bytes :=
  let '(kind, name) := split_colon fn [] in
  if bytes_eqb kind (bs "validator") then res_err (run_validator (string_of_list_byte name) args)
  else bs "unknown-function".
