(* Entry point of the extracted model for the correspondence check: one function from
   (function id, arguments) to the canonical observation string the Go harness records. *)
From Wire Require Import Base.Bytes Model.Converters Model.Validators Spec.Faim.

Definition str (s : string) : bytes := list_byte_of_string s.

Fixpoint split_colon (s : bytes) (acc : bytes) : bytes * bytes :=
  match s with
  | [] => (rev acc, [])
  | b :: t => if beqb b x3a then (rev acc, t) else split_colon t (b :: acc)
  end.

Definition res_err (o : option string) : bytes := match o with None => bs "ok" | Some e => str e end.

Definition run (fn : bytes) (args : list bytes) : bytes :=
  let '(kind, name) := split_colon fn [] in
  if bytes_eqb kind (bs "validator") then res_err (run_validator (string_of_list_byte name) args)
  else bs "unknown-function".

(* ---- the property oracle: what the specification says the implementation's observation
        must be. None = the specification does not decide this observation. ---- *)
Definition verdict_of (b : bool) : bytes := if b then bs "ok" else bs "reject".

Definition spec_validator (name : string) (args : list bytes) : option bool :=
  let s := arg0 args in
  if String.eqb name "isAlphanumeric" then Some (forallb faim_char s)
  else if String.eqb name "isNumeric" then Some (forallb is_digit s)
  else if String.eqb name "isAmountImplied" then Some (forallb is_digit s)
  else if String.eqb name "isAmount" then Some (forallb amount_char s)
  else if String.eqb name "validateDate" then Some (date_ok s)
  else if String.eqb name "validatePartyIdentifier" then Some (party_identifier_ok s)
  else if String.eqb name "validateOptionFLine" then Some (option_f_line_ok s)
  else if String.eqb name "validateOptionFName" then Some (option_f_name_ok s)
  else match assoc name Spec.Faim.code_lists with
       | Some l => Some (mem_bytes s l)
       | None => None
       end.

Definition oracle (fn : bytes) (args : list bytes) : option bytes :=
  let '(kind, name) := split_colon fn [] in
  if bytes_eqb kind (bs "validator") then option_map verdict_of (spec_validator (string_of_list_byte name) args)
  else None.
