(* Entry point of the extracted model for the correspondence check: one function from
   (function id, arguments) to the canonical observation string the Go harness records. *)
From Wire Require Import Base.Bytes Model.Converters Model.Validators Model.GoV Model.Codec Model.DL Model.Message Model.Writer Model.Reader Model.Server Model.Json Spec.Faim Spec.Rules.
From WireGen Require Import Tags Verify.

Definition str (s : string) : bytes := list_byte_of_string s.

Fixpoint split_colon (s : bytes) (acc : bytes) : bytes * bytes :=
  match s with
  | [] => (rev acc, [])
  | b :: t => if beqb b x3a then (rev acc, t) else split_colon t (b :: acc)
  end.

Definition res_err (o : option string) : bytes := match o with None => bs "ok" | Some e => str e end.

(* ---- hex encoding of results ("-" for the empty string, as the Go harness writes it) ---- *)
Definition hex_digit (n : N) : byte :=
  match Byte.of_N (if (n <? 10)%N then 48 + n else 87 + n)%N with Some b => b | None => x3f end.
Definition hx (s : bytes) : bytes :=
  match s with
  | [] => bs "-"
  | _ => flat_map (fun b => [hex_digit (bN b / 16); hex_digit (bN b mod 16)]) s
  end.

Fixpoint join_colon (l : list bytes) : bytes :=
  match l with
  | [] => []
  | [x] => x
  | x :: t => x ++ x3a :: join_colon t
  end.

Fixpoint find_tag_from (i : nat) (name : string) (l : list tagdesc) : option (nat * tagdesc) :=
  match l with
  | [] => None
  | d :: t => if String.eqb name (t_name d) then Some (i, d) else find_tag_from (S i) name t
  end.
Definition find_tag (name : bytes) : option (nat * tagdesc) := find_tag_from 0 (string_of_list_byte name) tags.


Definition verdict_str (v : verdict) : bytes :=
  match v with
  | Accept => bs "ok"
  | Reject f e => bs "rej:" ++ str f ++ x3a :: str e
  | Panic => bs "panic"
  | Stuck => bs "stuck"
  end.

Definition tagval_str (v : tagval) : bytes := join_colon (hx (tv_marker v) :: map hx (tv_elems v)).

Definition presult_str (r : presult) : bytes :=
  match r with
  | POk v => bs "ok:" ++ tagval_str v
  | PErr f e => bs "err:" ++ str f ++ x3a :: str e
  | PPanic => bs "panic"
  | PStuck => bs "stuck"
  end.

(* name, marker, elements... -> (index, descriptor, value, remaining args) *)
Definition take_tag (args : list bytes) : option (nat * tagdesc * tagval * list bytes) :=
  match args with
  | name :: marker :: rest =>
      match find_tag name with
      | Some (i, d) =>
          let n := length (t_elems d) in
          if n <=? length rest then Some (i, d, {| tv_marker := marker; tv_elems := firstn n rest |}, skipn n rest)
          else None
      | None => None
      end
  | _ => None
  end.

Definition opts_of (a : bytes) : option (bool * bool) :=
  match a with
  | [s; m] => Some (beqb s x31, beqb m x31)
  | _ => None
  end.

Fixpoint take_tags (fuel : nat) (args : list bytes) (acc : list (option tagval)) : option (list (option tagval)) :=
  match fuel with
  | O => None
  | S f =>
      match args with
      | [] => Some acc
      | _ => match take_tag args with
             | Some (i, _, v, rest) => take_tags f rest (set_tag i v acc)
             | None => None
             end
      end
  end.

Definition decode_msg (args : list bytes) : option message :=
  match args with
  | o :: rest =>
      match take_tags (S (length rest)) rest empty_tags with
      | Some ts => Some {| m_tags := ts; m_opts := opts_of o |}
      | None => None
      end
  | [] => None
  end.

Fixpoint join_comma (l : list bytes) : bytes :=
  match l with
  | [] => []
  | [x] => x
  | x :: t => x ++ x2c :: join_comma t
  end.

Definition run_tag (name : bytes) (args : list bytes) : bytes :=
  if bytes_eqb name (bs "validate") then
    match take_tag args with
    | Some (i, d, v, _) =>
        verdict_str (run_tag_validate validate_progs {| m_tags := set_tag i v empty_tags; m_opts := None |} i)
    | None => bs "bad-args"
    end
  else if bytes_eqb name (bs "format") then
    match args with
    | var :: rest =>
        match take_tag rest with
        | Some (_, d, v, _) =>
            match format_tag d (bytes_eqb var (bs "1")) v with
            | Some o => bs "ok:" ++ hx o
            | None => bs "stuck"
            end
        | None => bs "bad-args"
        end
    | [] => bs "bad-args"
    end
  else if bytes_eqb name (bs "parse") then
    match args with
    | [tn; rec] =>
        match find_tag tn with
        | Some (_, d) => presult_str (parse_tag d rec)
        | None => bs "bad-args"
        end
    | _ => bs "bad-args"
    end
  else bs "unknown-function".

Definition run_meta (name : bytes) (args : list bytes) : bytes :=
  match find_tag (arg0 args) with
  | None => bs "no-such-tag"
  | Some (_, d) =>
      if bytes_eqb name (bs "elems") then join_comma (map (fun e => str (e_path e)) (t_elems d))
      else if bytes_eqb name (bs "marker") then t_marker d
      else if bytes_eqb name (bs "hasformat") then (if t_format_takes_options d then bs "true" else bs "false")
      else bs "unknown-function"
  end.

Definition run_msg (name : bytes) (args : list bytes) : bytes :=
  match decode_msg args with
  | None => bs "bad-args"
  | Some m =>
      if bytes_eqb name (bs "validate") then verdict_str (verify m)
      else bs "unknown-function"
  end.

Definition wresult_str (r : wresult) : bytes :=
  match r with
  | WOk t => bs "ok:" ++ hx t
  | WRefused v => verdict_str v
  | WStuck => bs "stuck"
  end.

(* variable, newline, then the message *)
Definition run_write (args : list bytes) : bytes :=
  match args with
  | var :: nl :: rest =>
      match decode_msg rest with
      | Some m => wresult_str (write_model m (bytes_eqb var (bs "1")) nl)
      | None => bs "bad-args"
      end
  | _ => bs "bad-args"
  end.

(* ---- reads ---- *)
Fixpoint nat_of_digits (s : bytes) (acc : nat) : nat :=
  match s with
  | [] => acc
  | b :: t => nat_of_digits t (10 * acc + N.to_nat (bN b - 48))
  end.

Fixpoint split_comma (s : bytes) (cur : bytes) : list bytes :=
  match s with
  | [] => [rev cur]
  | b :: t => if beqb b x2c then rev cur :: split_comma t [] else split_comma t (b :: cur)
  end.

(* chunk a text: a single number k = uniform k-byte chunks; a comma list = explicit sizes, rest in one chunk *)
Fixpoint chunk_uniform (fuel k : nat) (s : bytes) : list bytes :=
  match fuel with
  | O => [s]
  | S f => match s with [] => [] | _ => firstn k s :: chunk_uniform f k (skipn k s) end
  end.
Fixpoint chunk_sizes (sizes : list nat) (s : bytes) : list bytes :=
  match sizes with
  | [] => match s with [] => [] | _ => [s] end
  | k :: r => match s with [] => [] | _ => firstn k s :: chunk_sizes r (skipn k s) end
  end.
Definition chunks_of (spec : bytes) (s : bytes) : list bytes :=
  match split_comma spec [] with
  | [k] => let n := nat_of_digits k 0 in if n =? 0 then [s] else chunk_uniform (length s) n s
  | l => chunk_sizes (map (fun x => nat_of_digits x 0) l) s
  end.

Definition final_of (a : bytes) : fstatus :=
  if bytes_eqb a (bs "eof") then FEOF else FErr (string_of_list_byte (skipn 4 a)).

Definition nat_str (n : nat) : bytes :=
  (fix go (fuel n : nat) (acc : bytes) : bytes :=
     match fuel with
     | O => acc
     | S f => let d := match Byte.of_N (N.of_nat (48 + n mod 10)) with Some b => b | None => x30 end in
              if n / 10 =? 0 then d :: acc else go f (n / 10) (d :: acc)
     end) (S n) n [].

Definition rerr_str (e : rerr) : bytes :=
  match e with
  | RParse ln rec f er => bs "P:" ++ nat_str ln ++ x3a :: str rec ++ x3a :: str f ++ x3a :: str er
  | RInvalidTag mk => bs "T:" ++ hx mk
  | RTooShort => bs "X"
  | RScanner n => bs "S:" ++ str n
  | RFileValidation _ _ => bs "V"
  | RPanic => bs "panic"
  | RStuck => bs "stuck"
  end.

Fixpoint join_bar (l : list bytes) : bytes :=
  match l with
  | [] => []
  | [x] => x
  | x :: t => x ++ x7c :: join_bar t
  end.

Definition opts_str (o : option (bool * bool)) : bytes :=
  match o with
  | None => bs "nil"
  | Some (s, a) => [if s then x31 else x30; if a then x31 else x30]
  end.

Definition msg_str (m : message) : bytes :=
  join_bar (opts_str (m_opts m) ::
            flat_map (fun p => match snd p with
                               | Some v => [str (t_name (fst p)) ++ x3a :: tagval_str v]
                               | None => [] end) (combine tags (m_tags m))).

Definition rresult_str (r : rresult) : bytes :=
  match r with
  | ROk m => bs "ok|" ++ msg_str m
  | RErrors es => bs "err|" ++ join_bar (map rerr_str es)
  end.

(* preset, opts, final status, text, chunking *)
Definition run_read (args : list bytes) : bytes :=
  match args with
  | [preset; opts; final; text; chunking] =>
      rresult_str (read_model (opts_of preset) (opts_of opts) (chunks_of chunking text) (final_of final))
  | _ => bs "bad-args"
  end.


(* ---- property oracles that the model evaluates as well (the others are decided on the implementation only) ---- *)
Fixpoint list_eqb {A} (eqb : A -> A -> bool) (a b : list A) : bool :=
  match a, b with
  | [], [] => true
  | x :: a', y :: b' => eqb x y && list_eqb eqb a' b'
  | _, _ => false
  end.
Definition tagval_eqb (a b : tagval) : bool := bytes_eqb (tv_marker a) (tv_marker b) && list_eqb bytes_eqb (tv_elems a) (tv_elems b).
Definition otag_eqb (a b : option tagval) : bool :=
  match a, b with Some x, Some y => tagval_eqb x y | None, None => true | _, _ => false end.

(* read an accepted tag text, rewrite it in both layouts, read again: same element values? *)
Definition reread_tag (i : nat) (d : tagdesc) (kind t1 : bytes) : bytes :=
  match parse_tag d t1 with
  | POk p1 =>
      match validate_alone i p1 with
      | Accept =>
          let once (variable : bool) : option bytes :=
            match format_tag d variable p1 with
            | None => Some (bs "differ:format-refused")
            | Some f2 =>
                match parse_tag d f2 with
                | POk p2 => if list_eqb bytes_eqb (tv_elems p2) (tv_elems p1) then None else Some (bs "differ:" ++ kind)
                | _ => Some (bs "differ:unreadable:" ++ kind)
                end
            end in
          match once true with
          | Some r => r
          | None => match once false with Some r => r | None => bs "same" end
          end
      | _ => bs "not-accepted"
      end
  | _ => bs "not-accepted"
  end.

Definition reread_msg (t1 : bytes) : bytes :=
  match read_model None None [t1] FEOF with
  | ROk m1 =>
      match write_model m1 false [x0a] with
      | WOk t2 =>
          match read_model None None [t2] FEOF with
          | ROk m2 => if list_eqb otag_eqb (m_tags m1) (m_tags m2) then bs "same" else bs "differ:blank-padded-numeric"
          | _ => bs "differ:unreadable-after-rewrite"
          end
      | _ => bs "differ:rewrite-refused"
      end
  | _ => bs "not-accepted"
  end.

Definition run_prop (name : bytes) (args : list bytes) : bytes :=
  if bytes_eqb name (bs "text-reread") then
    match args with
    | [tn; _; kind; _; t1] =>
        match find_tag tn with Some (i, d) => reread_tag i d kind t1 | None => bs "bad-args" end
    | [_; _; t1] => reread_msg t1
    | _ => bs "bad-args"
    end
  else bs "unmodelled".


(* ---- JSON ---- *)
Definition path_str (p : Json.path) : bytes := join_with (bs ".") (map str p).
Definition entry_str (en : Json.path * leaf) : bytes :=
  path_str (fst en) ++ x3d :: match snd en with LStr s => x53 :: hx s | LNull => bs "N" | LObj => bs "O" end.
Definition doc_str (j : jdoc) : bytes := join_with (bs ";") (sort_lines (map entry_str j)).

Fixpoint split_dots (s : bytes) (cur : bytes) : list bytes :=
  match s with
  | [] => [rev cur]
  | b :: t => if beqb b x2e then rev cur :: split_dots t [] else split_dots t (b :: cur)
  end.

Fixpoint doc_of_args (args : list bytes) : jdoc :=
  match args with
  | p :: k :: v :: r =>
      (map string_of_list_byte (split_dots p []),
       if bytes_eqb k (bs "S") then LStr v else if bytes_eqb k (bs "N") then LNull else LObj) :: doc_of_args r
  | _ => []
  end.

Definition run_json (name : bytes) (args : list bytes) : bytes :=
  if bytes_eqb name (bs "encode") then
    match decode_msg args with Some m => doc_str (encode_msg m) | None => bs "bad-args" end
  else if bytes_eqb name (bs "decode") then
    msg_str (Json.decode_msg (doc_of_args args) None)
  else bs "unknown-function".

(* ---- HTTP histories ---- *)
Definition optarg (a : bytes) : option bytes := if bytes_eqb a (bs "~") then None else Some a.

Definition resolve (created : list bytes) (id : bytes) : bytes :=
  match id with
  | x24 :: ds => nth (nat_of_digits ds 0) created (bs "unknown")
  | _ => id
  end.

(* message arguments up to the terminator ";" *)
Fixpoint take_until_end (args : list bytes) (acc : list bytes) : list bytes * list bytes :=
  match args with
  | [] => (rev acc, [])
  | a :: r => if bytes_eqb a (bs ";") then (rev acc, r) else take_until_end r (a :: acc)
  end.

Definition resp_str (r : resp) : bytes :=
  match r with
  | RCreated id => bs "201:" ++ id
  | ROkFile id m => bs "200:" ++ id ++ x3a :: msg_str m
  | ROkList ids => bs "200:" ++ nat_str (length ids) ++ x3a :: join_comma (sort_lines ids)
  | ROkBody b => bs "200:" ++ hx b
  | ROkPlain => bs "200"
  | RBad => bs "400"
  | RNotFound => bs "404"
  end.

(* one request description -> (op, remaining arguments) *)
Definition decode_op (cr : list bytes) (args : list bytes) : option (op * list bytes) :=
  match args with
  | [] => None
  | k :: rest =>
      if bytes_eqb k (bs "ct") then
        match rest with
        | sk :: al :: body :: r => Some (OCreateText (optarg sk) (optarg al) body, r)
        | _ => None
        end
      else if bytes_eqb k (bs "cj") then
        match rest with
        | id :: r => let '(margs, r') := take_until_end r [] in
                     match decode_msg margs with
                     | Some m => Some (OCreateMsg (if bytes_eqb id (bs "~") then [] else id) m, r')
                     | None => None
                     end
        | _ => None
        end
      else if bytes_eqb k (bs "cx") then Some (OBadJSON, rest)
      else if bytes_eqb k (bs "g") then match rest with id :: r => Some (OGet (resolve cr id), r) | _ => None end
      else if bytes_eqb k (bs "l") then Some (OList, rest)
      else if bytes_eqb k (bs "c") then
        match rest with id :: fm :: nl :: r => Some (OContents (resolve cr id) (optarg fm) (optarg nl), r) | _ => None end
      else if bytes_eqb k (bs "v") then match rest with id :: r => Some (OValidate (resolve cr id), r) | _ => None end
      else if bytes_eqb k (bs "a") then
        match rest with
        | id :: r => let '(margs, r') := take_until_end r [] in
                     match decode_msg margs with
                     | Some m => Some (OAdd (resolve cr id) m, r')
                     | None => None
                     end
        | _ => None
        end
      else if bytes_eqb k (bs "d") then match rest with id :: r => Some (ODelete (resolve cr id), r) | _ => None end
      else None
  end.

Fixpoint run_http (fuel : nat) (args : list bytes) (st : Server.sstate) (acc : list bytes) : list bytes :=
  match fuel with
  | O => rev acc
  | S f =>
      match args with
      | [] => rev acc
      | _ =>
          match decode_op (ss_created st) args with
          | None => rev (bs "bad-args" :: acc)
          | Some (o, rest) => let '(st', r) := Server.step st o in run_http f rest st' (resp_str r :: acc)
          end
      end
  end.

(* scheduled concurrent requests: setup requests, "#", concurrent requests, "#", the order (one digit per grant) *)
Fixpoint run_setup (fuel : nat) (args : list bytes) (st : Server.sstate) : option (Server.sstate * list bytes) :=
  match fuel with
  | O => None
  | S f =>
      match args with
      | [] => None
      | k :: rest =>
          if bytes_eqb k (bs "#") then Some (st, rest)
          else match decode_op (ss_created st) args with
               | None => None
               | Some (o, rest') => run_setup f rest' (fst (Server.step st o))
               end
      end
  end.

Fixpoint decode_conc (fuel : nat) (cr : list bytes) (args : list bytes) (acc : list op) : option (list op * list bytes) :=
  match fuel with
  | O => None
  | S f =>
      match args with
      | [] => None
      | k :: rest =>
          if bytes_eqb k (bs "#") then Some (rev acc, rest)
          else match decode_op cr args with
               | None => None
               | Some (o, rest') => decode_conc f cr rest' (o :: acc)
               end
      end
  end.

Definition thread_str (t : thread) : bytes :=
  match t with TDone r => resp_str r | TReady _ => bs "not-started" | TAddSave _ _ => bs "mid-add" end.

Definition store_str (s : store) : bytes :=
  join_comma (sort_lines (map (fun p => fst p ++ x3a :: msg_str (snd p)) s)).

Definition run_sched (args : list bytes) : bytes :=
  match run_setup (S (length args)) args Server.init with
  | None => bs "bad-args"
  | Some (st0, rest) =>
      match decode_conc (S (length rest)) (ss_created st0) rest [] with
      | Some (ops, [order]) =>
          let '(st, ts) := run_concurrent st0 ops (map (fun b => N.to_nat (bN b - 48)) order) in
          join_bar (map thread_str ts) ++ bs "||" ++ store_str (ss_store st)
      | _ => bs "bad-args"
      end
  end.

Definition run (fn : bytes) (args : list bytes) : bytes :=
  let '(kind, name) := split_colon fn [] in
  if bytes_eqb kind (bs "validator") then res_err (run_validator (string_of_list_byte name) args)
  else if bytes_eqb kind (bs "tag") then run_tag name args
  else if bytes_eqb kind (bs "meta") then run_meta name args
  else if bytes_eqb kind (bs "http") then
    (if bytes_eqb name (bs "sched") then run_sched args else join_bar (run_http (S (length args)) args Server.init []))
  else if bytes_eqb kind (bs "read") then run_read args
  else if bytes_eqb kind (bs "json") then run_json name args
  else if bytes_eqb kind (bs "prop") then run_prop name args
  else if bytes_eqb kind (bs "msg") then
    (if bytes_eqb name (bs "write") then run_write args
     else if bytes_eqb name (bs "write-refusal-bytes") then bs "0"
     else run_msg name args)
  else bs "unknown-function".

(* ---- the property oracle: what the specification says the implementation's observation
        must be. None = the specification does not decide this observation. ---- *)
Definition okrej (b : bool) : bytes := if b then bs "ok" else bs "reject".

Definition spec_validator (name : string) (args : list bytes) : option bool :=
  let s := arg0 args in
  if String.eqb name "isAlphanumeric" then Some (forallb faim_char s)
  else if String.eqb name "isNumeric" then Some (forallb is_digit s)
  else if String.eqb name "isAmountImplied" then Some (forallb is_digit s)
  else if String.eqb name "isAmount" then Some (forallb amount_char s)
  else if String.eqb name "validateDate" then Some (date_ok s)
  else if String.eqb name "validatePartyIdentifier" then Some (party_identifier_ok s)
  else if String.eqb name "validateOptionFLine" then Some (option_f_line_ok s)
  else if String.eqb name "validateOptionFName" then Some (option_f_name_ok s)
  else match assoc name Spec.Faim.code_lists with
       | Some l => Some (mem_bytes s l)
       | None => None
       end.

(* the documented rules evaluated directly on the concrete message *)
Definition rules_accept (m : message) : bool :=
  forallb (fun s => negb (cube_holds (tagv_of m) m s)) rule_cubes.

Definition all_tags_valid (m : message) : bool :=
  forallb (fun t => match get_tag m t with
                    | None => true
                    | Some _ => match tagv_of m t with Accept => true | _ => false end
                    end) (seq 0 ntags).

Definition amount_rule_ok (m : message) : bool :=
  match get_tag m (tix "Amount") with
  | None => true
  | Some v =>
      let a := nth 0 (tv_elems v) [] in
      negb (match a with [] => true | _ => false end) && forallb is_digit a && (length a <=? 12) &&
      (negb (forallb (beqb x30) a) ||
       match get_tag m (tix "TypeSubType") with
       | Some t => bytes_eqb (nth 1 (tv_elems t) []) (bs "90")
       | None => false
       end)
  end.

Definition pid_is (pid : bytes) (s : string) : bool := bytes_eqb pid (str s).

Definition oracle_msg (pid : bytes) (name : bytes) (args : list bytes) : option bytes :=
  if bytes_eqb name (bs "validate") then
    match decode_msg args with
    | None => None
    | Some m =>
        if pid_is pid "C05" || pid_is pid "C12" then Some (okrej (rules_accept m))
        else if pid_is pid "C10" then (if all_tags_valid m then None else Some (bs "reject"))
        else if pid_is pid "C19" then (if amount_rule_ok m then None else Some (bs "reject"))
        else if pid_is pid "C03" then Some (bs "no-panic")
        else None
    end
  else if bytes_eqb name (bs "write") then
    match args with
    | _ :: _ :: rest =>
        match decode_msg rest with
        | Some m => if pid_is pid "C06" || pid_is pid "C12" then Some (okrej (rules_accept m))
                    else if pid_is pid "C19" then (if amount_rule_ok m then None else Some (bs "reject"))
                    else if pid_is pid "C10" then (if all_tags_valid m then None else Some (bs "reject"))
                    else None
        | None => None
        end
    | _ => None
    end
  else if bytes_eqb name (bs "write-refusal-bytes") then (if pid_is pid "C06" then Some (bs "0") else None)
  else None.

(* which implementation-side property oracles (harness stream l5-props / l4-reader) belong to which property *)
Definition prop_owner (name : bytes) : list string :=
  if bytes_eqb name (bs "write-read") then ["C01"%string]
  else if bytes_eqb name (bs "valid-writes") then ["C01"; "C06"]%string
  else if bytes_eqb name (bs "read-write-read") then ["C02"%string]
  else if bytes_eqb name (bs "text-shape") then ["C07"%string]
  else if bytes_eqb name (bs "valid-reads-back") then ["C10"; "C01"]%string
  else if bytes_eqb name (bs "chunk-agree") || bytes_eqb name (bs "separator-agree") || bytes_eqb name (bs "order-agree") then ["C09"%string]
  else if bytes_eqb name (bs "error-positions") then ["C15"%string]
  else if bytes_eqb name (bs "accepted-valid") then ["C04"%string]
  else if bytes_eqb name (bs "write-fault") then ["C08"%string]
  else if bytes_eqb name (bs "wrap-agree") then ["C04"; "C09"]%string
  else if bytes_eqb name (bs "write-after-edit") then ["C06"%string]
  else if bytes_eqb name (bs "text-reread") then ["C02"%string]
  else if bytes_eqb name (bs "http-status-documented") || bytes_eqb name (bs "http-error-body-json") || bytes_eqb name (bs "http-log-isolation")
          || bytes_eqb name (bs "http-race-free") || bytes_eqb name (bs "http-no-panic") then ["C18"%string]
  else if bytes_eqb name (bs "json-roundtrip") || bytes_eqb name (bs "json-client-agree") then ["C14"%string]
  else if bytes_eqb name (bs "total") then ["C03"%string]
  else if bytes_eqb name (bs "pure") || bytes_eqb name (bs "shared-race-free") || bytes_eqb name (bs "shared-same-results") then ["C13"%string]
  else if bytes_eqb name (bs "http-faithful") then ["C17"%string]
  else if bytes_eqb name (bs "amount-as-read") || bytes_eqb name (bs "amount-routes") then ["C19"%string]
  else if bytes_eqb name (bs "http-no-truncation") then ["C08"; "C18"]%string   (* a 201 for an invalid upload is not failing closed *)
  else if bytes_eqb name (bs "http-contents-own-params") || bytes_eqb name (bs "http-fail-closed") then ["C18"%string]
  else if bytes_eqb name (bs "http-options-agree") || bytes_eqb name (bs "options-routes-agree") then ["C12"%string]
  else if bytes_eqb name (bs "http-linearizable") || bytes_eqb name (bs "http-list-consistent") then ["C16"%string]
  else [].

(* C04: any {dddd} in the text that is not one of the 60 FAIM markers must make the read fail *)
Fixpoint has_unknown_marker (s : bytes) : bool :=
  match s with
  | [] => false
  | _ :: t => (is_marker_at s && negb (mem_bytes (firstn 6 s) faim_markers)) || has_unknown_marker t
  end.

(* C08: a segment that cannot fit the scanner's 64 KiB buffer cannot have been read: the read must fail *)
Fixpoint max_gap (ms : list nat) (prev : nat) (len : nat) : nat :=
  match ms with
  | [] => len - prev
  | m :: r => Nat.max (m - prev) (max_gap r m len)
  end.
Definition has_long_segment (text : bytes) : bool :=
  match markers text with
  | [] => false
  | m0 :: r => max_token <? max_gap r m0 (length text)
  end.

Definition oracle_read (pid : bytes) (args : list bytes) : option bytes :=
  match args with
  | [_; _; final; text; _] =>
      if pid_is pid "C08" then (if bytes_eqb final (bs "eof") then (if has_long_segment text then Some (bs "reject") else None) else Some (bs "reject"))
      else if pid_is pid "C03" then Some (bs "no-panic")
      else if pid_is pid "C04" then (if has_unknown_marker (drop_lf (drop_crlf text)) then Some (bs "reject") else None)
      else None
  | _ => None
  end.

Definition oracle (pid : bytes) (fn : bytes) (args : list bytes) : option bytes :=
  let '(kind, name) := split_colon fn [] in
  if bytes_eqb kind (bs "prop") then
    (if existsb (pid_is pid) (prop_owner name) then Some (bs "same") else None)
  else if bytes_eqb kind (bs "read") then oracle_read pid args
  else if bytes_eqb kind (bs "tag") then
    (if pid_is pid "C03" then Some (bs "no-panic")
     else if pid_is pid "C11" && bytes_eqb name (bs "validate") then
       (* a coded element checked against the tag's own table: a non-empty value outside the published list is rejected *)
       match take_tag args with
       | Some (_, d, v, _) =>
           if existsb (fun e => let '(tn, ei, l) := e in
                                String.eqb tn (t_name d) &&
                                negb (bytes_eqb (nth ei (tv_elems v) []) []) && negb (mem_bytes (nth ei (tv_elems v) []) l))
                      Spec.Faim.tag_code_lists
           then Some (bs "reject") else None
       | None => None
       end
     else None)
  else
  if bytes_eqb kind (bs "validator") then
    (if pid_is pid "C11" then option_map okrej (spec_validator (string_of_list_byte name) args) else None)
  else if bytes_eqb kind (bs "msg") then oracle_msg pid name args
  else None.

(* stable names for the OCaml driver *)
Definition byte_of_n : N -> option byte := Byte.of_N.
Definition byte_to_n : byte -> N := Byte.to_N.
