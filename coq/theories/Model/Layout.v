(* Layouts: the regular shape shared by the tag codecs. A layout is recovered from a tag's regenerated
   Parse and Format step lists; the per-run obligation is that the step lists are EXACTLY the canonical
   lists of the recovered layout (decidable equality), so the generic codec theorems (CodecFacts.v),
   which are about canonical lists, apply to the code as it is now. *)
From Wire Require Import Base.Bytes Model.Converters Model.GoV Model.Codec.

Record pslot := { ps_e : nat; ps_w : nat; ps_trim : bool; ps_num : bool }.
Record fslot := { fs_e : nat; fs_w : nat; fs_field : string }.
Record vslot := { vs_e : nat; vs_w : nat; vs_field : string; vs_star : bool }.

Record layout := {
  l_cmp : cmp; l_guard : nat;
  l_ptrim : bool;                 (* the marker is read through parseStringField *)
  l_prefix : list pslot;          (* fixed-offset elements: record[a:b] / alphaField | numericStringField *)
  l_len : bool;                   (* cursor-driven part present: length := ..; ...; verifyDataWithReadLength *)
  l_fixed : list fslot;           (* parseFixedStringField / alphaField *)
  l_var : list vslot;             (* parseVariableStringField / formatAlphaField(options) + Delimiter *)
  l_strip : bool                  (* Format strips trailing delimiters in variable-length layout *)
}.

Definition prefix_width (l : list pslot) : nat := fold_right (fun s acc => ps_w s + acc) 0 l.
Definition fixed_width (l : list fslot) : nat := fold_right (fun s acc => fs_w s + acc) 0 l.

Fixpoint canon_slices (off : nat) (l : list pslot) : list pstep :=
  match l with
  | [] => []
  | s :: r => PSlice (ps_e s) (N.of_nat off) (N.of_nat (off + ps_w s)) (ps_trim s) :: canon_slices (off + ps_w s) r
  end.

Definition canon_parse (L : layout) : list pstep :=
  [PGuard (l_cmp L) (N.of_nat (l_guard L)); PTag (l_ptrim L)] ++
  canon_slices 6 (l_prefix L) ++
  (if l_len L then
     [PSetLen (N.of_nat (6 + prefix_width (l_prefix L)))] ++
     map (fun s => PFixed (fs_e s) (N.of_nat (fs_w s)) (fs_field s)) (l_fixed L) ++
     map (fun s => PVar (vs_e s) (N.of_nat (vs_w s)) (vs_field s)) (l_var L) ++
     [PVerifyLen]
   else []).

Definition canon_format (L : layout) : list fstep :=
  [FTag] ++
  map (fun s => if ps_num s then FNumeric (ps_e s) (N.of_nat (ps_w s)) else FAlpha (ps_e s) (N.of_nat (ps_w s))) (l_prefix L) ++
  map (fun s => FAlpha (fs_e s) (N.of_nat (fs_w s))) (l_fixed L) ++
  map (fun s => FOpt (vs_e s) (N.of_nat (vs_w s)) true (vs_star s)) (l_var L) ++
  (if l_strip L then [FStripIfVariable] else []).

(* ---- recovering a candidate layout from the step lists ---- *)
Definition is_numeric_in (fs : list fstep) (e : nat) : bool :=
  existsb (fun f => match f with FNumeric e' _ => Nat.eqb e e' | _ => false end) fs.
Definition star_in (fs : list fstep) (e : nat) : bool :=
  existsb (fun f => match f with FOpt e' _ _ true => Nat.eqb e e' | _ => false end) fs.

Definition recover (d : tagdesc) : layout :=
  let ps := t_parse d in
  let fs := t_format d in
  {| l_cmp := match ps with PGuard c _ :: _ => c | _ => CLt end;
     l_guard := match ps with PGuard _ n :: _ => N.to_nat n | _ => 0 end;
     l_ptrim := existsb (fun p => match p with PTag true => true | _ => false end) ps;
     l_prefix := flat_map (fun p => match p with
                                    | PSlice e a b tr => [{| ps_e := e; ps_w := N.to_nat b - N.to_nat a; ps_trim := tr; ps_num := is_numeric_in fs e |}]
                                    | _ => [] end) ps;
     l_len := existsb (fun p => match p with PVerifyLen => true | _ => false end) ps;
     l_fixed := flat_map (fun p => match p with PFixed e w f => [{| fs_e := e; fs_w := N.to_nat w; fs_field := f |}] | _ => [] end) ps;
     l_var := flat_map (fun p => match p with PVar e w f => [{| vs_e := e; vs_w := N.to_nat w; vs_field := f; vs_star := star_in fs e |}] | _ => [] end) ps;
     l_strip := existsb (fun f => match f with FStripIfVariable => true | _ => false end) fs |}.

Definition cmp_eq_dec (a b : cmp) : {a = b} + {a <> b}. Proof. decide equality. Defined.
Definition pstep_eq_dec (a b : pstep) : {a = b} + {a <> b}.
Proof. decide equality; first [apply Nat.eq_dec | apply N.eq_dec | apply Bool.bool_dec | apply string_dec | apply cmp_eq_dec]. Defined.
Definition fstep_eq_dec (a b : fstep) : {a = b} + {a <> b}.
Proof. decide equality; first [apply Nat.eq_dec | apply N.eq_dec | apply Bool.bool_dec | apply string_dec]. Defined.

Definition regular (d : tagdesc) : bool :=
  let L := recover d in
  (if list_eq_dec pstep_eq_dec (t_parse d) (canon_parse L) then true else false) &&
  (if list_eq_dec fstep_eq_dec (t_format d) (canon_format L) then true else false).

(* ---- well-formedness of a layout (what the round trip needs) ---- *)
Definition slot_elems (L : layout) : list nat :=
  map ps_e (l_prefix L) ++ map fs_e (l_fixed L) ++ map vs_e (l_var L).

Fixpoint nodupb (l : list nat) : bool :=
  match l with [] => true | x :: r => negb (existsb (Nat.eqb x) r) && nodupb r end.

(* shortest text Format can emit for canonical values, per layout mode *)
Definition min_len (L : layout) (variable : bool) : nat :=
  6 + prefix_width (l_prefix L) + fixed_width (l_fixed L) +
  (if variable then (if l_strip L then (match l_var L with [] => 0 | _ => 1 end) else length (l_var L))
   else fold_right (fun s acc => vs_w s + 1 + acc) 0 (l_var L)).

Definition layout_wf (nelems : nat) (takes_options : bool) (L : layout) : bool :=
  nodupb (slot_elems L) &&
  forallb (fun e => e <? nelems) (slot_elems L) &&
  forallb (fun s => 1 <=? ps_w s) (l_prefix L) &&
  forallb (fun s => 1 <=? fs_w s) (l_fixed L) &&
  forallb (fun s => 1 <=? vs_w s) (l_var L) &&
  (* widths far below maxBufferGrowth *)
  forallb (fun s => (N.of_nat (ps_w s) <? 100000)%N) (l_prefix L) && forallb (fun s => (N.of_nat (fs_w s) <? 100000)%N) (l_fixed L) &&
  forallb (fun s => (N.of_nat (vs_w s) <? 100000)%N) (l_var L) &&
  (* the guard admits every text Format can produce *)
  (match l_cmp L with
   | CLt => (l_guard L <=? min_len L false) && (negb takes_options || (l_guard L <=? min_len L true))
   | CNe => negb (l_len L) && (match l_fixed L, l_var L with [], [] => true | _, _ => false end) &&
            (l_guard L =? 6 + prefix_width (l_prefix L))
   end) &&
  (* a cursor-less tag has only fixed-offset elements *)
  (l_len L || (match l_fixed L, l_var L with [], [] => true | _, _ => false end)) &&
  (* more than one variable element without stripping cannot collapse: fine; stripping without options: fine *)
  true.

(* elements of the tag that have no slot in the text form *)
Definition unslotted (nelems : nat) (L : layout) : list nat :=
  filter (fun e => negb (existsb (Nat.eqb e) (slot_elems L))) (seq 0 nelems).

(* ---- canonical element values: the fixed points of parse after format ---- *)
Definition okchar (b : byte) : bool :=
  (bN b <? 128)%N && negb (beqb b delim) && negb (beqb b lbrace).

Definition trimmed (x : bytes) : bool :=
  match x with
  | [] => true
  | b :: _ => negb (is_ascii_ws b) && negb (is_ascii_ws (last x b))
  end.

Definition clean (w : nat) (x : bytes) : bool :=
  (length x <=? w) && forallb okchar x && trimmed x.

Definition okchars (x : bytes) : bool := forallb okchar x.

(* fixed-offset elements: zero-padded numerics and raw slices must fill their width *)
Definition pslot_ok (s : pslot) (x : bytes) : bool :=
  if ps_num s then (length x =? ps_w s) && okchars x && (negb (ps_trim s) || trimmed x)
  else if ps_trim s then clean (ps_w s) x
  else (length x =? ps_w s) && okchars x.

Definition marker_ok (mk : bytes) : bool :=
  (length mk =? 6) && forallb (fun b => (bN b <? 128)%N) mk && trimmed mk && negb (beqb (last mk x00) delim).

Definition canonical (nelems : nat) (L : layout) (v : tagval) : bool :=
  (length (tv_elems v) =? nelems) &&
  forallb (fun s => pslot_ok s (elem_val v (ps_e s))) (l_prefix L) &&
  forallb (fun s => clean (fs_w s) (elem_val v (fs_e s))) (l_fixed L) &&
  forallb (fun s => clean (vs_w s) (elem_val v (vs_e s))) (l_var L) &&
  forallb (fun e => match elem_val v e with [] => true | _ => false end) (unslotted nelems L).
