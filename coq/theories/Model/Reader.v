(* Model of reader.go: the segment splitter (scanLinesWithSegmentFormat), bufio.Scanner over an
   arbitrarily chunked source with a final status (modelled standard library), the re-split of each
   token, the dispatch on the marker (regenerated table), per-segment Parse + Validate, and the final
   file validation. Executable; tied to the implementation by the L4 correspondence stream. *)
From Wire Require Import Base.Bytes Model.Converters Model.Validators Model.GoV Model.Codec Model.Message.
From WireGen Require Import Tags Verify Reader.

(* ---- markers: {dddd} ---- *)
Definition is_marker_at (s : bytes) : bool :=
  match s with
  | a :: d1 :: d2 :: d3 :: d4 :: z :: _ =>
      beqb a x7b && is_digit d1 && is_digit d2 && is_digit d3 && is_digit d4 && beqb z x7d
  | _ => false
  end.

(* all positions (relative to pos) where a marker starts; matches cannot overlap *)
Fixpoint markers_from (s : bytes) (pos : nat) : list nat :=
  match s with
  | [] => []
  | _ :: t => (if is_marker_at s then [pos] else []) ++ markers_from t (S pos)
  end.
Definition markers (s : bytes) : list nat := markers_from s 0.

(* scanLinesWithSegmentFormat(data, atEOF) = (advance, token) *)
Definition split_fn (data : bytes) (at_eof : bool) : nat * option bytes :=
  match data, at_eof with
  | [], true => (0, None)
  | _, _ =>
      match markers data with
      | [] => if at_eof then (length data, Some data) else (0, None)
      | m0 :: rest =>
          match rest, at_eof with
          | [], false => (0, None)
          | _, _ =>
              if 0 <? m0 then (m0, Some (firstn m0 data))
              else match rest with
                   | [] => (length data, Some data)
                   | m1 :: _ => (m1, Some (firstn m1 data))
                   end
          end
      end
  end.

(* ---- bufio.Scanner (modelled): the source delivers the chunks in order and then its final status ---- *)
Inductive fstatus := FEOF | FErr (name : string).

Definition max_token : nat := N.to_nat 65536.
Definition start_buf : nat := N.to_nat 4096.

Record sstate := {
  s_pending : bytes;            (* unconsumed bytes in the buffer *)
  s_src : list bytes;           (* chunks not yet read *)
  s_err : option fstatus;       (* sticky: set once the source has reported its final status *)
  s_cap : nat                   (* current buffer size *)
}.

Inductive sres := SToken (t : bytes) (st : sstate) | SStop (err : option string) | SFuel.

(* one call of Scan() *)
Fixpoint scan_one (fuel : nat) (final : fstatus) (st : sstate) : sres :=
  match fuel with
  | O => SFuel
  | S f =>
      let has_err := match s_err st with Some _ => true | None => false end in
      let try :=
        match s_pending st, has_err with
        | [], false => (0, None)
        | p, _ => split_fn p has_err
        end in
      match try with
      | (adv, Some tok) =>
          SToken tok {| s_pending := skipn adv (s_pending st); s_src := s_src st; s_err := s_err st; s_cap := s_cap st |}
      | (S adv, None) =>
          scan_one f final {| s_pending := skipn (S adv) (s_pending st); s_src := s_src st; s_err := s_err st; s_cap := s_cap st |}
      | (O, None) =>
          match s_err st with
          | Some FEOF => SStop None
          | Some (FErr e) => SStop (Some e)
          | None =>
              (* need more data *)
              if s_cap st <=? length (s_pending st) then
                (if max_token <=? s_cap st then SStop (Some "ErrTooLong"%string)
                 else let c := if s_cap st =? 0 then start_buf else Nat.min (2 * s_cap st) max_token in
                      scan_one f final {| s_pending := s_pending st; s_src := s_src st; s_err := None; s_cap := c |})
              else
                match s_src st with
                | [] => scan_one f final {| s_pending := s_pending st; s_src := []; s_err := Some final; s_cap := s_cap st |}
                | c :: r =>
                    let n := Nat.min (length c) (s_cap st - length (s_pending st)) in
                    let rest := skipn n c in
                    scan_one f final {| s_pending := s_pending st ++ firstn n c;
                                        s_src := (match rest with [] => r | _ => rest :: r end);
                                        s_err := None; s_cap := s_cap st |}
                end
          end
      end
  end.

(* all tokens, then how the scanner stopped *)
Fixpoint scan_all (fuel : nat) (final : fstatus) (st : sstate) (acc : list bytes) : list bytes * option string :=
  match fuel with
  | O => (rev acc, Some "fuel"%string)
  | S f =>
      match scan_one fuel final st with
      | SToken t st' => scan_all f final st' (t :: acc)
      | SStop e => (rev acc, e)
      | SFuel => (rev acc, Some "fuel"%string)
      end
  end.

Definition total_len (chunks : list bytes) : nat := fold_right (fun c n => length c + n) 0 chunks.

Definition scan (chunks : list bytes) (final : fstatus) : list bytes * option string :=
  let nonempty := filter (fun c => match c with [] => false | _ => true end) chunks in
  scan_all (4 * (total_len nonempty + length nonempty) + 64) final
           {| s_pending := []; s_src := nonempty; s_err := None; s_cap := 0 |} [].

(* ---- spiltString: strip line breaks, re-split at markers (text before the first marker is dropped) ---- *)
Fixpoint cut_at (s : bytes) (ms : list nat) (pos : nat) : list bytes :=
  match ms with
  | [] => []
  | [m] => [skipn (m - pos) s]
  | m :: ((m' :: _) as r) => firstn (m' - m) (skipn (m - pos) s) :: cut_at (skipn (m' - pos) s) r m'
  end.

Definition sublines (token : bytes) : list bytes :=
  let line := drop_lf (drop_crlf token) in
  cut_at line (markers line) 0.

(* ---- parseLine ---- *)
Inductive rerr :=
| RParse (line : nat) (record : string) (field err : string)   (* base.ParseError{Line, Record, Err} *)
| RInvalidTag (marker : bytes)
| RTooShort
| RScanner (name : string)
| RFileValidation (field err : string)
| RPanic | RStuck.

Fixpoint lookup_marker (mk : bytes) (l : list (bytes * (nat * nat * string * bool))) : option (nat * nat * string * bool) :=
  match l with
  | [] => None
  | (k, v) :: r => if bytes_eqb mk k then Some v else lookup_marker mk r
  end.

Fixpoint set_tag (i : nat) (v : tagval) (l : list (option tagval)) : list (option tagval) :=
  match i, l with
  | O, _ :: t => Some v :: t
  | S i', x :: t => x :: set_tag i' v t
  | _, [] => []
  end.

Definition empty_tags : list (option tagval) := map (fun _ => None) tags.

(* Validate of one parsed tag on its own *)
Definition validate_alone (t : nat) (v : tagval) : verdict :=
  run_tag_validate validate_progs {| m_tags := set_tag t v empty_tags; m_opts := None |} t.

(* result of one sub-line: either an error or an assignment *)
Definition parse_line (line : bytes) (ln : nat) : rerr + (nat * tagval) :=
  if rune_count line <? 6 then inl RTooShort else
  match lookup_marker (firstn 6 line) dispatch with
  | None => inl (RInvalidTag (firstn 6 line))
  | Some (ti, fi, label, validates) =>
      match parse_tag (nth ti tags tag_Amount) line with
      | PErr f e => inl (RParse ln label f e)
      | PPanic => inl RPanic
      | PStuck => inl RStuck
      | POk v =>
          if validates then
            match validate_alone ti v with
            | Accept => inr (fi, v)
            | Reject f e => inl (RParse ln label f e)
            | Panic => inl RPanic
            | Stuck => inl RStuck
            end
          else inr (fi, v)
      end
  end.

(* the read loop over the sub-lines of all tokens *)
Fixpoint read_lines (lines : list bytes) (ln : nat) (tgs : list (option tagval)) (errs : list rerr) :
  list (option tagval) * list rerr :=
  match lines with
  | [] => (tgs, rev errs)
  | l :: r =>
      match parse_line l (S ln) with
      | inl e => read_lines r (S ln) tgs (e :: errs)
      | inr (fi, v) => read_lines r (S ln) (set_tag fi v tgs) errs
      end
  end.

Inductive rresult := ROk (m : message) | RErrors (errs : list rerr).

(* preset: options configured through NewReader(r, IncomingFile()/OutgoingFile()); opts: ReadWithOpts argument *)
Definition read_model (preset opts : option (bool * bool)) (chunks : list bytes) (final : fstatus) : rresult :=
  let '(tokens, stop) := scan chunks final in
  let '(tgs, errs) := read_lines (flat_map sublines tokens) 0 empty_tags [] in
  let errs := match stop with Some e => errs ++ [RScanner e] | None => errs end in
  match errs with
  | [] =>
      let o := match opts with Some _ => opts | None => preset end in
      let m := {| m_tags := tgs; m_opts := o |} in
      match verify m with
      | Accept => ROk m
      | Reject f e => RErrors [RFileValidation f e]
      | Panic => RErrors [RPanic]
      | Stuck => RErrors [RStuck]
      end
  | _ => RErrors errs
  end.
