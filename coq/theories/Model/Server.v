(* Model of the HTTP file store (cmd/server/files.go + storage.go): the handlers as functions over an
   association store, calling the library models (reader, validation, writer). Sequential semantics;
   the concurrent view is in Theory/ServerFacts.v. *)
From Wire Require Import Base.Bytes Model.GoV Model.Codec Model.Message Model.Writer Model.Reader.
From WireGen Require Handlers.

Definition store := list (bytes * message).      (* file id -> stored message; keys unique *)

Fixpoint st_get (s : store) (id : bytes) : option message :=
  match s with
  | [] => None
  | (k, m) :: r => if bytes_eqb k id then Some m else st_get r id
  end.

Fixpoint st_del (s : store) (id : bytes) : store :=
  match s with
  | [] => []
  | (k, m) :: r => if bytes_eqb k id then st_del r id else (k, m) :: st_del r id
  end.

Definition st_put (s : store) (id : bytes) (m : message) : store := (id, m) :: st_del s id.

(* strconv.ParseBool *)
Definition parse_bool (s : bytes) : option bool :=
  if mem_bytes s [bs "1"; bs "t"; bs "T"; bs "TRUE"; bs "true"; bs "True"] then Some true
  else if mem_bytes s [bs "0"; bs "f"; bs "F"; bs "FALSE"; bs "false"; bs "False"] then Some false
  else None.

(* validateOptsFromQuery: a parameter counts only when ParseBool says true; nil when none is set *)
Definition query_opts (skip allow : option bytes) : option (bool * bool) :=
  let on (v : option bytes) := match v with Some x => match parse_bool x with Some true => true | _ => false end | None => false end in
  if on skip || on allow then Some (on skip, on allow) else None.

(* GetWriter: format / newline query parameters; None = 400 (unparsable newline) *)
Definition writer_params (format newline : option bytes) : option (bool * bytes) :=
  let fmt := match format with Some f => f | None => [] end in
  let nl := match newline with Some n => n | None => [] end in
  match fmt, nl with
  | [], [] => Some (false, [x0a])
  | _, _ =>
      let variable := bytes_eqb fmt (bs "variable") in
      match nl with
      | [] => Some (variable, [x0a])
      | _ => match parse_bool nl with
             | None => None
             | Some true => Some (variable, [x0a])
             | Some false => Some (variable, [])
             end
      end
  end.

Inductive op :=
| OCreateText (skip allow : option bytes) (body : bytes)
| OCreateMsg (id : bytes) (m : message)            (* JSON create: the decoded message; id [] = none given *)
| OBadJSON                                         (* JSON create with an undecodable body *)
| OGet (id : bytes) | OList
| OContents (id : bytes) (format newline : option bytes)
| OValidate (id : bytes)
| OAdd (id : bytes) (m : message)
| ODelete (id : bytes).

Inductive resp :=
| RCreated (id : bytes)
| ROkFile (id : bytes) (m : message)
| ROkList (ids : list bytes)
| ROkBody (b : bytes)
| ROkPlain
| RBad           (* 400 *)
| RNotFound.     (* 404 *)

Record sstate := { ss_store : store; ss_created : list bytes; ss_fresh : nat }.

Fixpoint dec_digits (fuel n : nat) (acc : bytes) : bytes :=
  match fuel with
  | O => acc
  | S f => let d := match Byte.of_N (N.of_nat (48 + n mod 10)) with Some b => b | None => x30 end in
           if n / 10 =? 0 then d :: acc else dec_digits f (n / 10) (d :: acc)
  end.
(* generated ids are symbolic: "$k" = the k-th successful create of the history *)
Definition fresh_id (n : nat) : bytes := x24 :: dec_digits (S n) n [].

(* one request, start to finish; fid = the identifier base.ID() hands out if the request needs one *)
Definition step_with (fid : bytes) (st : sstate) (o : op) : sstate * resp :=
  let s := ss_store st in
  match o with
  | OCreateText skip allow body =>
      match read_model None (query_opts skip allow) [body] FEOF with
      | ROk m =>
          let id := fid in
          ({| ss_store := st_put s id m; ss_created := ss_created st ++ [id]; ss_fresh := S (ss_fresh st) |}, RCreated id)
      | RErrors _ => (st, RBad)
      end
  | OCreateMsg id m =>
      match verify m with
      | Accept =>
          let '(id', fr) := match id with [] => (fid, S (ss_fresh st)) | _ => (id, ss_fresh st) end in
          ({| ss_store := st_put s id' m; ss_created := ss_created st ++ [id']; ss_fresh := fr |}, RCreated id')
      | _ => (st, RBad)
      end
  | OBadJSON => (st, RBad)
  | OGet id => (st, match st_get s id with Some m => ROkFile id m | None => RNotFound end)
  | OList => (st, ROkList (map fst s))
  | OContents id fmt nl =>
      (st, match st_get s id with
           | None => RNotFound
           | Some m =>
               match writer_params fmt nl with
               | None => RBad
               | Some (variable, sep) =>
                   match write_model m variable sep with
                   | WOk t => ROkBody t
                   | _ => RBad
                   end
               end
           end)
  | OValidate id =>
      (st, match st_get s id with
           | None => RNotFound
           | Some m => match verify m with Accept => ROkPlain | _ => RBad end
           end)
  | OAdd id m =>
      match st_get s id with
      | None => (st, RNotFound)
      | Some _ =>
          match verify m with
          | Accept => ({| ss_store := st_put s id m; ss_created := ss_created st; ss_fresh := ss_fresh st |}, ROkFile id m)
          | _ => (st, RBad)
          end
      end
  | ODelete id =>
      ({| ss_store := st_del s id; ss_created := ss_created st; ss_fresh := ss_fresh st |}, ROkPlain)
  end.

Definition step (st : sstate) (o : op) : sstate * resp := step_with (fresh_id (length (ss_created st))) st o.

Definition init : sstate := {| ss_store := []; ss_created := []; ss_fresh := 0 |}.

Fixpoint run_ops (st : sstate) (ops : list op) : list resp :=
  match ops with
  | [] => []
  | o :: r => let '(st', a) := step st o in a :: run_ops st' r
  end.

(* ---- concurrent requests: each request is a thread; the repository steps (each under the
        repository mutex, so atomic) of different threads interleave. A handler's response is
        determined at its last repository step. Handlers make the repository calls listed in
        WireGen.Handlers.handler_repo_calls: one call each, except add-message (getFile then
        saveFile) - unless the source makes it a single call (add_is_atomic). ---- *)
Definition add_is_atomic : bool :=
  match find (fun p => String.eqb (fst p) "addFEDWireMessageToFile") Handlers.handler_repo_calls with
  | Some (_, [_]) => true
  | _ => false
  end.

Inductive thread :=
| TReady (o : op)                       (* has not touched the repository yet *)
| TAddSave (id : bytes) (m : message)   (* add-message: getFile found the file and the new message validated; saveFile pending *)
| TDone (r : resp).

(* requests that answer without any repository call *)
Definition zero_step (o : op) : option resp :=
  match o with
  | OBadJSON => Some RBad
  | OCreateText skip allow body =>
      match read_model None (query_opts skip allow) [body] FEOF with ROk _ => None | RErrors _ => Some RBad end
  | OCreateMsg _ m => match verify m with Accept => None | _ => Some RBad end
  | _ => None
  end.

Definition start_thread (o : op) : thread :=
  match zero_step o with Some r => TDone r | None => TReady o end.

(* thread i performs its next repository step *)
Definition grant (fid : bytes) (st : sstate) (t : thread) : sstate * thread :=
  match t with
  | TDone r => (st, TDone r)
  | TAddSave id m =>
      ({| ss_store := st_put (ss_store st) id m; ss_created := ss_created st; ss_fresh := ss_fresh st |}, TDone (ROkFile id m))
  | TReady (OAdd id m) =>
      if add_is_atomic then let '(st', r) := step_with fid st (OAdd id m) in (st', TDone r)
      else match st_get (ss_store st) id with
           | None => (st, TDone RNotFound)
           | Some _ => match verify m with Accept => (st, TAddSave id m) | _ => (st, TDone RBad) end
           end
  | TReady o => let '(st', r) := step_with fid st o in (st', TDone r)
  end.

Fixpoint set_nth {A} (i : nat) (x : A) (l : list A) : list A :=
  match i, l with
  | O, _ :: t => x :: t
  | S i', y :: t => y :: set_nth i' x t
  | _, [] => []
  end.

(* identifier handed to thread i if it creates a file *)
Definition thread_fid (i : nat) : bytes := x24 :: x63 :: dec_digits (S i) i [].

Fixpoint sched_run (order : list nat) (st : sstate) (ts : list thread) : sstate * list thread :=
  match order with
  | [] => (st, ts)
  | i :: r =>
      match nth_error ts i with
      | None => sched_run r st ts
      | Some t => let '(st', t') := grant (thread_fid i) st t in sched_run r st' (set_nth i t' ts)
      end
  end.

(* an order that lets every thread finish: everybody twice, lowest index first *)
Definition drain (n : nat) : list nat := seq 0 n ++ seq 0 n.

Definition run_concurrent (st : sstate) (ops : list op) (order : list nat) : sstate * list thread :=
  sched_run (order ++ drain (length ops)) st (map start_thread ops).

(* the same requests one at a time, in the order given by a list of thread indices *)
Fixpoint run_sequential (idx : list nat) (ops : list op) (st : sstate) (rs : list (nat * resp)) : sstate * list (nat * resp) :=
  match idx with
  | [] => (st, rev rs)
  | i :: r =>
      match nth_error ops i with
      | None => run_sequential r ops st rs
      | Some o => let '(st', a) := step_with (thread_fid i) st o in run_sequential r ops st' ((i, a) :: rs)
      end
  end.

(* ---- statuses and logging context ---- *)
Definition status_of (r : resp) : nat :=
  match r with
  | RCreated _ => 201
  | ROkFile _ _ | ROkList _ | ROkBody _ | ROkPlain => 200
  | RBad => 400
  | RNotFound => 404
  end.

(* identifiers a request contributes to its logging context *)
Record req_ids := { rq_request_id : option bytes; rq_file_id : option bytes }.
Definition ids_of (r : req_ids) : list bytes :=
  (match rq_request_id r with Some x => [x] | None => [] end) ++ (match rq_file_id r with Some x => [x] | None => [] end).

(* the handler closure assigns a logger captured from route registration (shared by every request of the
   route) exactly when the translator finds such an assignment *)
Definition logger_shared : bool := match Handlers.captured_assignments with [] => false | _ => true end.

(* logging context of each request of a route, requests served one after the other *)
Fixpoint log_contexts (shared : bool) (base : list bytes) (rs : list req_ids) : list (list bytes) :=
  match rs with
  | [] => []
  | r :: t => let ctx := base ++ ids_of r in ctx :: log_contexts shared (if shared then ctx else base) t
  end.

(* ---- the same with arrivals: a request starts at some point of the execution (EStart) and takes its
        repository steps later (EStep); lin records the order in which repository calls were made ---- *)
Inductive event := EStart (i : nat) | EStep (i : nat).

Inductive rthread := RNotStarted (o : op) | RRunning (t : thread).

Definition rt_event (e : event) (st : sstate) (ts : list rthread) (lin : list nat) : sstate * list rthread * list nat :=
  match e with
  | EStart i =>
      match nth_error ts i with
      | Some (RNotStarted o) => (st, set_nth i (RRunning (start_thread o)) ts, lin)
      | _ => (st, ts, lin)
      end
  | EStep i =>
      match nth_error ts i with
      | Some (RRunning (TReady o)) =>
          let '(st', t') := grant (thread_fid i) st (TReady o) in (st', set_nth i (RRunning t') ts, lin ++ [i])
      | Some (RRunning (TAddSave id m)) =>
          let '(st', t') := grant (thread_fid i) st (TAddSave id m) in (st', set_nth i (RRunning t') ts, lin)
      | _ => (st, ts, lin)
      end
  end.

Fixpoint rt_run (es : list event) (st : sstate) (ts : list rthread) (lin : list nat) : sstate * list rthread * list nat :=
  match es with
  | [] => (st, ts, lin)
  | e :: r => let '(st', ts', lin') := rt_event e st ts lin in rt_run r st' ts' lin'
  end.
