(* Model of the HTTP file store (cmd/server/files.go + storage.go): the handlers as functions over an
   association store, calling the library models (reader, validation, writer). Sequential semantics;
   the concurrent view is in Theory/ServerFacts.v. *)
From Wire Require Import Base.Bytes Model.GoV Model.Codec Model.Message Model.Writer Model.Reader.

Definition store := list (bytes * message).      (* file id -> stored message; keys unique *)

Fixpoint st_get (s : store) (id : bytes) : option message :=
  match s with
  | [] => None
  | (k, m) :: r => if bytes_eqb k id then Some m else st_get r id
  end.

Fixpoint st_del (s : store) (id : bytes) : store :=
  match s with
  | [] => []
  | (k, m) :: r => if bytes_eqb k id then st_del r id else (k, m) :: st_del r id
  end.

Definition st_put (s : store) (id : bytes) (m : message) : store := (id, m) :: st_del s id.

(* strconv.ParseBool *)
Definition parse_bool (s : bytes) : option bool :=
  if mem_bytes s [bs "1"; bs "t"; bs "T"; bs "TRUE"; bs "true"; bs "True"] then Some true
  else if mem_bytes s [bs "0"; bs "f"; bs "F"; bs "FALSE"; bs "false"; bs "False"] then Some false
  else None.

(* validateOptsFromQuery: a parameter counts only when ParseBool says true; nil when none is set *)
Definition query_opts (skip allow : option bytes) : option (bool * bool) :=
  let on (v : option bytes) := match v with Some x => match parse_bool x with Some true => true | _ => false end | None => false end in
  if on skip || on allow then Some (on skip, on allow) else None.

(* GetWriter: format / newline query parameters; None = 400 (unparsable newline) *)
Definition writer_params (format newline : option bytes) : option (bool * bytes) :=
  let fmt := match format with Some f => f | None => [] end in
  let nl := match newline with Some n => n | None => [] end in
  match fmt, nl with
  | [], [] => Some (false, [x0a])
  | _, _ =>
      let variable := bytes_eqb fmt (bs "variable") in
      match nl with
      | [] => Some (variable, [x0a])
      | _ => match parse_bool nl with
             | None => None
             | Some true => Some (variable, [x0a])
             | Some false => Some (variable, [])
             end
      end
  end.

Inductive op :=
| OCreateText (skip allow : option bytes) (body : bytes)
| OCreateMsg (id : bytes) (m : message)            (* JSON create: the decoded message; id [] = none given *)
| OBadJSON                                         (* JSON create with an undecodable body *)
| OGet (id : bytes) | OList
| OContents (id : bytes) (format newline : option bytes)
| OValidate (id : bytes)
| OAdd (id : bytes) (m : message)
| ODelete (id : bytes).

Inductive resp :=
| RCreated (id : bytes)
| ROkFile (id : bytes) (m : message)
| ROkList (ids : list bytes)
| ROkBody (b : bytes)
| ROkPlain
| RBad           (* 400 *)
| RNotFound.     (* 404 *)

Record sstate := { ss_store : store; ss_created : list bytes; ss_fresh : nat }.

Fixpoint dec_digits (fuel n : nat) (acc : bytes) : bytes :=
  match fuel with
  | O => acc
  | S f => let d := match Byte.of_N (N.of_nat (48 + n mod 10)) with Some b => b | None => x30 end in
           if n / 10 =? 0 then d :: acc else dec_digits f (n / 10) (d :: acc)
  end.
(* generated ids are symbolic: "$k" = the k-th successful create of the history *)
Definition fresh_id (n : nat) : bytes := x24 :: dec_digits (S n) n [].

(* one request, start to finish *)
Definition step (st : sstate) (o : op) : sstate * resp :=
  let s := ss_store st in
  match o with
  | OCreateText skip allow body =>
      match read_model None (query_opts skip allow) [body] FEOF with
      | ROk m =>
          let id := fresh_id (length (ss_created st)) in
          ({| ss_store := st_put s id m; ss_created := ss_created st ++ [id]; ss_fresh := S (ss_fresh st) |}, RCreated id)
      | RErrors _ => (st, RBad)
      end
  | OCreateMsg id m =>
      match verify m with
      | Accept =>
          let '(id', fr) := match id with [] => (fresh_id (length (ss_created st)), S (ss_fresh st)) | _ => (id, ss_fresh st) end in
          ({| ss_store := st_put s id' m; ss_created := ss_created st ++ [id']; ss_fresh := fr |}, RCreated id')
      | _ => (st, RBad)
      end
  | OBadJSON => (st, RBad)
  | OGet id => (st, match st_get s id with Some m => ROkFile id m | None => RNotFound end)
  | OList => (st, ROkList (map fst s))
  | OContents id fmt nl =>
      (st, match st_get s id with
           | None => RNotFound
           | Some m =>
               match writer_params fmt nl with
               | None => RBad
               | Some (variable, sep) =>
                   match write_model m variable sep with
                   | WOk t => ROkBody t
                   | _ => RBad
                   end
               end
           end)
  | OValidate id =>
      (st, match st_get s id with
           | None => RNotFound
           | Some m => match verify m with Accept => ROkPlain | _ => RBad end
           end)
  | OAdd id m =>
      match st_get s id with
      | None => (st, RNotFound)
      | Some _ =>
          match verify m with
          | Accept => ({| ss_store := st_put s id m; ss_created := ss_created st; ss_fresh := ss_fresh st |}, ROkFile id m)
          | _ => (st, RBad)
          end
      end
  | ODelete id =>
      ({| ss_store := st_del s id; ss_created := ss_created st; ss_fresh := ss_fresh st |}, ROkPlain)
  end.

Definition init : sstate := {| ss_store := []; ss_created := []; ss_fresh := 0 |}.

Fixpoint run_ops (st : sstate) (ops : list op) : list resp :=
  match ops with
  | [] => []
  | o :: r => let '(st', a) := step st o in a :: run_ops st' r
  end.
