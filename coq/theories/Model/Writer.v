(* Model of Writer.Write (writer.go): validate, the writer's own mandatory check, one line per
   present tag in the regenerated emission plan, slices.Sort, strings.Join with the separator, a
   trailing separator, and the buffered flush (the destination is touched only by that flush). *)
From Wire Require Import Base.Bytes Model.Validators Model.GoV Model.Codec Model.Message.
From WireGen Require Import Tags Verify Writer.

Definition writer_check (m : message) : verdict := verdict_of (exec (tagv_of m) m writer_checks).

Definition bytes_leb (a b : bytes) : bool := negb (bytes_ltb b a).

Fixpoint insert_sorted (x : bytes) (l : list bytes) : list bytes :=
  match l with
  | [] => [x]
  | y :: t => if bytes_leb x y then x :: l else y :: insert_sorted x t
  end.
Definition sort_lines (l : list bytes) : list bytes := fold_right insert_sorted [] l.

Fixpoint join_with (sep : bytes) (l : list bytes) : bytes :=
  match l with
  | [] => []
  | [x] => x
  | x :: t => x ++ sep ++ join_with sep t
  end.

(* one formatted line per present tag, in plan order; None if a Format program is not translatable *)
Fixpoint plan_lines (plan : list (nat * bool)) (m : message) (variable : bool) : option (list bytes) :=
  match plan with
  | [] => Some []
  | (t, takes) :: r =>
      match plan_lines r m variable with
      | None => None
      | Some rest =>
          match get_tag m t with
          | None => Some rest
          | Some v =>
              match format_tag (nth t tags tag_Amount) (variable && takes) v with
              | Some line => Some (line :: rest)
              | None => None
              end
          end
      end
  end.

Inductive wresult := WOk (text : bytes) | WRefused (v : verdict) | WStuck.

Definition write_model (m : message) (variable : bool) (nl : bytes) : wresult :=
  match verify m with
  | Accept =>
      match writer_check m with
      | Accept =>
          match plan_lines writer_plan m variable with
          | Some lines => WOk (join_with nl (sort_lines lines) ++ nl)
          | None => WStuck
          end
      | v => WRefused v
      end
  | v => WRefused v
  end.
