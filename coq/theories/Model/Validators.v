(* Hand model of the element validators of /repo/validators.go. Character classes and code
   lists are NOT hand-written: they come from the regenerated WireGen tables. *)
From Wire Require Import Base.Bytes.
From WireGen Require Import Classes Codes.

Definition is_alphanumeric (s : bytes) : bool := all_in_class alphanumericRegex_mask s.
Definition is_numeric (s : bytes) : bool := all_in_class numericRegex_mask s.
Definition is_amount (s : bytes) : bool := all_in_class amountRegex_mask (trim_byte x2c s).
Definition is_amount_implied (s : bytes) : bool := all_in_class numericRegex_mask s.

Fixpoint assoc {A} (k : string) (l : list (string * A)) : option A :=
  match l with
  | [] => None
  | (k', v) :: t => if String.eqb k k' then Some v else assoc k t
  end.

Definition code_list (name : string) : list bytes :=
  match assoc name code_lists with Some (l, _) => l | None => [] end.
Definition code_err (name : string) : string :=
  match assoc name code_lists with Some (_, e) => e | None => "ErrUnknownList"%string end.
Definition string_table (name : string) : list bytes :=
  match assoc name string_tables with Some l => l | None => [] end.

Definition in_code_list (name : string) (c : bytes) : bool := mem_bytes c (code_list name).

(* isCentury / isYear: lexicographic comparisons, exactly as written *)
Definition is_century (s : bytes) : bool := negb (bytes_ltb s (bs "20") || bytes_ltb (bs "29") s).
Definition is_year (s : bytes) : bool := negb (bytes_ltb s (bs "00") || bytes_ltb (bs "99") s).
Definition is_month (s : bytes) : bool := in_code_list "isMonth" s.

Definition days_upto (n : nat) : list bytes :=
  map (fun d => [match Byte.of_N (N.of_nat (48 + d / 10)) with Some b => b | None => x00 end;
                 match Byte.of_N (N.of_nat (48 + d mod 10)) with Some b => b | None => x00 end])
      (seq 1 n).

Definition is_day (m d : bytes) : bool :=
  if bytes_eqb m (bs "02") then mem_bytes d (days_upto 29)
  else if mem_bytes m [bs "04"; bs "06"; bs "09"; bs "11"] then mem_bytes d (days_upto 30)
  else if mem_bytes m [bs "01"; bs "03"; bs "05"; bs "07"; bs "08"; bs "10"; bs "12"] then mem_bytes d (days_upto 31)
  else false.

Definition sub (s : bytes) (a b : nat) : bytes := firstn (b - a) (skipn a s).

(* validateDate: None = accepted, Some e = the error it returns *)
Definition validate_date (s : bytes) : option string :=
  if negb (rune_count s =? 8) then Some "TagWrongLengthErr"%string
  else if negb (is_numeric s) then Some "ErrValidDate"%string
  else
    let cc := sub s 0 2 in let yy := sub s 2 4 in let mm := sub s 4 6 in let dd := sub s 6 8 in
    if negb (is_century cc) then Some "ErrValidDate"%string
    else if negb (is_year yy) then Some "ErrValidDate"%string
    else if negb (is_month mm) then Some "ErrValidDate"%string
    else if negb (is_day mm dd) then Some "ErrValidDate"%string
    else None.

Definition uid_codes : list bytes :=
  [bs "ARNU"; bs "CCPT"; bs "CUST"; bs "DRLC"; bs "EMPL"; bs "NIDN"; bs "SOSE"; bs "TXID"].

Definition is_blank (s : bytes) : bool := match trim_space s with [] => true | _ => false end.

Definition validate_uid_party_identifier (s : bytes) : bool :=
  if rune_count s <? 6 then false
  else if negb (mem_bytes (sub s 0 4) uid_codes) then false
  else if negb (bytes_eqb (sub s 4 5) (bs "/")) then false
  else if is_blank (sub s 5 6) then false
  else is_alphanumeric (skipn 5 s).

Definition validate_party_identifier (s : bytes) : bool :=
  match s with
  | [] => false
  | _ =>
    if rune_count s <? 2 then false
    else if bytes_eqb (sub s 0 1) (bs "/") then
      if is_blank (sub s 1 2) then false else is_alphanumeric (skipn 1 s)
    else validate_uid_party_identifier s
  end.

Definition optf_codes : list bytes := [bs "1"; bs "2"; bs "3"; bs "4"; bs "5"; bs "6"; bs "7"; bs "8"].

Definition validate_option_f_line (s : bytes) : bool :=
  match s with
  | [] => true
  | _ =>
    if rune_count s <? 3 then false
    else if negb (mem_bytes (sub s 0 1) optf_codes) then false
    else if negb (bytes_eqb (sub s 1 2) (bs "/")) then false
    else if is_blank (sub s 2 3) then false
    else is_alphanumeric (skipn 2 s)
  end.

Definition validate_option_f_name (s : bytes) : bool :=
  if rune_count s <? 3 then false
  else if negb (bytes_eqb (sub s 0 1) (bs "1")) then false
  else if negb (bytes_eqb (sub s 1 2) (bs "/")) then false
  else if is_blank (sub s 2 3) then false
  else is_alphanumeric (skipn 2 s).

From WireGen Require Import Currency.

Definition upper_byte (b : byte) : byte :=
  if in_rng b 97 122 then match Byte.of_N (bN b - 32) with Some u => u | None => b end else b.

(* currency.ParseISO: exactly three ASCII letters, case-insensitive, in the table *)
Definition is_currency_code (s : bytes) : bool :=
  (length s =? 3) && mem_bytes (map upper_byte s) iso4217.

Definition arg0 (a : list bytes) : bytes := nth 0 a [].
Definition arg1 (a : list bytes) : bytes := nth 1 a [].

Definition ok_or (b : bool) (e : string) : option string := if b then None else Some e.

(* name-indexed view used by GoV programs and by the correspondence harness:
   None = accepted, Some e = name of the sentinel error returned *)
Definition run_validator (name : string) (args : list bytes) : option string :=
  let s := arg0 args in
  if String.eqb name "isAlphanumeric" then ok_or (is_alphanumeric s) "ErrNonAlphanumeric"
  else if String.eqb name "isNumeric" then ok_or (is_numeric s) "ErrNonNumeric"
  else if String.eqb name "isAmount" then ok_or (is_amount s) "ErrNonAmount"
  else if String.eqb name "isAmountImplied" then ok_or (is_amount_implied s) "ErrNonAmount"
  else if String.eqb name "isCurrencyCode" then ok_or (is_currency_code s) "ErrNonCurrencyCode"
  else if String.eqb name "isCentury" then ok_or (is_century s) "ErrValidCentury"
  else if String.eqb name "isYear" then ok_or (is_year s) "ErrValidYear"
  else if String.eqb name "isDay" then ok_or (is_day s (arg1 args)) "ErrValidDay"
  else if String.eqb name "validateDate" then validate_date s
  else if String.eqb name "validatePartyIdentifier" then ok_or (validate_party_identifier s) "ErrPartyIdentifier"
  else if String.eqb name "validateUIDPartyIdentifier" then ok_or (validate_uid_party_identifier s) "ErrPartyIdentifier"
  else if String.eqb name "validateOptionFLine" then ok_or (validate_option_f_line s) "ErrOptionFLine"
  else if String.eqb name "validateOptionFName" then ok_or (validate_option_f_name s) "ErrOptionFName"
  else match assoc name code_lists with
       | Some (l, e) => ok_or (mem_bytes s l) e
       | None => Some "missing-model"%string
       end.
