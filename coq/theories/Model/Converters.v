(* Hand model of /repo/converters.go (tied to the code by the L1 correspondence stream
   and by the per-function source fingerprints). Go panics are explicit. *)
From Wire Require Import Base.Bytes.

Definition delim : byte := x2a.   (* "*" *)
Definition lbrace : byte := x7b.  (* "{" *)
Definition space : byte := x20.
Definition zero : byte := x30.

Definition max_buffer_growth : N := 100000000.
Definition valid_size_uint (n : nat) : bool := (N.of_nat n <? max_buffer_growth)%N.

Definition parse_string_field (r : bytes) : bytes := trim_space r.
Definition parse_num_field (r : bytes) : Z := atoi (trim_space r).

(* parseAlphaField: right-most max bytes, else pad right with blanks *)
Definition parse_alpha_field (r : bytes) (mx : nat) : bytes :=
  let ln := length r in
  if mx <? ln then skipn (ln - mx) r
  else if valid_size_uint (mx - ln) then r ++ brepeat space (mx - ln) else [].

(* numericStringField: right-most max bytes, else pad left with zeros *)
Definition numeric_string_field (s : bytes) (mx : nat) : bytes :=
  let ln := length s in
  if mx <? ln then skipn (ln - mx) s
  else if valid_size_uint (mx - ln) then brepeat zero (mx - ln) ++ s else [].

(* formatAlphaField *)
Definition format_alpha_field (s : bytes) (mx : nat) (variable : bool) : bytes :=
  let ln := length s in
  if mx <? ln then firstn mx s
  else if variable then s
  else if valid_size_uint (mx - ln) then s ++ brepeat space (mx - ln) else [].

Definition alpha_field (s : bytes) (mx : nat) : bytes := format_alpha_field s mx false.

Inductive perr := ErrValidLength | ErrRequireDelimiter.

(* parseFixedStringField *)
Definition parse_fixed (r : bytes) (mx : nat) : bytes * nat * option perr :=
  match r with
  | [] => ([], 0, None)
  | _ =>
      let size0 :=
        match index_byte lbrace r, index_byte delim r with
        | None, None => length r
        | Some a, None => a
        | None, Some b => b
        | Some a, Some b => Nat.max a b
        end in
      if mx <? size0 then (trim_space (firstn mx r), mx, None)
      else if size0 <? mx then ([], 0, Some ErrValidLength)
      else (trim_space (firstn size0 r), size0, None)
  end.

(* parseVariableStringField *)
Definition parse_variable (r : bytes) (mx : nat) : bytes * nat * option perr :=
  match r with
  | [] => ([], 0, None)
  | _ =>
      match index_byte delim r with
      | None => ([], 0, Some ErrRequireDelimiter)
      | Some i =>
          let got := trim_space (firstn i r) in
          let got := if bytes_eqb got [delim] then [] else got in
          let got := if mx <? length got then firstn mx got else got in
          (got, S i, None)
      end
  end.

(* stripDelimiters, on the reversed string: r = rev data, len = length r *)
Fixpoint strip_rev (r : bytes) (len : nat) : bytes :=
  match r with
  | a :: t =>
      match t with
      | b :: _ =>
          if 6 <? len then
            if beqb a delim && beqb b delim && negb (len =? 7) then strip_rev t (len - 1) else r
          else r
      | [] => r
      end
  | [] => r
  end.

Definition strip_delimiters (data : bytes) : bytes := rev (strip_rev (rev data) (length data)).

(* verifyDataWithReadLength: true = ok *)
Definition verify_read_length (data : bytes) (expected : nat) : bool :=
  let n := length data in
  if n =? expected then true
  else if (expected <? n) && bytes_eqb (skipn expected data) [delim] then true
  else false.
