(* GoV: the validation fragment of Go used by Validate / fieldInclusion / verify and their helpers,
   deep-embedded. Programs are DATA regenerated from /repo by the translator; this file gives them
   their semantics. Dereferencing an absent optional tag is Panic (never a default value);
   constructs the translator does not recognise are Stuck. *)
From Wire Require Import Base.Bytes Model.Validators.

Record tagval := { tv_marker : bytes; tv_elems : list bytes }.

Record message := {
  m_tags : list (option tagval);      (* by tag index (order of WireGen.Tags.tags) *)
  m_opts : option (bool * bool)       (* ValidateOptions: (SkipMandatoryIMAD, AllowMissingSenderSupplied); None = nil *)
}.

Definition get_tag (m : message) (t : nat) : option tagval := nth t (m_tags m) None.

Inductive sexpr :=
| SLit (b : bytes)
| SField (t i : nat)         (* fwm.<Tag>.<path of element i>  (derefs the tag pointer) *)
| SMarker (t : nat)          (* the unexported marker field *)
| SCat (a b : sexpr)
| STrim (a : sexpr)
| STrimByte (c : byte) (a : sexpr).   (* strings.Trim(a, "c") for a one-byte cutset *)

Inductive bexpr :=
| BTrue | BFalse
| BEq (a b : sexpr)
| BNil (t : nat)                       (* fwm.<Tag> == nil *)
| BNot (a : bexpr)
| BAnd (a b : bexpr)                   (* short-circuit *)
| BOr (a b : bexpr)
| BIn (a : sexpr) (l : list bytes)     (* table.Contains(a) / slices.Contains(l, a) / switch case list *)
| BLenGt (a : sexpr) (n : N)           (* len(a) > n *)
| BPrimErr (name : string) (a : sexpr) (* v.<name>(a) != nil *)
| BOptsNil                             (* fwm.ValidateOptions == nil *)
| BOptSkipIMAD                         (* fwm.ValidateOptions.SkipMandatoryIMAD (derefs) *)
| BOptAllowMissingSS
| BRequireSS.                          (* fwm.requireSenderSupplied() *)

Inductive stmt :=
| TSkip
| TSeq (a b : stmt)
| TIf (c : bexpr) (th el : stmt)
| TRetNil
| TRetErr (field err : string)
| TCheck (name : string) (a : sexpr) (field : string)   (* if err := v.name(a); err != nil { return fieldError(field, err, ..) } *)
| TScope (body : stmt)        (* if err := helper(); err != nil { return err }   with helper's body inlined *)
| TValidate (t : nat)         (* if err := fwm.<Tag>.Validate(); err != nil { return err } *)
| TUnsupported (src : string).

Inductive verdict := Accept | Reject (field err : string) | Panic | Stuck.
Inductive outcome := Cont | Ret (v : verdict).

Fixpoint eval_s (m : message) (e : sexpr) : option bytes :=
  match e with
  | SLit b => Some b
  | SField t i => match get_tag m t with Some v => Some (nth i (tv_elems v) []) | None => None end
  | SMarker t => match get_tag m t with Some v => Some (tv_marker v) | None => None end
  | SCat a b => match eval_s m a, eval_s m b with Some x, Some y => Some (x ++ y) | _, _ => None end
  | STrim a => option_map trim_space (eval_s m a)
  | STrimByte c a => option_map (trim_byte c) (eval_s m a)
  end.

Definition require_ss (m : message) : bool :=
  match m_opts m with Some (_, allow) => negb allow | None => true end.

(* None = panic *)
Fixpoint eval_b (m : message) (e : bexpr) : option bool :=
  match e with
  | BTrue => Some true
  | BFalse => Some false
  | BEq a b => match eval_s m a, eval_s m b with Some x, Some y => Some (bytes_eqb x y) | _, _ => None end
  | BNil t => Some (match get_tag m t with None => true | Some _ => false end)
  | BNot a => option_map negb (eval_b m a)
  | BAnd a b => match eval_b m a with Some true => eval_b m b | r => r end
  | BOr a b => match eval_b m a with Some false => eval_b m b | r => r end
  | BIn a l => option_map (fun x => mem_bytes x l) (eval_s m a)
  | BLenGt a n => option_map (fun x => (n <? N.of_nat (length x))%N) (eval_s m a)
  | BPrimErr name a =>
      option_map (fun x => match run_validator name [x] with None => false | Some _ => true end) (eval_s m a)
  | BOptsNil => Some (match m_opts m with None => true | Some _ => false end)
  | BOptSkipIMAD => option_map fst (m_opts m)
  | BOptAllowMissingSS => option_map snd (m_opts m)
  | BRequireSS => Some (require_ss m)
  end.

(* tagv: verdict of each tag's own Validate on this message *)
Fixpoint exec (tagv : nat -> verdict) (m : message) (s : stmt) : outcome :=
    match s with
    | TSkip => Cont
    | TSeq a b => match exec tagv m a with Cont => exec tagv m b | r => r end
    | TIf c th el =>
        match eval_b m c with
        | Some true => exec tagv m th
        | Some false => exec tagv m el
        | None => Ret Panic
        end
    | TRetNil => Ret Accept
    | TRetErr f e => Ret (Reject f e)
    | TCheck name a f =>
        match eval_s m a with
        | None => Ret Panic
        | Some x => match run_validator name [x] with None => Cont | Some e => Ret (Reject f e) end
        end
    | TScope body =>
        match exec tagv m body with
        | Cont => Cont
        | Ret Accept => Cont
        | r => r
        end
    | TValidate t =>
        match get_tag m t with
        | None => Ret Panic
        | Some _ => match tagv t with Accept => Cont | v => Ret v end
        end
    | TUnsupported _ => Ret Stuck
    end.

Definition verdict_of (o : outcome) : verdict := match o with Cont => Accept | Ret v => v end.

(* a tag's own Validate: its program never calls another tag's Validate *)
Definition run_tag_validate (progs : list stmt) (m : message) (t : nat) : verdict :=
  match get_tag m t with
  | None => Panic
  | Some _ => verdict_of (exec (fun _ => Stuck) m (nth t progs (TUnsupported "no program")))
  end.

Definition run_verify (progs : list stmt) (vprog : stmt) (m : message) : verdict :=
  verdict_of (exec (run_tag_validate progs m) m vprog).
