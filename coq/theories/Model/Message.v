(* File-level validation on the regenerated programs: File.Validate() = FEDWireMessage.verify(). *)
From Wire Require Import Base.Bytes Model.Validators Model.GoV Model.Codec.
From WireGen Require Import Tags Verify.

Definition validate_progs : list stmt := map t_validate tags.
Definition ntags : nat := length tags.
Definition tagv_of (m : message) : nat -> verdict := run_tag_validate validate_progs m.
Definition verify (m : message) : verdict := run_verify validate_progs verify_prog m.
Definition wf_msg (m : message) : Prop := length (m_tags m) = ntags.
