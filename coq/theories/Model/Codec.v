(* Tag codec descriptors (DATA regenerated from the 60 tag files) and their interpreters:
   parse_tag models <Tag>.Parse(record), format_tag models <Tag>.Format(options) / String(). *)
From Wire Require Import Base.Bytes Model.Converters Model.Validators Model.GoV.

Inductive cmp := CLt | CNe.

Inductive pstep :=
| PGuard (c : cmp) (n : N)                    (* if utf8.RuneCountInString(record) c n { return length error } *)
| PTag (trim : bool)                          (* x.tag = [parseStringField] record[:6] *)
| PSlice (e : nat) (a b : N) (trim : bool)    (* x.e = [parseStringField] record[a:b] *)
| PSetLen (n : N)                             (* length := n *)
| PFixed (e : nat) (w : N) (field : string)   (* parseFixedStringField(record[length:], w) *)
| PVar (e : nat) (w : N) (field : string)     (* parseVariableStringField(record[length:], w) *)
| PNeed (k : N) (field : string)              (* if len(record) < length+k { return fieldError(field, ErrValidLength) } *)
| PDyn (e : nat) (k : N) (trim : bool)        (* x.e = [trim] record[length:length+k]; length += k *)
| PAlphaTail (e : nat) (w : N)                (* x.e = parseAlphaField(record[length:], w); length += w *)
| PVerifyLen                                  (* verifyDataWithReadLength(record, length) *)
| PAddenda (elen eadd : nat)                  (* the {8200} length-prefixed body *)
| PUnsupported (src : string).

Inductive fstep :=
| FTag
| FAlpha (e : nat) (w : N)                    (* alphaField: blank padded / cut, always fixed width *)
| FNumeric (e : nat) (w : N)                  (* numericStringField: zero filled, right-most w kept *)
| FAlphaZ (e : nat) (w : N)                   (* if 0 < len < w: numericStringField, else alphaField ({8200} element 01) *)
| FRightAlpha (e : nat) (w : N)               (* parseAlphaField used as formatter: right-most w kept, blank padded *)
| FOpt (e : nat) (w : N) (delim : bool) (star : bool)
                                              (* formatAlphaField(.., options) [+ Delimiter]; star: "*" -> "" *)
| FBfcTtc (e : nat) (w : N)                   (* BusinessFunctionCode element 02 and its conditional delimiter *)
| FForceFixed                                 (* options.VariableLengthFields = false *)
| FAddenda (elen eadd : nat)                  (* {8200}: alphaField(Addenda, atoi(AddendaLength)) *)
| FStripIfVariable                            (* if options.VariableLengthFields { stripDelimiters } *)
| FUnsupported (src : string).

Record elem := { e_path : string; e_json : list string; e_omitempty : list bool }.

Record tagdesc := {
  t_name : string;          (* Go type name *)
  t_const : string;         (* Tag* constant used by the constructor *)
  t_marker : bytes;
  t_elems : list elem;
  t_parse : list pstep;
  t_format : list fstep;
  t_format_takes_options : bool;   (* has Format(FormatOptions); otherwise only String() *)
  t_validate : stmt;
  t_unmarshal_restores : string;   (* constant assigned to .tag by UnmarshalJSON ("" = not recognised) *)
  t_unmarshal_alias : bool         (* UnmarshalJSON decodes through an alias type *)
}.

Inductive presult := POk (v : tagval) | PErr (field err : string) | PPanic | PStuck.

Fixpoint set_nth (i : nat) (x : bytes) (l : list bytes) : list bytes :=
  match i, l with
  | O, _ :: t => x :: t
  | S i', y :: t => y :: set_nth i' x t
  | _, [] => []
  end.

Definition nn (n : N) : nat := N.to_nat n.

Definition perr_name (e : perr) : string :=
  match e with ErrValidLength => "ErrValidLength" | ErrRequireDelimiter => "ErrRequireDelimiter" end.

(* state: cursor ("length" in the Go code), marker, element values *)
Fixpoint run_parse (steps : list pstep) (rec : bytes) (cur : nat) (mk : bytes) (vals : list bytes) : presult :=
  match steps with
  | [] => POk {| tv_marker := mk; tv_elems := vals |}
  | st :: rest =>
      match st with
      | PGuard c n =>
          let rc := rune_count rec in
          let bad := match c with CLt => rc <? nn n | CNe => negb (rc =? nn n) end in
          if bad then PErr "" "TagWrongLengthErr" else run_parse rest rec cur mk vals
      | PTag trim =>
          match slice rec 0 6 with
          | None => PPanic
          | Some s => run_parse rest rec cur (if trim then trim_space s else s) vals
          end
      | PSlice e a b trim =>
          match slice rec (nn a) (nn b) with
          | None => PPanic
          | Some s => run_parse rest rec cur mk (set_nth e (if trim then trim_space s else s) vals)
          end
      | PSetLen n => run_parse rest rec (nn n) mk vals
      | PFixed e w f =>
          match slice_from rec cur with
          | None => PPanic
          | Some r =>
              match parse_fixed r (nn w) with
              | (_, _, Some err) => PErr f (perr_name err)
              | (got, rd, None) => run_parse rest rec (cur + rd) mk (set_nth e got vals)
              end
          end
      | PVar e w f =>
          match slice_from rec cur with
          | None => PPanic
          | Some r =>
              match parse_variable r (nn w) with
              | (_, _, Some err) => PErr f (perr_name err)
              | (got, rd, None) => run_parse rest rec (cur + rd) mk (set_nth e got vals)
              end
          end
      | PNeed k f =>
          if length rec <? cur + nn k then PErr f "ErrValidLength" else run_parse rest rec cur mk vals
      | PDyn e k trim =>
          match slice rec cur (cur + nn k) with
          | None => PPanic
          | Some s => run_parse rest rec (cur + nn k) mk (set_nth e (if trim then trim_space s else s) vals)
          end
      | PAlphaTail e w =>
          match slice_from rec cur with
          | None => PPanic
          | Some r => run_parse rest rec (cur + nn w) mk (set_nth e (parse_alpha_field r (nn w)) vals)
          end
      | PVerifyLen =>
          if verify_read_length rec cur then run_parse rest rec cur mk vals else PErr "" "TagWrongLengthErr"
      | PAddenda elen eadd =>
          match slice rec 6 10 with
          | None => PPanic
          | Some l =>
              let al := parse_num_field l in
              let vals := set_nth elen l vals in
              if negb (Z.eqb (Z.of_nat (rune_count rec)) (10 + al)) then PErr "" "TagWrongLengthErr"
              else match slice rec 10 (Z.to_nat (10 + al)) with
                   | None => PPanic
                   | Some a => run_parse rest rec cur mk (set_nth eadd (trim_space a) vals)
                   end
          end
      | PUnsupported _ => PStuck
      end
  end.

Definition parse_tag (d : tagdesc) (rec : bytes) : presult :=
  run_parse (t_parse d) rec 0 [] (map (fun _ => []) (t_elems d)).

Definition elem_val (v : tagval) (e : nat) : bytes := nth e (tv_elems v) [].

(* Format: accumulates the text; `variable` may be forced off by FForceFixed *)
Fixpoint run_format (steps : list fstep) (v : tagval) (variable : bool) (acc : bytes) : option bytes :=
  match steps with
  | [] => Some acc
  | st :: rest =>
      match st with
      | FTag => run_format rest v variable (acc ++ tv_marker v)
      | FAlpha e w => run_format rest v variable (acc ++ alpha_field (elem_val v e) (nn w))
      | FNumeric e w => run_format rest v variable (acc ++ numeric_string_field (elem_val v e) (nn w))
      | FAlphaZ e w =>
          let s := elem_val v e in
          run_format rest v variable
            (acc ++ if (0 <? length s) && (length s <? nn w) then numeric_string_field s (nn w) else alpha_field s (nn w))
      | FRightAlpha e w => run_format rest v variable (acc ++ parse_alpha_field (elem_val v e) (nn w))
      | FOpt e w delim star =>
          let o := format_alpha_field (elem_val v e) (nn w) variable in
          let o := if star && bytes_eqb o [Converters.delim] then [] else o in
          run_format rest v variable (acc ++ o ++ (if delim then [Converters.delim] else []))
      | FBfcTtc e w =>
          let x := elem_val v e in
          match x with
          | [] => run_format rest v variable acc
          | _ => run_format rest v variable
                   (acc ++ (if variable then x else format_alpha_field x (nn w) false) ++ [Converters.delim])
          end
      | FForceFixed => run_format rest v false acc
      | FAddenda elen eadd =>
          let mx := parse_num_field (elem_val v elen) in
          let body := if (mx <? 0)%Z || negb ((0 <? mx)%Z && (mx <? Z.of_N max_buffer_growth)%Z) then []
                      else alpha_field (elem_val v eadd) (Z.to_nat mx) in
          run_format rest v variable (acc ++ body)
      | FStripIfVariable => run_format rest v variable (if variable then strip_delimiters acc else acc)
      | FUnsupported _ => None
      end
  end.

(* Format(options) for tags that have it; String() otherwise (always fixed) *)
Definition format_tag (d : tagdesc) (variable : bool) (v : tagval) : option bytes :=
  run_format (t_format d) v (variable && t_format_takes_options d) [].
