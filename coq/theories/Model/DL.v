(* Decision lists: a verified symbolic execution of GoV programs.
   compile turns a program into an ordered list of guarded outcomes; DLFacts.v proves that evaluating
   the list (first entry whose guard holds decides) is EXACTLY the program's semantics, for every
   message. All reasoning about the regenerated verify()/Validate() programs (no panic, completeness
   of validation, option handling, rule tables) is then done by computation on these lists. *)
From Wire Require Import Base.Bytes Model.Validators Model.GoV.

Inductive atom :=
| AB (b : bexpr)                         (* an atomic boolean expression *)
| ATagBad (t : nat)                      (* tag t's own Validate does not accept *)
| ACheckBad (name : string) (a : sexpr). (* validator <name> rejects the value of a *)

Definition lit := (atom * bool)%type.
Definition cube := list lit.
Definition dnf := list cube.

Inductive kind :=
| KAcc                                   (* return nil *)
| KRej (f e : string)                    (* return fieldError(f, e) *)
| KRejCheck (name : string) (a : sexpr) (f : string)
| KRejTag (t : nat)                      (* return fwm.<t>.Validate()'s error *)
| KPanic
| KStuck.

Record entry := { en_g : cube; en_x : list cube; en_k : kind }.

Definition is_none {A} (o : option A) : bool := match o with None => true | Some _ => false end.

Definition tag_bad (v : verdict) : bool := match v with Accept => false | _ => true end.

Definition eval_atom (tagv : nat -> verdict) (m : message) (a : atom) : option bool :=
  match a with
  | AB b => eval_b m b
  | ATagBad t => match get_tag m t with None => None | Some _ => Some (tag_bad (tagv t)) end
  | ACheckBad name e =>
      option_map (fun x => match run_validator name [x] with None => false | Some _ => true end) (eval_s m e)
  end.

Definition lit_holds (tagv : nat -> verdict) (m : message) (l : lit) : bool :=
  match eval_atom tagv m (fst l) with Some b => Bool.eqb b (snd l) | None => false end.

Definition cube_holds tagv m (c : cube) : bool := forallb (lit_holds tagv m) c.
Definition dnf_holds tagv m (d : dnf) : bool := existsb (cube_holds tagv m) d.
Definition entry_holds tagv m (e : entry) : bool :=
  cube_holds tagv m (en_g e) && negb (dnf_holds tagv m (en_x e)).

Definition kind_outcome (tagv : nat -> verdict) (m : message) (k : kind) : outcome :=
  match k with
  | KAcc => Ret Accept
  | KRej f e => Ret (Reject f e)
  | KRejCheck name a f =>
      match eval_s m a with
      | Some x => match run_validator name [x] with Some e => Ret (Reject f e) | None => Ret Stuck end
      | None => Ret Panic
      end
  | KRejTag t => match tagv t with Accept => Ret Stuck | v => Ret v end
  | KPanic => Ret Panic
  | KStuck => Ret Stuck
  end.

Fixpoint dl_eval tagv m (dl : list entry) : outcome :=
  match dl with
  | [] => Cont
  | e :: r => if entry_holds tagv m e then kind_outcome tagv m (en_k e) else dl_eval tagv m r
  end.

(* ---- compilation of conditions ---- *)
Fixpoint derefs_s (e : sexpr) : list nat :=
  match e with
  | SLit _ => []
  | SField t _ => [t]
  | SMarker t => [t]
  | SCat a b => derefs_s a ++ derefs_s b
  | STrim a => derefs_s a
  | STrimByte _ a => derefs_s a
  end.

Definition absent (t : nat) : cube := [(AB (BNil t), true)].
Definition opts_nil : cube := [(AB BOptsNil, true)].

Definition cube_prod (a b : dnf) : dnf := flat_map (fun x => map (fun y => x ++ y) b) a.

(* (true-cubes, false-cubes, panic-cubes) *)
Fixpoint compile_b (c : bexpr) : dnf * dnf * dnf :=
  match c with
  | BTrue => ([[]], [], [])
  | BFalse => ([], [[]], [])
  | BNot a => let '(t, f, p) := compile_b a in (f, t, p)
  | BAnd a b =>
      let '(ta, fa, pa) := compile_b a in
      let '(tb, fb, pb) := compile_b b in
      (cube_prod ta tb, fa ++ cube_prod ta fb, pa ++ cube_prod ta pb)
  | BOr a b =>
      let '(ta, fa, pa) := compile_b a in
      let '(tb, fb, pb) := compile_b b in
      (ta ++ cube_prod fa tb, cube_prod fa fb, pa ++ cube_prod fa pb)
  | BEq a b => ([[(AB c, true)]], [[(AB c, false)]], map absent (derefs_s a ++ derefs_s b))
  | BIn a _ => ([[(AB c, true)]], [[(AB c, false)]], map absent (derefs_s a))
  | BLenGt a _ => ([[(AB c, true)]], [[(AB c, false)]], map absent (derefs_s a))
  | BPrimErr _ a => ([[(AB c, true)]], [[(AB c, false)]], map absent (derefs_s a))
  | BOptSkipIMAD | BOptAllowMissingSS => ([[(AB c, true)]], [[(AB c, false)]], [opts_nil])
  | BNil _ | BOptsNil | BRequireSS => ([[(AB c, true)]], [[(AB c, false)]], [])
  end.

Definition add_guard (t : cube) (e : entry) : entry :=
  {| en_g := t ++ en_g e; en_x := en_x e; en_k := en_k e |}.

Definition guard_with (T : dnf) (dl : list entry) : list entry :=
  flat_map (fun e => map (fun t => add_guard t e) T) dl.

Definition mk (g : cube) (k : kind) : entry := {| en_g := g; en_x := []; en_k := k |}.

(* leaving a function scope: an early `return nil` (KAcc) only disables the rest of the scope *)
Fixpoint scope_go (dl : list entry) (acc : list cube) : option (list entry) :=
  match dl with
  | [] => Some []
  | e :: r =>
      match en_k e with
      | KAcc =>
          match en_x e with
          | [] => scope_go r (en_g e :: acc)
          | _ => None
          end
      | k => option_map (cons {| en_g := en_g e; en_x := en_x e ++ acc; en_k := k |}) (scope_go r acc)
      end
  end.

Fixpoint compile (s : stmt) : option (list entry) :=
  match s with
  | TSkip => Some []
  | TSeq a b =>
      match compile a, compile b with
      | Some x, Some y => Some (x ++ y)
      | _, _ => None
      end
  | TIf c th el =>
      let '(T, F, P) := compile_b c in
      match compile th, compile el with
      | Some x, Some y => Some (map (fun p => mk p KPanic) P ++ guard_with T x ++ guard_with F y)
      | _, _ => None
      end
  | TRetNil => Some [mk [] KAcc]
  | TRetErr f e => Some [mk [] (KRej f e)]
  | TCheck name a f =>
      Some (map (fun t => mk (absent t) KPanic) (derefs_s a) ++ [mk [(ACheckBad name a, true)] (KRejCheck name a f)])
  | TScope body =>
      match compile body with
      | Some dl => scope_go dl []
      | None => None
      end
  | TValidate t => Some [mk (absent t) KPanic; mk [(ATagBad t, true)] (KRejTag t)]
  | TUnsupported _ => Some [mk [] KStuck]
  end.

Definition compile_top (s : stmt) : option (list entry) :=
  match compile s with
  | Some dl => scope_go dl []
  | None => None
  end.

(* ---- syntactic equality (decidable) ---- *)
Definition byte_eq_dec (a b : byte) : {a = b} + {a <> b}.
Proof.
  destruct (Byte.eqb a b) eqn:E.
  - left. apply Byte.byte_dec_bl. exact E.
  - right. intros H. subst. rewrite (Byte.byte_dec_lb (eq_refl b)) in E. discriminate E.
Defined.

Definition bytes_eq_dec : forall a b : bytes, {a = b} + {a <> b} := list_eq_dec byte_eq_dec.

Definition sexpr_eq_dec (a b : sexpr) : {a = b} + {a <> b}.
Proof. decide equality; first [apply Nat.eq_dec | apply bytes_eq_dec | apply byte_eq_dec]. Defined.

Definition bexpr_eq_dec (a b : bexpr) : {a = b} + {a <> b}.
Proof.
  decide equality; first [apply Nat.eq_dec | apply sexpr_eq_dec | apply string_dec | apply (list_eq_dec bytes_eq_dec) | apply N.eq_dec].
Defined.

Definition atom_eq_dec (a b : atom) : {a = b} + {a <> b}.
Proof. decide equality; first [apply Nat.eq_dec | apply sexpr_eq_dec | apply string_dec | apply bexpr_eq_dec]. Defined.

Definition atom_eqb (a b : atom) : bool := if atom_eq_dec a b then true else false.
Definition lit_eqb (a b : lit) : bool := atom_eqb (fst a) (fst b) && Bool.eqb (snd a) (snd b).
Definition lit_mem (l : lit) (c : cube) : bool := existsb (lit_eqb l) c.

(* ---- entailment between cubes and literals (sound, not complete) ---- *)
(* the finitely many values a string expression can take when cube c holds, if c pins them down *)
Fixpoint pinned (c : cube) (e : sexpr) : option (list bytes) :=
  match c with
  | [] => None
  | (AB (BIn e' l), true) :: r => if sexpr_eq_dec e e' then Some l else pinned r e
  | (AB (BEq e' (SLit v)), true) :: r => if sexpr_eq_dec e e' then Some [v] else pinned r e
  | _ :: r => pinned r e
  end.

Fixpoint possible (c : cube) (e : sexpr) : option (list bytes) :=
  match pinned c e with
  | Some l => Some l
  | None =>
      match e with
      | SLit v => Some [v]
      | SCat a b =>
          match possible c a, possible c b with
          | Some la, Some lb => Some (flat_map (fun x => map (fun y => x ++ y) lb) la)
          | _, _ => None
          end
      | STrim a => option_map (map trim_space) (possible c a)
      | STrimByte b a => option_map (map (trim_byte b)) (possible c a)
      | _ => None
      end
  end.

Definition mentions_tag (a : atom) (t : nat) : bool :=
  match a with
  | AB (BEq x y) => existsb (Nat.eqb t) (derefs_s x ++ derefs_s y)
  | AB (BIn x _) | AB (BLenGt x _) | AB (BPrimErr _ x) | ACheckBad _ x => existsb (Nat.eqb t) (derefs_s x)
  | ATagBad t' => Nat.eqb t t'
  | _ => false
  end.

(* all values the cube explicitly excludes for expression e *)
Fixpoint excluded (c : cube) (e : sexpr) : list bytes :=
  match c with
  | [] => []
  | (AB (BIn e' l), false) :: r => if sexpr_eq_dec e e' then l ++ excluded r e else excluded r e
  | _ :: r => excluded r e
  end.

Definition entails (c : cube) (l : lit) : bool :=
  lit_mem l c ||
  match l with
  | (AB (BIn e vs), pol) =>
      match possible c e with
      | Some ps => forallb (fun p => Bool.eqb (mem_bytes p vs) pol) ps
      | None =>
          negb pol && negb (match vs with [] => true | _ => false end) &&
          forallb (fun v => mem_bytes v (excluded c e)) vs
      end
  | (AB (BNil t), false) => existsb (fun l' => mentions_tag (fst l') t) c
  | _ => false
  end.

Definition neg_lit (l : lit) : lit := (fst l, negb (snd l)).

(* cube c makes cube x false *)
Definition refutes (c x : cube) : bool := existsb (fun l => entails c (neg_lit l)) x.

(* no message satisfies c *)
Definition unsat (c : cube) : bool := refutes c c.

(* if c holds then entry e holds *)
Definition forces (c : cube) (e : entry) : bool :=
  forallb (entails c) (en_g e) && forallb (refutes c) (en_x e).

Definition is_reject (k : kind) : bool :=
  match k with KRej _ _ | KRejCheck _ _ _ | KRejTag _ => true | _ => false end.

Definition inconsistent (c : cube) : bool := existsb (fun l => lit_mem (neg_lit l) c) c.

(* structural well-formedness of a reject entry: its guard carries the literal its outcome relies on *)
Definition wf_entry (e : entry) : bool :=
  match en_k e with
  | KRejCheck name a _ => lit_mem (ACheckBad name a, true) (en_g e)
  | KRejTag t => lit_mem (ATagBad t, true) (en_g e)
  | _ => true
  end.

(* under the assumption cube A: every panic entry is either unreachable (inconsistent guard) or
   shadowed by an earlier reject entry; there are no stuck and no early-accept entries *)
Fixpoint panic_free_go (A : cube) (before : list entry) (dl : list entry) : bool :=
  match dl with
  | [] => true
  | e :: r =>
      (match en_k e with
       | KPanic => inconsistent (A ++ en_g e) ||
                   existsb (fun b => is_reject (en_k b) && forces (A ++ en_g e) b) before
       | KStuck | KAcc => false
       | _ => wf_entry e
       end) && panic_free_go A (before ++ [e]) r
  end.

Definition panic_free_under (A : cube) (dl : list entry) : bool := panic_free_go A [] dl.
Definition panic_free (dl : list entry) : bool := panic_free_under [] dl.

Definition rejects_of (dl : list entry) : list entry := filter (fun e => is_reject (en_k e)) dl.

(* cube c is rejected: some reject entry fires whenever c holds *)
Definition rejected (dl : list entry) (c : cube) : bool := existsb (forces c) (rejects_of dl).
