(* Model of the JSON form of a message (encoding/json over the struct tags regenerated in
   WireGen.Tags): a document is the list of its leaves, each addressed by the path of member names.
   encode models json.Marshal of FEDWireMessage, decode models FileFromJSON's decoding of it.
   Modelled, not verified: encoding/json itself (member lookup by exact name, omitempty on strings
   and nil pointers, null -> nil pointer, struct values always emitted). *)
From Wire Require Import Base.Bytes Model.GoV Model.Codec Model.Message.
From WireGen Require Import Tags Json.

Inductive leaf := LStr (s : bytes) | LNull | LObj.   (* LObj: an object without members *)
Definition path := list string.
Definition jdoc := list (path * leaf).

Fixpoint path_eqb (a b : path) : bool :=
  match a, b with
  | [], [] => true
  | x :: a', y :: b' => String.eqb x y && path_eqb a' b'
  | _, _ => false
  end.

Fixpoint is_prefix (p q : path) : bool :=
  match p, q with
  | [], _ => true
  | x :: p', y :: q' => String.eqb x y && is_prefix p' q'
  | _ :: _, [] => false
  end.

Fixpoint jget (j : jdoc) (p : path) : option leaf :=
  match j with
  | [] => None
  | (q, l) :: r => if path_eqb q p then Some l else jget r p
  end.

Definition is_empty (x : bytes) : bool := match x with [] => true | _ => false end.
Definition leaf_omitted (e : elem) : bool := last (e_omitempty e) false.

(* proper non-empty prefixes of a path *)
Fixpoint proper_prefixes (p : path) : list path :=
  match p with
  | [] | [_] => []
  | x :: t => [x] :: map (cons x) (proper_prefixes t)
  end.

Definition mem_path (p : path) (l : list path) : bool := existsb (path_eqb p) l.
Fixpoint dedup (l : list path) : list path :=
  match l with [] => [] | p :: r => if mem_path p r then dedup r else p :: dedup r end.

(* the struct levels of a tag: the tag object itself ([]) and its nested struct members; innermost =
   those without a struct level below them (only these can be member-less objects) *)
Definition levels (d : tagdesc) : list path := [] :: dedup (flat_map (fun e => proper_prefixes (e_json e)) (t_elems d)).
Definition strictly_extends (q p : path) : bool := is_prefix p q && negb (path_eqb p q).
Definition innermost (d : tagdesc) : list path :=
  filter (fun p => negb (existsb (fun q => strictly_extends q p) (levels d))) (levels d).

Definition tag_leaves (n : string) (d : tagdesc) (v : tagval) : jdoc :=
  flat_map (fun ex => let '(e, x) := ex in if leaf_omitted e && is_empty x then [] else [(n :: e_json e, LStr x)])
           (combine (t_elems d) (tv_elems v)).

Definition encode_tag (n : string) (d : tagdesc) (v : tagval) : jdoc :=
  let leaves := tag_leaves n d v in
  leaves ++ map (fun q => (n :: q, LObj))
                (filter (fun q => negb (existsb (fun lf => is_prefix (n :: q) (fst lf)) leaves)) (innermost d)).

Definition encode_field (f : string * string * bool) (d : tagdesc) (o : option tagval) : jdoc :=
  let '(_, n, omit) := f in
  match o with
  | Some v => encode_tag n d v
  | None => if omit then [] else [([n], LNull)]
  end.

Fixpoint encode_fields (fs : list (string * string * bool)) (ds : list tagdesc) (os : list (option tagval)) : jdoc :=
  match fs, ds, os with
  | f :: fs', d :: ds', o :: os' => encode_field f d o ++ encode_fields fs' ds' os'
  | _, _, _ => []
  end.

Definition encode_msg (m : message) : jdoc := encode_fields msg_fields tags (m_tags m).

(* ---- decoding ---- *)
Definition head_is (n : string) (p : path) : bool := match p with x :: _ => String.eqb x n | [] => false end.
Definition sub (j : jdoc) (n : string) : jdoc := filter (fun en => head_is n (fst en)) j.
Definition is_null_at (n : string) (en : path * leaf) : bool :=
  match en with ([x], LNull) => String.eqb x n | _ => false end.

Definition decode_tag (n : string) (d : tagdesc) (j : jdoc) : option tagval :=
  let s := sub j n in
  if existsb (fun en => negb (is_null_at n en)) s then
    Some {| tv_marker := t_marker d;
            tv_elems := map (fun e => match jget s (n :: e_json e) with Some (LStr x) => x | _ => [] end) (t_elems d) |}
  else None.

Fixpoint decode_fields (fs : list (string * string * bool)) (ds : list tagdesc) (j : jdoc) : list (option tagval) :=
  match fs, ds with
  | (_, n, _) :: fs', d :: ds' => decode_tag n d j :: decode_fields fs' ds' j
  | _, _ => []
  end.

Definition decode_msg (j : jdoc) (opts : option (bool * bool)) : message :=
  {| m_tags := decode_fields msg_fields tags j; m_opts := opts |}.

(* ---- the published names ---- *)
Definition server_paths : list (string * list path) :=
  map (fun fd => (snd (fst (fst fd)), map e_json (t_elems (snd fd)))) (combine msg_fields tags).

Definition lookup_paths (n : string) (l : list (string * list path)) : option (list path) :=
  option_map snd (find (fun p => String.eqb (fst p) n) l).

Definition incl_paths (a b : list path) : bool := forallb (fun p => mem_path p b) a.
Definition same_paths (a b : list path) : bool := incl_paths a b && incl_paths b a.

Definition agrees_with (published : list (string * list path)) (n : string) : bool :=
  match lookup_paths n server_paths, lookup_paths n published with
  | Some a, Some b => same_paths a b
  | _, _ => false
  end.

(* element by element: the server element held in Go field path P and the published element held in the
   same Go field path carry the same JSON path (names exchanged within a tag keep the *set* of paths) *)
Definition server_fields : list (string * list (string * path)) :=
  map (fun fd => (snd (fst (fst fd)), map (fun e => (e_path e, e_json e)) (t_elems (snd fd)))) (combine msg_fields tags).

Definition same_field_same_name (published : list (string * path)) (pj : string * path) : bool :=
  match find (fun qk => String.eqb (fst qk) (fst pj)) published with
  | Some qk => path_eqb (snd qk) (snd pj)
  | None => true
  end.

Definition recorded_at (except : list (string * string)) (n gopath : string) : bool :=
  existsb (fun tg => String.eqb (fst tg) n && String.eqb (snd tg) gopath) except.

Definition elementwise_agree (except : list (string * string)) (published : list (string * list (string * path))) (n : string) : bool :=
  match option_map snd (find (fun p => String.eqb (fst p) n) server_fields),
        option_map snd (find (fun p => String.eqb (fst p) n) published) with
  | Some a, Some b => forallb (fun pj => recorded_at except n (fst pj) || same_field_same_name b pj) a
  | _, _ => true
  end.

(* how many server elements have a published element in the same Go field path (non-vacuity) *)
Definition shared_fields (published : list (string * list (string * path))) : nat :=
  fold_right Nat.add 0
    (map (fun sf => match option_map snd (find (fun p => String.eqb (fst p) (fst sf)) published) with
                    | Some b => length (filter (fun pj => existsb (fun qk => String.eqb (fst qk) (fst pj)) b) (snd sf))
                    | None => 0
                    end) server_fields).

(* the message object itself: a tag held in the FEDWireMessage field G and the published member held in the
   client model's field G (names compared without case) carry the same JSON name *)
Definition msg_names_agree (except : list string) (server client : list (string * string)) : bool :=
  forallb (fun gj => existsb (String.eqb (fst gj)) except ||
                     match find (fun hk => String.eqb (fst hk) (fst gj)) client with
                     | Some hk => String.eqb (snd hk) (snd gj)
                     | None => true
                     end) server.

Definition shared_msg_names (server client : list (string * string)) : nat :=
  length (filter (fun gj => existsb (fun hk => String.eqb (fst hk) (fst gj)) client) server).

Definition disagreeing (published : list (string * list path)) : list string :=
  filter (fun n => negb (agrees_with published n)) (map fst server_paths).
