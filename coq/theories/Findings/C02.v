(* Witness for the recorded C02 finding, evaluated on the model (which the correspondence
   streams tie to the implementation). These are NOT obligations of any check: when the defect is
   repaired in the source this file stops compiling and the KNOWN-FINDING line disappears. *)
From Wire Require Import Base.Bytes Model.GoV Model.Codec Model.Message Model.Writer Model.Reader Model.Harness.
From WireGen Require Import Tags.

(* the blank-padded {2000} amount (read as 11 digits, rewritten as 12) was repaired in the source (fix e9d8de9:
   Amount.Parse keeps the element as read); its witness has been removed *)

Definition overwidth_text : bytes := bs "{4200}3QQQQQQQQQQQQQQQQQQQQQQQQQQQQQQQQQ ZZ*Name*Address One*Address Two*Address Three*".

Theorem C02_fixpoint_refuted_overwidth_cut :
  match find_tag (bs "Beneficiary") with
  | Some (i, d) => reread_tag i d (bs "x") overwidth_text = bs "differ:x"
  | None => False
  end.
Proof. vm_compute. reflexivity. Qed.
