(* Witnesses for the two recorded C02 findings, evaluated on the model (which the correspondence
   streams tie to the implementation). These are NOT obligations of any check: when the defect is
   repaired in the source this file stops compiling and the KNOWN-FINDING line disappears. *)
From Wire Require Import Base.Bytes Model.GoV Model.Codec Model.Message Model.Writer Model.Reader Model.Harness.
From WireGen Require Import Tags.

Definition amount_text : bytes := bs "{1500}303O004HE8P 
{1510}1000
{1520}2022032400000000000001
{2000} 00000022200
{3100}021000021JPMORGAN CHASE    *
{3400}021000021JPMCHASE          *
{3600}CTR
{4100}F021000021                         *JPMC                               *123 Test st                        *Test                               *Test                               *
{4200}D123455                            *Test Name                          *123 Test St                        *Town                               *MO                                 *
{5000}D123456                            *John Doe                           *123 Anywhere St                    *Anywhere                           *MO                                 *
{5100}D998877                            *Xxxx First Bank                    *158 Anywhere St                    *Anywhere                           *MO                                 *
{5200}F404123787                         *Xxxxxxx Bank                       *144 Anywhere St                    *Anywhere                           *MO                                 *
{6000}Test                               *                                   *                                   *                                   *
{6500}Test                               *                                   *                                   *                                   *                                   *                                   *
".

Theorem C02_fixpoint_refuted_blank_padded_amount :
  exists m1 t2 m2, read_model None None [amount_text] FEOF = ROk m1 /\ write_model m1 false [x0a] = WOk t2 /\
                   read_model None None [t2] FEOF = ROk m2 /\ list_eqb otag_eqb (m_tags m1) (m_tags m2) = false.
Proof.
  destruct (read_model None None [amount_text] FEOF) as [m1|] eqn:R1; [|vm_compute in R1; discriminate].
  destruct (write_model m1 false [x0a]) as [t2| |] eqn:W; try (vm_compute in R1; injection R1 as <-; vm_compute in W; discriminate).
  destruct (read_model None None [t2] FEOF) as [m2|] eqn:R2; [|vm_compute in R1; injection R1 as <-; vm_compute in W; injection W as <-; vm_compute in R2; discriminate].
  exists m1, t2, m2. repeat split; auto.
  vm_compute in R1; injection R1 as <-; vm_compute in W; injection W as <-; vm_compute in R2; injection R2 as <-. vm_compute. reflexivity.
Qed.

Definition overwidth_text : bytes := bs "{4200}3QQQQQQQQQQQQQQQQQQQQQQQQQQQQQQQQQ ZZ*Name*Address One*Address Two*Address Three*".

Theorem C02_fixpoint_refuted_overwidth_cut :
  match find_tag (bs "Beneficiary") with
  | Some (i, d) => reread_tag i d (bs "x") overwidth_text = bs "differ:x"
  | None => False
  end.
Proof. vm_compute. reflexivity. Qed.
