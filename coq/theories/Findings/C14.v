(* Witnesses for the recorded C14 findings: the server's JSON names differ from the published ones.
   NOT an obligation of any check. *)
From Wire Require Import Base.Bytes Model.Json.
From WireGen Require Import Json.

(* {3610}: the server writes "LocalInstrument", the client models and the OpenAPI document say "localInstrumentCode" *)
Example local_instrument_names :
  lookup_paths "localInstrument" server_paths = Some [["LocalInstrument"]; ["proprietaryCode"]]%string /\
  lookup_paths "localInstrument" client_paths = Some [["localInstrumentCode"]; ["proprietaryCode"]]%string.
Proof. vm_compute. split; reflexivity. Qed.

(* {4100}: the server nests the elements under "financialInstitution", the published schema does not *)
Example beneficiary_fi_nesting :
  agrees_with client_paths "beneficiaryFI" = false /\ agrees_with openapi_paths "beneficiaryFI" = false.
Proof. vm_compute. split; reflexivity. Qed.

Example thirty_one_elements_disagree : length (disagreeing client_paths) = 31 /\ disagreeing client_paths = disagreeing openapi_paths.
Proof. vm_compute. split; reflexivity. Qed.
