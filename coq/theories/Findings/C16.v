(* Witness for the recorded C16 finding: add-message is getFile followed by saveFile, so a delete
   between the two is undone - the outcome (both answer 200, the file exists afterwards) is produced by
   neither sequential order. NOT an obligation of any check. *)
From Wire Require Import Base.Bytes Model.GoV Model.Codec Model.Message Model.Writer Model.Reader Model.Server Model.Harness.

Definition a_text : bytes := bs "{1500}303O004HE8P 
{1510}1000
{1520}2022032400000000000001
{2000}000000022200
{3100}021000021JPMORGAN CHASE    *
{3400}021000021JPMCHASE          *
{3600}CTR
{4100}F021000021                         *JPMC                               *123 Test st                        *Test                               *Test                               *
{4200}D123455                            *Test Name                          *123 Test St                        *Town                               *MO                                 *
{5000}D123456                            *John Doe                           *123 Anywhere St                    *Anywhere                           *MO                                 *
{5100}D998877                            *Xxxx First Bank                    *158 Anywhere St                    *Anywhere                           *MO                                 *
{5200}F404123787                         *Xxxxxxx Bank                       *144 Anywhere St                    *Anywhere                           *MO                                 *
{6000}Test                               *                                   *                                   *                                   *
{6500}Test                               *                                   *                                   *                                   *                                   *                                   *
".

Definition a_message : option message :=
  match read_model None None [a_text] FEOF with ROk m => Some m | _ => None end.

Definition outcome (st : sstate) (ts : list thread) : list bytes * list bytes := (map thread_str ts, map fst (ss_store st)).
Definition seq_outcome (st0 : sstate) (ops : list op) (lin : list nat) : list bytes * list bytes :=
  let '(st, rs) := run_sequential lin ops st0 [] in
  (map (fun i => match find (fun p => Nat.eqb (fst p) i) rs with Some (_, r) => resp_str r | None => bs "-" end) (seq 0 (length ops)),
   map fst (ss_store st)).
Definition pair_eqb (a b : list bytes * list bytes) : bool :=
  list_eqb bytes_eqb (fst a) (fst b) && list_eqb bytes_eqb (snd a) (snd b).

Theorem add_delete_not_linearizable :
  match a_message with
  | None => False
  | Some m =>
      let st0 := fst (step init (OCreateMsg (bs "A") m)) in
      let ops := [OAdd (bs "A") m; ODelete (bs "A")] in
      let '(st, ts) := run_concurrent st0 ops [0; 1; 0] in
      pair_eqb (outcome st ts) (seq_outcome st0 ops [0; 1]) = false /\
      pair_eqb (outcome st ts) (seq_outcome st0 ops [1; 0]) = false /\
      st_get (ss_store st) (bs "A") <> None
  end.
Proof. vm_compute. repeat split; discriminate. Qed.
