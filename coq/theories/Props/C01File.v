(* C01 at file level: Write then Read returns the same message, in every layout. *)
From Wire Require Import Base.Bytes Model.GoV Model.Codec Model.Message Model.Writer Model.Reader.
From Wire Require Import Theory.Segments Theory.FileRoundTrip Theory.FileRoundTripFull.
From WireGen Require Import Tags Writer.

(* the composition of writer and reader, for any message: if each present tag's formatted line is a
   well-formed segment that parses and validates back to the tag's value, the written text reads back to
   the message - both layouts, separators none / LF / CRLF, every chunking of the text *)
Theorem C01_write_then_read_composition : forall m variable nl t,
  ob_plan_covers = true -> wf_msg m -> sep_ok nl ->
  write_model m variable nl = WOk t -> t <> nl -> length t < max_token ->
  (forall i takes v line, In (i, takes) writer_plan -> get_tag m i = Some v ->
     format_tag (nth i tags tag_Amount) (variable && takes) v = Some line -> decodes line (i, v)) ->
  forall chunks, concat chunks = t ->
  read_model None (m_opts m) chunks FEOF = ROk m.
Proof. exact write_then_read. Qed.
Print Assumptions C01_write_then_read_composition.

(* ... discharged for every message whose present tags are covered - all 60: the 56 regular tags and
   {1120}, {1500}, {3600}, {8200} - and whose values are canonical FAIM text (for 8 tags canonical includes: long
   enough for the reader's own length guard, which validity implies): no element is dropped, cut,
   shifted or replaced; fixed and variable texts read back to the same message *)
Theorem C01_write_then_read : forall m variable nl t,
  wf_msg m -> msg_covered m -> sep_ok nl ->
  write_model m variable nl = WOk t -> length t < max_token ->
  forall chunks, concat chunks = t -> read_model None (m_opts m) chunks FEOF = ROk m.
Proof. exact write_then_read_covered. Qed.
Print Assumptions C01_write_then_read.

(* the hypotheses are met: the pinned sample message is well formed, covered and valid, and the theorem's
   conclusion can also be observed by evaluating the model on it *)
Definition sample_text : bytes := bs "{1500}30User ReqT 
{1510}1000
{1520}20190410Source08000001
{2000}000001234567
{3100}121042882Wells Fargo NA*
{3400}231380104Citadel*
{3600}BTR   *
{3320}Sender Reference*
{3500}Previous Message Ident
{4000}D123456789*FI Name*Address One*Address Two*Address Three*
{4100}D123456789*FI Name*Address One*Address Two*Address Three*
{4200}31234*Name*Address One*Address Two*Address Three*
{4320}Reference*
{5000}11234*Name*Address One**Address Three*
{5100}D123456789*FI Name*Address One*Address Two*Address Three*
{5200}D123456789*FI Name*Address One*Address Two*Address Three*
{6000}LineOne*LineTwo*LineThree*LineFour*
{6100}Line Six*
{6200}Line Six*
{6210}LTRLine One*Line Two*Line Three*Line Four*Line Five*Line Six*
{6300}Line One*Line Two*Line Three*Line Four*Line Five*Line Six*
{6310}TLXLine One*Line Two*Line Three*Line Four*Line Five*Line Six*
{6400}Line One*Line Two*Line Three*Line Four*Line Five*Line Six*
{6410}LTRLine One*Line Two*Line Three*Line Four*Line Five*Line Six*
{6420}CHECKAdditional Information*
{6500}Line One*Line Two*Line Three*Line Four*Line Five*Line Six*".

Definition sample : option message := match read_model None None [sample_text] FEOF with ROk m => Some m | _ => None end.

Example sample_meets_the_hypotheses :
  match sample with
  | Some m => length (m_tags m) = ntags /\ msg_covered_b m = true /\ verify m = Accept /\
              (exists t, write_model m true [x0d; x0a] = WOk t /\ length t < 2000)
  | None => False
  end.
Proof. vm_compute. repeat split. eexists. split; [reflexivity|]. apply Nat.leb_le. reflexivity. Qed.

Example all_sixty_tags_covered : length (filter covered (seq 0 ntags)) = 60.
Proof. vm_compute. reflexivity. Qed.
