(* C03 - the reader and the loaders are total: any bytes give an error or a message. *)
From Wire Require Import Base.Bytes Model.GoV Model.Codec Model.Message Model.Reader.
From Wire Require Import Theory.DLFacts Theory.VerifyFacts Theory.ParseSafety Theory.ReaderTotal.
From WireGen Require Import Tags.

(* every per-tag parser, any string: never an out-of-bounds slice (obligation: the bounds checker
   accepts all 60 regenerated step lists), never an untranslated statement *)
Theorem C03_tag_parsers_never_panic : forall d rec, In d tags ->
  parse_tag d rec <> PPanic /\ parse_tag d rec <> PStuck.
Proof.
  intros d rec Hin. split.
  - exact (parsers_never_index_out_of_bounds parsers_safe d rec Hin).
  - pose proof parse_translated as Ht. unfold ob_parse_translated in Ht. rewrite forallb_forall in Ht.
    exact (run_parse_not_stuck _ (Ht _ Hin) rec 0 [] _).
Qed.
Print Assumptions C03_tag_parsers_never_panic.

(* validating any message never panics *)
Theorem C03_validation_never_panics : forall m, wf_msg m -> clean (verify m) = true.
Proof. exact verify_clean. Qed.
Print Assumptions C03_validation_never_panics.

(* reading any bytes in any chunking with any final status of the source: a message or errors, none of
   them a panic *)
Theorem C03_reader_total : forall preset opts chunks final,
  match read_model preset opts chunks final with
  | ROk _ => True
  | RErrors errs => forallb (fun e => negb (bad_err e)) errs = true
  end.
Proof. exact read_model_total. Qed.
Print Assumptions C03_reader_total.

(* the scan terminates: the model's fuel bound is never reached, for any input *)
Theorem C03_scan_terminates : forall chunks final,
  let nonempty := filter (fun c => match c with [] => false | _ => true end) chunks in
  exhausts (4 * (total_len nonempty + length nonempty) + 64) final
           {| s_pending := []; s_src := nonempty; s_err := None; s_cap := 0 |} = false.
Proof. exact scan_terminates. Qed.
Print Assumptions C03_scan_terminates.

(* bounded memory: the scanner holds at most its buffer, and the buffer never exceeds 64 KiB *)
Theorem C03_buffer_bounded : forall fuel final st, buf_ok st ->
  match scan_one fuel final st with SToken _ st' => buf_ok st' | _ => True end.
Proof. exact scan_one_buf. Qed.
Print Assumptions C03_buffer_bounded.
