(* C08 - No silent truncation: stream faults and unread input surface as errors. *)
From Wire Require Import Base.Bytes Model.GoV Model.Message Model.Reader Model.Writer
     Theory.ReaderFacts Theory.WriterFacts.

(* whatever was delivered before, in whatever chunks: a source that ends with an error never yields a message *)
Theorem C08_stream_fault_is_an_error : forall preset opts chunks e m,
  read_model preset opts chunks (FErr e) <> ROk m.
Proof. exact fault_never_succeeds. Qed.
Print Assumptions C08_stream_fault_is_an_error.

(* success only after a clean stop at end of file: in particular never after "token too long" *)
Theorem C08_success_needs_clean_end_of_file : forall preset opts chunks final m,
  read_model preset opts chunks final = ROk m -> exists toks, scan chunks final = (toks, None) /\ final = FEOF.
Proof. exact success_means_clean_stop. Qed.
Print Assumptions C08_success_needs_clean_end_of_file.

(* accepted input: the read loop is exactly the assignment of every marked sub-line *)
Theorem C08_every_segment_is_reflected : forall lines ln tgs asg,
  results_of lines ln = Some asg -> read_lines lines ln tgs [] = (assign_all asg tgs, []).
Proof. exact read_lines_ok. Qed.
Print Assumptions C08_every_segment_is_reflected.

(* writer: a destination that accepts fewer bytes than were flushed makes Write fail *)
Theorem C08_short_write_is_an_error : forall dest r t,
  r = WOk t -> dest t < length t -> write_error (write_to dest r) = true.
Proof. exact short_write_is_an_error. Qed.
Print Assumptions C08_short_write_is_an_error.

Theorem C08_no_error_means_all_bytes_delivered : forall dest r,
  write_error (write_to dest r) = false -> exists t, r = WOk t /\ bytes_delivered (write_to dest r) = t.
Proof. exact no_error_means_everything_delivered. Qed.
Print Assumptions C08_no_error_means_all_bytes_delivered.

(* the HTTP create endpoint hands the request body itself to the reader (per-run obligation: the handler is
   the text the server model was written from - no limiting or buffering wrapper that could turn an over-long
   or failing body into a clean end of file); stream l6-http posts over-long bodies and checks that every
   marked segment of an accepted body is in the stored message *)
From WireGen Require Handlers.
Theorem C08_create_endpoint_reads_the_body_itself :
  existsb (fun p => String.eqb (fst p) "createFile" && snd p) Handlers.handler_recognised = true.
Proof. vm_compute. reflexivity. Qed.
Print Assumptions C08_create_endpoint_reads_the_body_itself.

(* from the input text: an accepted text - brace-free leading text, then segments separated by any runs of line
   breaks, read to a clean end of file under any chunking - in which no tag repeats: every one of its segments
   parsed (one result per segment) and each result is the tag held by the returned message *)
From Wire Require Import Theory.ScanSpec Theory.Segments Theory.SegmentsGen.

Theorem C08_every_segment_of_an_accepted_text_is_in_the_message : forall preset opts lead pairs chunks m,
  no_brace lead = true -> forallb pair_ok pairs = true -> length (lead ++ text2 pairs) < max_token ->
  concat chunks = lead ++ text2 pairs ->
  read_model preset opts chunks FEOF = ROk m ->
  exists asg, results_of (map fst pairs) 0 = Some asg /\ length asg = length pairs /\
    (NoDup (map fst asg) -> forall i v, In (i, v) asg -> i < length (m_tags m) -> nth i (m_tags m) None = Some v).
Proof. exact accepted_text_reflects_every_segment. Qed.
Print Assumptions C08_every_segment_of_an_accepted_text_is_in_the_message.
