(* C10 - Validation is complete: whatever it accepts contains only tags that pass their own
   validation (the framing consequence - no accepted element value contains '*', '{', '}', CR, LF -
   is in Props/C07.v, where the codec theory lives). *)
From Wire Require Import Base.Bytes Model.GoV Model.DL Model.Message Theory.VerifyFacts Theory.VerifyProps.

Theorem C10_accepted_tags_valid : forall m t, wf_msg m ->
  verify m = Accept -> is_none (get_tag m t) = false -> tagv_of m t = Accept.
Proof. exact accepted_tags_valid. Qed.
Print Assumptions C10_accepted_tags_valid.

Theorem C10_every_invalid_tag_rejected : ob_invalid_tag_rejected = true.
Proof. exact invalid_tag_rejected. Qed.
Print Assumptions C10_every_invalid_tag_rejected.

(* the read-back half: a message validation accepts - with canonical FAIM values and present tags among the
   50 covered ones - is written, in every layout, and the reader accepts the text back as that very message
   (corollary of the C01 file-level theorem; the uncovered tags and non-canonical values are decided on the
   implementation by stream l5-props) *)
From Wire Require Import Model.Writer Model.Reader Theory.WriterFacts Theory.Segments Theory.FileRoundTripFull.

Theorem C10_accepted_message_is_written_and_read_back : forall m variable nl,
  wf_msg m -> verify m = Accept -> msg_covered m -> sep_ok nl ->
  exists t, write_model m variable nl = WOk t /\
            (length t < max_token -> forall chunks, concat chunks = t -> read_model None (m_opts m) chunks FEOF = ROk m).
Proof.
  intros m variable nl Hw Hacc Hcov Hsep.
  destruct (proj1 (write_succeeds_iff_valid m variable nl Hw formats_total_true) Hacc) as [t Ht].
  exists t. split; [exact Ht|]. intros Hl chunks Hc.
  apply (write_then_read_covered m variable nl t Hw Hcov Hsep Ht Hl chunks Hc).
Qed.
Print Assumptions C10_accepted_message_is_written_and_read_back.
