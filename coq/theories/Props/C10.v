(* C10 - Validation is complete: whatever it accepts contains only tags that pass their own
   validation (the framing consequence - no accepted element value contains '*', '{', '}', CR, LF -
   is in Props/C07.v, where the codec theory lives). *)
From Wire Require Import Base.Bytes Model.GoV Model.DL Model.Message Theory.VerifyFacts Theory.VerifyProps.

Theorem C10_accepted_tags_valid : forall m t, wf_msg m ->
  verify m = Accept -> is_none (get_tag m t) = false -> tagv_of m t = Accept.
Proof. exact accepted_tags_valid. Qed.
Print Assumptions C10_accepted_tags_valid.

Theorem C10_every_invalid_tag_rejected : ob_invalid_tag_rejected = true.
Proof. exact invalid_tag_rejected. Qed.
Print Assumptions C10_every_invalid_tag_rejected.
