(* C13 - Validate, Format, Write and JSON encoding are pure, deterministic, shareable.
   In the model these operations are functions of the message value, so purity and determinism hold
   by construction; what ties that construction to the source is (1) the effect scan below - no
   assignment reachable from any of the pure operations has a target that outlives the call - and
   (2) that every Validate / verify / Format / writer statement was translated (an assignment has no
   counterpart in the validation and formatting languages: it would be an untranslated statement).
   Data-race freedom under real scheduling is runtime behaviour: decided by stream l7-purity, which runs
   2..64 goroutines sharing one message under the race detector. *)
From Wire Require Import Base.Bytes Model.GoV Model.Codec Model.Message Model.Writer Model.Json.
From Wire Require Import Theory.DLFacts Theory.VerifyFacts Theory.VerifyProps Theory.WriterFacts.
From WireGen Require Import Tags Effects Writer.

Definition ob_c13 : bool :=
  match impure_reach with [] => true | _ => false end &&
  match writer_foreign_writes with [] => true | _ => false end &&
  (500 <=? pure_roots_scanned) &&
  ob_verify_compiles && ob_tags_compile && formats_total && writer_recognised && write_validates_then_flushes.

Theorem C13_no_operation_writes_what_it_is_given : ob_c13 = true.
Proof. vm_compute. reflexivity. Qed.
Print Assumptions C13_no_operation_writes_what_it_is_given.

(* the operations are functions of the message: equal messages, equal verdicts, texts and documents -
   whoever calls, however often, in whatever order *)
Theorem C13_results_depend_on_the_message_only : forall m1 m2,
  m_tags m1 = m_tags m2 -> m_opts m1 = m_opts m2 ->
  verify m1 = verify m2 /\ (forall t, tagv_of m1 t = tagv_of m2 t) /\
  (forall variable nl, write_model m1 variable nl = write_model m2 variable nl) /\ encode_msg m1 = encode_msg m2.
Proof. intros [t1 o1] [t2 o2] Ht Ho. cbn [m_tags m_opts] in *. subst. repeat split; reflexivity. Qed.
Print Assumptions C13_results_depend_on_the_message_only.

(* validating never panics or meets an untranslated statement, so the verdict is always defined *)
Theorem C13_verdict_always_defined : forall m, wf_msg m -> clean (verify m) = true.
Proof. exact verify_clean. Qed.
Print Assumptions C13_verdict_always_defined.
