(* C11 - Element validators accept exactly their documented sets.
   Statements only; every proof is `exact <lemma of Theory/>`. Classes and code lists are the
   tables regenerated from validators.go / const.go on this run. *)
From Wire Require Import Base.Bytes Model.Validators Spec.Faim Theory.BytesFacts Theory.ValidatorsFacts.
From WireGen Require Import Classes Codes Currency.

(* text: exactly the FAIM character set, for every byte string *)
Theorem C11_text_class : forall s, is_alphanumeric s = forallb faim_char s.
Proof. exact is_alphanumeric_exact. Qed.
Print Assumptions C11_text_class.

Theorem C11_text_class_bytes : forall b, in_class alphanumericRegex_mask b = faim_char b.
Proof. exact alnum_class_exact. Qed.
Print Assumptions C11_text_class_bytes.

Theorem C11_regexes_are_negated_classes :
  alphanumericRegex_ok = true /\ numericRegex_ok = true /\ amountRegex_ok = true.
Proof. exact regex_shapes_recognised. Qed.
Print Assumptions C11_regexes_are_negated_classes.

(* numeric elements: digits only; amounts: digits, comma, decimal point *)
Theorem C11_numeric : forall s, is_numeric s = forallb is_digit s.
Proof. exact is_numeric_exact. Qed.
Print Assumptions C11_numeric.

Theorem C11_amount_implied : forall s, is_amount_implied s = forallb is_digit s.
Proof. exact is_amount_implied_exact. Qed.
Print Assumptions C11_amount_implied.

Theorem C11_amount : forall s, is_amount s = forallb amount_char s.
Proof. exact is_amount_exact. Qed.
Print Assumptions C11_amount.

(* no accepted text character can break segment framing *)
Theorem C11_text_excludes_framing : forall b, faim_char b = true -> framing_char b = false.
Proof. exact faim_excludes_framing. Qed.
Print Assumptions C11_text_excludes_framing.

(* every coded element: the switch table equals the published list, and no list is unpublished *)
Theorem C11_code_lists : forall name l c,
  In (name, l) Spec.Faim.code_lists -> in_code_list name c = mem_bytes c l.
Proof. exact code_list_exact. Qed.
Print Assumptions C11_code_lists.

Theorem C11_code_lists_all_published : all_lists_published = true.
Proof. exact all_lists_published_true. Qed.
Print Assumptions C11_code_lists_all_published.

(* currencies: three letters naming an entry of the ISO 4217 table of x/text (oracle) *)
Theorem C11_currency : forall s,
  is_currency_code s = true <-> length s = 3 /\ In (map upper_byte s) iso4217.
Proof. exact is_currency_code_exact. Qed.
Print Assumptions C11_currency.

(* dates: for every byte string *)
Theorem C11_date : forall s, validate_date s = None <-> date_ok s = true.
Proof. exact validate_date_exact. Qed.
Print Assumptions C11_date.

Example C11_date_nonvacuous :
  date_ok (bs "20240229") = true /\ date_ok (bs "20240230") = false /\ date_ok (bs "201x0101") = false.
Proof. vm_compute. auto. Qed.

(* identifier shapes: for every byte string *)
Theorem C11_party_identifier : forall s, validate_party_identifier s = party_identifier_ok s.
Proof. exact validate_party_identifier_exact. Qed.
Print Assumptions C11_party_identifier.

Theorem C11_option_f_line : forall s, validate_option_f_line s = option_f_line_ok s.
Proof. exact validate_option_f_line_exact. Qed.
Print Assumptions C11_option_f_line.

Theorem C11_option_f_name : forall s, validate_option_f_name s = option_f_name_ok s.
Proof. exact validate_option_f_name_exact. Qed.
Print Assumptions C11_option_f_name.

Example C11_shapes_nonvacuous :
  party_identifier_ok (bs "/123456") = true /\ party_identifier_ok (bs "SOSE/123-456-789") = true /\
  party_identifier_ok (bs "/*") = false /\ option_f_line_ok (bs "3/US/NEW YORK, NY 10000") = true.
Proof. vm_compute. auto. Qed.

(* the tag files: every tag's Validate is translated completely (no statement the translator could not read, so
   each element check is one of the validators above, a presence test or a membership test in a table), and the
   table the four financial-institution tags test their identification code against is the published list.
   Stream l2-tags compares these programs with the implementation and - for the coded elements of
   Spec.Faim.tag_code_lists - checks the implementation against the published list directly *)
From Wire Require Import Model.GoV Theory.VerifyFacts.
From WireGen Require Codes.

Definition fi_id_codes_published : bool :=
  match find (fun p => String.eqb (fst p) "financialInstitutionIDCodes") Codes.string_tables with
  | Some (_, l) => forallb (fun e => let '(_, _, pub) := e in
                                     forallb (fun c => mem_bytes c pub) l && forallb (fun c => mem_bytes c l) pub)
                           Spec.Faim.tag_code_lists
  | None => false
  end.

Theorem C11_tag_checks_are_the_validators_and_published_tables :
  ob_tags_compile = true /\ fi_id_codes_published = true.
Proof. split; [exact tags_compile|vm_compute; reflexivity]. Qed.
Print Assumptions C11_tag_checks_are_the_validators_and_published_tables.
