(* C04 - Accepted by the reader implies valid, in-bounds, and only FAIM tags. *)
From Wire Require Import Base.Bytes Model.GoV Model.Codec Model.DL Model.Message Model.Reader Spec.Faim
     Theory.ReaderFacts Theory.DispatchFacts.
From WireGen Require Import Tags Reader.

(* for every chunking, final status, preset and option value: success means the message passes file
   validation under the options the reader applied, and every tag in it passes its own validation *)
Theorem C04_accepted_is_valid : forall preset opts chunks final m,
  read_model preset opts chunks final = ROk m ->
  wf_msg m /\ verify m = Accept /\
  (forall t, is_none (get_tag m t) = false -> tagv_of m t = Accept) /\
  m_opts m = match opts with Some _ => opts | None => preset end.
Proof. exact accepted_is_valid. Qed.
Print Assumptions C04_accepted_is_valid.

(* exhaustively over the 10,000 four-digit markers: dispatched exactly when it is one of the 60 FAIM tags *)
Theorem C04_exactly_the_faim_markers : forall d1 d2 d3 d4,
  is_digit d1 = true -> is_digit d2 = true -> is_digit d3 = true -> is_digit d4 = true ->
  (lookup_marker (marker_of d1 d2 d3 d4) dispatch <> None <-> In (marker_of d1 d2 d3 d4) faim_markers).
Proof. exact marker_dispatched_iff_faim. Qed.
Print Assumptions C04_exactly_the_faim_markers.

(* each arm parses its own type, validates it, and stores it in its own record *)
Theorem C04_each_marker_fills_its_own_record : forall mk ti fi label val,
  In (mk, (ti, fi, label, val)) dispatch ->
  ti = fi /\ mk = t_marker (nth ti tags tag_Amount) /\ val = true /\ same_name label (t_name (nth ti tags tag_Amount)) = true.
Proof. exact dispatch_fills_own_record. Qed.
Print Assumptions C04_each_marker_fills_its_own_record.

Theorem C04_other_markers_are_invalid_tags : forall l ln,
  (rune_count l <? 6) = false -> lookup_marker (firstn 6 l) dispatch = None ->
  parse_line l ln = inl (RInvalidTag (firstn 6 l)).
Proof. exact unknown_marker_reported. Qed.
Print Assumptions C04_other_markers_are_invalid_tags.

Theorem C04_reader_source_recognised : ob_reader_shapes = true /\ ob_sixty = true.
Proof. exact (conj reader_shapes sixty). Qed.
Print Assumptions C04_reader_source_recognised.

(* text before the first marker is ignored, and it is the only thing that is: for a text made of any leading
   text without a brace followed by segments (each starts with a marker, no further brace, no line break;
   any runs of line breaks between them), the read is the read of the segments alone - every one of them is
   parsed (C08 / C15 say what happens to each), nothing of the leading text is *)
From Wire Require Import Theory.ScanSpec Theory.Segments Theory.SegmentsGen.

Theorem C04_leading_text_is_the_only_ignored_input : forall preset opts lead pairs chunks chunks0 final,
  no_brace lead = true -> forallb pair_ok pairs = true ->
  length (lead ++ text2 pairs) < max_token ->
  concat chunks = lead ++ text2 pairs -> concat chunks0 = text2 pairs ->
  read_model preset opts chunks final = read_model preset opts chunks0 final /\
  read_model preset opts chunks final = read_segments preset opts (map fst pairs) final.
Proof.
  intros preset opts lead pairs chunks chunks0 final Hl Hok Hlen Hc Hc0. split.
  - exact (leading_text_is_ignored preset opts lead pairs chunks chunks0 final Hl Hok Hlen Hc Hc0).
  - exact (read_of_segments2 preset opts lead pairs chunks final Hl Hok Hlen Hc).
Qed.
Print Assumptions C04_leading_text_is_the_only_ignored_input.

Example a_header_line_is_brace_free : no_brace (bs "FEDWIRE MESSAGE FILE 2019-04-10") = true /\ no_brace (bs "{99") = false.
Proof. split; reflexivity. Qed.
