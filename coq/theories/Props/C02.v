(* C02 - Read then Write then Read is stable. Proved: whatever the reader accepts can be written in
   every layout (no drift into an unwritable message). The equality of the re-read message needs the
   reader to hand back only canonical values, which holds except for one recorded finding (an
   over-width variable element whose cut leaves a trailing blank); it is decided on the
   implementation by the oracles prop:read-write-read / prop:text-reread (stream l5-props). *)
From Wire Require Import Base.Bytes Model.GoV Model.Message Model.Writer Model.Reader Theory.WriterFacts Theory.ReaderFacts.

Theorem C02_accepted_text_can_be_written : forall preset opts chunks final m variable nl,
  read_model preset opts chunks final = ROk m -> exists t, write_model m variable nl = WOk t.
Proof. exact accepted_text_can_be_written. Qed.
Print Assumptions C02_accepted_text_can_be_written.

Theorem C02_reader_result_is_valid : forall preset opts chunks final m,
  read_model preset opts chunks final = ROk m -> wf_msg m /\ verify m = Accept.
Proof. intros preset opts chunks final m H. destruct (accepted_is_valid preset opts chunks final m H) as (A & B & _). auto. Qed.
Print Assumptions C02_reader_result_is_valid.

(* stabilisation: when what the reader hands back is canonical (which the two recorded findings show is
   not always so), writing it in any layout and reading again - under any chunking - returns exactly the
   message of the first read. Corollary of the file-level write-then-read theorem (C01). *)
From Wire Require Import Theory.Segments Theory.FileRoundTripFull.

Theorem C02_second_read_equals_first_when_canonical : forall opts chunks m1 variable nl t2 chunks2,
  read_model None opts chunks FEOF = ROk m1 -> msg_covered m1 -> sep_ok nl ->
  write_model m1 variable nl = WOk t2 -> length t2 < max_token -> concat chunks2 = t2 ->
  read_model None (m_opts m1) chunks2 FEOF = ROk m1.
Proof.
  intros opts chunks m1 variable nl t2 chunks2 Hr Hc Hs Hw Hl Hc2.
  destruct (accepted_is_valid None opts chunks FEOF m1 Hr) as (Hwf & _).
  apply (write_then_read_covered m1 variable nl t2 Hwf Hc Hs Hw Hl chunks2 Hc2).
Qed.
Print Assumptions C02_second_read_equals_first_when_canonical.

(* partial - what the reader can hand back, element by element: every value produced by the two element
   readers of converters.go is within the element's width and trimmed, except that a variable-length
   element longer than its width is cut after trimming and the cut may end in a blank (the recorded
   finding; `cut_leaves_a_blank` in Theory/ElementValues.v is the witness). Lifted to whole tags: for the
   54 tags whose Parse program stores only such values, every element of a parsed tag is trimmed or such a
   cut. Not proved: the message-level statement "the second read equals the first for every accepted text"
   (false on the pinned tree, see the findings), and the six tags with raw fixed-position slices ({2000} keeps its 12 characters as read: validation then demands digits). *)
From Wire Require Import Model.Converters Model.Layout Model.Codec Theory.ElementValues.
From WireGen Require Import Tags.

Theorem C02_fixed_element_value_partial : forall r mx got rd,
  parse_fixed r mx = (got, rd, None) -> length got <= mx /\ trimmed got = true.
Proof. exact parse_fixed_value. Qed.
Print Assumptions C02_fixed_element_value_partial.

Theorem C02_variable_element_value_partial : forall r mx got rd,
  parse_variable r mx = (got, rd, None) ->
  length got <= mx /\
  (trimmed got = true \/ exists full, trimmed full = true /\ mx < length full /\ got = firstn mx full).
Proof. exact parse_variable_value. Qed.
Print Assumptions C02_variable_element_value_partial.

Definition trimming_tags : list tagdesc := filter (fun d => forallb step_trims (t_parse d)) tags.

Theorem C02_parsed_tag_values_partial : forall d rec v,
  In d trimming_tags -> parse_tag d rec = POk v -> Forall val_ok (tv_elems v).
Proof.
  intros d rec v Hin. apply filter_In in Hin as [_ Hs]. exact (parse_tag_values d rec v Hs).
Qed.
Print Assumptions C02_parsed_tag_values_partial.

Example trimming_tags_are_most : length trimming_tags = 54 /\ length tags = 60.
Proof. vm_compute. split; reflexivity. Qed.

(* partial, message level: every tag of a message the reader accepts is what that tag's own Parse returned
   for one of the segments (each dispatch arm fills its own record: per-run obligation), hence - for the 54
   tags above - each of its elements is trimmed, or the cut of a trimmed over-width value *)
From Wire Require Import Theory.DispatchFacts.

Theorem C02_accepted_message_values_partial : forall preset opts chunks final m i v,
  read_model preset opts chunks final = ROk m -> nth i (m_tags m) None = Some v ->
  In (nth i tags tag_Amount) trimming_tags -> Forall val_ok (tv_elems v).
Proof.
  intros preset opts chunks final m i v Hr Hi Hin. apply filter_In in Hin as [_ Hs].
  assert (Hob : ob_dispatch_arms = true) by (vm_compute; reflexivity).
  exact (accepted_values preset opts chunks final m Hob Hr i v Hi Hs).
Qed.
Print Assumptions C02_accepted_message_values_partial.

(* partial, all 60 tags, no side condition: every element of every tag of an accepted message is a trimmed
   value, the cut of a trimmed over-width value, a contiguous slice of the segment it was read from, or
   parseAlphaField of a tail of that segment; so an accepted message holds nothing the text did not hold *)
Theorem C02_parsed_tag_value_shapes_partial : forall d rec v,
  parse_tag d rec = POk v -> Forall (val_shape rec) (tv_elems v).
Proof. exact parse_tag_shapes. Qed.
Print Assumptions C02_parsed_tag_value_shapes_partial.

Theorem C02_accepted_message_value_shapes_partial : forall preset opts chunks final m i v,
  read_model preset opts chunks final = ROk m -> nth i (m_tags m) None = Some v ->
  exists line, parse_tag (nth i tags tag_Amount) line = POk v /\ Forall (val_shape line) (tv_elems v).
Proof.
  intros preset opts chunks final m i v Hr Hi.
  assert (Hob : ob_dispatch_arms = true) by (vm_compute; reflexivity).
  exact (accepted_shapes preset opts chunks final m Hob Hr i v Hi).
Qed.
Print Assumptions C02_accepted_message_value_shapes_partial.

(* non-vacuity: a tag outside trimming_tags parses, and its raw element is a slice of the segment *)
Example raw_amount_is_a_slice :
  existsb (fun d => negb (forallb step_trims (t_parse d))) [tag_Amount] = true /\
  match parse_tag tag_Amount (bs "{2000}000001234567") with
  | POk v => tv_elems v = [bs "000001234567"] /\ slice (bs "{2000}000001234567") 6 18 = Some (bs "000001234567")
  | _ => False
  end.
Proof. vm_compute. split; [reflexivity|split; reflexivity]. Qed.
