(* C02 - Read then Write then Read is stable. Proved: whatever the reader accepts can be written in
   every layout (no drift into an unwritable message). The equality of the re-read message needs the
   reader to hand back only canonical values, which holds except for one recorded finding (an
   over-width variable element whose cut leaves a trailing blank); it is decided on the
   implementation by the oracles prop:read-write-read / prop:text-reread (stream l5-props). *)
From Wire Require Import Base.Bytes Model.GoV Model.Message Model.Writer Model.Reader Theory.WriterFacts Theory.ReaderFacts.

Theorem C02_accepted_text_can_be_written : forall preset opts chunks final m variable nl,
  read_model preset opts chunks final = ROk m -> exists t, write_model m variable nl = WOk t.
Proof. exact accepted_text_can_be_written. Qed.
Print Assumptions C02_accepted_text_can_be_written.

Theorem C02_reader_result_is_valid : forall preset opts chunks final m,
  read_model preset opts chunks final = ROk m -> wf_msg m /\ verify m = Accept.
Proof. intros preset opts chunks final m H. destruct (accepted_is_valid preset opts chunks final m H) as (A & B & _). auto. Qed.
Print Assumptions C02_reader_result_is_valid.
