(* C02 - Read then Write then Read is stable. Proved: whatever the reader accepts can be written in
   every layout (no drift into an unwritable message). The equality of the re-read message needs the
   reader to hand back only canonical values, which holds except for one recorded finding (an
   over-width variable element whose cut leaves a trailing blank); it is decided on the
   implementation by the oracles prop:read-write-read / prop:text-reread (stream l5-props). *)
From Wire Require Import Base.Bytes Model.GoV Model.Message Model.Writer Model.Reader Theory.WriterFacts Theory.ReaderFacts.

Theorem C02_accepted_text_can_be_written : forall preset opts chunks final m variable nl,
  read_model preset opts chunks final = ROk m -> exists t, write_model m variable nl = WOk t.
Proof. exact accepted_text_can_be_written. Qed.
Print Assumptions C02_accepted_text_can_be_written.

Theorem C02_reader_result_is_valid : forall preset opts chunks final m,
  read_model preset opts chunks final = ROk m -> wf_msg m /\ verify m = Accept.
Proof. intros preset opts chunks final m H. destruct (accepted_is_valid preset opts chunks final m H) as (A & B & _). auto. Qed.
Print Assumptions C02_reader_result_is_valid.

(* stabilisation: when what the reader hands back is canonical (which the two recorded findings show is
   not always so), writing it in any layout and reading again - under any chunking - returns exactly the
   message of the first read. Corollary of the file-level write-then-read theorem (C01). *)
From Wire Require Import Theory.Segments Theory.FileRoundTripFull.

Theorem C02_second_read_equals_first_when_canonical : forall opts chunks m1 variable nl t2 chunks2,
  read_model None opts chunks FEOF = ROk m1 -> msg_covered m1 -> sep_ok nl ->
  write_model m1 variable nl = WOk t2 -> length t2 < max_token -> concat chunks2 = t2 ->
  read_model None (m_opts m1) chunks2 FEOF = ROk m1.
Proof.
  intros opts chunks m1 variable nl t2 chunks2 Hr Hc Hs Hw Hl Hc2.
  destruct (accepted_is_valid None opts chunks FEOF m1 Hr) as (Hwf & _).
  apply (write_then_read_covered m1 variable nl t2 Hwf Hc Hs Hw Hl chunks2 Hc2).
Qed.
Print Assumptions C02_second_read_equals_first_when_canonical.
