(* C01 - Write then Read returns the same message, in every layout (tag level; the file-level
   composition with the reader/writer models is in Props/C01File.v once built).
   For every tag whose regenerated Parse/Format step lists are the canonical lists of a well-formed
   layout (56 of the 60 tags; per-run obligation), for BOTH layouts and EVERY canonical value:
   Parse (Format v) = v. *)
From Wire Require Import Base.Bytes Model.GoV Model.Codec Model.Layout
     Theory.CodecFacts Theory.CodecRoundTrip Theory.CodecTags.
From WireGen Require Import Tags.

Theorem C01_tag_roundtrip : forall d v variable,
  layout_ok d = true -> guard_static d = true -> canonical_tag d v = true ->
  exists txt, format_tag d variable v = Some txt /\ parse_tag d txt = POk v.
Proof. exact tag_roundtrip_static. Qed.
Print Assumptions C01_tag_roundtrip.

(* tags whose minimum-length guard is only met because validation requires some elements:
   same conclusion under the explicit side condition that the text is long enough *)
Theorem C01_tag_roundtrip_guarded : forall d v variable,
  layout_ok d = true -> canonical_tag d v = true ->
  guard_admits (recover d) (length (format_text (recover d) (variable && t_format_takes_options d) v)) ->
  exists txt, format_tag d variable v = Some txt /\ parse_tag d txt = POk v.
Proof. exact tag_roundtrip. Qed.
Print Assumptions C01_tag_roundtrip_guarded.

(* per-run obligation: every tag is regular (or one of the four listed special tags) *)
Theorem C01_all_tags_regular : ob_all_regular = true.
Proof. exact all_regular. Qed.
Print Assumptions C01_all_tags_regular.

(* Format on a regular tag produces exactly the layout text (used by C07) *)
Theorem C01_format_text : forall L variable v,
  run_format (canon_format L) v variable [] = Some (format_text L variable v).
Proof. exact run_format_canon. Qed.
Print Assumptions C01_format_text.
