(* C06 - Writing succeeds exactly when validation accepts; a refusal writes nothing. *)
From Wire Require Import Base.Bytes Model.GoV Model.Codec Model.Message Model.Writer Theory.VerifyFacts Theory.VerifyProps Theory.WriterFacts.

Theorem C06_write_succeeds_iff_valid : forall m variable nl, wf_msg m -> formats_total = true ->
  (verify m = Accept <-> exists t, write_model m variable nl = WOk t).
Proof. exact write_succeeds_iff_valid. Qed.
Print Assumptions C06_write_succeeds_iff_valid.

Theorem C06_refusal_writes_nothing : forall m variable nl dest v,
  write_model m variable nl = WRefused v -> bytes_delivered (write_to dest (write_model m variable nl)) = [].
Proof. exact refusal_writes_nothing. Qed.
Print Assumptions C06_refusal_writes_nothing.

Theorem C06_writer_check_never_refuses_valid : forall m, wf_msg m -> verify m = Accept -> writer_check m = Accept.
Proof. exact writer_never_refuses_valid. Qed.
Print Assumptions C06_writer_check_never_refuses_valid.

Theorem C06_writer_shape_recognised : ob_writer_shape = true.
Proof. exact writer_shape. Qed.
Print Assumptions C06_writer_shape_recognised.

Theorem C06_all_format_programs_translated : formats_total = true.
Proof. exact formats_total_true. Qed.
Print Assumptions C06_all_format_programs_translated.
