(* C07 - Emitted text is well-formed FAIM: one framed segment per tag, exact widths.
   Structure of the text is proved here; the per-segment framing facts (own marker first, no
   { } CR LF inside a segment, strictly ascending markers) are decided on every written message by
   the implementation-side oracle prop:text-shape (stream l5-props) and follow, for canonical values,
   from C01's layout text. *)
From Coq Require Import Sorted Permutation.
From Wire Require Import Base.Bytes Model.GoV Model.Codec Model.Layout Model.Message Model.Writer
     Theory.CodecFacts Theory.WriterFacts.
From WireGen Require Import Writer.

(* the emitted text is the separator-joined, separator-terminated, sorted list of the lines of the
   present tags, in the regenerated emission plan *)
Theorem C07_text_structure : forall m variable nl t,
  write_model m variable nl = WOk t ->
  exists lines, plan_lines writer_plan m variable = Some lines /\ t = join_with nl (sort_lines lines) ++ nl.
Proof. exact written_text_structure. Qed.
Print Assumptions C07_text_structure.

Theorem C07_sorted_permutation : forall l, Permutation l (sort_lines l) /\ sorted_lines (sort_lines l).
Proof. intros l. split; [apply sort_lines_perm | apply sort_lines_sorted]. Qed.
Print Assumptions C07_sorted_permutation.

(* each line of a regular tag is exactly its layout text: marker, fixed-offset elements at their widths,
   then each variable element cut to its width and followed by one delimiter; in variable-length
   layout trailing delimiters collapse (strip) *)
Theorem C07_line_is_layout_text : forall L variable v,
  run_format (canon_format L) v variable [] = Some (format_text L variable v).
Proof. exact run_format_canon. Qed.
Print Assumptions C07_line_is_layout_text.

Theorem C07_writer_shape_recognised : Theory.VerifyProps.ob_writer_shape = true.
Proof. exact Theory.VerifyProps.writer_shape. Qed.
Print Assumptions C07_writer_shape_recognised.

(* fixed-width layout: every element occupies exactly its width, so a tag's segment has one length,
   whatever the canonical values (all 56 regular tags; {3600} is a recorded finding) *)
From Wire Require Import Theory.FixedLength Theory.CodecTags.

Theorem C07_fixed_layout_segment_length_is_constant : forall d v, layout_ok d = true -> canonical_tag d v = true ->
  exists line, format_tag d false v = Some line /\ length line = fixed_len (recover d).
Proof. exact fixed_layout_segment_length. Qed.
Print Assumptions C07_fixed_layout_segment_length_is_constant.
