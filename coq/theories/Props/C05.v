(* C05 - Cross-tag FAIM edit rules: accepted exactly when the rule tables say so.
   `verify` is the GoV program regenerated from FEDWireMessage.verify() (File.Validate is a thin
   wrapper of it: obligation file_validate_wraps_verify); `rule_cubes` is Spec/Rules.v. *)
From Wire Require Import Base.Bytes Model.GoV Model.DL Model.Message Spec.Rules Theory.DLFacts Theory.VerifyFacts.
From WireGen Require Import Tags Verify.

(* accepted exactly when no documented rule is violated, for every message *)
Theorem C05_accept_iff_rules : forall m, wf_msg m ->
  (verify m = Accept <-> forall s, In s rule_cubes -> cube_holds (tagv_of m) m s = false).
Proof. exact verify_accept_iff_rules. Qed.
Print Assumptions C05_accept_iff_rules.

(* the verdict does not depend on the order in which the checks run: acceptance is a function of
   the unordered set of reject guards of the compiled program *)
Theorem C05_order_irrelevant : forall m, wf_msg m ->
  (verify m = Accept <-> forall e, In e (rejects_of vdl) -> entry_holds (tagv_of m) m e = false).
Proof. exact verify_accept_iff_no_reject. Qed.
Print Assumptions C05_order_irrelevant.

(* per-run obligations on the regenerated program *)
Theorem C05_code_within_documented_rules : ob_code_within_rules = true.
Proof. exact code_within_rules. Qed.
Print Assumptions C05_code_within_documented_rules.

Theorem C05_documented_rules_enforced : ob_rules_enforced = true.
Proof. exact rules_enforced. Qed.
Print Assumptions C05_documented_rules_enforced.

Theorem C05_file_validate_is_verify : ob_file_validate_is_verify = true.
Proof. exact file_validate_wraps_verify. Qed.
Print Assumptions C05_file_validate_is_verify.
