(* C15 - Reader errors point at exactly the offending segments. *)
From Wire Require Import Base.Bytes Model.GoV Model.Reader Theory.ReaderFacts.
From WireGen Require Import Reader.

(* one entry per failing sub-line, in input order, each computed at that sub-line's 1-based ordinal *)
Theorem C15_errors_are_per_segment : forall lines,
  snd (read_lines lines 0 empty_tags []) = errors_of lines 0.
Proof. exact reader_errors_are_per_segment. Qed.
Print Assumptions C15_errors_are_per_segment.

(* what an entry is: too short, invalid tag naming the marker, or line + record label of the marker *)
Theorem C15_entry_shape : forall l ln e,
  line_err l ln = Some e ->
  e = RTooShort \/ e = RInvalidTag (firstn 6 l) \/ e = RPanic \/ e = RStuck \/
  exists ti fi label v f er, lookup_marker (firstn 6 l) dispatch = Some (ti, fi, label, v) /\ e = RParse ln label f er.
Proof. exact line_error_shape. Qed.
Print Assumptions C15_entry_shape.

Theorem C15_unknown_marker_named : forall l ln,
  (rune_count l <? 6) = false -> lookup_marker (firstn 6 l) dispatch = None ->
  parse_line l ln = inl (RInvalidTag (firstn 6 l)).
Proof. exact unknown_marker_reported. Qed.
Print Assumptions C15_unknown_marker_named.

(* per-run obligation tying the model above to reader.go: the read loop counts every sub-line before it is
   parsed (r.lineNum++ in the loop, whatever parseLine answers), parseLine's guard / arms / default arm and
   the ParseError wrapper {Line: lineNum, Record: tagName} have the shapes the model was written from;
   every arm is labelled with its own record name *)
From Wire Require Import Theory.DispatchFacts.
Theorem C15_reader_has_the_modelled_shape : ob_reader_shapes = true /\ ob_dispatch_arms = true.
Proof. vm_compute. split; reflexivity. Qed.
Print Assumptions C15_reader_has_the_modelled_shape.

(* from the input text to the entries: a text of segments (each starts with a marker and holds no further brace
   and no line break; its content may be malformed in any other way) separated by any runs of line breaks,
   after any leading text that holds no brace: when some segment fails, the reader's result is exactly the failing segments' entries, each with the segment's
   1-based position in the input, in input order - no entry for a healthy segment; when none fails, the result
   is the verdict of file validation on the assembled message *)
From Wire Require Import Model.Message Theory.ScanSpec Theory.Segments Theory.SegmentsGen.

Theorem C15_entries_sit_at_the_segments_positions : forall preset opts lead pairs chunks,
  no_brace lead = true -> forallb pair_ok pairs = true -> length (lead ++ text2 pairs) < max_token ->
  concat chunks = lead ++ text2 pairs ->
  errors_of (map fst pairs) 0 <> [] ->
  read_model preset opts chunks FEOF = RErrors (errors_of (map fst pairs) 0).
Proof. exact errors_at_segment_positions. Qed.
Print Assumptions C15_entries_sit_at_the_segments_positions.

Theorem C15_healthy_segments_then_file_validation : forall preset opts lead pairs chunks,
  no_brace lead = true -> forallb pair_ok pairs = true -> length (lead ++ text2 pairs) < max_token ->
  concat chunks = lead ++ text2 pairs ->
  errors_of (map fst pairs) 0 = [] ->
  exists m, (read_model preset opts chunks FEOF = ROk m /\ verify m = Accept) \/
            (exists f e, read_model preset opts chunks FEOF = RErrors [RFileValidation f e] /\ verify m = Reject f e) \/
            read_model preset opts chunks FEOF = RErrors [RPanic] \/ read_model preset opts chunks FEOF = RErrors [RStuck].
Proof. exact no_segment_error_means_file_validation. Qed.
Print Assumptions C15_healthy_segments_then_file_validation.

(* not vacuous: the second of two segments is malformed (a {1510} of the wrong length), the first is healthy:
   one entry, at position 2 *)
Example second_segment_reported_at_two :
  errors_of [bs "{1520}20190410Source08000001"; bs "{1510}10"] 0 = [RParse 2 "TypeSubType" "" "TagWrongLengthErr"].
Proof. vm_compute. reflexivity. Qed.
