(* C15 - Reader errors point at exactly the offending segments. *)
From Wire Require Import Base.Bytes Model.GoV Model.Reader Theory.ReaderFacts.
From WireGen Require Import Reader.

(* one entry per failing sub-line, in input order, each computed at that sub-line's 1-based ordinal *)
Theorem C15_errors_are_per_segment : forall lines,
  snd (read_lines lines 0 empty_tags []) = errors_of lines 0.
Proof. exact reader_errors_are_per_segment. Qed.
Print Assumptions C15_errors_are_per_segment.

(* what an entry is: too short, invalid tag naming the marker, or line + record label of the marker *)
Theorem C15_entry_shape : forall l ln e,
  line_err l ln = Some e ->
  e = RTooShort \/ e = RInvalidTag (firstn 6 l) \/ e = RPanic \/ e = RStuck \/
  exists ti fi label v f er, lookup_marker (firstn 6 l) dispatch = Some (ti, fi, label, v) /\ e = RParse ln label f er.
Proof. exact line_error_shape. Qed.
Print Assumptions C15_entry_shape.

Theorem C15_unknown_marker_named : forall l ln,
  (rune_count l <? 6) = false -> lookup_marker (firstn 6 l) dispatch = None ->
  parse_line l ln = inl (RInvalidTag (firstn 6 l)).
Proof. exact unknown_marker_reported. Qed.
Print Assumptions C15_unknown_marker_named.

(* per-run obligation tying the model above to reader.go: the read loop counts every sub-line before it is
   parsed (r.lineNum++ in the loop, whatever parseLine answers), parseLine's guard / arms / default arm and
   the ParseError wrapper {Line: lineNum, Record: tagName} have the shapes the model was written from;
   every arm is labelled with its own record name *)
From Wire Require Import Theory.DispatchFacts.
Theorem C15_reader_has_the_modelled_shape : ob_reader_shapes = true /\ ob_dispatch_arms = true.
Proof. vm_compute. split; reflexivity. Qed.
Print Assumptions C15_reader_has_the_modelled_shape.
