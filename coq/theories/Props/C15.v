(* C15 - Reader errors point at exactly the offending segments. *)
From Wire Require Import Base.Bytes Model.GoV Model.Reader Theory.ReaderFacts.
From WireGen Require Import Reader.

(* one entry per failing sub-line, in input order, each computed at that sub-line's 1-based ordinal *)
Theorem C15_errors_are_per_segment : forall lines,
  snd (read_lines lines 0 empty_tags []) = errors_of lines 0.
Proof. exact reader_errors_are_per_segment. Qed.
Print Assumptions C15_errors_are_per_segment.

(* what an entry is: too short, invalid tag naming the marker, or line + record label of the marker *)
Theorem C15_entry_shape : forall l ln e,
  line_err l ln = Some e ->
  e = RTooShort \/ e = RInvalidTag (firstn 6 l) \/ e = RPanic \/ e = RStuck \/
  exists ti fi label v f er, lookup_marker (firstn 6 l) dispatch = Some (ti, fi, label, v) /\ e = RParse ln label f er.
Proof. exact line_error_shape. Qed.
Print Assumptions C15_entry_shape.

Theorem C15_unknown_marker_named : forall l ln,
  (rune_count l <? 6) = false -> lookup_marker (firstn 6 l) dispatch = None ->
  parse_line l ln = inl (RInvalidTag (firstn 6 l)).
Proof. exact unknown_marker_reported. Qed.
Print Assumptions C15_unknown_marker_named.
