(* C19 - The settlement amount is never altered, and zero only with subtype 90. *)
From Wire Require Import Base.Bytes Model.GoV Model.Message Theory.VerifyFacts Theory.VerifyProps.

Theorem C19_accepted_amount_is_numeric_and_fits : forall m, wf_msg m -> verify m = Accept ->
  exists a, amount_of m = Some a /\ a <> [] /\ forallb is_digit a = true /\ length a <= 12.
Proof. exact accepted_amount_shape. Qed.
Print Assumptions C19_accepted_amount_is_numeric_and_fits.

Theorem C19_zero_only_with_subtype_90 : forall m a, wf_msg m -> verify m = Accept ->
  amount_of m = Some a -> a <> [] -> forallb (beqb x30) a = true -> subtype_of m = Some (bs "90").
Proof. exact zero_amount_needs_subtype_90. Qed.
Print Assumptions C19_zero_only_with_subtype_90.

(* what the writer emits for {2000}: the marker, then the amount with nothing but leading zeros added - no
   digit of an accepted amount is cut or changed (an accepted amount has at most 12 digits, see above) *)
From Wire Require Import Model.Converters Model.Codec.
From WireGen Require Import Tags.

Theorem C19_written_amount_keeps_every_digit : forall v a variable,
  tv_elems v = [a] -> length a <= 12 ->
  format_tag tag_Amount variable v = Some (tv_marker v ++ brepeat zero (12 - length a) ++ a).
Proof.
  intros v a variable Hv Hl. unfold format_tag. cbn [t_format tag_Amount run_format app]. unfold elem_val. rewrite Hv. cbn [nth].
  unfold numeric_string_field. change (nn 12) with 12.
  replace (12 <? length a) with false by (symmetry; apply Nat.ltb_ge; exact Hl).
  assert (Hs : valid_size_uint (12 - length a) = true).
  { unfold valid_size_uint, max_buffer_growth. apply N.ltb_lt. lia. }
  rewrite Hs. reflexivity.
Qed.
Print Assumptions C19_written_amount_keeps_every_digit.

Theorem C19_full_width_amount_is_written_verbatim : forall v a variable,
  tv_elems v = [a] -> length a = 12 -> format_tag tag_Amount variable v = Some (tv_marker v ++ a).
Proof.
  intros v a variable Hv Hl. rewrite (C19_written_amount_keeps_every_digit v a variable Hv) by lia.
  rewrite Hl. reflexivity.
Qed.
Print Assumptions C19_full_width_amount_is_written_verbatim.
