(* C19 - The settlement amount is never altered, and zero only with subtype 90. *)
From Wire Require Import Base.Bytes Model.GoV Model.Message Theory.VerifyFacts Theory.VerifyProps.

Theorem C19_accepted_amount_is_numeric_and_fits : forall m, wf_msg m -> verify m = Accept ->
  exists a, amount_of m = Some a /\ a <> [] /\ forallb is_digit a = true /\ length a <= 12.
Proof. exact accepted_amount_shape. Qed.
Print Assumptions C19_accepted_amount_is_numeric_and_fits.

Theorem C19_zero_only_with_subtype_90 : forall m a, wf_msg m -> verify m = Accept ->
  amount_of m = Some a -> a <> [] -> forallb (beqb x30) a = true -> subtype_of m = Some (bs "90").
Proof. exact zero_amount_needs_subtype_90. Qed.
Print Assumptions C19_zero_only_with_subtype_90.

(* what the writer emits for {2000}: the marker, then the amount with nothing but leading zeros added - no
   digit of an accepted amount is cut or changed (an accepted amount has at most 12 digits, see above) *)
From Wire Require Import Model.Converters Model.Codec.
From WireGen Require Import Tags.

Theorem C19_written_amount_keeps_every_digit : forall v a variable,
  tv_elems v = [a] -> length a <= 12 ->
  format_tag tag_Amount variable v = Some (tv_marker v ++ brepeat zero (12 - length a) ++ a).
Proof.
  intros v a variable Hv Hl. unfold format_tag. cbn [t_format tag_Amount run_format app]. unfold elem_val. rewrite Hv. cbn [nth].
  unfold numeric_string_field. change (nn 12) with 12.
  replace (12 <? length a) with false by (symmetry; apply Nat.ltb_ge; exact Hl).
  assert (Hs : valid_size_uint (12 - length a) = true).
  { unfold valid_size_uint, max_buffer_growth. apply N.ltb_lt. lia. }
  rewrite Hs. reflexivity.
Qed.
Print Assumptions C19_written_amount_keeps_every_digit.

Theorem C19_full_width_amount_is_written_verbatim : forall v a variable,
  tv_elems v = [a] -> length a = 12 -> format_tag tag_Amount variable v = Some (tv_marker v ++ a).
Proof.
  intros v a variable Hv Hl. rewrite (C19_written_amount_keeps_every_digit v a variable Hv) by lia.
  rewrite Hl. reflexivity.
Qed.
Print Assumptions C19_full_width_amount_is_written_verbatim.

(* the text route: what the {2000} parser returns for a segment is the segment's twelve bytes after the marker,
   exactly as they stand in the text - nothing trimmed, nothing cut, nothing re-interpreted (per-run obligation:
   the regenerated Parse program of {2000} is guard / marker / raw slice 6..18); validation then demands digits,
   so an accepted amount read from text is those twelve characters of the text *)
Theorem C19_parsed_amount_is_the_text_of_the_element : forall rec v,
  parse_tag tag_Amount rec = POk v ->
  rune_count rec = 18 /\ 18 <= length rec /\ tv_elems v = [firstn 12 (skipn 6 rec)].
Proof.
  intros rec v H. unfold parse_tag in H. cbn [t_parse tag_Amount run_parse t_elems map] in H.
  change (nn 18) with 18 in H. change (nn 6) with 6 in H.
  destruct (rune_count rec =? 18) eqn:E; [|discriminate H]. cbn [negb] in H.
  destruct (slice rec 0 6) as [mk|] eqn:S0; [|discriminate H].
  destruct (slice rec 6 18) as [a|] eqn:S1; [|discriminate H].
  injection H as <-. cbn [tv_elems set_nth].
  unfold slice in S1. destruct ((6 <=? 18) && (18 <=? length rec)) eqn:B; [|discriminate S1].
  injection S1 as <-. apply andb_true_iff in B as [_ B]. apply Nat.leb_le in B. apply Nat.eqb_eq in E.
  repeat split; auto.
Qed.
Print Assumptions C19_parsed_amount_is_the_text_of_the_element.

Example an_amount_with_a_multibyte_space_is_kept_as_it_stands :
  match parse_tag tag_Amount (bs "{2000}" ++ [xc2; xa0] ++ bs "00001234567") with
  | POk v => tv_elems v = [[xc2; xa0] ++ bs "0000123456"] | _ => False end
  /\ forallb is_digit ([xc2; xa0] ++ bs "0000123456") = false.
Proof. vm_compute. split; reflexivity. Qed.
