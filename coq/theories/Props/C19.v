(* C19 - The settlement amount is never altered, and zero only with subtype 90. *)
From Wire Require Import Base.Bytes Model.GoV Model.Message Theory.VerifyFacts Theory.VerifyProps.

Theorem C19_accepted_amount_is_numeric_and_fits : forall m, wf_msg m -> verify m = Accept ->
  exists a, amount_of m = Some a /\ a <> [] /\ forallb is_digit a = true /\ length a <= 12.
Proof. exact accepted_amount_shape. Qed.
Print Assumptions C19_accepted_amount_is_numeric_and_fits.

Theorem C19_zero_only_with_subtype_90 : forall m a, wf_msg m -> verify m = Accept ->
  amount_of m = Some a -> a <> [] -> forallb (beqb x30) a = true -> subtype_of m = Some (bs "90").
Proof. exact zero_amount_needs_subtype_90. Qed.
Print Assumptions C19_zero_only_with_subtype_90.
