(* C16 - the HTTP file store behaves as one linearizable map of files. *)
From Wire Require Import Base.Bytes Model.GoV Model.Message Model.Server Theory.ServerFacts.
From WireGen Require Import Handlers.

(* per-run obligations on the regenerated handler facts: the routes, one repository call per handler
   (add-message: getFile then saveFile, or a single call), every repository method under the mutex,
   handler and repository bodies still the text the model was written from *)
Definition expected_routes : list (string * string * string) :=
  [("GET", "/files", "getFiles"); ("POST", "/files/create", "createFile"); ("GET", "/files/{fileId}", "getFile");
   ("DELETE", "/files/{fileId}", "deleteFile"); ("GET", "/files/{fileId}/contents", "getFileContents");
   ("GET", "/files/{fileId}/validate", "validateFile"); ("POST", "/files/{fileId}/FEDWireMessage", "addFEDWireMessageToFile")]%string.

Definition route_eqb (a b : string * string * string) : bool :=
  let '(a1, a2, a3) := a in let '(b1, b2, b3) := b in String.eqb a1 b1 && String.eqb a2 b2 && String.eqb a3 b3.
Fixpoint routes_eqb (a b : list (string * string * string)) : bool :=
  match a, b with [], [] => true | x :: a', y :: b' => route_eqb x y && routes_eqb a' b' | _, _ => false end.

Definition calls_ok (p : string * list string) : bool :=
  let '(h, cs) := p in
  if String.eqb h "addFEDWireMessageToFile" then
    match cs with ["getFile"; "saveFile"] => true | [_] => true | _ => false end%string
  else match h, cs with
       | "getFiles", ["getFiles"] | "createFile", ["saveFile"] | "getFile", ["getFile"] | "deleteFile", ["deleteFile"]
       | "getFileContents", ["getFile"] | "validateFile", ["getFile"] => true
       | _, _ => false
       end%string.

Definition ob_c16 : bool :=
  routes_eqb routes expected_routes && forallb calls_ok handler_repo_calls && (length handler_repo_calls =? 7) &&
  forallb snd handler_recognised && repo_methods_locked && repo_bodies_recognised && get_file_id_recognised.

Theorem C16_handlers_are_as_modelled : ob_c16 = true.
Proof. vm_compute. reflexivity. Qed.
Print Assumptions C16_handlers_are_as_modelled.

(* the store is a map: create/replace, delete, get and list *)
Theorem C16_store_is_a_map :
  (forall s id m id', st_get (st_put s id m) id' = if bytes_eqb id id' then Some m else st_get s id') /\
  (forall s id id', st_get (st_del s id) id' = if bytes_eqb id id' then None else st_get s id') /\
  (forall s id, st_del (st_del s id) id = st_del s id) /\
  (forall s id, In id (map fst s) <-> st_get s id <> None) /\
  (forall ops, NoDup (map fst (ss_store (run_state init ops)))).
Proof.
  split; [exact get_after_put|]. split; [exact get_after_delete|]. split; [exact delete_idempotent|].
  split; [exact listed_iff_found|]. exact reachable_store_ok.
Qed.
Print Assumptions C16_store_is_a_map.

(* what get, list and delete answer, and that creating with an existing identifier replaces *)
Theorem C16_requests_answer_from_the_map :
  (forall st id, step st (OGet id) = (st, match st_get (ss_store st) id with Some m => ROkFile id m | None => RNotFound end)) /\
  (forall st, step st OList = (st, ROkList (map fst (ss_store st)))) /\
  (forall st id, exists st', step st (ODelete id) = (st', ROkPlain) /\ ss_store st' = st_del (ss_store st) id) /\
  (forall st id m st', id <> [] -> step st (OCreateMsg id m) = (st', RCreated id) ->
     forall id', st_get (ss_store st') id' = if bytes_eqb id id' then Some m else st_get (ss_store st) id').
Proof.
  split; [exact get_answers_map|]. split; [exact list_answers_map|]. split; [exact delete_answers|]. exact create_with_id_replaces.
Qed.
Print Assumptions C16_requests_answer_from_the_map.

(* any set of concurrent requests, any interleaving of their repository steps: the outcome is that of
   running them one at a time in the order lin of their repository calls. Stated for requests whose
   handler makes one repository call (all but add-message on this tree: see Findings/C16.v). *)
Theorem C16_concurrent_requests_linearize : forall st0 ops order,
  forallb atomic_op ops = true ->
  exists lin rs,
    NoDup lin /\ (forall i, In i lin -> i < length ops) /\
    run_sequential lin ops st0 [] = (fst (run_concurrent st0 ops order), rs) /\
    forall i o, nth_error ops i = Some o ->
      exists r, nth_error (snd (run_concurrent st0 ops order)) i = Some (TDone r) /\
        ((In i lin /\ In (i, r) rs) \/ (~ In i lin /\ forall fid st, step_with fid st o = (st, r))).
Proof. exact concurrent_requests_linearize. Qed.
Print Assumptions C16_concurrent_requests_linearize.

(* the hypothesis is met by every request kind except add-message *)
Example atomic_kinds : forall sk al body id m fmt nl,
  forallb atomic_op [OCreateText sk al body; OCreateMsg id m; OBadJSON; OGet id; OList; OContents id fmt nl; OValidate id; ODelete id] = true.
Proof. reflexivity. Qed.

(* ... in an order consistent with real time. Requests arrive (EStart) and take their repository step
   (EStep) in any interleaving. After any prefix es1 of the events and after any continuation es2: the
   store is the sequential run of the repository-call order (rt_inv: with every finished request's response
   being the one that run gives it); the order only grows at its end; and a request that has not yet
   arrived is not in it. Hence a request that finished before another arrived precedes it in the final order. *)
Theorem C16_linearization_respects_real_time : forall st0 ops es1 es2,
  forallb atomic_op ops = true ->
  let '(st1, ts1, lin1) := rt_run es1 st0 (map RNotStarted ops) [] in
  let '(st2, ts2, lin2) := rt_run es2 st1 ts1 lin1 in
  rt_inv st0 ops st1 ts1 lin1 /\ rt_inv st0 ops st2 ts2 lin2 /\
  (exists later, lin2 = lin1 ++ later) /\
  (forall j, (forall t, nth_error ts1 j = Some t -> rt_started t = false) -> ~ In j lin1).
Proof. exact concurrent_requests_linearize_in_real_time. Qed.
Print Assumptions C16_linearization_respects_real_time.
