(* C12 - Each validation option waives exactly one thing. *)
From Wire Require Import Base.Bytes Model.GoV Model.DL Model.Message Theory.VerifyFacts Theory.VerifyProps Spec.Rules.

(* with {1500} and {1520} present, every verdict is identical under all option values *)
Theorem C12_options_only_waive_presence : forall m o o', wf_msg m ->
  has m "SenderSupplied" -> has m "InputMessageAccountabilityData" ->
  (verify (with_opts m o) = Accept <-> verify (with_opts m o') = Accept).
Proof. exact options_irrelevant_when_tags_present. Qed.
Print Assumptions C12_options_only_waive_presence.

(* relaxing an option never turns an accepted message into a rejected one *)
Theorem C12_relaxing_is_monotone : forall m o o', wf_msg m -> opts_le o o' ->
  verify (with_opts m o) = Accept -> verify (with_opts m o') = Accept.
Proof. exact options_monotone. Qed.
Print Assumptions C12_relaxing_is_monotone.

(* the options decide exactly this: {1500} missing while required, or {1520} missing while required *)
Theorem C12_option_rules_meaning : forall tv m o,
  existsb (cube_holds tv (with_opts m o)) option_rules =
  (negb (allow_of o) && lacks m "SenderSupplied") || (negb (skip_of o) && lacks m "InputMessageAccountabilityData").
Proof. exact option_rules_meaning. Qed.
Print Assumptions C12_option_rules_meaning.

(* no option ever admits a malformed tag *)
Theorem C12_never_admits_malformed_tag : forall m o t, wf_msg m ->
  verify (with_opts m o) = Accept -> is_none (get_tag m t) = false -> tagv_of (with_opts m o) t = Accept.
Proof. intros m o t Hw. exact (accepted_tags_valid (with_opts m o) t Hw). Qed.
Print Assumptions C12_never_admits_malformed_tag.

(* the writer's mandatory check agrees with validation under every option value *)
Theorem C12_writer_applies_options_like_validation : forall m, wf_msg m ->
  verify m = Accept -> Model.Writer.writer_check m = Accept.
Proof. exact writer_never_refuses_valid. Qed.
Print Assumptions C12_writer_applies_options_like_validation.

(* the HTTP query parameters: each parameter switches its own option and nothing else; the model of
   validateOptsFromQuery is tied to the source by the obligation below and by stream l6-http *)
From Wire Require Model.Server.
From WireGen Require Handlers.

Definition param_on (v : option bytes) : bool :=
  match v with Some x => match Server.parse_bool x with Some true => true | _ => false end | None => false end.

Theorem C12_query_parameters_select_their_own_option : forall sk al,
  Handlers.validate_opts_recognised = true /\
  match Server.query_opts sk al with
  | Some (s, a) => s = param_on sk /\ a = param_on al /\ (s = true \/ a = true)
  | None => param_on sk = false /\ param_on al = false
  end.
Proof.
  intros sk al. split; [vm_compute; reflexivity|].
  unfold Server.query_opts. fold (param_on sk). fold (param_on al).
  destruct (param_on sk), (param_on al); cbn; auto.
Qed.
Print Assumptions C12_query_parameters_select_their_own_option.

(* per-run obligation on file.go and the read loop: File.SetValidation stores exactly the options it is
   given (nil is the only argument it ignores, so an all-false option set does replace an earlier one),
   the IncomingFile / OutgoingFile presets only set AllowMissingSenderSupplied, and the reader applies
   the options of ReadWithOpts after the message is assembled: the options a message is validated and
   written under are the ones last supplied. Stream l5-props (options-routes-agree) is the search. *)
From WireGen Require Reader.
Theorem C12_last_supplied_options_are_the_ones_used :
  Reader.file_presets_ok = true /\ Reader.read_loop_recognised = true /\ Reader.read_entry_points_ok = true.
Proof. vm_compute. repeat split; reflexivity. Qed.
Print Assumptions C12_last_supplied_options_are_the_ones_used.
