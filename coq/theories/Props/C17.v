(* C17 - HTTP endpoints are faithful wrappers of the library. The model's handlers are compositions of
   the library models (reader, validation, writer); the tie to cmd/server is the regenerated handler
   facts below and the l6 correspondence streams. *)
From Wire Require Import Base.Bytes Model.GoV Model.Message Model.Writer Model.Reader Model.Server Theory.ServerFacts.
From WireGen Require Import Handlers.

Definition ob_c17 : bool :=
  forallb snd handler_recognised && (length handler_recognised =? 7) && get_writer_recognised && validate_opts_recognised && get_file_id_recognised.

Theorem C17_handlers_are_as_modelled : ob_c17 = true.
Proof. vm_compute. reflexivity. Qed.
Print Assumptions C17_handlers_are_as_modelled.

(* create answers 201 exactly when the library accepts the body, and stores what the library produced *)
Theorem C17_create_text_faithful : forall st skip allow body,
  match read_model None (query_opts skip allow) [body] FEOF with
  | ROk m => exists id st', step st (OCreateText skip allow body) = (st', RCreated id) /\ st_get (ss_store st') id = Some m
  | RErrors _ => step st (OCreateText skip allow body) = (st, RBad)
  end.
Proof. exact create_text_faithful. Qed.
Print Assumptions C17_create_text_faithful.

Theorem C17_create_json_faithful : forall st id m,
  match verify m with
  | Accept => exists id' st', step st (OCreateMsg id m) = (st', RCreated id') /\ st_get (ss_store st') id' = Some m /\ (id <> [] -> id' = id)
  | _ => step st (OCreateMsg id m) = (st, RBad)
  end.
Proof. exact create_json_faithful. Qed.
Print Assumptions C17_create_json_faithful.

(* validate answers 200 exactly when library validation accepts the stored file *)
Theorem C17_validate_faithful : forall st id m,
  st_get (ss_store st) id = Some m ->
  snd (step st (OValidate id)) = match verify m with Accept => ROkPlain | _ => RBad end.
Proof. exact validate_endpoint_faithful. Qed.
Print Assumptions C17_validate_faithful.

(* every file stored by any history of requests (create, add-message, delete, ...) is valid *)
Theorem C17_stored_files_are_valid : forall ops, Forall wf_op ops ->
  forall id m, st_get (ss_store (run_state init ops)) id = Some m -> wf_msg m /\ verify m = Accept.
Proof. intros ops H. exact (reachable_stored_valid ops H). Qed.
Print Assumptions C17_stored_files_are_valid.

(* ... so validate answers 200 for it and contents is exactly the library writer's output, in every layout *)
Theorem C17_stored_file_validates_and_renders : forall ops id m fmt nl variable sep,
  Forall wf_op ops -> st_get (ss_store (run_state init ops)) id = Some m -> writer_params fmt nl = Some (variable, sep) ->
  snd (step (run_state init ops) (OValidate id)) = ROkPlain /\
  exists t, write_model m variable sep = WOk t /\ snd (step (run_state init ops) (OContents id fmt nl)) = ROkBody t.
Proof.
  intros ops id m fmt nl variable sep Hf Hg Hp.
  exact (stored_file_validates_and_renders _ id m fmt nl variable sep (reachable_stored_valid ops Hf) Hg Hp).
Qed.
Print Assumptions C17_stored_file_validates_and_renders.
