(* C09 - Parse result independent of segment order (proved here); independence of separators and of
   chunking is exercised by the correspondence and property streams (see MANIFEST level_note). *)
From Coq Require Import Permutation.
From Wire Require Import Base.Bytes Model.GoV Model.Reader Theory.ReaderFacts.

Theorem C09_order_of_distinct_segments_irrelevant : forall as1 as2 tgs,
  Permutation as1 as2 -> NoDup (map fst as1) -> assign_all as1 tgs = assign_all as2 tgs.
Proof. exact assignment_order_irrelevant. Qed.
Print Assumptions C09_order_of_distinct_segments_irrelevant.

Theorem C09_read_loop_is_assignment : forall lines ln tgs asg,
  results_of lines ln = Some asg -> read_lines lines ln tgs [] = (assign_all asg tgs, []).
Proof. exact read_lines_ok. Qed.
Print Assumptions C09_read_loop_is_assignment.
