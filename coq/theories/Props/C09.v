(* C09 - Parse result independent of segment order, of the chunking of the stream, of the separator and of
   the runs of line breaks around the segments (all proved here; the streams tie the models to the code). *)
From Coq Require Import Permutation.
From Wire Require Import Base.Bytes Model.GoV Model.Reader Theory.ReaderFacts.

Theorem C09_order_of_distinct_segments_irrelevant : forall as1 as2 tgs,
  Permutation as1 as2 -> NoDup (map fst as1) -> assign_all as1 tgs = assign_all as2 tgs.
Proof. exact assignment_order_irrelevant. Qed.
Print Assumptions C09_order_of_distinct_segments_irrelevant.

Theorem C09_read_loop_is_assignment : forall lines ln tgs asg,
  results_of lines ln = Some asg -> read_lines lines ln tgs [] = (assign_all asg tgs, []).
Proof. exact read_lines_ok. Qed.
Print Assumptions C09_read_loop_is_assignment.

(* chunking: however the source delivers the same bytes - any number of reads of any sizes - the
   scanner's tokens and stop status, hence the whole result of the read, are the same. The scanner
   model (buffer growth, 64 KiB limit, sticky status) refines a reference tokenizer of the whole stream. *)
From Wire Require Import Theory.ScanSpec.

Theorem C09_scanner_is_the_reference_tokenizer : forall chunks final,
  scan chunks final = tokens_ref (S (length (concat chunks))) (concat chunks) final [].
Proof. exact scan_is_reference. Qed.
Print Assumptions C09_scanner_is_the_reference_tokenizer.

Theorem C09_chunking_irrelevant : forall preset opts chunks1 chunks2 final,
  concat chunks1 = concat chunks2 -> read_model preset opts chunks1 final = read_model preset opts chunks2 final.
Proof. exact read_chunking_irrelevant. Qed.
Print Assumptions C09_chunking_irrelevant.

(* non-vacuity: two different chunkings of one stream *)
Example two_chunkings : concat [bs "{1500}30"; bs "User ReqT "] = concat [bs "{15"; bs "00}30User"; bs " ReqT "].
Proof. reflexivity. Qed.

(* separators: a text of well-formed segments (each starts with a marker, holds no other '{' and no line
   break - what the writer emits for FAIM values) joined by nothing, LF or CRLF is cut into exactly those
   segments, so the read depends on the segments alone: not on the separator, not on the chunking *)
From Wire Require Import Theory.Segments.

Theorem C09_read_depends_on_segments_only : forall preset opts sep lines chunks final,
  sep_ok sep -> forallb seg_ok lines = true -> length (text_of sep lines) < max_token ->
  concat chunks = text_of sep lines ->
  read_model preset opts chunks final = read_segments preset opts lines final.
Proof. exact read_of_segments. Qed.
Print Assumptions C09_read_depends_on_segments_only.

Theorem C09_separator_irrelevant : forall preset opts lines sep1 sep2 chunks1 chunks2 final,
  sep_ok sep1 -> sep_ok sep2 -> forallb seg_ok lines = true ->
  length (text_of sep1 lines) < max_token -> length (text_of sep2 lines) < max_token ->
  concat chunks1 = text_of sep1 lines -> concat chunks2 = text_of sep2 lines ->
  read_model preset opts chunks1 final = read_model preset opts chunks2 final.
Proof. exact separator_irrelevant. Qed.
Print Assumptions C09_separator_irrelevant.

Example a_well_formed_segment : seg_ok (bs "{1510}1000") = true /\ sep_ok [x0d; x0a].
Proof. split; [reflexivity|right; right; reflexivity]. Qed.

(* line breaks in general: before the first segment and after every segment the text may hold any run of
   line breaks (any concatenation of LF and CRLF, a different run each time, none included): doubled
   separators, blank lines and mixed LF / CRLF texts read like the plain text *)
From Wire Require Import Theory.SegmentsGen.

Theorem C09_line_breaks_irrelevant : forall preset opts lead1 lead2 pairs1 pairs2 chunks1 chunks2 final,
  map fst pairs1 = map fst pairs2 ->
  break_run lead1 = true -> break_run lead2 = true ->
  forallb pair_ok pairs1 = true -> forallb pair_ok pairs2 = true ->
  length (lead1 ++ text2 pairs1) < max_token -> length (lead2 ++ text2 pairs2) < max_token ->
  concat chunks1 = lead1 ++ text2 pairs1 -> concat chunks2 = lead2 ++ text2 pairs2 ->
  read_model preset opts chunks1 final = read_model preset opts chunks2 final.
Proof. exact line_breaks_irrelevant. Qed.
Print Assumptions C09_line_breaks_irrelevant.

Example a_text_with_blank_lines :
  pair_ok (bs "{1510}1000", [x0a; x0d; x0a; x0a]) = true /\ break_run [x0d; x0a; x0a] = true /\ break_run [x0d] = false.
Proof. repeat split; reflexivity. Qed.
