(* C18 - handlers fail closed and do not leak between requests. The data-race part of the property
   lives in the Go memory model, which this model cannot exhibit: it is decided by running the real
   router under the race detector (stream l6-conc). What is logic is proved here: every response
   carries a documented status, no handler or helper writes state shared between requests outside the
   repository mutex (no captured variable, no package-level variable), and a request's logging context holds its own identifiers only. *)
From Wire Require Import Base.Bytes Model.GoV Model.Message Model.Writer Model.Reader Model.Server Theory.ServerFacts.
From WireGen Require Import Handlers.

Definition ob_c18 : bool :=
  match captured_assignments with [] => true | _ => false end &&
  match package_var_writes with [] => true | _ => false end &&
  get_writer_recognised && validate_opts_recognised && get_file_id_recognised &&
  repo_methods_locked && forallb snd handler_recognised && (length handler_recognised =? 7) &&
  forallb (fun s => String.eqb s "http.StatusCreated" || String.eqb s "http.StatusOK") success_statuses.

Theorem C18_no_shared_writes_outside_the_mutex : ob_c18 = true.
Proof. vm_compute. reflexivity. Qed.
Print Assumptions C18_no_shared_writes_outside_the_mutex.

Theorem C18_documented_statuses : forall fid st o, In (status_of (snd (step_with fid st o))) [200; 201; 400; 404].
Proof.
  intros fid st o. destruct o; cbn [step_with].
  - destruct (read_model _ _ _ _); cbn; auto.
  - destruct (verify m); cbn; auto. destruct id; cbn; auto.
  - cbn; auto.
  - destruct (st_get _ _); cbn; auto.
  - cbn; auto.
  - destruct (st_get _ _); cbn; auto. destruct (writer_params _ _) as [[v s]|]; cbn; auto. destruct (write_model _ _ _); cbn; auto.
  - destruct (st_get _ _); cbn; auto. destruct (verify m); cbn; auto.
  - destruct (st_get _ _); cbn; auto. destruct (verify m); cbn; auto.
  - cbn; auto.
Qed.
Print Assumptions C18_documented_statuses.

(* concurrent requests too: a finished thread's response has a documented status *)
Theorem C18_documented_statuses_concurrent : forall fid st t st' r,
  grant fid st t = (st', TDone r) -> (forall r0, t = TDone r0 -> In (status_of r0) [200; 201; 400; 404]) ->
  In (status_of r) [200; 201; 400; 404].
Proof.
  intros fid st t st' r H Hd. destruct t as [o|id m|r0].
  - destruct (atomic_op o) eqn:A.
    + rewrite (grant_atomic fid st o A) in H. injection H as _ <-. apply C18_documented_statuses.
    + destruct o; try discriminate A. cbn [atomic_op] in A. cbn [grant] in H. rewrite A in H.
      destruct (st_get _ _); [|injection H as _ <-; cbn; auto].
      destruct (verify m); try discriminate H; injection H as _ <-; cbn; auto.
  - cbn [grant] in H. injection H as _ <-. cbn; auto.
  - cbn [grant] in H. injection H as _ <-. apply Hd. reflexivity.
Qed.
Print Assumptions C18_documented_statuses_concurrent.

(* a request's logging context is the route's base context plus its own identifiers: nothing of any
   earlier request, and nothing accumulates *)
Theorem C18_logging_context_is_per_request : forall base rs,
  log_contexts logger_shared base rs = map (fun r => base ++ ids_of r) rs.
Proof. intros base rs. change logger_shared with false. apply log_contexts_private. Qed.
Print Assumptions C18_logging_context_is_per_request.
