(* C14 - JSON round trip preserves the message, with the published element names. *)
From Wire Require Import Base.Bytes Model.GoV Model.Codec Model.Message Model.Writer Model.Json Theory.JsonFacts.
From WireGen Require Import Tags Json.

(* per-run obligation: within each tag the element names are distinct, the tag names are distinct,
   every UnmarshalJSON goes through an alias type and restores the tag's own marker constant *)
Theorem C14_names_usable : ob_json_names = true.
Proof. vm_compute. reflexivity. Qed.
Print Assumptions C14_names_usable.

(* encoding any message and loading it back: same tags present, same element values; absent tags stay
   absent (null or omitted), present-but-empty tags stay present ({}); the marker is the tag's own *)
Theorem C14_json_round_trip : forall m, wf_msg m -> all_wf tags (m_tags m) ->
  m_tags (decode_msg (encode_msg m) (m_opts m)) = normal_tags tags (m_tags m).
Proof. exact (json_round_trip C14_names_usable). Qed.
Print Assumptions C14_json_round_trip.

(* hence, for messages whose markers are the tags' own: the same message, so the same verdict and the same text *)
Theorem C14_same_verdict_and_text : forall m, wf_msg m -> all_wf tags (m_tags m) -> canonical_markers m ->
  let m' := decode_msg (encode_msg m) (m_opts m) in
  m' = m /\ verify m' = verify m /\ forall variable nl, write_model m' variable nl = write_model m variable nl.
Proof.
  intros m Hw Hwf Hc m'. assert (E : m' = m) by (apply (json_round_trip_exact C14_names_usable); assumption).
  rewrite E. auto.
Qed.
Print Assumptions C14_same_verdict_and_text.

(* the published names: for every element of the message object outside the recorded list below, the
   server's element paths are exactly those of the generated client models and of the OpenAPI document *)
Definition recorded_disagreements : list string :=
  ["previousMessageIdentifier"; "localInstrument"; "beneficiaryIntermediaryFI"; "beneficiaryFI"; "accountDebitedDrawdown";
   "originatorFI"; "instructingFI"; "fiReceiverFI"; "fiDrawdownDebitAccountAdvice"; "fiIntermediaryFI"; "fiIntermediaryFIAdvice";
   "fiBeneficiaryFI"; "fiBeneficiaryFIAdvice"; "fiBeneficiary"; "fiBeneficiaryAdvice"; "fiPaymentMethodToBeneficiary";
   "fiAdditionalFiToFi"; "orderingCustomer"; "orderingInstitution"; "intermediaryInstitution"; "institutionAccount";
   "beneficiaryCustomer"; "remittance"; "senderToReceiver"; "relatedRemittance"; "remittanceOriginator"; "remittanceBeneficiary";
   "actualAmountPaid"; "grossAmountRemittanceDocument"; "amountNegotiatedDiscount"; "adjustment"]%string.

Definition ob_names_agree : bool :=
  client_models_read && openapi_read &&
  forallb (fun n => existsb (String.eqb n) recorded_disagreements || (agrees_with client_paths n && agrees_with openapi_paths n))
          (map fst server_paths).

Theorem C14_published_names_agree : forall n, In n (map fst server_paths) -> ~ In n recorded_disagreements ->
  agrees_with client_paths n = true /\ agrees_with openapi_paths n = true.
Proof.
  assert (H : ob_names_agree = true) by (vm_compute; reflexivity).
  intros n Hin Hnot. unfold ob_names_agree in H. apply andb_true_iff in H as [_ H]. rewrite forallb_forall in H.
  specialize (H n Hin). apply orb_true_iff in H as [H|H].
  - exfalso. apply Hnot. apply existsb_exists in H as (x & Hx & E). apply String.eqb_eq in E. subst. exact Hx.
  - apply andb_true_iff in H. exact H.
Qed.
Print Assumptions C14_published_names_agree.

(* element by element, for every tag (the tags recorded above included; only the four elements whose own
   name is spelled differently are excepted, they belong to the same recorded finding): a server element and the client
   model's element held in the same Go field path carry the same JSON path, so a value encoded by one side
   lands in the same element on the other side; exchanging two names inside a tag keeps the set of names
   and is caught here *)
Definition recorded_element_disagreements : list (string * string) :=
  [("previousMessageIdentifier", "PreviousMessageIdentifier"); ("localInstrument", "LocalInstrumentCode");
   ("fiPaymentMethodToBeneficiary", "AdditionalInformation"); ("relatedRemittance", "RemittanceLocationElectronicAddress")]%string.

Definition ob_names_elementwise : bool :=
  client_models_read && forallb (elementwise_agree recorded_element_disagreements client_fields) (map fst server_fields).

Theorem C14_same_field_same_name : forall tag selems celems gopath js jc,
  In (tag, selems) server_fields -> NoDup (map fst server_fields) ->
  In (tag, celems) client_fields -> NoDup (map fst client_fields) ->
  In (gopath, js) selems -> In (gopath, jc) celems -> NoDup (map fst celems) ->
  ~ In (tag, gopath) recorded_element_disagreements ->
  js = jc.
Proof.
  assert (H : ob_names_elementwise = true) by (vm_compute; reflexivity).
  unfold ob_names_elementwise in H. apply andb_true_iff in H as [_ H]. exact (elementwise_sound recorded_element_disagreements client_fields H).
Qed.
Print Assumptions C14_same_field_same_name.

(* and the message object itself: the tag held in FEDWireMessage field G and the client model's member held in
   its field G (names compared without case) carry the same JSON name - exchanging the names of two tags of the
   same shape keeps the set of names and the library's own round trip *)
Definition recorded_tag_name_disagreements : list string := ["fiadditionalfitofi"%string].  (* fiAdditionalFiToFi / fiAdditionalFIToFI *)

Theorem C14_same_tag_same_name : forall g js jc,
  In (g, js) server_msg_names -> In (g, jc) client_msg_names -> NoDup (map fst client_msg_names) ->
  ~ In g recorded_tag_name_disagreements -> js = jc.
Proof.
  assert (H : msg_names_agree recorded_tag_name_disagreements server_msg_names client_msg_names = true) by (vm_compute; reflexivity).
  exact (msg_names_sound recorded_tag_name_disagreements server_msg_names client_msg_names H).
Qed.
Print Assumptions C14_same_tag_same_name.

Example tag_names_not_vacuous :
  nodup_strings (map fst client_msg_names) = true /\ shared_msg_names server_msg_names client_msg_names = 60.
Proof. vm_compute. split; reflexivity. Qed.

Example elementwise_not_vacuous :
  nodup_strings (map fst server_fields) = true /\ nodup_strings (map fst client_fields) = true /\
  forallb (fun ce => nodup_strings (map fst (snd ce))) client_fields = true /\ shared_fields client_fields = 180.
Proof. vm_compute. repeat split; reflexivity. Qed.

(* 60 elements, 29 of them outside the list: the statement is not vacuous *)
Example names_checked : length (map fst server_paths) = 60 /\ length recorded_disagreements = 31.
Proof. vm_compute. split; reflexivity. Qed.
