(* C02, element level: what the two element readers of converters.go can hand back. Every value is within
   the element's width; it is trimmed (no white space at either end) - except that a variable-length
   element longer than its width is cut after trimming, and the cut may end in a blank. That exception is
   exactly the recorded finding (Findings/C02.v); everything else the reader returns is canonical as soon
   as validation has accepted its characters. *)
From Wire Require Import Base.Bytes Model.Converters Model.Layout Theory.BytesFacts.

Definition head_ok (x : bytes) : Prop := match x with [] => True | b :: _ => is_ascii_ws b = false end.

Lemma trim_left_head : forall n s, length s <= n -> head_ok (trim_left s).
Proof.
  induction n as [|n IH]; intros s Hl.
  - destruct s; [exact I|cbn in Hl; lia].
  - destruct s as [|b t]; [exact I|]. cbn [trim_left]. cbn [length] in Hl.
    destruct (is_ascii_ws b) eqn:Eb; [apply IH; lia|].
    destruct t as [|c1 t1]; [exact Eb|].
    destruct (ws2 b c1); [apply IH; cbn [length] in Hl; lia|].
    destruct t1 as [|c2 t2]; [exact Eb|].
    destruct (ws3 b c1 c2); [apply IH; cbn [length] in Hl; lia|exact Eb].
Qed.

Lemma trim_left_rev_head : forall n s, length s <= n -> head_ok (trim_left_rev s).
Proof.
  induction n as [|n IH]; intros s Hl.
  - destruct s; [exact I|cbn in Hl; lia].
  - destruct s as [|b t]; [exact I|]. cbn [trim_left_rev]. cbn [length] in Hl.
    destruct (is_ascii_ws b) eqn:Eb; [apply IH; lia|].
    destruct t as [|c1 t1]; [exact Eb|].
    destruct (ws2 c1 b); [apply IH; cbn [length] in Hl; lia|].
    destruct t1 as [|c2 t2]; [exact Eb|].
    destruct (ws3 c2 c1 b); [apply IH; cbn [length] in Hl; lia|exact Eb].
Qed.

Lemma trim_left_suffix : forall n s, length s <= n -> exists p, s = p ++ trim_left s.
Proof.
  induction n as [|n IH]; intros s Hl.
  - destruct s; [exists []; reflexivity|cbn in Hl; lia].
  - destruct s as [|b t]; [exists []; reflexivity|]. cbn [trim_left]. cbn [length] in Hl.
    destruct (is_ascii_ws b).
    { destruct (IH t ltac:(lia)) as [p Hp]. exists (b :: p). cbn [app]. f_equal. exact Hp. }
    destruct t as [|c1 t1]; [exists []; reflexivity|].
    destruct (ws2 b c1).
    { destruct (IH t1 ltac:(cbn [length] in Hl; lia)) as [p Hp]. exists (b :: c1 :: p). cbn [app]. do 2 f_equal. exact Hp. }
    destruct t1 as [|c2 t2]; [exists []; reflexivity|].
    destruct (ws3 b c1 c2); [|exists []; reflexivity].
    destruct (IH t2 ltac:(cbn [length] in Hl; lia)) as [p Hp]. exists (b :: c1 :: c2 :: p). cbn [app]. do 3 f_equal. exact Hp.
Qed.

Lemma trim_left_rev_suffix : forall n s, length s <= n -> exists p, s = p ++ trim_left_rev s.
Proof.
  induction n as [|n IH]; intros s Hl.
  - destruct s; [exists []; reflexivity|cbn in Hl; lia].
  - destruct s as [|b t]; [exists []; reflexivity|]. cbn [trim_left_rev]. cbn [length] in Hl.
    destruct (is_ascii_ws b).
    { destruct (IH t ltac:(lia)) as [p Hp]. exists (b :: p). cbn [app]. f_equal. exact Hp. }
    destruct t as [|c1 t1]; [exists []; reflexivity|].
    destruct (ws2 c1 b).
    { destruct (IH t1 ltac:(cbn [length] in Hl; lia)) as [p Hp]. exists (b :: c1 :: p). cbn [app]. do 2 f_equal. exact Hp. }
    destruct t1 as [|c2 t2]; [exists []; reflexivity|].
    destruct (ws3 c2 c1 b); [|exists []; reflexivity].
    destruct (IH t2 ltac:(cbn [length] in Hl; lia)) as [p Hp]. exists (b :: c1 :: c2 :: p). cbn [app]. do 3 f_equal. exact Hp.
Qed.

(* trim_right keeps a prefix whose last byte is not white space *)
Lemma trim_right_prefix x : exists q, x = trim_right x ++ q.
Proof.
  unfold trim_right. destruct (trim_left_rev_suffix (length (rev x)) (rev x) (le_n _)) as [p Hp].
  exists (rev p). rewrite <- rev_app_distr, <- Hp. symmetry. apply rev_involutive.
Qed.

Lemma last_rev_head (R : bytes) d : R <> [] -> last (rev R) d = hd d R.
Proof. destruct R as [|a r]; [contradiction|]. intros _. cbn [rev hd]. apply last_last. Qed.

Lemma trim_space_trimmed s : trimmed (trim_space s) = true.
Proof.
  unfold trim_space. set (x := trim_left s).
  pose proof (trim_left_head (length s) s (le_n _)) as Hx. fold x in Hx.
  destruct (trim_right_prefix x) as [q Hq].
  unfold trim_right in *. set (R := trim_left_rev (rev x)) in *.
  pose proof (trim_left_rev_head (length (rev x)) (rev x) (le_n _)) as HR. fold R in HR.
  destruct (rev R) as [|b t] eqn:ER; [reflexivity|].
  unfold trimmed. rewrite <- ER.
  assert (Hb : is_ascii_ws b = false).
  { rewrite Hq in Hx. cbn [app] in Hx. exact Hx. }
  rewrite Hb. cbn [negb andb].
  assert (Rne : R <> []) by (intros E; rewrite E in ER; discriminate ER).
  rewrite (last_rev_head R b Rne). destruct R as [|a r]; [contradiction|]. cbn [hd]. cbn in HR. rewrite HR. reflexivity.
Qed.

Lemma trim_space_shorter s : length (trim_space s) <= length s.
Proof.
  unfold trim_space. destruct (trim_left_suffix (length s) s (le_n _)) as [p Hp].
  destruct (trim_right_prefix (trim_left s)) as [q Hq].
  rewrite Hp at 2. rewrite Hq at 2. rewrite !app_length. lia.
Qed.

(* parseFixedStringField: within width, trimmed *)
Theorem parse_fixed_value r mx got rd :
  parse_fixed r mx = (got, rd, None) -> length got <= mx /\ trimmed got = true.
Proof.
  unfold parse_fixed. destruct r as [|b t]; [intros H; injection H as <- _; split; [cbn; lia|reflexivity]|].
  set (size0 := match index_byte lbrace (b :: t), index_byte delim (b :: t) with
                | None, None => length (b :: t) | Some a, None => a | None, Some c => c | Some a, Some c => Nat.max a c end).
  destruct (mx <? size0) eqn:E1.
  - intros H. injection H as <- _. split; [|apply trim_space_trimmed].
    etransitivity; [apply trim_space_shorter|]. rewrite firstn_length. lia.
  - destruct (size0 <? mx) eqn:E2; [discriminate|].
    intros H. injection H as <- _. split; [|apply trim_space_trimmed].
    apply Nat.ltb_ge in E1, E2. etransitivity; [apply trim_space_shorter|]. rewrite firstn_length. lia.
Qed.

(* parseVariableStringField: within width; trimmed unless it was cut *)
Theorem parse_variable_value r mx got rd :
  parse_variable r mx = (got, rd, None) ->
  length got <= mx /\
  (trimmed got = true \/ exists full, trimmed full = true /\ mx < length full /\ got = firstn mx full).
Proof.
  unfold parse_variable. destruct r as [|b t]; [intros H; injection H as <- _; split; [cbn; lia|left; reflexivity]|].
  destruct (index_byte delim (b :: t)) as [i|]; [|discriminate].
  set (g0 := trim_space (firstn i (b :: t))).
  set (g1 := if bytes_eqb g0 [delim] then [] else g0).
  assert (T1 : trimmed g1 = true).
  { unfold g1. destruct (bytes_eqb g0 [delim]); [reflexivity|apply trim_space_trimmed]. }
  destruct (mx <? length g1) eqn:E; intros H; injection H as <- _.
  - apply Nat.ltb_lt in E. split; [rewrite firstn_length; lia|]. right. exists g1. auto.
  - apply Nat.ltb_ge in E. split; [exact E|left; exact T1].
Qed.

(* the exception is real: a cut that ends in a blank *)
Example cut_leaves_a_blank :
  parse_variable (bs "AB CD*") 3 = (bs "AB ", 6, None) /\ trimmed (bs "AB ") = false.
Proof. split; reflexivity. Qed.

(* ---- lifted to whole tags: every element a Parse program hands back ---- *)
From Wire Require Import Model.GoV Model.Codec.

Definition val_ok (x : bytes) : Prop :=
  trimmed x = true \/ exists full mx, trimmed full = true /\ mx < length full /\ x = firstn mx full.

(* the steps that store only trimmed (or cut) values; raw fixed-position slices, the {8200} length and the
   right-justified FED fields are excluded *)
Definition step_trims (s : pstep) : bool :=
  match s with
  | PGuard _ _ | PTag _ | PSetLen _ | PFixed _ _ _ | PVar _ _ _ | PNeed _ _ | PVerifyLen | PUnsupported _ => true
  | PSlice _ _ _ t => t
  | PDyn _ _ t => t
  | PAlphaTail _ _ | PAddenda _ _ => false
  end.

Lemma set_nth_ok e x : forall vals, val_ok x -> Forall val_ok vals -> Forall val_ok (set_nth e x vals).
Proof.
  induction e as [|e IH]; intros [|y t] Hx Hv; cbn [set_nth]; try constructor; inversion Hv; subst; auto.
Qed.

Lemma trimmed_ok x : trimmed x = true -> val_ok x.
Proof. left. assumption. Qed.

Theorem run_parse_values steps : forallb step_trims steps = true -> forall rec cur mk vals v,
  Forall val_ok vals -> run_parse steps rec cur mk vals = POk v -> Forall val_ok (tv_elems v).
Proof.
  induction steps as [|st rest IH]; intros Hs rec cur mk vals v Hv H; cbn [run_parse] in H.
  - injection H as <-. exact Hv.
  - cbn [forallb] in Hs. apply andb_true_iff in Hs as [Hst Hrest]. specialize (IH Hrest).
    destruct st; cbn [step_trims] in Hst; try discriminate Hst.
    + destruct (match c with CLt => _ | CNe => _ end); [discriminate H|]. eapply IH; eassumption.
    + destruct (slice rec 0 6); [|discriminate H]. eapply IH; eassumption.
    + subst trim. destruct (slice rec (nn a) (nn b)); [|discriminate H].
      eapply IH; [|exact H]. apply set_nth_ok; [apply trimmed_ok, trim_space_trimmed|exact Hv].
    + eapply IH; eassumption.
    + destruct (slice_from rec cur) as [l|]; [|discriminate H].
      destruct (parse_fixed l (nn w)) as [[got rd] [err|]] eqn:Ep; [discriminate H|].
      eapply IH; [|exact H]. apply set_nth_ok; [|exact Hv]. apply trimmed_ok. apply (parse_fixed_value _ _ _ _ Ep).
    + destruct (slice_from rec cur) as [l|]; [|discriminate H].
      destruct (parse_variable l (nn w)) as [[got rd] [err|]] eqn:Ep; [discriminate H|].
      eapply IH; [|exact H]. apply set_nth_ok; [|exact Hv].
      destruct (parse_variable_value _ _ _ _ Ep) as [_ [Ht|(full & T & L & E)]]; [left; exact Ht|right; exists full, (nn w); auto].
    + destruct (length rec <? cur + nn k); [discriminate H|]. eapply IH; eassumption.
    + subst trim. destruct (slice rec cur (cur + nn k)); [|discriminate H].
      eapply IH; [|exact H]. apply set_nth_ok; [apply trimmed_ok, trim_space_trimmed|exact Hv].
    + destruct (verify_read_length rec cur); [|discriminate H]. eapply IH; eassumption.
    + discriminate H.
Qed.

Theorem parse_tag_values d rec v : forallb step_trims (t_parse d) = true ->
  parse_tag d rec = POk v -> Forall val_ok (tv_elems v).
Proof.
  intros Hs H. unfold parse_tag in H. refine (run_parse_values _ Hs _ _ _ _ _ _ H).
  apply Forall_forall. intros x Hx. apply in_map_iff in Hx as (e & <- & _). left. reflexivity.
Qed.

(* ---- lifted to the reader: every tag of an accepted message is what its own Parse returned for one of
   the segments, so its element values have the shape above ---- *)
From Wire Require Import Model.Message Model.Reader Theory.ReaderFacts Theory.DispatchFacts.
From WireGen Require Import Tags Reader.

Definition from_parse (tgs : list (option tagval)) : Prop :=
  forall i v, nth i tgs None = Some v -> exists line, parse_tag (nth i tags tag_Amount) line = POk v.

Lemma lookup_marker_in mk l e : lookup_marker mk l = Some e -> exists k, In (k, e) l.
Proof.
  induction l as [|[k v] r IH]; cbn [lookup_marker]; [discriminate|].
  destruct (bytes_eqb mk k); [intros H; injection H as <-; exists k; left; reflexivity|].
  intros H. destruct (IH H) as [k' Hk]. exists k'. right. exact Hk.
Qed.

Lemma parse_line_from_parse l ln fi v : ob_dispatch_arms = true ->
  parse_line l ln = inr (fi, v) -> parse_tag (nth fi tags tag_Amount) l = POk v.
Proof.
  intros Hob. unfold parse_line. destruct (rune_count l <? 6); [discriminate|].
  destruct (lookup_marker (firstn 6 l) dispatch) as [[[[ti fi'] label] val]|] eqn:El; [|discriminate].
  destruct (lookup_marker_in _ _ _ El) as [k Hin].
  unfold ob_dispatch_arms in Hob. rewrite forallb_forall in Hob. specialize (Hob _ Hin). unfold arm_ok in Hob.
  repeat (apply andb_true_iff in Hob as [Hob ?]). apply Nat.eqb_eq in Hob. subst fi'.
  destruct (parse_tag (nth ti tags tag_Amount) l) as [v'|f e| |] eqn:Ep; try discriminate.
  destruct val.
  - destruct (validate_alone ti v'); try discriminate. intros E. injection E as <- <-. exact Ep.
  - intros E. injection E as <- <-. exact Ep.
Qed.

Lemma read_lines_from_parse : ob_dispatch_arms = true -> forall lines ln tgs errs,
  from_parse tgs -> from_parse (fst (read_lines lines ln tgs errs)).
Proof.
  intros Hob. induction lines as [|l r IH]; intros ln tgs errs Hp; cbn [read_lines]; [exact Hp|].
  destruct (parse_line l (S ln)) as [e|[fi v]] eqn:El; [apply IH; exact Hp|].
  apply IH. intros i w Hi. rewrite nth_set_tag in Hi.
  destruct ((i =? fi) && (fi <? length tgs)) eqn:E.
  - apply andb_true_iff in E as [E _]. apply Nat.eqb_eq in E. subst i. injection Hi as <-.
    exists l. apply (parse_line_from_parse l (S ln) fi v Hob El).
  - apply Hp. exact Hi.
Qed.

Lemma nth_all_none (l : list tagdesc) : forall i, nth i (map (fun _ => (None : option tagval)) l) None = None.
Proof. induction l as [|x r IH]; intros [|i]; cbn; auto. Qed.

Lemma empty_from_parse : from_parse empty_tags.
Proof. intros i v H. unfold empty_tags in H. rewrite nth_all_none in H. discriminate H. Qed.

Theorem accepted_tags_come_from_parse preset opts chunks final m : ob_dispatch_arms = true ->
  read_model preset opts chunks final = ROk m -> from_parse (m_tags m).
Proof.
  intros Hob. unfold read_model. destruct (scan chunks final) as [toks stop].
  pose proof (read_lines_from_parse Hob (flat_map sublines toks) 0 empty_tags [] empty_from_parse) as Hp.
  destruct (read_lines (flat_map sublines toks) 0 empty_tags []) as [tgs errs]. cbn [fst] in Hp.
  destruct (match stop with Some e => errs ++ [RScanner e] | None => errs end); [|discriminate].
  destruct (verify _); try discriminate. intros H. injection H as <-. exact Hp.
Qed.

Theorem accepted_values preset opts chunks final m : ob_dispatch_arms = true ->
  read_model preset opts chunks final = ROk m ->
  forall i v, nth i (m_tags m) None = Some v ->
  forallb step_trims (t_parse (nth i tags tag_Amount)) = true -> Forall val_ok (tv_elems v).
Proof.
  intros Hob Hr i v Hi Hs. destruct (accepted_tags_come_from_parse preset opts chunks final m Hob Hr i v Hi) as [line Hp].
  exact (parse_tag_values _ line v Hs Hp).
Qed.

(* ---- all 60 tags, no side condition on the Parse program: every element a tag's Parse hands back is a
   trimmed value, the cut of a trimmed over-width value, a contiguous slice of the segment that was read
   (raw fixed-position elements, the {8200} length), or parseAlphaField of a tail of that segment (the
   right-justified FED elements) - nothing else can appear in an accepted message ---- *)
Definition val_shape (rec x : bytes) : Prop :=
  val_ok x \/ (exists a b, slice rec a b = Some x) \/
  (exists cur w r, slice_from rec cur = Some r /\ x = parse_alpha_field r w).

Lemma set_nth_shape rec e x : forall vals, val_shape rec x -> Forall (val_shape rec) vals ->
  Forall (val_shape rec) (set_nth e x vals).
Proof.
  induction e as [|e IH]; intros [|y t] Hx Hv; cbn [set_nth]; try constructor; inversion Hv; subst; auto.
Qed.

Lemma shape_ok rec x : val_ok x -> val_shape rec x.
Proof. left. assumption. Qed.

Lemma shape_maybe_trim rec a b s (t : bool) : slice rec a b = Some s ->
  val_shape rec (if t then trim_space s else s).
Proof.
  intros Hs. destruct t; [apply shape_ok, trimmed_ok, trim_space_trimmed|right; left; exists a, b; exact Hs].
Qed.

Theorem run_parse_shapes steps : forall rec cur mk vals v,
  Forall (val_shape rec) vals -> run_parse steps rec cur mk vals = POk v -> Forall (val_shape rec) (tv_elems v).
Proof.
  induction steps as [|st rest IH]; intros rec cur mk vals v Hv H; cbn [run_parse] in H.
  - injection H as <-. exact Hv.
  - destruct st.
    + destruct (match c with CLt => _ | CNe => _ end); [discriminate H|]. eapply IH; eassumption.
    + destruct (slice rec 0 6); [|discriminate H]. eapply IH; eassumption.
    + destruct (slice rec (nn a) (nn b)) eqn:Es; [|discriminate H].
      eapply IH; [|exact H]. apply set_nth_shape; [eapply shape_maybe_trim; exact Es|exact Hv].
    + eapply IH; eassumption.
    + destruct (slice_from rec cur) as [l|]; [|discriminate H].
      destruct (parse_fixed l (nn w)) as [[got rd] [err|]] eqn:Ep; [discriminate H|].
      eapply IH; [|exact H]. apply set_nth_shape; [|exact Hv]. apply shape_ok, trimmed_ok.
      apply (parse_fixed_value _ _ _ _ Ep).
    + destruct (slice_from rec cur) as [l|]; [|discriminate H].
      destruct (parse_variable l (nn w)) as [[got rd] [err|]] eqn:Ep; [discriminate H|].
      eapply IH; [|exact H]. apply set_nth_shape; [|exact Hv]. apply shape_ok.
      destruct (parse_variable_value _ _ _ _ Ep) as [_ [Ht|(full & T & L & E)]]; [left; exact Ht|right; exists full, (nn w); auto].
    + destruct (length rec <? cur + nn k); [discriminate H|]. eapply IH; eassumption.
    + destruct (slice rec cur (cur + nn k)) eqn:Es; [|discriminate H].
      eapply IH; [|exact H]. apply set_nth_shape; [eapply shape_maybe_trim; exact Es|exact Hv].
    + destruct (slice_from rec cur) as [r|] eqn:Es; [|discriminate H].
      eapply IH; [|exact H]. apply set_nth_shape; [|exact Hv]. right; right. exists cur, (nn w), r. split; [exact Es|reflexivity].
    + destruct (verify_read_length rec cur); [|discriminate H]. eapply IH; eassumption.
    + destruct (slice rec 6 10) as [l|] eqn:El; [|discriminate H].
      destruct (negb _); [discriminate H|].
      destruct (slice rec 10 _) as [a|] eqn:Ea; [|discriminate H].
      eapply IH; [|exact H]. apply set_nth_shape; [apply shape_ok, trimmed_ok, trim_space_trimmed|].
      apply set_nth_shape; [right; left; exists 6, 10; exact El|exact Hv].
    + discriminate H.
Qed.

Theorem parse_tag_shapes d rec v : parse_tag d rec = POk v -> Forall (val_shape rec) (tv_elems v).
Proof.
  intros H. unfold parse_tag in H. refine (run_parse_shapes _ _ _ _ _ _ _ H).
  apply Forall_forall. intros x Hx. apply in_map_iff in Hx as (e & <- & _). left. left. reflexivity.
Qed.

Theorem accepted_shapes preset opts chunks final m : ob_dispatch_arms = true ->
  read_model preset opts chunks final = ROk m ->
  forall i v, nth i (m_tags m) None = Some v ->
  exists line, parse_tag (nth i tags tag_Amount) line = POk v /\ Forall (val_shape line) (tv_elems v).
Proof.
  intros Hob Hr i v Hi. destruct (accepted_tags_come_from_parse preset opts chunks final m Hob Hr i v Hi) as [line Hp].
  exists line. split; [exact Hp|exact (parse_tag_shapes _ line v Hp)].
Qed.
