(* Consequences of VerifyFacts for C06, C10, C12, C19 (still generic in the message). *)
From Wire Require Import Base.Bytes Model.Validators Model.GoV Model.Codec Model.DL Model.Message Model.Writer
     Theory.BytesFacts Theory.DLFacts Theory.ValidatorsFacts Theory.VerifyFacts Spec.Rules Spec.Faim.
From WireGen Require Import Tags Verify Writer.

(* ---- per-run obligations ---- *)
Definition bad_tag_cube (t : nat) : cube := [(AB (BNil t), false); (ATagBad t, true)].
Definition ob_invalid_tag_rejected : bool := forallb (fun t => rejected vdl (bad_tag_cube t)) (seq 0 ntags).

Definition wdl : list entry := match compile_top writer_checks with Some l => l | None => stuck_dl end.
Definition ob_writer_compiles : bool := match compile_top writer_checks with Some _ => true | None => false end.
Definition ob_writer_panic_free : bool := panic_free wdl.
(* whatever the writer's own mandatory check refuses, validation refuses too *)
Definition ob_writer_checks_within_verify : bool := forallb (fun e => rejected vdl (en_g e)) (rejects_of wdl).
Definition ob_writer_shape : bool :=
  writer_recognised && writer_epilogue_ok && write_validates_then_flushes && new_writer_defaults_ok.

Fixpoint opt_free_atom (a : atom) : bool :=
  match a with AB b => opt_free_b b | _ => true end.
Definition opt_free_cube (c : cube) : bool := forallb (fun l => opt_free_atom (fst l)) c.
Definition ob_plain_rules_opt_free : bool := forallb opt_free_cube plain_rules.

Definition t_amount : nat := tix "Amount".
Definition t_tst : nat := tix "TypeSubType".
Definition zero_cube : cube := [ISNT amt [bs ""]; IS (STrimByte x30 amt) [bs ""]; ISNT sub [bs "90"]].
Definition amount_cubes : list cube :=
  [ [IS amt [bs ""]]; [(ACheckBad "isAmountImplied" amt, true)]; [(AB (BLenGt amt 12), true)] ].
Definition ob_zero_rule : bool := rejected vdl zero_cube.
Definition ob_amount_checks : bool := forallb (rejected (tdl t_amount)) amount_cubes.
Definition ob_amount_index : bool :=
  (t_amount <? ntags) && (t_tst <? ntags) &&
  match amt, sub with SField a 0, SField b 1 => Nat.eqb a t_amount && Nat.eqb b t_tst | _, _ => false end.

Local Transparent vdl tdl rule_cubes verify_prog validate_progs tags ntags option_rules plain_rules.
Lemma invalid_tag_rejected : ob_invalid_tag_rejected = true. Proof. vm_compute. reflexivity. Qed.
Lemma writer_compiles : ob_writer_compiles = true. Proof. vm_compute. reflexivity. Qed.
Lemma writer_panic_free : panic_free_under [] wdl = true. Proof. vm_compute. reflexivity. Qed.
Lemma writer_checks_within_verify : ob_writer_checks_within_verify = true. Proof. vm_compute. reflexivity. Qed.
Lemma writer_shape : ob_writer_shape = true. Proof. vm_compute. reflexivity. Qed.
Lemma plain_rules_opt_free : ob_plain_rules_opt_free = true. Proof. vm_compute. reflexivity. Qed.
Lemma zero_rule : ob_zero_rule = true. Proof. vm_compute. reflexivity. Qed.
Lemma amount_checks : ob_amount_checks = true. Proof. vm_compute. reflexivity. Qed.
Lemma amount_index : ob_amount_index = true. Proof. vm_compute. reflexivity. Qed.
Lemma rule_cubes_split : rule_cubes = option_rules ++ plain_rules. Proof. reflexivity. Qed.
Lemma option_rules_eq : option_rules =
  [ [(AB BRequireSS, true); A "SenderSupplied"];
    [(AB BOptsNil, true); A "InputMessageAccountabilityData"];
    [(AB BOptsNil, false); (AB BOptSkipIMAD, false); A "InputMessageAccountabilityData"] ].
Proof. reflexivity. Qed.
Lemma wdl_eq : compile_top writer_checks = Some wdl.
Proof. pose proof writer_compiles as H. unfold ob_writer_compiles, wdl in *. destruct (compile_top writer_checks); [reflexivity|discriminate]. Qed.
Global Opaque vdl tdl rule_cubes verify_prog validate_progs tags ntags option_rules plain_rules wdl writer_checks.

(* ---- generic: a cube that forces a reject entry is never accepted ---- *)
Lemma verify_rejects_cube m c :
  wf_msg m -> rejected vdl c = true -> cube_holds (tagv_of m) m c = true -> verify m <> Accept.
Proof.
  intros Hw Hr Hc. rewrite verify_dl.
  apply (rejected_sound (tagv_of m) m (fun t Hp => tag_validate_clean m t Hw Hp) [] vdl c verify_panic_free_u (nil_holds _ _) Hr Hc).
Qed.

(* ---- C10: an accepted message contains only tags that pass their own Validate ---- *)
Theorem accepted_tags_valid m t :
  wf_msg m -> verify m = Accept -> is_none (get_tag m t) = false -> tagv_of m t = Accept.
Proof.
  intros Hw Hacc Hp. pose proof (present_lt m t Hw Hp) as Ht.
  destruct (tagv_of m t) eqn:Hv; [reflexivity| | |]; exfalso;
    (pose proof invalid_tag_rejected as H; unfold ob_invalid_tag_rejected in H; rewrite forallb_forall in H;
     assert (Hin : In t (seq 0 ntags)) by (apply in_seq; lia);
     apply (verify_rejects_cube m (bad_tag_cube t) Hw (H t Hin)); [|exact Hacc];
     unfold bad_tag_cube, cube_holds, lit_holds; cbn [forallb fst snd eval_atom eval_b];
     destruct (get_tag m t); [|discriminate Hp]; rewrite Hv; reflexivity).
Qed.

(* ---- C06: after validation has accepted, the writer's own mandatory check cannot refuse ---- *)

Theorem writer_never_refuses_valid m : wf_msg m -> verify m = Accept -> writer_check m = Accept.
Proof.
  intros Hw Hacc. unfold writer_check.
  rewrite (compile_top_exact (tagv_of m) m writer_checks wdl wdl_eq).
  apply (accept_iff_no_reject_holds (tagv_of m) m (fun t Hp => tag_validate_clean m t Hw Hp) [] wdl writer_panic_free (nil_holds _ _)).
  intros e He. destruct (entry_holds (tagv_of m) m e) eqn:Hh; [|reflexivity]. exfalso.
  pose proof writer_checks_within_verify as H. unfold ob_writer_checks_within_verify in H.
  rewrite forallb_forall in H. specialize (H e He).
  unfold entry_holds in Hh. apply andb_true_iff in Hh as [Hg _].
  exact (verify_rejects_cube m (en_g e) Hw H Hg Hacc).
Qed.

(* ---- C12: the options only waive the presence of {1500} / {1520} ---- *)
Lemma tagv_of_opts m o t : wf_msg m -> tagv_of (with_opts m o) t = tagv_of m t.
Proof.
  intros Hw. unfold tagv_of, run_tag_validate. change (get_tag (with_opts m o) t) with (get_tag m t).
  destruct (get_tag m t) eqn:Hg; [|reflexivity].
  assert (Ht : t < ntags) by (apply (present_lt m t Hw); rewrite Hg; reflexivity).
  pose proof tags_opt_free as H. unfold ob_tags_opt_free in H. rewrite forallb_forall in H.
  rewrite (exec_opts _ m o _ (H _ (nth_validate_progs t Ht))). reflexivity.
Qed.

Lemma lit_holds_opts m o l :
  wf_msg m -> opt_free_atom (fst l) = true ->
  lit_holds (tagv_of (with_opts m o)) (with_opts m o) l = lit_holds (tagv_of m) m l.
Proof.
  intros Hw Hf. unfold lit_holds. destruct l as [[b|t|n e] p]; cbn [fst snd eval_atom] in *.
  - rewrite (eval_b_opts m o b Hf). reflexivity.
  - change (get_tag (with_opts m o) t) with (get_tag m t). rewrite (tagv_of_opts m o t Hw). reflexivity.
  - rewrite eval_s_opts. reflexivity.
Qed.

Lemma cube_holds_opts m o c :
  wf_msg m -> opt_free_cube c = true ->
  cube_holds (tagv_of (with_opts m o)) (with_opts m o) c = cube_holds (tagv_of m) m c.
Proof.
  intros Hw Hf. unfold cube_holds, opt_free_cube in *. induction c as [|l c IH]; [reflexivity|].
  cbn [forallb] in *. apply andb_true_iff in Hf as [Hl Hc]. rewrite (lit_holds_opts m o l Hw Hl), (IH Hc). reflexivity.
Qed.

Definition has (m : message) (n : string) : Prop := is_none (get_tag m (tix n)) = false.

Lemma absent_lit_false tv m n : has m n -> lit_holds tv m (A n) = false.
Proof. unfold has, A, lit_holds. cbn. destruct (get_tag m (tix n)); [reflexivity|discriminate]. Qed.

Lemma wf_with_opts m o : wf_msg m -> wf_msg (with_opts m o).
Proof. exact (fun H => H). Qed.

Lemma option_rules_silent tv m s :
  has m "SenderSupplied" -> has m "InputMessageAccountabilityData" -> In s option_rules -> cube_holds tv m s = false.
Proof.
  intros H1 H2 Hin. rewrite option_rules_eq in Hin. unfold cube_holds.
  destruct Hin as [<-|[<-|[<-|[]]]]; cbn [forallb];
    rewrite ?(absent_lit_false tv m _ H1), ?(absent_lit_false tv m _ H2), ?andb_false_r; reflexivity.
Qed.

(* with both waivable tags present the options change nothing *)
Theorem options_irrelevant_when_tags_present m o o' :
  wf_msg m -> has m "SenderSupplied" -> has m "InputMessageAccountabilityData" ->
  (verify (with_opts m o) = Accept <-> verify (with_opts m o') = Accept).
Proof.
  intros Hw H1 H2.
  rewrite (verify_accept_iff_rules _ (wf_with_opts m o Hw)), (verify_accept_iff_rules _ (wf_with_opts m o' Hw)).
  assert (Key : forall oa ob,
    (forall s, In s rule_cubes -> cube_holds (tagv_of (with_opts m oa)) (with_opts m oa) s = false) ->
    (forall s, In s rule_cubes -> cube_holds (tagv_of (with_opts m ob)) (with_opts m ob) s = false)).
  { intros oa ob H s Hs. rewrite rule_cubes_split in Hs. apply in_app_or in Hs as [Hs|Hs].
    - apply option_rules_silent; assumption.
    - pose proof plain_rules_opt_free as Hp. unfold ob_plain_rules_opt_free in Hp. rewrite forallb_forall in Hp.
      rewrite (cube_holds_opts m ob s Hw (Hp s Hs)), <- (cube_holds_opts m oa s Hw (Hp s Hs)).
      apply H. rewrite rule_cubes_split. apply in_or_app. right. exact Hs. }
  split; apply Key.
Qed.

(* relaxing an option never turns an accepted message into a rejected one *)
Definition skip_of (o : option (bool * bool)) : bool := match o with Some (s, _) => s | None => false end.
Definition allow_of (o : option (bool * bool)) : bool := match o with Some (_, a) => a | None => false end.
Definition opts_le (o o' : option (bool * bool)) : Prop :=
  (skip_of o = true -> skip_of o' = true) /\ (allow_of o = true -> allow_of o' = true).

Definition lacks (m : message) (n : string) : bool := is_none (get_tag m (tix n)).

Lemma A_holds tv m o n : lit_holds tv (with_opts m o) (A n) = lacks m n.
Proof.
  unfold lit_holds, A, lacks. cbn [fst snd eval_atom eval_b].
  change (get_tag (with_opts m o) (tix n)) with (get_tag m (tix n)).
  destruct (get_tag m (tix n)); reflexivity.
Qed.

(* the three option rules say exactly: {1500} missing while required, or {1520} missing while required *)
Lemma option_rules_meaning tv m o :
  existsb (cube_holds tv (with_opts m o)) option_rules =
  (negb (allow_of o) && lacks m "SenderSupplied") || (negb (skip_of o) && lacks m "InputMessageAccountabilityData").
Proof.
  rewrite option_rules_eq. unfold cube_holds. cbn [existsb forallb]. rewrite !A_holds.
  unfold lit_holds. cbn [fst snd eval_atom eval_b with_opts m_opts require_ss].
  destruct o as [[s a]|]; cbn; destruct (lacks m "SenderSupplied"), (lacks m "InputMessageAccountabilityData");
    try destruct s; try destruct a; reflexivity.
Qed.

Theorem options_monotone m o o' :
  wf_msg m -> opts_le o o' -> verify (with_opts m o) = Accept -> verify (with_opts m o') = Accept.
Proof.
  intros Hw Hle.
  rewrite (verify_accept_iff_rules _ (wf_with_opts m o Hw)), (verify_accept_iff_rules _ (wf_with_opts m o' Hw)).
  intros H s Hs.
  destruct (cube_holds (tagv_of (with_opts m o')) (with_opts m o') s) eqn:Hc; [|reflexivity]. exfalso.
  pose proof Hs as Hs'. rewrite rule_cubes_split in Hs'. apply in_app_or in Hs' as [Ho|Hp].
  - (* some option rule fires under o', hence one fires under o *)
    assert (E' : existsb (cube_holds (tagv_of (with_opts m o')) (with_opts m o')) option_rules = true).
    { apply existsb_exists. exists s. auto. }
    rewrite option_rules_meaning in E'.
    assert (E : existsb (cube_holds (tagv_of (with_opts m o)) (with_opts m o)) option_rules = true).
    { rewrite option_rules_meaning. destruct Hle as [Hsk Ha].
      apply orb_true_iff in E' as [E'|E']; apply andb_true_iff in E' as [Hn Hl]; apply orb_true_iff; [left|right];
        apply andb_true_iff; (split; [|exact Hl]); apply negb_true_iff; apply negb_true_iff in Hn.
      - destruct (allow_of o); [specialize (Ha eq_refl); congruence | reflexivity].
      - destruct (skip_of o); [specialize (Hsk eq_refl); congruence | reflexivity]. }
    apply existsb_exists in E as [s' [Hs' Hc']].
    assert (Hin' : In s' rule_cubes) by (rewrite rule_cubes_split; apply in_or_app; left; exact Hs').
    rewrite (H s' Hin') in Hc'. discriminate Hc'.
  - pose proof plain_rules_opt_free as Hpf. unfold ob_plain_rules_opt_free in Hpf. rewrite forallb_forall in Hpf.
    rewrite (cube_holds_opts m o' s Hw (Hpf s Hp)), <- (cube_holds_opts m o s Hw (Hpf s Hp)), (H s Hs) in Hc. discriminate Hc.
Qed.

(* ---- C19: the settlement amount ---- *)
Definition amount_of (m : message) : option bytes :=
  match get_tag m t_amount with Some v => Some (nth 0 (tv_elems v) []) | None => None end.
Definition subtype_of (m : message) : option bytes :=
  match get_tag m t_tst with Some v => Some (nth 1 (tv_elems v) []) | None => None end.

Lemma amt_is : amt = SField t_amount 0 /\ sub = SField t_tst 1 /\ t_amount < ntags /\ t_tst < ntags.
Proof.
  pose proof amount_index as H. unfold ob_amount_index in H.
  apply andb_true_iff in H as [H H3]. apply andb_true_iff in H as [H1 H2].
  apply Nat.ltb_lt in H1, H2.
  destruct amt as [|a i| | | |]; try discriminate H3. destruct i; [|discriminate H3].
  destruct sub as [|b j| | | |]; try discriminate H3. destruct j as [|[|j]]; try discriminate H3.
  apply andb_true_iff in H3 as [Ha Hb]. apply Nat.eqb_eq in Ha, Hb. subst. auto.
Qed.

Lemma tag_rejects_cube m t c :
  wf_msg m -> t < ntags -> is_none (get_tag m t) = false ->
  rejected (tdl t) c = true -> cube_holds (fun _ => Accept) m c = true -> tagv_of m t <> Accept.
Proof.
  intros Hw Ht Hp Hr Hc Hacc.
  unfold tagv_of, run_tag_validate in Hacc. destruct (get_tag m t) eqn:Hg; [|discriminate Hp].
  pose proof tags_no_validate as Hnv. unfold ob_tags_no_validate in Hnv. rewrite forallb_forall in Hnv.
  specialize (Hnv _ (nth_validate_progs t Ht)).
  rewrite (exec_tagv_irrelevant (fun _ => Stuck) (fun _ => Accept) m _ Hnv) in Hacc.
  rewrite (compile_top_exact (fun _ => Accept) m _ (tdl t) (tdl_eq t Ht)) in Hacc.
  pose proof tags_panic_free as H. unfold ob_tags_panic_free in H. rewrite forallb_forall in H.
  assert (Hin : In t (seq 0 ntags)) by (apply in_seq; lia). specialize (H t Hin).
  apply (rejected_sound (fun _ => Accept) m (fun _ _ => eq_refl) (present t) (tdl t) c H); auto.
  apply present_holds. rewrite Hg. reflexivity.
Qed.

(* an accepted message holds a non-empty, all-digit amount of at most 12 digits *)
Theorem accepted_amount_shape m :
  wf_msg m -> verify m = Accept ->
  exists a, amount_of m = Some a /\ a <> [] /\ forallb is_digit a = true /\ length a <= 12.
Proof.
  intros Hw Hacc. destruct amt_is as (Ea & _ & Hta & _).
  (* {2000} is mandatory *)
  assert (Hp : is_none (get_tag m t_amount) = false).
  { destruct (get_tag m t_amount) eqn:Hg; [reflexivity|]. exfalso.
    assert (Hr : rejected vdl [A "Amount"] = true).
    { pose proof rules_enforced as Hr. unfold ob_rules_enforced in Hr. rewrite forallb_forall in Hr. apply Hr.
      rewrite rule_cubes_split. apply in_or_app. right.
      Local Transparent plain_rules. unfold plain_rules. Local Opaque plain_rules.
      apply in_or_app. left. cbn. tauto. }
    apply (verify_rejects_cube m [A "Amount"] Hw Hr); [|exact Hacc].
    unfold cube_holds, lit_holds, A. cbn [forallb fst snd eval_atom eval_b]. fold t_amount. rewrite Hg. reflexivity. }
  pose proof (accepted_tags_valid m t_amount Hw Hacc Hp) as Hv.
  unfold amount_of. destruct (get_tag m t_amount) as [v|] eqn:Hg; [|discriminate Hp].
  set (a := nth 0 (tv_elems v) []).
  exists a. split; [reflexivity|].
  pose proof amount_checks as Hc. unfold ob_amount_checks, amount_cubes in Hc. cbn [forallb] in Hc.
  apply andb_true_iff in Hc as [Hc1 Hc]. apply andb_true_iff in Hc as [Hc2 Hc]. apply andb_true_iff in Hc as [Hc3 _].
  assert (Ev : eval_s m amt = Some a) by (rewrite Ea; cbn [eval_s]; rewrite Hg; reflexivity).
  assert (Hp' : is_none (get_tag m t_amount) = false) by (rewrite Hg; reflexivity).
  repeat split.
  - intros Hnil. apply (tag_rejects_cube m t_amount _ Hw Hta Hp' Hc1); [|exact Hv].
    unfold cube_holds, lit_holds, IS. cbn [forallb fst snd eval_atom eval_b]. rewrite Ev, Hnil. reflexivity.
  - destruct (forallb is_digit a) eqn:Hd; [reflexivity|]. exfalso.
    apply (tag_rejects_cube m t_amount _ Hw Hta Hp' Hc2); [|exact Hv].
    unfold cube_holds, lit_holds. cbn [forallb fst snd eval_atom]. rewrite Ev. cbn [option_map].
    unfold run_validator. cbn [String.eqb Ascii.eqb Bool.eqb arg0 nth].
    change (run_validator "isAmountImplied" [a]) with (ok_or (is_amount_implied a) "ErrNonAmount").
    rewrite is_amount_implied_exact, Hd. reflexivity.
  - destruct (Nat.leb_spec (length a) 12) as [Hl|Hl]; [exact Hl|]. exfalso.
    apply (tag_rejects_cube m t_amount _ Hw Hta Hp' Hc3); [|exact Hv].
    unfold cube_holds, lit_holds. cbn [forallb fst snd eval_atom eval_b]. rewrite Ev. cbn [option_map].
    replace (12 <? N.of_nat (length a))%N with true; [reflexivity|]. symmetry. apply N.ltb_lt. lia.
Qed.

(* an all-zero amount - however many zeros - is accepted only with subtype 90 *)
Theorem zero_amount_needs_subtype_90 m a :
  wf_msg m -> verify m = Accept -> amount_of m = Some a -> a <> [] -> forallb (beqb x30) a = true ->
  subtype_of m = Some (bs "90").
Proof.
  intros Hw Hacc Ha Hne Hz. destruct amt_is as (Ea & Es & Hta & Htt).
  (* {1510} is mandatory *)
  assert (Hpt : is_none (get_tag m t_tst) = false).
  { destruct (get_tag m t_tst) eqn:Hg; [reflexivity|]. exfalso.
    assert (Hr : rejected vdl [A "TypeSubType"] = true).
    { pose proof rules_enforced as Hr. unfold ob_rules_enforced in Hr. rewrite forallb_forall in Hr. apply Hr.
      rewrite rule_cubes_split. apply in_or_app. right.
      Local Transparent plain_rules. unfold plain_rules. Local Opaque plain_rules.
      apply in_or_app. left. cbn. tauto. }
    apply (verify_rejects_cube m [A "TypeSubType"] Hw Hr); [|exact Hacc].
    unfold cube_holds, lit_holds, A. cbn [forallb fst snd eval_atom eval_b]. fold t_tst. rewrite Hg. reflexivity. }
  unfold subtype_of. destruct (get_tag m t_tst) as [vt|] eqn:Hgt; [|discriminate Hpt].
  unfold amount_of in Ha. destruct (get_tag m t_amount) as [va|] eqn:Hga; [|discriminate Ha].
  inversion Ha as [Ha']. clear Ha.
  destruct (bytes_eqb (nth 1 (tv_elems vt) []) (bs "90")) eqn:E90.
  - apply bytes_eqb_eq in E90. rewrite E90. reflexivity.
  - exfalso. apply (verify_rejects_cube m zero_cube Hw zero_rule); [|exact Hacc].
    unfold zero_cube, cube_holds, lit_holds, IS, ISNT. cbn [forallb fst snd eval_atom eval_b].
    rewrite Ea, Es. cbn [eval_s]. rewrite Hga, Hgt, Ha'. cbn [option_map].
    assert (Ht : trim_byte x30 a = []).
    { unfold trim_byte.
      assert (D : forall s, forallb (beqb x30) s = true -> drop_while (beqb x30) s = []).
      { induction s as [|b s IH]; [reflexivity|]. cbn. intros H. apply andb_true_iff in H as [Hb Hs]. rewrite Hb. apply IH, Hs. }
      rewrite (D a Hz). reflexivity. }
    rewrite Ht. unfold mem_bytes. cbn [existsb bytes_eqb]. rewrite E90.
    destruct a; [contradiction|]. reflexivity.
Qed.
