(* Writer facts: totality of the Format programs, write succeeds iff validation accepts, a refusal
   reaches the destination with nothing, destination faults surface as errors. *)
From Wire Require Import Base.Bytes Model.GoV Model.Codec Model.Message Model.Writer
     Model.Reader Theory.VerifyFacts Theory.VerifyProps Theory.ReaderFacts.
From WireGen Require Import Tags Verify Writer.

Definition fstep_ok (s : fstep) : bool := match s with FUnsupported _ => false | _ => true end.
Definition formats_total : bool := forallb (fun d => forallb fstep_ok (t_format d)) tags.

Local Transparent tags.
Lemma formats_total_true : formats_total = true. Proof. vm_compute. reflexivity. Qed.
Global Opaque tags.

Lemma run_format_some steps : forallb fstep_ok steps = true ->
  forall v var acc, run_format steps v var acc <> None.
Proof.
  induction steps as [|s steps IH]; intros H v var acc; [discriminate|].
  cbn [forallb] in H. apply andb_true_iff in H as [Hs Hr].
  destruct s; cbn [run_format]; try (apply IH; exact Hr); try discriminate Hs.
  destruct (elem_val v e); apply IH; exact Hr.
Qed.

Lemma format_tag_some d var v : formats_total = true -> In d tags -> format_tag d var v <> None.
Proof.
  intros H Hin. unfold formats_total in H. rewrite forallb_forall in H.
  unfold format_tag. apply run_format_some. apply H. exact Hin.
Qed.

Lemma nth_tag_in t : t < length tags -> In (nth t tags tag_Amount) tags.
Proof. apply nth_In. Qed.

Lemma plan_lines_some plan m var :
  formats_total = true -> (forall t b, In (t, b) plan -> t < length tags) -> plan_lines plan m var <> None.
Proof.
  intros Hf. induction plan as [|[t b] r IH]; intros Hb; [discriminate|].
  cbn [plan_lines].
  assert (Hr0 : plan_lines r m var <> None) by (apply IH; intros; eapply Hb; right; eauto).
  destruct (plan_lines r m var) eqn:Hr; [|contradiction].
  destruct (get_tag m t); [|discriminate].
  destruct (format_tag (nth t tags tag_Amount) (var && b) t0) eqn:Hft; [discriminate|].
  exfalso. apply (format_tag_some (nth t tags tag_Amount) (var && b) t0 Hf); [|exact Hft].
  apply nth_tag_in. apply (Hb t b). left. reflexivity.
Qed.

Definition ob_plan_in_range : bool := forallb (fun p => fst p <? length tags) writer_plan.
Local Transparent tags.
Lemma plan_in_range : ob_plan_in_range = true. Proof. vm_compute. reflexivity. Qed.
Global Opaque tags.

Theorem write_succeeds_iff_valid m variable nl :
  wf_msg m -> formats_total = true ->
  (verify m = Accept <-> exists t, write_model m variable nl = WOk t).
Proof.
  intros Hw Hf. unfold write_model. split.
  - intros Hacc. rewrite Hacc, (writer_never_refuses_valid m Hw Hacc).
    destruct (plan_lines writer_plan m variable) eqn:Hp; [eauto|].
    exfalso. apply (plan_lines_some writer_plan m variable Hf); [|exact Hp].
    intros t b Hin. pose proof plan_in_range as H. unfold ob_plan_in_range in H. rewrite forallb_forall in H.
    apply Nat.ltb_lt. apply (H (t, b) Hin).
  - intros [t H]. destruct (verify m); try discriminate H; reflexivity.
Qed.

(* destination: dest t = how many bytes of the flushed text the destination accepts *)
Record delivery := { bytes_delivered : bytes; write_error : bool }.

Definition write_to (dest : bytes -> nat) (r : wresult) : delivery :=
  match r with
  | WOk t => {| bytes_delivered := firstn (dest t) t; write_error := dest t <? length t |}
  | _ => {| bytes_delivered := []; write_error := true |}
  end.

Theorem refusal_writes_nothing m variable nl dest v :
  write_model m variable nl = WRefused v -> bytes_delivered (write_to dest (write_model m variable nl)) = [].
Proof. intros ->. reflexivity. Qed.

(* C08 (writer half): if the destination accepts fewer bytes than were flushed, Write reports an error *)
Theorem short_write_is_an_error dest r t :
  r = WOk t -> dest t < length t -> write_error (write_to dest r) = true.
Proof. intros -> H. cbn. apply Nat.ltb_lt. exact H. Qed.

Theorem no_error_means_everything_delivered dest r :
  write_error (write_to dest r) = false -> exists t, r = WOk t /\ bytes_delivered (write_to dest r) = t.
Proof.
  destruct r as [t| |]; cbn; try discriminate. intros H. exists t. split; [reflexivity|].
  apply Nat.ltb_ge in H. apply firstn_all2. exact H.
Qed.

(* ---- C07: structure of the emitted text ---- *)
From Coq Require Import Sorted Permutation.

Theorem written_text_structure m variable nl t :
  write_model m variable nl = WOk t ->
  exists lines, plan_lines writer_plan m variable = Some lines /\ t = join_with nl (sort_lines lines) ++ nl.
Proof.
  unfold write_model. destruct (verify m); try discriminate. destruct (writer_check m); try discriminate.
  destruct (plan_lines writer_plan m variable) as [lines|]; [|discriminate].
  intros H. inversion H. exists lines. auto.
Qed.

Lemma insert_sorted_perm x l : Permutation (x :: l) (insert_sorted x l).
Proof.
  induction l as [|y l IH]; cbn; [reflexivity|].
  destruct (bytes_leb x y); [reflexivity|]. rewrite perm_swap. constructor. exact IH.
Qed.

(* slices.Sort: the emitted lines are a permutation of the assembled lines ... *)
Theorem sort_lines_perm l : Permutation l (sort_lines l).
Proof.
  induction l as [|x l IH]; cbn; [reflexivity|].
  rewrite <- insert_sorted_perm. constructor. exact IH.
Qed.

(* a <= b as "not b < a": total and transitive because the byte order is a strict total order *)
Fixpoint bytes_cmp (a b : bytes) : comparison :=
  match a, b with
  | [], [] => Eq
  | [], _ :: _ => Lt
  | _ :: _, [] => Gt
  | x :: a', y :: b' => match N.compare (bN x) (bN y) with Eq => bytes_cmp a' b' | c => c end
  end.

Lemma bytes_ltb_cmp a : forall b, bytes_ltb a b = match bytes_cmp a b with Lt => true | _ => false end.
Proof.
  induction a as [|x a IH]; intros [|y b]; cbn; try reflexivity.
  destruct (N.compare_spec (bN x) (bN y)) as [E|E|E].
  - rewrite E, N.ltb_irrefl. apply IH.
  - replace (bN x <? bN y)%N with true by (symmetry; apply N.ltb_lt; exact E). reflexivity.
  - replace (bN x <? bN y)%N with false by (symmetry; apply N.ltb_ge; lia).
    replace (bN y <? bN x)%N with true by (symmetry; apply N.ltb_lt; exact E). reflexivity.
Qed.

Lemma bytes_cmp_antisym a : forall b, bytes_cmp b a = CompOpp (bytes_cmp a b).
Proof.
  induction a as [|x a IH]; intros [|y b]; cbn; try reflexivity.
  rewrite (N.compare_antisym (bN x) (bN y)). destruct (N.compare (bN x) (bN y)); cbn; auto.
Qed.

Lemma bytes_cmp_trans_le a : forall b c, bytes_cmp a b <> Gt -> bytes_cmp b c <> Gt -> bytes_cmp a c <> Gt.
Proof.
  induction a as [|x a IH]; intros [|y b] [|z c]; cbn; try congruence.
  destruct (N.compare_spec (bN x) (bN y)) as [E1|E1|E1]; destruct (N.compare_spec (bN y) (bN z)) as [E2|E2|E2];
    intros H1 H2; try congruence.
  - rewrite E1, E2, N.compare_refl. eapply IH; eauto.
  - replace (bN x ?= bN z)%N with Lt by (symmetry; apply N.compare_lt_iff; lia). discriminate.
  - replace (bN x ?= bN z)%N with Lt by (symmetry; apply N.compare_lt_iff; lia). discriminate.
  - replace (bN x ?= bN z)%N with Lt by (symmetry; apply N.compare_lt_iff; lia). discriminate.
Qed.

Lemma bytes_leb_cmp a b : bytes_leb a b = true <-> bytes_cmp a b <> Gt.
Proof.
  unfold bytes_leb. rewrite bytes_ltb_cmp, (bytes_cmp_antisym a b).
  destruct (bytes_cmp a b); cbn; split; congruence.
Qed.

Lemma bytes_leb_total a b : bytes_leb a b = true \/ bytes_leb b a = true.
Proof.
  rewrite !bytes_leb_cmp, (bytes_cmp_antisym a b). destruct (bytes_cmp a b); cbn; [left|left|right]; congruence.
Qed.

Lemma bytes_leb_trans a b c : bytes_leb a b = true -> bytes_leb b c = true -> bytes_leb a c = true.
Proof. rewrite !bytes_leb_cmp. apply bytes_cmp_trans_le. Qed.

Definition sorted_lines (l : list bytes) : Prop := Sorted (fun a b => bytes_leb a b = true) l.

Lemma insert_sorted_sorted x l : sorted_lines l -> sorted_lines (insert_sorted x l).
Proof.
  unfold sorted_lines. induction l as [|y l IH]; intros Hs; cbn; [repeat constructor|].
  destruct (bytes_leb x y) eqn:E.
  - constructor; [exact Hs|]. constructor. exact E.
  - inversion Hs as [|? ? Hs' Hhd]; subst. constructor; [apply IH; exact Hs'|].
    destruct l as [|z l]; cbn.
    + constructor. destruct (bytes_leb_total x y) as [H|H]; congruence.
    + destruct (bytes_leb x z); constructor.
      * destruct (bytes_leb_total x y) as [H|H]; congruence.
      * inversion Hhd; assumption.
Qed.

(* ... in ascending byte order *)
Theorem sort_lines_sorted l : sorted_lines (sort_lines l).
Proof. induction l as [|x l IH]; cbn; [constructor | apply insert_sorted_sorted; exact IH]. Qed.

(* C02 (first half): whatever the reader accepts can be written, in every layout *)
Theorem accepted_text_can_be_written preset opts chunks final m variable nl :
  Model.Reader.read_model preset opts chunks final = Model.Reader.ROk m ->
  exists t, write_model m variable nl = WOk t.
Proof.
  intros H. destruct (Theory.ReaderFacts.accepted_is_valid preset opts chunks final m H) as (Hw & Hv & _).
  apply (write_succeeds_iff_valid m variable nl Hw formats_total_true). exact Hv.
Qed.
