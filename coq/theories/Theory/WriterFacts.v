(* Writer facts: totality of the Format programs, write succeeds iff validation accepts, a refusal
   reaches the destination with nothing, destination faults surface as errors. *)
From Wire Require Import Base.Bytes Model.GoV Model.Codec Model.Message Model.Writer
     Theory.VerifyFacts Theory.VerifyProps.
From WireGen Require Import Tags Verify Writer.

Definition fstep_ok (s : fstep) : bool := match s with FUnsupported _ => false | _ => true end.
Definition formats_total : bool := forallb (fun d => forallb fstep_ok (t_format d)) tags.

Local Transparent tags.
Lemma formats_total_true : formats_total = true. Proof. vm_compute. reflexivity. Qed.
Global Opaque tags.

Lemma run_format_some steps : forallb fstep_ok steps = true ->
  forall v var acc, run_format steps v var acc <> None.
Proof.
  induction steps as [|s steps IH]; intros H v var acc; [discriminate|].
  cbn [forallb] in H. apply andb_true_iff in H as [Hs Hr].
  destruct s; cbn [run_format]; try (apply IH; exact Hr); try discriminate Hs.
  destruct (elem_val v e); apply IH; exact Hr.
Qed.

Lemma format_tag_some d var v : formats_total = true -> In d tags -> format_tag d var v <> None.
Proof.
  intros H Hin. unfold formats_total in H. rewrite forallb_forall in H.
  unfold format_tag. apply run_format_some. apply H. exact Hin.
Qed.

Lemma nth_tag_in t : t < length tags -> In (nth t tags tag_Amount) tags.
Proof. apply nth_In. Qed.

Lemma plan_lines_some plan m var :
  formats_total = true -> (forall t b, In (t, b) plan -> t < length tags) -> plan_lines plan m var <> None.
Proof.
  intros Hf. induction plan as [|[t b] r IH]; intros Hb; [discriminate|].
  cbn [plan_lines].
  assert (Hr0 : plan_lines r m var <> None) by (apply IH; intros; eapply Hb; right; eauto).
  destruct (plan_lines r m var) eqn:Hr; [|contradiction].
  destruct (get_tag m t); [|discriminate].
  destruct (format_tag (nth t tags tag_Amount) (var && b) t0) eqn:Hft; [discriminate|].
  exfalso. apply (format_tag_some (nth t tags tag_Amount) (var && b) t0 Hf); [|exact Hft].
  apply nth_tag_in. apply (Hb t b). left. reflexivity.
Qed.

Definition ob_plan_in_range : bool := forallb (fun p => fst p <? length tags) writer_plan.
Local Transparent tags.
Lemma plan_in_range : ob_plan_in_range = true. Proof. vm_compute. reflexivity. Qed.
Global Opaque tags.

Theorem write_succeeds_iff_valid m variable nl :
  wf_msg m -> formats_total = true ->
  (verify m = Accept <-> exists t, write_model m variable nl = WOk t).
Proof.
  intros Hw Hf. unfold write_model. split.
  - intros Hacc. rewrite Hacc, (writer_never_refuses_valid m Hw Hacc).
    destruct (plan_lines writer_plan m variable) eqn:Hp; [eauto|].
    exfalso. apply (plan_lines_some writer_plan m variable Hf); [|exact Hp].
    intros t b Hin. pose proof plan_in_range as H. unfold ob_plan_in_range in H. rewrite forallb_forall in H.
    apply Nat.ltb_lt. apply (H (t, b) Hin).
  - intros [t H]. destruct (verify m); try discriminate H; reflexivity.
Qed.

(* destination: dest t = how many bytes of the flushed text the destination accepts *)
Record delivery := { bytes_delivered : bytes; write_error : bool }.

Definition write_to (dest : bytes -> nat) (r : wresult) : delivery :=
  match r with
  | WOk t => {| bytes_delivered := firstn (dest t) t; write_error := dest t <? length t |}
  | _ => {| bytes_delivered := []; write_error := true |}
  end.

Theorem refusal_writes_nothing m variable nl dest v :
  write_model m variable nl = WRefused v -> bytes_delivered (write_to dest (write_model m variable nl)) = [].
Proof. intros ->. reflexivity. Qed.

(* C08 (writer half): if the destination accepts fewer bytes than were flushed, Write reports an error *)
Theorem short_write_is_an_error dest r t :
  r = WOk t -> dest t < length t -> write_error (write_to dest r) = true.
Proof. intros -> H. cbn. apply Nat.ltb_lt. exact H. Qed.

Theorem no_error_means_everything_delivered dest r :
  write_error (write_to dest r) = false -> exists t, r = WOk t /\ bytes_delivered (write_to dest r) = t.
Proof.
  destruct r as [t| |]; cbn; try discriminate. intros H. exists t. split; [reflexivity|].
  apply Nat.ltb_ge in H. apply firstn_all2. exact H.
Qed.
