(* Exactness of the decision-list compilation of GoV programs, and soundness of the checks
   (panic freedom, forced rejection) computed on decision lists. Generic: nothing here depends
   on /repo. *)
From Wire Require Import Base.Bytes Model.Validators Model.GoV Model.DL Theory.BytesFacts.

Section Facts.
Context (tagv : nat -> verdict) (m : message).

Notation LH := (lit_holds tagv m).
Notation CH := (cube_holds tagv m).
Notation DH := (dnf_holds tagv m).
Notation EH := (entry_holds tagv m).
Notation DE := (dl_eval tagv m).
Notation KO := (kind_outcome tagv m).

Lemma CH_app a b : CH (a ++ b) = CH a && CH b.
Proof. unfold cube_holds. apply forallb_app. Qed.

Lemma DH_app a b : DH (a ++ b) = DH a || DH b.
Proof. unfold dnf_holds. apply existsb_app. Qed.

Lemma DH_cons c d : DH (c :: d) = CH c || DH d.
Proof. reflexivity. Qed.

Lemma DH_map_app x b : DH (map (fun y => x ++ y) b) = CH x && DH b.
Proof.
  induction b as [|y b IH]; simpl.
  - rewrite andb_false_r. reflexivity.
  - fold (DH (map (fun y0 => x ++ y0) b)). rewrite IH, CH_app.
    fold (DH b). destruct (CH x), (CH y), (DH b); reflexivity.
Qed.

Lemma DH_prod a b : DH (cube_prod a b) = DH a && DH b.
Proof.
  induction a as [|x a IH]; simpl; [reflexivity|].
  unfold cube_prod in *. simpl. rewrite DH_app, DH_map_app, IH.
  fold (DH a). destruct (CH x), (DH b), (DH a); reflexivity.
Qed.

Lemma eval_s_none e :
  is_none (eval_s m e) = existsb (fun t => is_none (get_tag m t)) (derefs_s e).
Proof.
  induction e as [b|t i|t|a IHa b IHb|a IHa|c a IHa]; simpl.
  - reflexivity.
  - destruct (get_tag m t); reflexivity.
  - destruct (get_tag m t); reflexivity.
  - rewrite existsb_app, <- IHa, <- IHb.
    destruct (eval_s m a), (eval_s m b); reflexivity.
  - rewrite <- IHa. destruct (eval_s m a); reflexivity.
  - rewrite <- IHa. destruct (eval_s m a); reflexivity.
Qed.

Lemma absent_holds t : CH (absent t) = is_none (get_tag m t).
Proof.
  unfold absent, cube_holds, lit_holds. simpl.
  destruct (get_tag m t); reflexivity.
Qed.

Lemma DH_absent l : DH (map absent l) = existsb (fun t => is_none (get_tag m t)) l.
Proof.
  induction l as [|t l IH]; [reflexivity|].
  cbn [map existsb]. rewrite DH_cons, IH, absent_holds. reflexivity.
Qed.

Definition st (o : option bool) : bool := match o with Some true => true | _ => false end.
Definition sf (o : option bool) : bool := match o with Some false => true | _ => false end.

Lemma atom_T c : DH [[(AB c, true)]] = st (eval_b m c).
Proof.
  unfold dnf_holds, cube_holds, lit_holds. simpl.
  destruct (eval_b m c) as [[|]|]; reflexivity.
Qed.

Lemma atom_F c : DH [[(AB c, false)]] = sf (eval_b m c).
Proof.
  unfold dnf_holds, cube_holds, lit_holds. simpl.
  destruct (eval_b m c) as [[|]|]; reflexivity.
Qed.

Lemma opts_nil_holds : DH [opts_nil] = is_none (m_opts m).
Proof.
  unfold dnf_holds, opts_nil, cube_holds, lit_holds. simpl.
  destruct (m_opts m); reflexivity.
Qed.

Lemma compile_b_exact c :
  let '(T, F, P) := compile_b c in
  DH T = st (eval_b m c) /\ DH F = sf (eval_b m c) /\ DH P = is_none (eval_b m c).
Proof.
  induction c as [| |a b|t|a IHa|a IHa b IHb|a IHa b IHb|a l|a n|n a| | | |].
  - simpl. auto.
  - simpl. auto.
  - (* BEq *)
    cbn [compile_b]. rewrite atom_T, atom_F, DH_absent, existsb_app, <- !eval_s_none.
    repeat split. simpl. destruct (eval_s m a), (eval_s m b); reflexivity.
  - cbn [compile_b]. rewrite atom_T, atom_F. repeat split.
  - (* BNot *)
    cbn [compile_b]. destruct (compile_b a) as [[T F] P]. destruct IHa as (HT & HF & HP).
    simpl. rewrite HT, HF, HP. destruct (eval_b m a) as [[|]|]; auto.
  - (* BAnd *)
    cbn [compile_b]. destruct (compile_b a) as [[Ta Fa] Pa]. destruct (compile_b b) as [[Tb Fb] Pb].
    destruct IHa as (HTa & HFa & HPa). destruct IHb as (HTb & HFb & HPb).
    rewrite !DH_app, !DH_prod, HTa, HFa, HPa, HTb, HFb, HPb. simpl.
    destruct (eval_b m a) as [[|]|]; destruct (eval_b m b) as [[|]|]; auto.
  - (* BOr *)
    cbn [compile_b]. destruct (compile_b a) as [[Ta Fa] Pa]. destruct (compile_b b) as [[Tb Fb] Pb].
    destruct IHa as (HTa & HFa & HPa). destruct IHb as (HTb & HFb & HPb).
    rewrite !DH_app, !DH_prod, HTa, HFa, HPa, HTb, HFb, HPb. simpl.
    destruct (eval_b m a) as [[|]|]; destruct (eval_b m b) as [[|]|]; auto.
  - (* BIn *)
    cbn [compile_b]. rewrite atom_T, atom_F, DH_absent, <- eval_s_none.
    repeat split. simpl. destruct (eval_s m a); reflexivity.
  - (* BLenGt *)
    cbn [compile_b]. rewrite atom_T, atom_F, DH_absent, <- eval_s_none.
    repeat split. simpl. destruct (eval_s m a); reflexivity.
  - (* BPrimErr *)
    cbn [compile_b]. rewrite atom_T, atom_F, DH_absent, <- eval_s_none.
    repeat split. simpl. destruct (eval_s m a); reflexivity.
  - cbn [compile_b]. rewrite atom_T, atom_F. repeat split.
  - cbn [compile_b]. rewrite atom_T, atom_F, opts_nil_holds. repeat split. simpl. destruct (m_opts m); reflexivity.
  - cbn [compile_b]. rewrite atom_T, atom_F, opts_nil_holds. repeat split. simpl. destruct (m_opts m); reflexivity.
  - cbn [compile_b]. rewrite atom_T, atom_F. repeat split.
Qed.

(* ---- evaluation of lists ---- *)
Lemma KO_ret k : exists v, KO k = Ret v.
Proof.
  destruct k; simpl; eauto.
  - destruct (eval_s m a); [destruct (run_validator name [b])|]; eauto.
  - destruct (tagv t); eauto.
Qed.

Lemma DE_cons e r : DE (e :: r) = if EH e then KO (en_k e) else DE r.
Proof. reflexivity. Qed.

Lemma DE_app a b : DE (a ++ b) = match DE a with Cont => DE b | r => r end.
Proof.
  induction a as [|e a IH]; [reflexivity|].
  cbn [app]. rewrite !DE_cons. destruct (EH e); [|exact IH].
  destruct (KO_ret (en_k e)) as [v ->]. reflexivity.
Qed.

Lemma EH_mk g k : EH (mk g k) = CH g.
Proof. unfold entry_holds, mk. simpl. apply andb_true_r. Qed.

Lemma DE_panics P : DE (map (fun p => mk p KPanic) P) = if DH P then Ret Panic else Cont.
Proof.
  induction P as [|p P IH]; [reflexivity|].
  cbn [map]. rewrite DE_cons, EH_mk, DH_cons. destruct (CH p); cbn [orb]; [reflexivity | exact IH].
Qed.

Lemma EH_add_guard t e : EH (add_guard t e) = CH t && EH e.
Proof.
  unfold entry_holds, add_guard. simpl. rewrite CH_app. rewrite andb_assoc. reflexivity.
Qed.

Lemma DE_guard_one T e rest :
  DE (map (fun t => add_guard t e) T ++ rest) =
  if DH T && EH e then KO (en_k e) else DE rest.
Proof.
  induction T as [|t T IH]; [reflexivity|].
  cbn [map app]. rewrite DE_cons, EH_add_guard, DH_cons.
  destruct (CH t) eqn:Ht; cbn [andb orb].
  - destruct (EH e) eqn:He; [reflexivity|].
    rewrite IH. rewrite andb_false_r. reflexivity.
  - exact IH.
Qed.

Lemma DE_guard T dl : DE (guard_with T dl) = if DH T then DE dl else Cont.
Proof.
  induction dl as [|e dl IH].
  - cbn. destruct (DH T); reflexivity.
  - unfold guard_with in *. cbn [flat_map]. rewrite DE_guard_one, IH, DE_cons.
    destruct (DH T); cbn [andb]; reflexivity.
Qed.

(* ---- scopes ---- *)
Definition strip (o : outcome) : outcome := match o with Ret Accept => Cont | r => r end.

Lemma KO_accept k : KO k = Ret Accept -> k = KAcc.
Proof.
  destruct k; simpl; try discriminate; auto.
  - destruct (eval_s m a); [destruct (run_validator name [b])|]; discriminate.
  - destruct (tagv t); discriminate.
Qed.

Definition ext (e : entry) (acc : list cube) : entry :=
  {| en_g := en_g e; en_x := en_x e ++ acc; en_k := en_k e |}.

Lemma scope_go_nonacc e dl acc :
  en_k e <> KAcc -> scope_go (e :: dl) acc = option_map (cons (ext e acc)) (scope_go dl acc).
Proof. intros H. unfold ext. simpl. destruct (en_k e); try reflexivity. contradiction. Qed.

Lemma EH_ext_false e acc : DH acc = false -> EH (ext e acc) = EH e.
Proof. intros H. unfold entry_holds, ext. simpl. rewrite DH_app, H, orb_false_r. reflexivity. Qed.

Lemma EH_ext_true e acc : DH acc = true -> EH (ext e acc) = false.
Proof. intros H. unfold entry_holds, ext. simpl. rewrite DH_app, H, orb_true_r, andb_false_r. reflexivity. Qed.

Lemma strip_KO k : k <> KAcc -> strip (KO k) = KO k.
Proof.
  intros H. destruct (KO k) as [|v] eqn:E; [reflexivity|].
  destruct v; try reflexivity. apply KO_accept in E. contradiction.
Qed.

Lemma kind_dec k : {k = KAcc} + {k <> KAcc}.
Proof. destruct k; first [left; reflexivity | right; discriminate]. Qed.

Lemma scope_blocked dl : forall acc dl',
  scope_go dl acc = Some dl' -> DH acc = true -> DE dl' = Cont.
Proof.
  induction dl as [|e dl IH]; intros acc dl' H Hacc.
  - simpl in H. inversion H. reflexivity.
  - destruct (kind_dec (en_k e)) as [Hk|Hk].
    + simpl in H. rewrite Hk in H. destruct (en_x e); [|discriminate H].
      eapply IH; [exact H|]. rewrite DH_cons, Hacc. apply orb_true_r.
    + rewrite (scope_go_nonacc e dl acc Hk) in H.
      destruct (scope_go dl acc) as [r|] eqn:Hr; [|discriminate H]. simpl in H. inversion H; subst dl'.
      rewrite DE_cons, (EH_ext_true e acc Hacc). eapply IH; eauto.
Qed.

Lemma scope_exact dl : forall acc dl',
  scope_go dl acc = Some dl' -> DH acc = false -> DE dl' = strip (DE dl).
Proof.
  induction dl as [|e dl IH]; intros acc dl' H Hacc.
  - simpl in H. inversion H. reflexivity.
  - destruct (kind_dec (en_k e)) as [Hk|Hk].
    + simpl in H. rewrite Hk in H. destruct (en_x e) eqn:Hx; [|discriminate H].
      rewrite DE_cons. unfold entry_holds at 1. rewrite Hx. cbn [dnf_holds existsb negb]. rewrite andb_true_r.
      destruct (CH (en_g e)) eqn:Hg.
      * rewrite Hk. cbn [kind_outcome strip]. eapply scope_blocked; [exact H|]. rewrite DH_cons, Hg. reflexivity.
      * eapply IH; [exact H|]. rewrite DH_cons, Hg. exact Hacc.
    + rewrite (scope_go_nonacc e dl acc Hk) in H.
      destruct (scope_go dl acc) as [r|] eqn:Hr; [|discriminate H]. simpl in H. inversion H; subst dl'.
      rewrite !DE_cons, (EH_ext_false e acc Hacc). cbn [ext en_k].
      destruct (EH e); [symmetry; apply strip_KO; exact Hk | eapply IH; eauto].
Qed.

(* ---- the main theorem: the decision list IS the program ---- *)
Theorem compile_exact s : forall dl, compile s = Some dl -> exec tagv m s = DE dl.
Proof.
  induction s as [|a IHa b IHb|c th IHt el IHe| |f e|name a f|body IH|t|src]; intros dl H; simpl in H.
  - inversion H. reflexivity.
  - destruct (compile a) as [x|]; [|discriminate H]. destruct (compile b) as [y|]; [|discriminate H].
    inversion H; subst dl. simpl. rewrite DE_app, (IHa x eq_refl), (IHb y eq_refl). reflexivity.
  - pose proof (compile_b_exact c) as Hc. destruct (compile_b c) as [[T F] P].
    destruct Hc as (HT & HF & HP).
    destruct (compile th) as [x|]; [|discriminate H]. destruct (compile el) as [y|]; [|discriminate H].
    inversion H; subst dl. simpl.
    rewrite !DE_app, DE_panics, !DE_guard, HT, HF, HP, (IHt x eq_refl), (IHe y eq_refl).
    destruct (eval_b m c) as [[|]|]; simpl; [|reflexivity|reflexivity].
    destruct (DE x); reflexivity.
  - inversion H. reflexivity.
  - inversion H. reflexivity.
  - inversion H; subst dl. simpl. rewrite DE_app.
    replace (map (fun t => mk (absent t) KPanic) (derefs_s a)) with (map (fun p => mk p KPanic) (map absent (derefs_s a)))
      by (rewrite map_map; reflexivity).
    rewrite DE_panics, DH_absent, <- eval_s_none.
    destruct (eval_s m a) as [x|] eqn:Ea; simpl; [|reflexivity].
    rewrite EH_mk. unfold cube_holds, lit_holds. simpl. rewrite Ea. simpl.
    destruct (run_validator name [x]); reflexivity.
  - destruct (compile body) as [bd|]; [|discriminate H].
    rewrite (scope_exact bd [] dl H eq_refl). simpl. rewrite (IH bd eq_refl).
    destruct (DE bd) as [|[| | |]]; reflexivity.
  - inversion H; subst dl. simpl. rewrite !EH_mk, absent_holds.
    unfold cube_holds, lit_holds. simpl.
    destruct (get_tag m t); simpl; [|reflexivity].
    destruct (tagv t); reflexivity.
  - inversion H. reflexivity.
Qed.

Theorem compile_top_exact s dl :
  compile_top s = Some dl -> verdict_of (exec tagv m s) = verdict_of (DE dl).
Proof.
  unfold compile_top. intros H. destruct (compile s) as [d|] eqn:Hc; [|discriminate H].
  rewrite (scope_exact d [] dl H eq_refl), (compile_exact s d Hc).
  destruct (DE d) as [|[| | |]]; reflexivity.
Qed.

(* ---- soundness of entailment ---- *)
Lemma atom_eqb_eq a b : atom_eqb a b = true -> a = b.
Proof. unfold atom_eqb. destruct (atom_eq_dec a b); [auto|discriminate]. Qed.

Lemma lit_mem_holds l c : lit_mem l c = true -> CH c = true -> LH l = true.
Proof.
  unfold lit_mem, cube_holds. rewrite existsb_exists, forallb_forall.
  intros [l' [Hin He]] Hc. unfold lit_eqb in He. apply andb_true_iff in He as [Ha Hb].
  apply atom_eqb_eq in Ha. apply eqb_prop in Hb.
  destruct l as [a p], l' as [a' p']. simpl in *. subst. apply Hc. exact Hin.
Qed.

Lemma pinned_sound c e l :
  pinned c e = Some l -> CH c = true -> exists v, eval_s m e = Some v /\ mem_bytes v l = true.
Proof.
  induction c as [|[a p] c IH]; [discriminate|].
  intros H Hc. unfold cube_holds in Hc. cbn [forallb] in Hc. apply andb_true_iff in Hc as [Hl Hc].
  fold (CH c) in Hc.
  destruct a as [b|t|n x]; [|apply IH; assumption|apply IH; assumption].
  destruct b as [| |x y|t|x|x y|x y|x vs|x k|n x| | | |]; try (apply IH; assumption).
  - (* BEq *)
    destruct y as [v|t i|t|y1 y2|y1|cc y1]; try (destruct p; apply IH; assumption).
    destruct p; [|apply IH; assumption].
    cbn [pinned] in H.
    destruct (sexpr_eq_dec e x) as [->|]; [|apply IH; assumption].
    inversion H; subst l.
    unfold lit_holds in Hl. cbn [fst snd eval_atom eval_b eval_s] in Hl.
    destruct (eval_s m x) as [w|]; [|discriminate Hl].
    exists w. split; [reflexivity|]. unfold mem_bytes. cbn [existsb].
    destruct (bytes_eqb w v); [reflexivity | discriminate Hl].
  - (* BIn *)
    destruct p; [|apply IH; assumption].
    cbn [pinned] in H.
    destruct (sexpr_eq_dec e x) as [->|]; [|apply IH; assumption].
    inversion H; subst l.
    unfold lit_holds in Hl. cbn [fst snd eval_atom eval_b] in Hl.
    destruct (eval_s m x) as [w|]; [|discriminate Hl].
    exists w. split; [reflexivity|]. cbn [option_map] in Hl. destruct (mem_bytes w vs); [reflexivity|discriminate Hl].
Qed.

Lemma possible_sound c e : forall l,
  possible c e = Some l -> CH c = true -> exists v, eval_s m e = Some v /\ mem_bytes v l = true.
Proof.
  induction e as [b|t i|t|a IHa b IHb|a IHa|cc a IHa]; intros l H Hc; simpl in H.
  - destruct (pinned c (SLit b)) eqn:Hp.
    + inversion H; subst. eapply pinned_sound; eauto.
    + inversion H; subst. exists b. split; [reflexivity|]. unfold mem_bytes. simpl. rewrite bytes_eqb_refl. reflexivity.
  - destruct (pinned c (SField t i)) eqn:Hp; [|discriminate H].
    inversion H; subst. eapply pinned_sound; eauto.
  - destruct (pinned c (SMarker t)) eqn:Hp; [|discriminate H].
    inversion H; subst. eapply pinned_sound; eauto.
  - destruct (pinned c (SCat a b)) eqn:Hp.
    + inversion H; subst. eapply pinned_sound; eauto.
    + destruct (possible c a) as [la|] eqn:Ha; [|discriminate H].
      destruct (possible c b) as [lb|] eqn:Hb; [|discriminate H].
      inversion H; subst l.
      destruct (IHa la eq_refl Hc) as [va [Eva Hva]]. destruct (IHb lb eq_refl Hc) as [vb [Evb Hvb]].
      exists (va ++ vb). simpl. rewrite Eva, Evb. split; [reflexivity|].
      apply mem_bytes_In. apply in_flat_map. exists va. split; [apply mem_bytes_In; exact Hva|].
      apply in_map. apply mem_bytes_In. exact Hvb.
  - destruct (pinned c (STrim a)) eqn:Hp.
    + inversion H; subst. eapply pinned_sound; eauto.
    + destruct (possible c a) as [la|] eqn:Ha; [|discriminate H].
      inversion H; subst l.
      destruct (IHa la eq_refl Hc) as [va [Eva Hva]].
      exists (trim_space va). simpl. rewrite Eva. split; [reflexivity|].
      apply mem_bytes_In. apply in_map. apply mem_bytes_In. exact Hva.
  - destruct (pinned c (STrimByte cc a)) eqn:Hp.
    + inversion H; subst. eapply pinned_sound; eauto.
    + destruct (possible c a) as [la|] eqn:Ha; [|discriminate H].
      inversion H; subst l.
      destruct (IHa la eq_refl Hc) as [va [Eva Hva]].
      exists (trim_byte cc va). simpl. rewrite Eva. split; [reflexivity|].
      apply mem_bytes_In. apply in_map. apply mem_bytes_In. exact Hva.
Qed.

Lemma eval_s_some_present e v t :
  eval_s m e = Some v -> existsb (Nat.eqb t) (derefs_s e) = true -> is_none (get_tag m t) = false.
Proof.
  intros He Ht.
  assert (Hn : is_none (eval_s m e) = false) by (rewrite He; reflexivity).
  rewrite eval_s_none in Hn.
  apply existsb_exists in Ht as [t' [Hin Heq]]. apply Nat.eqb_eq in Heq. subst t'.
  destruct (is_none (get_tag m t)) eqn:E; [|reflexivity].
  exfalso. assert (existsb (fun t0 => is_none (get_tag m t0)) (derefs_s e) = true).
  { apply existsb_exists. exists t. auto. }
  congruence.
Qed.

Lemma mentions_present a t p :
  mentions_tag a t = true -> LH (a, p) = true -> is_none (get_tag m t) = false.
Proof.
  unfold lit_holds. cbn [fst snd]. intros Hm Hl.
  destruct a as [b|t'|n e].
  - destruct b as [| |x y|t0|x|x y|x y|x vs|x k|n x| | | |]; try discriminate Hm; cbn [mentions_tag] in Hm; cbn [eval_atom eval_b] in Hl.
    + destruct (eval_s m x) as [vx|] eqn:Ea; [|discriminate Hl].
      destruct (eval_s m y) as [vy|] eqn:Eb; [|discriminate Hl].
      rewrite existsb_app in Hm. apply orb_true_iff in Hm as [Hm|Hm].
      * eapply eval_s_some_present; [exact Ea | exact Hm].
      * eapply eval_s_some_present; [exact Eb | exact Hm].
    + destruct (eval_s m x) as [vx|] eqn:Ea; [|discriminate Hl]. eapply eval_s_some_present; [exact Ea | exact Hm].
    + destruct (eval_s m x) as [vx|] eqn:Ea; [|discriminate Hl]. eapply eval_s_some_present; [exact Ea | exact Hm].
    + destruct (eval_s m x) as [vx|] eqn:Ea; [|discriminate Hl]. eapply eval_s_some_present; [exact Ea | exact Hm].
  - cbn [mentions_tag] in Hm. apply Nat.eqb_eq in Hm. subst t'. cbn [eval_atom] in Hl.
    destruct (get_tag m t); [reflexivity|discriminate Hl].
  - cbn [mentions_tag] in Hm. cbn [eval_atom] in Hl.
    destruct (eval_s m e) as [vx|] eqn:Ea; [|discriminate Hl]. eapply eval_s_some_present; [exact Ea | exact Hm].
Qed.

Lemma excluded_sound c e v :
  CH c = true -> mem_bytes v (excluded c e) = true ->
  exists w, eval_s m e = Some w /\ bytes_eqb w v = false.
Proof.
  induction c as [|[a p] c IH]; [discriminate|].
  intros Hc Hv. unfold cube_holds in Hc. cbn [forallb] in Hc. apply andb_true_iff in Hc as [Hl Hc].
  fold (CH c) in Hc.
  destruct a as [b|t|n x]; [|apply IH; assumption|apply IH; assumption].
  destruct b as [| |x y|t|x|x y|x y|x vs|x k|n x| | | |]; try (apply IH; assumption).
  destruct p; [apply IH; assumption|].
  cbn [excluded] in Hv.
  destruct (sexpr_eq_dec e x) as [->|]; [|apply IH; assumption].
  apply mem_bytes_In in Hv. apply in_app_or in Hv as [Hv|Hv].
  - unfold lit_holds in Hl. cbn [fst snd eval_atom eval_b] in Hl.
    destruct (eval_s m x) as [w|]; [|discriminate Hl].
    exists w. split; [reflexivity|]. cbn [option_map] in Hl.
    destruct (bytes_eqb w v) eqn:E; [|reflexivity].
    apply bytes_eqb_eq in E. subst w. apply mem_bytes_In in Hv. rewrite Hv in Hl. discriminate Hl.
  - apply IH; [assumption|]. apply mem_bytes_In. exact Hv.
Qed.

Lemma entails_sound c l : entails c l = true -> CH c = true -> LH l = true.
Proof.
  unfold entails. intros H Hc. apply orb_true_iff in H as [H|H].
  - eapply lit_mem_holds; eauto.
  - destruct l as [[b| |] p]; try discriminate H.
    destruct b as [| |x y|t|x|x y|x y|a vs|x k|n x| | | |]; try discriminate H.
    + (* BNil, present *)
      destruct p; [discriminate H|].
      apply existsb_exists in H as [[a' p'] [Hin Hm]]. simpl in Hm.
      assert (Hl : LH (a', p') = true).
      { unfold cube_holds in Hc. rewrite forallb_forall in Hc. apply Hc. exact Hin. }
      pose proof (mentions_present a' t p' Hm Hl) as Hp.
      unfold lit_holds. simpl. destruct (get_tag m t); [reflexivity|discriminate Hp].
    + (* BIn *)
      destruct (possible c a) as [ps|] eqn:Hp.
      * destruct (possible_sound c a ps Hp Hc) as [v [Ev Hv]].
        rewrite forallb_forall in H. apply mem_bytes_In in Hv. specialize (H v Hv).
        unfold lit_holds. simpl. rewrite Ev. simpl. exact H.
      * apply andb_true_iff in H as [H Hall]. apply andb_true_iff in H as [Hpol Hne].
        destruct p; [discriminate Hpol|].
        destruct vs as [|v0 vs']; [discriminate Hne|].
        rewrite forallb_forall in Hall.
        destruct (excluded_sound c a v0 Hc (Hall v0 (or_introl eq_refl))) as [w [Ew _]].
        unfold lit_holds. cbn [fst snd eval_atom eval_b]. rewrite Ew. cbn [option_map].
        destruct (mem_bytes w (v0 :: vs')) eqn:Em; [|reflexivity].
        exfalso. apply mem_bytes_In in Em.
        destruct (excluded_sound c a w Hc (Hall w Em)) as [w' [Ew' Hneq]].
        rewrite Ew in Ew'. inversion Ew'; subst w'. rewrite bytes_eqb_refl in Hneq. discriminate Hneq.
Qed.

Lemma neg_lit_false l : LH (neg_lit l) = true -> LH l = false.
Proof.
  unfold lit_holds, neg_lit. destruct l as [a p]. simpl.
  destruct (eval_atom tagv m a) as [b|]; [|reflexivity].
  destruct b, p; simpl; congruence.
Qed.

Lemma refutes_sound c x : refutes c x = true -> CH c = true -> CH x = false.
Proof.
  unfold refutes. intros H Hc. apply existsb_exists in H as [l [Hin He]].
  pose proof (entails_sound c (neg_lit l) He Hc) as Hn. apply neg_lit_false in Hn.
  unfold cube_holds. destruct (forallb LH x) eqn:E; [|reflexivity].
  rewrite forallb_forall in E. rewrite (E l Hin) in Hn. discriminate Hn.
Qed.

Lemma unsat_sound c : unsat c = true -> CH c = false.
Proof.
  intros H. destruct (CH c) eqn:Hc; [|reflexivity].
  rewrite (refutes_sound c c H Hc) in Hc. discriminate Hc.
Qed.

Lemma forces_sound c e : forces c e = true -> CH c = true -> EH e = true.
Proof.
  unfold forces, entry_holds. intros H Hc. apply andb_true_iff in H as [Hg Hx].
  apply andb_true_iff. split.
  - unfold cube_holds. rewrite forallb_forall in Hg |- *. intros l Hl. eapply entails_sound; eauto.
  - apply negb_true_iff. unfold dnf_holds. destruct (existsb CH (en_x e)) eqn:E; [|reflexivity].
    apply existsb_exists in E as [x [Hin Hh]]. rewrite forallb_forall in Hx.
    rewrite (refutes_sound c x (Hx x Hin) Hc) in Hh. discriminate Hh.
Qed.

Lemma inconsistent_false c : inconsistent c = true -> CH c = false.
Proof.
  unfold inconsistent. intros H. apply existsb_exists in H as [l [Hin Hm]].
  destruct (CH c) eqn:Hc; [|reflexivity].
  pose proof (lit_mem_holds _ _ Hm Hc) as Hn. apply neg_lit_false in Hn.
  unfold cube_holds in Hc. rewrite forallb_forall in Hc. rewrite (Hc l Hin) in Hn. discriminate Hn.
Qed.

(* ---- panic freedom ---- *)
Definition clean (v : verdict) : bool := match v with Panic | Stuck => false | _ => true end.
Definition clean_o (o : outcome) : bool := match o with Cont => true | Ret v => clean v && negb (match v with Accept => true | _ => false end) end.

Hypothesis tagv_clean : forall t, is_none (get_tag m t) = false -> clean (tagv t) = true.

Lemma panic_free_go_sound A : forall dl before,
  CH A = true ->
  (forall b, In b before -> EH b = false) ->
  panic_free_go A before dl = true ->
  clean_o (DE dl) = true.
Proof.
  induction dl as [|e dl IH]; intros before HA Hb H; simpl in *; [reflexivity|].
  apply andb_true_iff in H as [He Hr].
  destruct (EH e) eqn:Hh.
  - unfold entry_holds in Hh. apply andb_true_iff in Hh as [Hg Hx].
    destruct (en_k e) eqn:Hk; simpl; try discriminate He; try reflexivity.
    + (* KRejCheck *)
      unfold wf_entry in He. rewrite Hk in He.
      pose proof (lit_mem_holds _ _ He Hg) as Hl. unfold lit_holds in Hl. simpl in Hl.
      destruct (eval_s m a) as [x|]; [|discriminate Hl]. simpl in Hl.
      destruct (run_validator name [x]); [reflexivity|discriminate Hl].
    + (* KRejTag *)
      unfold wf_entry in He. rewrite Hk in He.
      pose proof (lit_mem_holds _ _ He Hg) as Hl. unfold lit_holds in Hl. simpl in Hl.
      destruct (get_tag m t) eqn:Hgt; [|discriminate Hl].
      assert (Hc : clean (tagv t) = true) by (apply tagv_clean; rewrite Hgt; reflexivity).
      simpl in Hl. destruct (tagv t); simpl in *; try discriminate; reflexivity.
    + (* KPanic *)
      exfalso. apply orb_true_iff in He as [Hi|Hc].
      * apply inconsistent_false in Hi. rewrite CH_app, HA, Hg in Hi. discriminate Hi.
      * apply existsb_exists in Hc as [b [Hin Hf]]. apply andb_true_iff in Hf as [_ Hf].
        assert (CH (A ++ en_g e) = true) by (rewrite CH_app, HA, Hg; reflexivity).
        pose proof (forces_sound _ _ Hf H) as Hbh. rewrite (Hb b Hin) in Hbh. discriminate Hbh.
  - apply (IH (before ++ [e])); auto.
    intros b Hin. apply in_app_or in Hin as [Hin|[<-|[]]]; auto.
Qed.

Theorem panic_free_sound A dl :
  panic_free_under A dl = true -> CH A = true -> clean_o (DE dl) = true.
Proof. intros H HA. eapply (panic_free_go_sound A dl []); eauto. intros b []. Qed.

(* ---- the order-free characterisation of acceptance ---- *)
Lemma DE_cont_iff dl : DE dl = Cont <-> forall e, In e dl -> EH e = false.
Proof.
  induction dl as [|e dl IH]; simpl.
  - split; [intros _ e []|reflexivity].
  - destruct (EH e) eqn:He.
    + split.
      * intros H. destruct (KO_ret (en_k e)) as [v Hv]. rewrite Hv in H. discriminate H.
      * intros H. rewrite (H e (or_introl eq_refl)) in He. discriminate He.
    + rewrite IH. split.
      * intros H e' [<-|Hin]; auto.
      * intros H e' Hin. apply H. right. exact Hin.
Qed.

Theorem accept_iff_no_entry_holds A dl :
  panic_free_under A dl = true -> CH A = true ->
  (verdict_of (DE dl) = Accept <-> forall e, In e dl -> EH e = false).
Proof.
  intros Hpf HA. pose proof (panic_free_sound A dl Hpf HA) as Hc.
  rewrite <- DE_cont_iff. destruct (DE dl) as [|v]; simpl in *.
  - tauto.
  - split; [|discriminate]. intros ->. simpl in Hc. discriminate Hc.
Qed.

Lemma panic_entries_shadowed A : forall dl before,
  CH A = true -> panic_free_go A before dl = true ->
  (forall b, In b before -> is_reject (en_k b) = true -> EH b = false) ->
  (forall e, In e dl -> is_reject (en_k e) = true -> EH e = false) ->
  forall e, In e dl -> EH e = false.
Proof.
  induction dl as [|e dl IH]; intros before HA H Hb Hr e' Hin; [destruct Hin|].
  simpl in H. apply andb_true_iff in H as [He Hrest].
  destruct Hin as [<-|Hin].
  - destruct (en_k e) eqn:Hk; try discriminate He;
      try (apply Hr; [left; reflexivity | rewrite Hk; reflexivity]).
    destruct (EH e) eqn:Hh; [|reflexivity]. exfalso.
    unfold entry_holds in Hh. apply andb_true_iff in Hh as [Hg _].
    apply orb_true_iff in He as [Hi|Hc].
    + apply inconsistent_false in Hi. rewrite CH_app, HA, Hg in Hi. discriminate Hi.
    + apply existsb_exists in Hc as [b [Hinb Hf]]. apply andb_true_iff in Hf as [Hrj Hf].
      assert (CH (A ++ en_g e) = true) by (rewrite CH_app, HA, Hg; reflexivity).
      pose proof (forces_sound _ _ Hf H) as Hbh. rewrite (Hb b Hinb Hrj) in Hbh. discriminate Hbh.
  - apply (IH (before ++ [e])); auto.
    + intros b Hinb Hrj. apply in_app_or in Hinb as [Hinb|[<-|[]]]; auto.
      apply Hr; [left; reflexivity|exact Hrj].
    + intros e0 Hin0 Hrj. apply Hr; [right; exact Hin0|exact Hrj].
Qed.

(* acceptance depends only on the (unordered) set of reject guards *)
Theorem accept_iff_no_reject_holds A dl :
  panic_free_under A dl = true -> CH A = true ->
  (verdict_of (DE dl) = Accept <-> forall e, In e (rejects_of dl) -> EH e = false).
Proof.
  intros Hpf HA. rewrite (accept_iff_no_entry_holds A dl Hpf HA). split.
  - intros H e Hin. unfold rejects_of in Hin. apply filter_In in Hin as [Hin _]. auto.
  - intros H. apply (panic_entries_shadowed A dl [] HA Hpf).
    + intros b [].
    + intros e Hin Hrj. apply H. unfold rejects_of. apply filter_In. auto.
Qed.

(* a cube that forces a reject entry is never accepted *)
Theorem rejected_sound A dl c :
  panic_free_under A dl = true -> CH A = true ->
  rejected dl c = true -> CH c = true -> verdict_of (DE dl) <> Accept.
Proof.
  intros Hpf HA Hr Hc Hacc.
  rewrite (accept_iff_no_reject_holds A dl Hpf HA) in Hacc.
  unfold rejected in Hr. apply existsb_exists in Hr as [e [Hin Hf]].
  pose proof (Hacc e Hin) as Hn. rewrite (forces_sound c e Hf Hc) in Hn. discriminate Hn.
Qed.

End Facts.
