(* The codec round trip for regular layouts: for every canonical value, in both layouts,
   Parse (Format v) = v. Generic in the layout; applied to the regenerated tags in CodecTags.v. *)
From Wire Require Import Base.Bytes Model.Converters Model.GoV Model.Codec Model.Layout
     Theory.BytesFacts Theory.ConvFacts.

Lemma nn_of_nat n : nn (N.of_nat n) = n.
Proof. unfold nn. apply Nnat.Nat2N.id. Qed.

(* ---------- values written by a parse ---------- *)
Fixpoint apply_sets (sets : list (nat * bytes)) (vals : list bytes) : list bytes :=
  match sets with
  | [] => vals
  | (e, x) :: r => apply_sets r (set_nth e x vals)
  end.

Lemma set_nth_length i x l : length (set_nth i x l) = length l.
Proof. revert i. induction l as [|y l IH]; intros [|i]; cbn; auto. Qed.

Lemma nth_set_nth i j x l : nth i (set_nth j x l) [] = if (i =? j) && (j <? length l) then x else nth i l [].
Proof.
  revert i j. induction l as [|y l IH]; intros i j.
  - destruct j; cbn; rewrite andb_false_r; destruct i; reflexivity.
  - destruct j as [|j], i as [|i]; cbn [set_nth nth length]; try reflexivity.
    rewrite IH. cbn. reflexivity.
Qed.

Lemma apply_sets_length sets vals : length (apply_sets sets vals) = length vals.
Proof. revert vals. induction sets as [|[e x] r IH]; intros vals; cbn; [reflexivity|]. rewrite IH. apply set_nth_length. Qed.

Lemma apply_sets_app a b vals : apply_sets (a ++ b) vals = apply_sets b (apply_sets a vals).
Proof. revert vals. induction a as [|[e x] a IH]; intros vals; cbn; [reflexivity|]. apply IH. Qed.

(* when every write stores the target's own element, the result is the target wherever written *)
Lemma nth_apply_sets (tv : list bytes) sets : forall vals i,
  length vals = length tv ->
  (forall e x, In (e, x) sets -> x = nth e tv []) ->
  nth i (apply_sets sets vals) [] = if existsb (Nat.eqb i) (map fst sets) then nth i tv [] else nth i vals [].
Proof.
  induction sets as [|[e x] r IH]; intros vals i Hl Hs; [reflexivity|].
  cbn [apply_sets map fst existsb].
  rewrite (IH (set_nth e x vals) i) by (try (rewrite set_nth_length; exact Hl); intros; apply Hs; right; assumption).
  destruct (existsb (Nat.eqb i) (map fst r)) eqn:Er; [rewrite orb_true_r; reflexivity|].
  rewrite orb_false_r, nth_set_nth.
  destruct (i =? e) eqn:Ei; cbn [andb]; [|reflexivity].
  apply Nat.eqb_eq in Ei. subst i.
  destruct (e <? length vals) eqn:El.
  - apply Hs. left. reflexivity.
  - apply Nat.ltb_ge in El. rewrite !nth_overflow by lia. reflexivity.
Qed.

(* ---------- the formatted text ---------- *)
Definition pimg (s : pslot) (x : bytes) : bytes :=
  if ps_num s then numeric_string_field x (ps_w s) else alpha_field x (ps_w s).

Definition prefix_text (v : tagval) (l : list pslot) : bytes := flat_map (fun s => pimg s (elem_val v (ps_e s))) l.
Definition fixed_text (v : tagval) (l : list fslot) : bytes := flat_map (fun s => alpha_field (elem_val v (fs_e s)) (fs_w s)) l.

Definition vout (variable : bool) (s : vslot) (x : bytes) : bytes :=
  let o := format_alpha_field x (vs_w s) variable in
  if vs_star s && bytes_eqb o [delim] then [] else o.
Definition var_text (variable : bool) (v : tagval) (l : list vslot) : bytes :=
  flat_map (fun s => vout variable s (elem_val v (vs_e s)) ++ [delim]) l.

Definition body_text (L : layout) (variable : bool) (v : tagval) : bytes :=
  tv_marker v ++ prefix_text v (l_prefix L) ++ fixed_text v (l_fixed L) ++ var_text variable v (l_var L).

Definition format_text (L : layout) (variable : bool) (v : tagval) : bytes :=
  if l_strip L && variable then strip_delimiters (body_text L variable v) else body_text L variable v.

Lemma run_format_prefix v var l : forall rest acc,
  run_format (map (fun s => if ps_num s then FNumeric (ps_e s) (N.of_nat (ps_w s)) else FAlpha (ps_e s) (N.of_nat (ps_w s))) l ++ rest) v var acc =
  run_format rest v var (acc ++ prefix_text v l).
Proof.
  induction l as [|s l IH]; intros rest acc; cbn [map app prefix_text flat_map].
  - f_equal. symmetry. apply app_nil_r.
  - unfold pimg at 1. destruct (ps_num s); cbn [run_format]; rewrite nn_of_nat, IH, <- app_assoc; reflexivity.
Qed.

Lemma run_format_fixed v var l : forall rest acc,
  run_format (map (fun s => FAlpha (fs_e s) (N.of_nat (fs_w s))) l ++ rest) v var acc =
  run_format rest v var (acc ++ fixed_text v l).
Proof.
  induction l as [|s l IH]; intros rest acc; cbn [map app fixed_text flat_map].
  - f_equal. symmetry. apply app_nil_r.
  - cbn [run_format]. rewrite nn_of_nat, IH, <- app_assoc. reflexivity.
Qed.

Lemma run_format_var v var l : forall rest acc,
  run_format (map (fun s => FOpt (vs_e s) (N.of_nat (vs_w s)) true (vs_star s)) l ++ rest) v var acc =
  run_format rest v var (acc ++ var_text var v l).
Proof.
  induction l as [|s l IH]; intros rest acc; cbn [map app var_text flat_map].
  - f_equal. symmetry. apply app_nil_r.
  - cbn [run_format]. rewrite nn_of_nat, IH. unfold vout. rewrite <- !app_assoc. reflexivity.
Qed.

(* Format on the canonical step list produces exactly format_text *)
Theorem run_format_canon L variable v :
  run_format (canon_format L) v variable [] = Some (format_text L variable v).
Proof.
  unfold canon_format. cbn [app run_format].
  rewrite run_format_prefix, run_format_fixed, run_format_var.
  unfold format_text, body_text. cbn [app]. rewrite <- !app_assoc.
  destruct (l_strip L); cbn [run_format andb].
  - reflexivity.
  - reflexivity.
Qed.

(* ---------- canonical images ---------- *)
Definition asciis (x : bytes) : bool := forallb is_ascii x.

Definition canon_vals (L : layout) (v : tagval) : Prop :=
  (forall s, In s (l_prefix L) -> pslot_ok s (elem_val v (ps_e s)) = true) /\
  (forall s, In s (l_fixed L) -> clean (fs_w s) (elem_val v (fs_e s)) = true) /\
  (forall s, In s (l_var L) -> clean (vs_w s) (elem_val v (vs_e s)) = true).

Definition widths_ok (L : layout) : Prop :=
  (forall s, In s (l_prefix L) -> 1 <= ps_w s /\ small (ps_w s)) /\
  (forall s, In s (l_fixed L) -> 1 <= fs_w s /\ small (fs_w s)) /\
  (forall s, In s (l_var L) -> 1 <= vs_w s /\ small (vs_w s)).

Lemma clean_parts w x : clean w x = true -> length x <= w /\ forallb okchar x = true /\ trimmed x = true.
Proof.
  unfold clean. intros H. apply andb_true_iff in H as [H Ht]. apply andb_true_iff in H as [Hl Ho].
  apply Nat.leb_le in Hl. auto.
Qed.

Lemma okchars_asciis x : forallb okchar x = true -> asciis x = true.
Proof. unfold asciis. intros H. rewrite forallb_forall in H |- *. intros b Hb. apply okchar_ascii, H, Hb. Qed.

(* trimming a padded all-ASCII trimmed value *)
Lemma trim_ascii_trimmed x : asciis x = true -> trimmed x = true -> trim_space x = x.
Proof.
  intros Ha Ht. unfold trim_space. destruct x as [|b t]; [reflexivity|].
  cbn [trimmed] in Ht. apply andb_true_iff in Ht as [Hb Hl]. apply negb_true_iff in Hb, Hl.
  unfold asciis in Ha. cbn [forallb] in Ha. apply andb_true_iff in Ha as [Hab Hat].
  rewrite (trim_left_keep b t Hab Hb). unfold trim_right.
  rewrite (last_rev_hd t b b) in Hl.
  assert (Hall : forallb is_ascii (rev (b :: t)) = true) by (rewrite forallb_rev; cbn [forallb]; rewrite Hab, Hat; reflexivity).
  destruct (rev (b :: t)) as [|l r] eqn:E; [cbn [rev] in E; apply app_eq_nil in E as [_ E]; discriminate E|].
  cbn [hd] in Hl. cbn [forallb] in Hall. apply andb_true_iff in Hall as [Hol _].
  rewrite (trim_left_rev_keep l r Hol Hl), <- E, rev_involutive. reflexivity.
Qed.

(* the image of a prefix slot: exactly w bytes, all ASCII, and reading it back gives the value *)
Lemma pimg_facts s x :
  1 <= ps_w s -> small (ps_w s) -> pslot_ok s x = true ->
  length (pimg s x) = ps_w s /\ forallb (fun b => okchar b || beqb b space) (pimg s x) = true /\
  (if ps_trim s then trim_space (pimg s x) else pimg s x) = x.
Proof.
  intros Hw Hs Hok. unfold pslot_ok, pimg in *. destruct (ps_num s).
  - apply andb_true_iff in Hok as [Hok Ht]. apply andb_true_iff in Hok as [Hl Ha]. apply Nat.eqb_eq in Hl.
    rewrite (numeric_full x (ps_w s) Hl). repeat split; auto.
    + unfold okchars in Ha. rewrite forallb_forall in Ha |- *. intros b Hb. rewrite (Ha b Hb). reflexivity.
    + destruct (ps_trim s); [|reflexivity]. cbn [negb orb] in Ht. apply trim_ascii_trimmed; [apply okchars_asciis|]; assumption.
  - destruct (ps_trim s).
    + destruct (clean_parts _ _ Hok) as (Hl & Ho & Ht).
      unfold alpha_field. rewrite (format_alpha_fixed x (ps_w s) Hl Hs). repeat split.
      * apply pad_length. exact Hl.
      * unfold pad. rewrite forallb_app. apply andb_true_iff. split.
        -- rewrite forallb_forall in Ho |- *. intros b Hb. rewrite (Ho b Hb). reflexivity.
        -- clear. induction (ps_w s - length x); [reflexivity|]. cbn. exact IHn.
      * apply (trim_img false (ps_w s) x Hok).
    + apply andb_true_iff in Hok as [Hl Ha]. apply Nat.eqb_eq in Hl.
      unfold alpha_field. rewrite (format_alpha_fixed x (ps_w s)) by (try lia; assumption).
      unfold pad. rewrite Hl, Nat.sub_diag. cbn [repeat]. rewrite app_nil_r. repeat split; auto.
      unfold okchars in Ha. rewrite forallb_forall in Ha |- *. intros b Hb. rewrite (Ha b Hb). reflexivity.
Qed.

(* ---------- slices of the prefix ---------- *)
Lemma slice_mid pre mid post :
  slice (pre ++ mid ++ post) (length pre) (length pre + length mid) = Some mid.
Proof.
  unfold slice.
  replace (length pre <=? length pre + length mid) with true by (symmetry; apply Nat.leb_le; lia).
  replace (length pre + length mid <=? length (pre ++ mid ++ post)) with true
    by (symmetry; apply Nat.leb_le; rewrite !app_length; lia).
  cbn [andb]. rewrite skipn_app, Nat.sub_diag, skipn_all. cbn [skipn app].
  replace (length pre + length mid - length pre) with (length mid) by lia.
  rewrite firstn_app, Nat.sub_diag, firstn_all. cbn [firstn]. rewrite app_nil_r. reflexivity.
Qed.

Definition prefix_sets (v : tagval) (l : list pslot) : list (nat * bytes) :=
  map (fun s => (ps_e s, elem_val v (ps_e s))) l.

Lemma run_parse_slices v : forall l pre post rest cur mk vals,
  (forall s, In s l -> 1 <= ps_w s /\ small (ps_w s)) ->
  (forall s, In s l -> pslot_ok s (elem_val v (ps_e s)) = true) ->
  run_parse (canon_slices (length pre) l ++ rest) (pre ++ prefix_text v l ++ post) cur mk vals =
  run_parse rest (pre ++ prefix_text v l ++ post) cur mk (apply_sets (prefix_sets v l) vals).
Proof.
  induction l as [|s l IH]; intros pre post rest cur mk vals Hw Hok; [reflexivity|].
  cbn [canon_slices app prefix_text flat_map prefix_sets map apply_sets].
  destruct (Hw s (or_introl eq_refl)) as [Hw1 Hw2].
  destruct (pimg_facts s _ Hw1 Hw2 (Hok s (or_introl eq_refl))) as (Hlen & _ & Hval).
  set (p := pimg s (elem_val v (ps_e s))) in *.
  cbn [run_parse]. rewrite !nn_of_nat. rewrite <- Hlen at 1.
  fold (prefix_text v l). fold (prefix_sets v l).
  rewrite <- (app_assoc p). rewrite (slice_mid pre p (prefix_text v l ++ post)).
  assert (E : (if ps_trim s then trim_space p else p) = elem_val v (ps_e s)) by exact Hval.
  rewrite E.
  specialize (IH (pre ++ p) post rest cur mk (set_nth (ps_e s) (elem_val v (ps_e s)) vals)).
  rewrite app_length, Hlen in IH. rewrite <- !app_assoc in IH.
  apply IH; intros; [apply Hw | apply Hok]; right; assumption.
Qed.

(* ---------- cursor-driven elements ---------- *)
Definition fixed_sets (v : tagval) (l : list fslot) : list (nat * bytes) :=
  map (fun s => (fs_e s, elem_val v (fs_e s))) l.
Definition var_sets (v : tagval) (l : list vslot) : list (nat * bytes) :=
  map (fun s => (vs_e s, elem_val v (vs_e s))) l.

Lemma slice_from_app pre post : slice_from (pre ++ post) (length pre) = Some post.
Proof.
  unfold slice_from. replace (length pre <=? length (pre ++ post)) with true
    by (symmetry; apply Nat.leb_le; rewrite app_length; lia).
  rewrite skipn_app, Nat.sub_diag, skipn_all. reflexivity.
Qed.

Lemma fixed_text_canon v l :
  (forall s, In s l -> 1 <= fs_w s /\ small (fs_w s)) ->
  (forall s, In s l -> clean (fs_w s) (elem_val v (fs_e s)) = true) ->
  fixed_text v l = flat_map (fun s => pad (fs_w s) (elem_val v (fs_e s))) l.
Proof.
  induction l as [|s l IH]; intros Hw Hc; [reflexivity|].
  cbn [fixed_text flat_map]. unfold alpha_field at 1.
  destruct (clean_parts _ _ (Hc s (or_introl eq_refl))) as (Hl & _ & _).
  rewrite (format_alpha_fixed _ _ Hl (proj2 (Hw s (or_introl eq_refl)))).
  f_equal. apply IH; intros; [apply Hw | apply Hc]; right; assumption.
Qed.

Lemma fixed_text_cons v s l : fixed_text v (s :: l) = alpha_field (elem_val v (fs_e s)) (fs_w s) ++ fixed_text v l.
Proof. reflexivity. Qed.

Lemma run_parse_fixed v : forall l pre post rest mk vals,
  (forall s, In s l -> 1 <= fs_w s /\ small (fs_w s)) ->
  (forall s, In s l -> clean (fs_w s) (elem_val v (fs_e s)) = true) ->
  lacks_byte lbrace post = true ->
  run_parse (map (fun s => PFixed (fs_e s) (N.of_nat (fs_w s)) (fs_field s)) l ++ rest)
            (pre ++ fixed_text v l ++ post) (length pre) mk vals =
  run_parse rest (pre ++ fixed_text v l ++ post) (length pre + length (fixed_text v l)) mk
            (apply_sets (fixed_sets v l) vals).
Proof.
  induction l as [|s l IH]; intros pre post rest mk vals Hw Hc Hp.
  - cbn. rewrite Nat.add_0_r. reflexivity.
  - pose proof (Hc s (or_introl eq_refl)) as Hcs. destruct (Hw s (or_introl eq_refl)) as [Hw1 Hw2].
    destruct (clean_parts _ _ Hcs) as (Hl & Ho & _).
    assert (Hwl : forall s0, In s0 l -> 1 <= fs_w s0 /\ small (fs_w s0)) by (intros; apply Hw; right; assumption).
    assert (Hcl : forall s0, In s0 l -> clean (fs_w s0) (elem_val v (fs_e s0)) = true) by (intros; apply Hc; right; assumption).
    rewrite fixed_text_cons. cbn [map app fixed_sets apply_sets].
    unfold alpha_field at 1 2 3. rewrite (format_alpha_fixed _ _ Hl Hw2).
    set (p := pad (fs_w s) (elem_val v (fs_e s))).
    assert (Hpl : length p = fs_w s) by (apply pad_length; exact Hl).
    cbn [run_parse]. rewrite <- !app_assoc.
    rewrite (slice_from_app pre (p ++ fixed_text v l ++ post)), nn_of_nat.
    assert (Hrest : lacks_byte lbrace (fixed_text v l ++ post) = true).
    { rewrite lacks_app, Hp, andb_true_r. rewrite (fixed_text_canon v l Hwl Hcl).
      clear -Hcl. induction l as [|s0 l IHl]; [reflexivity|]. cbn [flat_map]. rewrite lacks_app.
      destruct (clean_parts _ _ (Hcl s0 (or_introl eq_refl))) as (_ & Ho & _).
      unfold pad. rewrite lacks_app, (okchars_lack_brace _ Ho), (lacks_repeat lbrace space _ eq_refl). cbn [andb].
      apply IHl. intros; apply Hcl; right; assumption. }
    pose proof (parse_fixed_pad (fs_w s) _ (fixed_text v l ++ post) Hw1 Hcs Hrest) as Hpf. fold p in Hpf. rewrite Hpf.
    fold (fixed_sets v l).
    specialize (IH (pre ++ p) post rest mk (set_nth (fs_e s) (elem_val v (fs_e s)) vals) Hwl Hcl Hp).
    rewrite app_length, Hpl in IH. rewrite <- !app_assoc in IH. rewrite IH.
    rewrite app_length, Hpl. f_equal. lia.
Qed.

(* variable elements, no stripping: every element carries its delimiter *)
Definition vimg (variable : bool) (s : vslot) (x : bytes) : bytes := img variable (vs_w s) x.

Lemma vout_canon variable s x : small (vs_w s) -> clean (vs_w s) x = true -> vout variable s x = vimg variable s x.
Proof.
  intros Hs Hc. destruct (clean_parts _ _ Hc) as (Hl & Ho & _). unfold vout, vimg, img.
  assert (E : format_alpha_field x (vs_w s) variable = (if variable then x else pad (vs_w s) x)).
  { destruct variable; [apply format_alpha_variable | apply format_alpha_fixed]; assumption. }
  rewrite E.
  destruct (vs_star s); [|reflexivity]. cbn [andb].
  destruct (bytes_eqb (if variable then x else pad (vs_w s) x) [delim]) eqn:Eb; [|reflexivity].
  exfalso. apply bytes_eqb_eq in Eb.
  assert (Hd : lacks_byte delim (if variable then x else pad (vs_w s) x) = true).
  { apply (img_lacks delim variable (vs_w s) x (okchars_lack_delim x Ho) eq_refl). }
  rewrite Eb in Hd. cbn in Hd. discriminate Hd.
Qed.

Lemma var_text_canon variable v l :
  (forall s, In s l -> 1 <= vs_w s /\ small (vs_w s)) ->
  (forall s, In s l -> clean (vs_w s) (elem_val v (vs_e s)) = true) ->
  var_text variable v l = flat_map (fun s => vimg variable s (elem_val v (vs_e s)) ++ [delim]) l.
Proof.
  induction l as [|s l IH]; intros Hw Hc; [reflexivity|].
  cbn [var_text flat_map]. rewrite (vout_canon variable s _ (proj2 (Hw s (or_introl eq_refl))) (Hc s (or_introl eq_refl))).
  f_equal. apply IH; intros; [apply Hw | apply Hc]; right; assumption.
Qed.

Lemma run_parse_var_plain variable v : forall l pre rest mk vals,
  (forall s, In s l -> clean (vs_w s) (elem_val v (vs_e s)) = true) ->
  let txt := flat_map (fun s => vimg variable s (elem_val v (vs_e s)) ++ [delim]) l in
  run_parse (map (fun s => PVar (vs_e s) (N.of_nat (vs_w s)) (vs_field s)) l ++ rest) (pre ++ txt) (length pre) mk vals =
  run_parse rest (pre ++ txt) (length pre + length txt) mk (apply_sets (var_sets v l) vals).
Proof.
  induction l as [|s l IH]; intros pre rest mk vals Hc.
  - cbn. rewrite Nat.add_0_r. reflexivity.
  - cbn zeta. cbn [map app flat_map var_sets apply_sets].
    set (p := vimg variable s (elem_val v (vs_e s))).
    set (txt := flat_map (fun s0 => vimg variable s0 (elem_val v (vs_e s0)) ++ [delim]) l).
    cbn [run_parse]. rewrite <- !app_assoc. cbn [app].
    rewrite (slice_from_app pre (p ++ delim :: txt)), nn_of_nat.
    unfold p, vimg. rewrite (parse_variable_img variable (vs_w s) _ txt (Hc s (or_introl eq_refl))).
    fold (vimg variable s (elem_val v (vs_e s))). fold p.
    specialize (IH (pre ++ p ++ [delim]) rest mk (set_nth (vs_e s) (elem_val v (vs_e s)) vals)
                   (fun s0 H => Hc s0 (or_intror H))).
    cbn zeta in IH. fold txt in IH.
    rewrite !app_length in IH. cbn [length] in IH. rewrite <- !app_assoc in IH. cbn [app] in IH.
    replace (length pre + S (length p)) with (length pre + (length p + 1)) by lia.
    rewrite IH. rewrite !app_length. cbn [length]. f_equal. lia.
Qed.

(* variable layout with stripping: trailing empty elements leave a single delimiter behind *)
Definition all_empty (xs : list bytes) : bool := forallb (fun x => match x with [] => true | _ => false end) xs.

Fixpoint vt (xs : list bytes) : bytes :=
  match xs with
  | [] => []
  | x :: r => if all_empty r then x ++ [delim] else x ++ delim :: vt r
  end.

Lemma all_empty_text xs : all_empty xs = true -> flat_map (fun x => x ++ [delim]) xs = repeat delim (length xs).
Proof.
  induction xs as [|x r IH]; [reflexivity|]. cbn [all_empty forallb flat_map length repeat].
  destruct x; [|discriminate]. intros H. cbn [app]. f_equal. apply IH. exact H.
Qed.

Lemma vt_all_empty xs : xs <> [] -> all_empty xs = true -> vt xs = [delim].
Proof.
  destruct xs as [|x r]; [contradiction|]. intros _ H. cbn [all_empty forallb] in H.
  apply andb_true_iff in H as [Hx Hr]. destruct x; [|discriminate]. cbn [vt]. unfold all_empty. rewrite Hr. reflexivity.
Qed.

(* some element is non-empty: stripping never reaches the text before the elements *)
Lemma strip_some_nonempty : forall xs P,
  all_empty xs = false -> (forall x, In x xs -> lacks_byte delim x = true) -> 6 <= length P ->
  strip_delimiters (P ++ flat_map (fun x => x ++ [delim]) xs) = P ++ vt xs.
Proof.
  induction xs as [|x r IH]; intros P Hne Hl HP; [discriminate|].
  cbn [flat_map vt]. destruct (all_empty r) eqn:Ea.
  - rewrite (all_empty_text r Ea).
    destruct x as [|c x'] using rev_ind.
    + cbn [all_empty forallb] in Hne. fold (all_empty r) in Hne. rewrite Ea in Hne. discriminate Hne.
    + clear IHx'. pose proof (Hl _ (or_introl eq_refl)) as H. rewrite lacks_app in H. apply andb_true_iff in H as [_ H].
      cbn in H. rewrite andb_true_r in H. apply negb_true_iff in H.
      replace (P ++ ((x' ++ [c]) ++ [delim]) ++ repeat delim (length r)) with ((P ++ x') ++ c :: repeat delim (S (length r)))
        by (cbn [repeat]; rewrite <- !app_assoc; reflexivity).
      rewrite (strip_delimiters_stars (P ++ x') c (S (length r)) H) by (rewrite app_length; lia).
      replace (Nat.min (S (length r)) 1) with 1 by lia.
      cbn [repeat]. rewrite <- !app_assoc. reflexivity.
  - replace (P ++ (x ++ [delim]) ++ flat_map (fun x0 => x0 ++ [delim]) r) with ((P ++ x ++ [delim]) ++ flat_map (fun x0 => x0 ++ [delim]) r)
      by (rewrite <- !app_assoc; reflexivity).
    rewrite (IH (P ++ x ++ [delim]) eq_refl (fun y Hy => Hl y (or_intror Hy))) by (rewrite app_length; lia).
    rewrite <- !app_assoc. reflexivity.
Qed.

(* every element empty: one delimiter survives, provided the text before ends with a non-delimiter *)
Lemma strip_all_empty xs H c :
  xs <> [] -> all_empty xs = true -> beqb c delim = false -> 5 <= length H ->
  strip_delimiters ((H ++ [c]) ++ flat_map (fun x => x ++ [delim]) xs) = (H ++ [c]) ++ vt xs.
Proof.
  intros Hne Ha Hc HH. rewrite (all_empty_text xs Ha), (vt_all_empty xs Hne Ha), <- !app_assoc. cbn [app].
  rewrite (strip_delimiters_stars H c (length xs) Hc HH).
  destruct xs; [contradiction|]. cbn [length]. replace (Nat.min (S (length xs)) 1) with 1 by lia. reflexivity.
Qed.

Lemma strip_no_vars P c : beqb c delim = false -> 5 <= length P -> strip_delimiters (P ++ [c]) = P ++ [c].
Proof. intros Hc HP. apply (strip_delimiters_stars P c 0 Hc HP). Qed.

(* parsing on an exhausted record: every remaining variable element is omitted *)
Lemma run_parse_var_exhausted : forall (l : list vslot) rest rec mk vals,
  run_parse (map (fun s => PVar (vs_e s) (N.of_nat (vs_w s)) (vs_field s)) l ++ rest) rec (length rec) mk vals =
  run_parse rest rec (length rec) mk (apply_sets (map (fun s => (vs_e s, [])) l) vals).
Proof.
  induction l as [|s l IH]; intros rest rec mk vals; [reflexivity|].
  cbn [map app run_parse apply_sets].
  replace (slice_from rec (length rec)) with (Some (@nil byte)).
  2:{ unfold slice_from. rewrite Nat.leb_refl, skipn_all. reflexivity. }
  rewrite parse_variable_nil, Nat.add_0_r. apply IH.
Qed.

Definition vals_of (v : tagval) (l : list vslot) : list bytes := map (fun s => elem_val v (vs_e s)) l.

Lemma all_empty_sets v l :
  all_empty (vals_of v l) = true -> map (fun s => (vs_e s, [])) l = var_sets v l.
Proof.
  induction l as [|s l IH]; [reflexivity|]. cbn [vals_of map all_empty forallb var_sets].
  intros H. apply andb_true_iff in H as [Hx Hr]. destruct (elem_val v (vs_e s)); [|discriminate].
  f_equal. apply IH. exact Hr.
Qed.

Lemma run_parse_var_stripped v : forall l pre rest mk vals,
  (forall s, In s l -> clean (vs_w s) (elem_val v (vs_e s)) = true) ->
  let txt := vt (vals_of v l) in
  run_parse (map (fun s => PVar (vs_e s) (N.of_nat (vs_w s)) (vs_field s)) l ++ rest) (pre ++ txt) (length pre) mk vals =
  run_parse rest (pre ++ txt) (length pre + length txt) mk (apply_sets (var_sets v l) vals).
Proof.
  induction l as [|s l IH]; intros pre rest mk vals Hc.
  - cbn. rewrite Nat.add_0_r. reflexivity.
  - cbn zeta. cbn [vals_of map vt]. fold (vals_of v l).
    pose proof (Hc s (or_introl eq_refl)) as Hcs.
    set (x := elem_val v (vs_e s)) in *.
    assert (Hstep : forall tail, run_parse (PVar (vs_e s) (N.of_nat (vs_w s)) (vs_field s) :: map (fun s0 => PVar (vs_e s0) (N.of_nat (vs_w s0)) (vs_field s0)) l ++ rest)
                     (pre ++ x ++ delim :: tail) (length pre) mk vals =
                   run_parse (map (fun s0 => PVar (vs_e s0) (N.of_nat (vs_w s0)) (vs_field s0)) l ++ rest)
                     (pre ++ x ++ delim :: tail) (length pre + S (length x)) mk (set_nth (vs_e s) x vals)).
    { intros tail. cbn [run_parse]. rewrite (slice_from_app pre (x ++ delim :: tail)), nn_of_nat.
      pose proof (parse_variable_img true (vs_w s) x tail Hcs) as Hp. unfold img in Hp. rewrite Hp. reflexivity. }
    cbn [map app var_sets apply_sets]. fold x.
    destruct (all_empty (vals_of v l)) eqn:Ea.
    + replace (pre ++ x ++ [delim]) with (pre ++ x ++ delim :: []) by reflexivity.
      rewrite Hstep.
      replace (length pre + S (length x)) with (length (pre ++ x ++ [delim])) by (rewrite !app_length; cbn [length]; lia).
      rewrite run_parse_var_exhausted, (all_empty_sets v l Ea).
      f_equal. rewrite !app_length. cbn [length]. lia.
    + rewrite Hstep.
      specialize (IH (pre ++ x ++ [delim]) rest mk (set_nth (vs_e s) x vals) (fun s0 H => Hc s0 (or_intror H))).
      cbn zeta in IH. rewrite !app_length in IH. cbn [length] in IH. rewrite <- !app_assoc in IH. cbn [app] in IH.
      replace (length pre + S (length x)) with (length pre + (length x + 1)) by lia.
      rewrite IH. f_equal. rewrite !app_length. cbn [length]. lia.
Qed.
