(* Assembly: Parse (Format v) = v for regular layouts, both layouts, all canonical values. *)
From Wire Require Import Base.Bytes Model.Converters Model.GoV Model.Codec Model.Layout
     Theory.BytesFacts Theory.ConvFacts Theory.CodecFacts.

Definition soft (b : byte) : bool := okchar b || beqb b space.
Definition softd (b : byte) : bool := soft b || beqb b delim.

Lemma soft_ascii b : soft b = true -> is_ascii b = true.
Proof. unfold soft. intros H. apply orb_true_iff in H as [H|H]; [apply okchar_ascii, H|]. apply beqb_eq in H. subst. reflexivity. Qed.
Lemma soft_not_delim b : soft b = true -> beqb b delim = false.
Proof. unfold soft. intros H. apply orb_true_iff in H as [H|H]; [apply okchar_not_delim, H|]. apply beqb_eq in H. subst. reflexivity. Qed.
Lemma soft_not_brace b : soft b = true -> beqb b lbrace = false.
Proof. unfold soft. intros H. apply orb_true_iff in H as [H|H]; [apply okchar_not_brace, H|]. apply beqb_eq in H. subst. reflexivity. Qed.

Lemma soft_softd l : forallb soft l = true -> forallb softd l = true.
Proof. intros H. rewrite forallb_forall in H |- *. intros b Hb. unfold softd. rewrite (H b Hb). reflexivity. Qed.

Lemma softd_ascii l : forallb softd l = true -> asciis l = true.
Proof.
  unfold asciis. intros H. rewrite forallb_forall in H |- *. intros b Hb. specialize (H b Hb). unfold softd in H.
  apply orb_true_iff in H as [H|H]; [apply soft_ascii, H|]. apply beqb_eq in H. subst. reflexivity.
Qed.
Lemma softd_no_brace l : forallb softd l = true -> lacks_byte lbrace l = true.
Proof.
  unfold lacks_byte. intros H. rewrite forallb_forall in H |- *. intros b Hb. specialize (H b Hb). unfold softd in H.
  apply orb_true_iff in H as [H|H]; [rewrite (soft_not_brace b H); reflexivity|]. apply beqb_eq in H. subst. reflexivity.
Qed.

Lemma pad_soft w x : forallb okchar x = true -> forallb soft (pad w x) = true.
Proof.
  intros Ho. unfold pad. rewrite forallb_app. apply andb_true_iff. split.
  - rewrite forallb_forall in Ho |- *. intros b Hb. unfold soft. rewrite (Ho b Hb). reflexivity.
  - induction (w - length x) as [|k IH]; [reflexivity|]. cbn. exact IH.
Qed.

Lemma prefix_text_soft v l :
  (forall s, In s l -> 1 <= ps_w s /\ small (ps_w s)) ->
  (forall s, In s l -> pslot_ok s (elem_val v (ps_e s)) = true) ->
  forallb soft (prefix_text v l) = true /\ length (prefix_text v l) = prefix_width l.
Proof.
  induction l as [|s l IH]; intros Hw Hc; [split; reflexivity|].
  cbn [prefix_text flat_map prefix_width fold_right]. rewrite forallb_app, app_length.
  destruct (Hw s (or_introl eq_refl)) as [H1 H2].
  destruct (pimg_facts s _ H1 H2 (Hc s (or_introl eq_refl))) as (Hlen & Hs & _).
  destruct IH as [IH1 IH2]; [intros; apply Hw; right; assumption | intros; apply Hc; right; assumption|].
  fold (prefix_text v l). fold (prefix_width l). unfold soft at 1. rewrite Hs, IH1, Hlen, IH2. split; reflexivity.
Qed.

Lemma fixed_text_soft v l :
  (forall s, In s l -> 1 <= fs_w s /\ small (fs_w s)) ->
  (forall s, In s l -> clean (fs_w s) (elem_val v (fs_e s)) = true) ->
  forallb soft (fixed_text v l) = true.
Proof.
  intros Hw Hc. rewrite (fixed_text_canon v l Hw Hc). clear Hw.
  induction l as [|s l IH]; [reflexivity|]. cbn [flat_map]. rewrite forallb_app.
  destruct (clean_parts _ _ (Hc s (or_introl eq_refl))) as (_ & Ho & _).
  rewrite (pad_soft _ _ Ho). cbn [andb]. apply IH. intros; apply Hc; right; assumption.
Qed.

Lemma vimg_soft variable s x : clean (vs_w s) x = true -> forallb soft (vimg variable s x) = true.
Proof.
  intros Hc. destruct (clean_parts _ _ Hc) as (_ & Ho & _). unfold vimg, img. destruct variable; [|apply pad_soft; exact Ho].
  rewrite forallb_forall in Ho |- *. intros b Hb. unfold soft. rewrite (Ho b Hb). reflexivity.
Qed.

Lemma plain_softd variable v l :
  (forall s, In s l -> clean (vs_w s) (elem_val v (vs_e s)) = true) ->
  forallb softd (flat_map (fun s => vimg variable s (elem_val v (vs_e s)) ++ [delim]) l) = true.
Proof.
  induction l as [|s l IH]; intros Hc; [reflexivity|]. cbn [flat_map]. rewrite !forallb_app.
  rewrite (soft_softd _ (vimg_soft variable s _ (Hc s (or_introl eq_refl)))). cbn [forallb andb]. unfold softd at 1. rewrite beqb_refl, orb_true_r. cbn [andb].
  apply IH. intros; apply Hc; right; assumption.
Qed.

Lemma vt_softd v : forall l, (forall s, In s l -> clean (vs_w s) (elem_val v (vs_e s)) = true) -> forallb softd (vt (vals_of v l)) = true.
Proof.
  induction l as [|s l IH]; intros Hc; [reflexivity|]. cbn [vals_of map vt]. fold (vals_of v l).
  destruct (clean_parts _ _ (Hc s (or_introl eq_refl))) as (_ & Ho & _).
  assert (Hx : forallb softd (elem_val v (vs_e s)) = true).
  { rewrite forallb_forall in Ho |- *. intros b Hb. unfold softd, soft. rewrite (Ho b Hb). reflexivity. }
  assert (Hd : softd delim = true) by reflexivity.
  destruct (all_empty (vals_of v l)).
  - rewrite forallb_app, Hx. reflexivity.
  - rewrite forallb_app, Hx. cbn [forallb andb]. rewrite Hd. cbn [andb]. apply IH. intros; apply Hc; right; assumption.
Qed.

Lemma vimg_true_text v l :
  flat_map (fun s => vimg true s (elem_val v (vs_e s)) ++ [delim]) l = flat_map (fun x => x ++ [delim]) (vals_of v l).
Proof. induction l as [|s l IH]; [reflexivity|]. cbn [vals_of map flat_map]. fold (vals_of v l). rewrite IH. reflexivity. Qed.

Definition var_tail (stripped variable : bool) (v : tagval) (l : list vslot) : bytes :=
  if stripped then (match l with [] => [] | _ => vt (vals_of v l) end)
  else flat_map (fun s => vimg variable s (elem_val v (vs_e s)) ++ [delim]) l.

Lemma var_tail_softd stripped variable v l :
  (forall s, In s l -> clean (vs_w s) (elem_val v (vs_e s)) = true) -> forallb softd (var_tail stripped variable v l) = true.
Proof.
  intros Hc. unfold var_tail. destruct stripped; [|apply plain_softd; exact Hc].
  destruct l; [reflexivity|]. apply vt_softd. exact Hc.
Qed.

Lemma parse_var_tail stripped variable v l head rest mkv vals :
  (forall s, In s l -> clean (vs_w s) (elem_val v (vs_e s)) = true) ->
  (stripped = true -> variable = true) ->
  run_parse (map (fun s => PVar (vs_e s) (N.of_nat (vs_w s)) (vs_field s)) l ++ rest) (head ++ var_tail stripped variable v l) (length head) mkv vals =
  run_parse rest (head ++ var_tail stripped variable v l) (length (head ++ var_tail stripped variable v l)) mkv (apply_sets (var_sets v l) vals).
Proof.
  intros Hc Hsv. rewrite app_length. unfold var_tail. destruct stripped.
  - destruct l as [|s0 l0] eqn:El.
    + cbn. rewrite Nat.add_0_r. reflexivity.
    + rewrite <- El in *. apply (run_parse_var_stripped v l head rest mkv vals Hc).
  - apply (run_parse_var_plain variable v l head rest mkv vals Hc).
Qed.

Lemma strip_var_text v l head :
  (forall s, In s l -> clean (vs_w s) (elem_val v (vs_e s)) = true) ->
  (exists H c, head = H ++ [c] /\ beqb c delim = false /\ 5 <= length H) ->
  strip_delimiters (head ++ flat_map (fun s => vimg true s (elem_val v (vs_e s)) ++ [delim]) l) = head ++ var_tail true true v l.
Proof.
  intros Hc (H & c & Eh & Hcd & HH). rewrite (vimg_true_text v l). unfold var_tail.
  destruct l as [|s0 l0] eqn:El.
  - cbn [vals_of map flat_map]. rewrite !app_nil_r, Eh. apply strip_no_vars; assumption.
  - rewrite <- El in *.
    assert (Hxs : vals_of v l <> []) by (rewrite El; discriminate).
    assert (Hlk : forall x, In x (vals_of v l) -> lacks_byte delim x = true).
    { unfold vals_of. intros x Hin. apply in_map_iff in Hin as [s [<- Hs]].
      destruct (clean_parts _ _ (Hc s Hs)) as (_ & Ho & _). apply okchars_lack_delim, Ho. }
    destruct (all_empty (vals_of v l)) eqn:Ea.
    + rewrite Eh. apply strip_all_empty; assumption.
    + apply strip_some_nonempty; [exact Ea | exact Hlk|]. rewrite Eh, app_length. cbn [length]. lia.
Qed.

Lemma fixed_text_length v l :
  (forall s, In s l -> 1 <= fs_w s /\ small (fs_w s)) ->
  (forall s, In s l -> clean (fs_w s) (elem_val v (fs_e s)) = true) ->
  length (fixed_text v l) = fixed_width l.
Proof.
  intros Hw Hc. rewrite (fixed_text_canon v l Hw Hc). clear Hw.
  induction l as [|s l IH]; [reflexivity|]. cbn [flat_map fixed_width fold_right]. rewrite app_length.
  destruct (clean_parts _ _ (Hc s (or_introl eq_refl))) as (Hl & _ & _). rewrite (pad_length _ _ Hl).
  fold (fixed_width l). f_equal. apply IH. intros; apply Hc; right; assumption.
Qed.

Lemma vt_length_pos xs : xs <> [] -> 1 <= length (vt xs).
Proof.
  destruct xs as [|x r]; [contradiction|]. intros _. cbn [vt].
  destruct (all_empty r); rewrite app_length; cbn [length]; lia.
Qed.

Definition var_min (stripped variable : bool) (l : list vslot) : nat :=
  if stripped then (match l with [] => 0 | _ => 1 end)
  else if variable then length l else fold_right (fun s acc => vs_w s + 1 + acc) 0 l.

Lemma var_tail_length stripped variable v l :
  (forall s, In s l -> clean (vs_w s) (elem_val v (vs_e s)) = true) ->
  var_min stripped variable l <= length (var_tail stripped variable v l).
Proof.
  intros Hc. unfold var_min, var_tail. destruct stripped.
  - destruct l as [|s0 l0]; [reflexivity|]. apply vt_length_pos. discriminate.
  - destruct variable.
    + induction l as [|s l IH]; [reflexivity|].
      cbn [flat_map length]. rewrite !app_length. cbn [length].
      specialize (IH (fun s0 H => Hc s0 (or_intror H))).
      apply le_n_S in IH. eapply Nat.le_trans; [exact IH|]. apply Nat.le_trans with (m := 1 + length (flat_map (fun s0 => vimg true s0 (elem_val v (vs_e s0)) ++ [delim]) l)); [apply le_n|].
      apply Nat.add_le_mono_r. apply Nat.le_add_l.
    + induction l as [|s l IH]; [reflexivity|].
      cbn [flat_map fold_right]. rewrite !app_length. cbn [length].
      destruct (clean_parts _ _ (Hc s (or_introl eq_refl))) as (Hl & _ & _).
      specialize (IH (fun s0 H => Hc s0 (or_intror H))).
      unfold vimg, img in *. rewrite (pad_length _ _ Hl). lia.
Qed.

Section RoundTrip.
Context (L : layout) (n : nat) (v : tagval) (variable : bool).

Hypothesis HW : widths_ok L.
Hypothesis HC : canon_vals L v.
Hypothesis Hn : length (tv_elems v) = n.
Hypothesis Hslots : forall e, In e (slot_elems L) -> e < n.
Hypothesis Hunsl : forall e, e < n -> ~ In e (slot_elems L) -> elem_val v e = [].
Hypothesis Hmk : marker_ok (tv_marker v) = true.
Hypothesis Hshape : l_len L = false -> l_fixed L = [] /\ l_var L = [].

Let mk := tv_marker v.
Let PT := prefix_text v (l_prefix L).
Let FT := fixed_text v (l_fixed L).
Let xs := vals_of v (l_var L).
Let stripped := l_strip L && variable.
Let VT : bytes := var_tail stripped variable v (l_var L).

Lemma HWp : forall s, In s (l_prefix L) -> 1 <= ps_w s /\ small (ps_w s). Proof. exact (proj1 HW). Qed.
Lemma HWf : forall s, In s (l_fixed L) -> 1 <= fs_w s /\ small (fs_w s). Proof. exact (proj1 (proj2 HW)). Qed.
Lemma HWv : forall s, In s (l_var L) -> 1 <= vs_w s /\ small (vs_w s). Proof. exact (proj2 (proj2 HW)). Qed.
Lemma HCp : forall s, In s (l_prefix L) -> pslot_ok s (elem_val v (ps_e s)) = true. Proof. exact (proj1 HC). Qed.
Lemma HCf : forall s, In s (l_fixed L) -> clean (fs_w s) (elem_val v (fs_e s)) = true. Proof. exact (proj1 (proj2 HC)). Qed.
Lemma HCv : forall s, In s (l_var L) -> clean (vs_w s) (elem_val v (vs_e s)) = true. Proof. exact (proj2 (proj2 HC)). Qed.

Lemma mk_facts : length mk = 6 /\ asciis mk = true /\ trim_space mk = mk /\ mk <> [] /\ beqb (last mk x00) delim = false.
Proof.
  unfold marker_ok in Hmk. fold mk in Hmk.
  apply andb_true_iff in Hmk as [H Hl]. apply andb_true_iff in H as [H Ht]. apply andb_true_iff in H as [Hlen Ha].
  apply Nat.eqb_eq in Hlen. apply negb_true_iff in Hl.
  repeat split; auto.
  - apply trim_ascii_trimmed; assumption.
  - intros E. rewrite E in Hlen. discriminate Hlen.
Qed.

Lemma PT_soft : forallb soft PT = true.
Proof. exact (proj1 (prefix_text_soft v (l_prefix L) HWp HCp)). Qed.
Lemma PT_length : length PT = prefix_width (l_prefix L).
Proof. exact (proj2 (prefix_text_soft v (l_prefix L) HWp HCp)). Qed.
Lemma FT_soft : forallb soft FT = true.
Proof. exact (fixed_text_soft v (l_fixed L) HWf HCf). Qed.

Lemma VT_softd : forallb softd VT = true.
Proof. exact (var_tail_softd stripped variable v (l_var L) HCv). Qed.

(* ---- the formatted text, decomposed ---- *)
Definition head_text : bytes := mk ++ PT ++ FT.

Lemma head_last_not_delim : exists H c, head_text = H ++ [c] /\ beqb c delim = false /\ 5 <= length H.
Proof.
  destruct mk_facts as (Hl & _ & _ & Hne & Hld).
  assert (Hsoft : forallb soft (PT ++ FT) = true) by (rewrite forallb_app, PT_soft, FT_soft; reflexivity).
  unfold head_text. rewrite app_assoc. rewrite <- (app_assoc mk PT FT).
  destruct (PT ++ FT) as [|b t] eqn:E using rev_ind.
  - rewrite app_nil_r. exists (removelast mk), (last mk x00). split; [apply app_removelast_last; exact Hne|]. split; [exact Hld|].
    assert (length (removelast mk ++ [last mk x00]) = 6) by (rewrite <- app_removelast_last by exact Hne; exact Hl).
    rewrite app_length in H. cbn in H. lia.
  - clear IHt. exists (mk ++ t), b. split; [rewrite app_assoc; reflexivity|]. split.
    + rewrite forallb_app in Hsoft. apply andb_true_iff in Hsoft as [_ Hb]. cbn in Hb. rewrite andb_true_r in Hb. apply soft_not_delim, Hb.
    + rewrite app_length. lia.
Qed.

Lemma format_text_eq : format_text L variable v = head_text ++ VT.
Proof.
  unfold format_text, body_text, head_text. fold mk PT FT.
  rewrite (var_text_canon variable v (l_var L) HWv HCv).
  unfold VT, stripped. destruct (l_strip L && variable) eqn:Es.
  - apply andb_true_iff in Es as [_ Ev]. subst variable.
    replace (mk ++ PT ++ FT ++ flat_map (fun s => vimg true s (elem_val v (vs_e s)) ++ [delim]) (l_var L))
      with (head_text ++ flat_map (fun s => vimg true s (elem_val v (vs_e s)) ++ [delim]) (l_var L))
      by (unfold head_text; rewrite <- !app_assoc; reflexivity).
    rewrite (strip_var_text v (l_var L) head_text HCv head_last_not_delim). unfold head_text. rewrite <- !app_assoc. reflexivity.
  - unfold var_tail. rewrite <- !app_assoc. reflexivity.
Qed.

Lemma text_ascii : asciis (format_text L variable v) = true.
Proof.
  rewrite format_text_eq. unfold asciis, head_text. rewrite !forallb_app.
  destruct mk_facts as (_ & Ha & _). unfold asciis in Ha. rewrite Ha.
  pose proof (softd_ascii _ (soft_softd _ PT_soft)) as H1. pose proof (softd_ascii _ (soft_softd _ FT_soft)) as H2.
  pose proof (softd_ascii _ VT_softd) as H3. unfold asciis in *. rewrite H1, H2, H3. reflexivity.
Qed.

(* ---- parsing the variable part ---- *)
Lemma parse_var_part rest mkv vals :
  run_parse (map (fun s => PVar (vs_e s) (N.of_nat (vs_w s)) (vs_field s)) (l_var L) ++ rest) (head_text ++ VT) (length head_text) mkv vals =
  run_parse rest (head_text ++ VT) (length (head_text ++ VT)) mkv (apply_sets (var_sets v (l_var L)) vals).
Proof.
  apply (parse_var_tail stripped variable v (l_var L) head_text rest mkv vals HCv).
  unfold stripped. intros H. apply andb_true_iff in H as [_ H]. exact H.
Qed.

(* ---- the values written ---- *)
Definition all_sets : list (nat * bytes) :=
  prefix_sets v (l_prefix L) ++ fixed_sets v (l_fixed L) ++ var_sets v (l_var L).

Lemma all_sets_fst : map fst all_sets = slot_elems L.
Proof. unfold all_sets, slot_elems, prefix_sets, fixed_sets, var_sets. rewrite !map_app, !map_map. reflexivity. Qed.

Lemma all_sets_vals e x : In (e, x) all_sets -> x = nth e (tv_elems v) [].
Proof.
  unfold all_sets, prefix_sets, fixed_sets, var_sets. intros H.
  repeat (apply in_app_or in H as [H|H]); apply in_map_iff in H as [s [E _]]; inversion E; reflexivity.
Qed.

Lemma final_vals : apply_sets all_sets (repeat [] n) = tv_elems v.
Proof.
  apply (nth_ext _ _ [] []).
  - rewrite apply_sets_length, repeat_length. symmetry. exact Hn.
  - intros i Hi. rewrite apply_sets_length, repeat_length in Hi.
    etransitivity.
    { apply (nth_apply_sets (tv_elems v) all_sets (repeat [] n) i); [rewrite repeat_length; symmetry; exact Hn | exact all_sets_vals]. }
    rewrite all_sets_fst.
    destruct (existsb (Nat.eqb i) (slot_elems L)) eqn:E; [reflexivity|].
    assert (Hni : ~ In i (slot_elems L)).
    { intros Hin. assert (existsb (Nat.eqb i) (slot_elems L) = true) by (apply existsb_exists; exists i; split; [exact Hin|apply Nat.eqb_refl]). congruence. }
    rewrite (nth_repeat). symmetry. apply (Hunsl i Hi Hni).
Qed.

Lemma text_length_ge : min_len L variable <= length (format_text L variable v).
Proof.
  rewrite format_text_eq. unfold head_text. rewrite !app_length.
  destruct mk_facts as (Hml & _). pose proof (fixed_text_length v (l_fixed L) HWf HCf) as Hfl. fold FT in Hfl.
  rewrite Hml, PT_length, Hfl.
  pose proof (var_tail_length stripped variable v (l_var L) HCv) as Hv. fold VT in Hv.
  unfold min_len. unfold var_min, stripped in Hv.
  destruct variable, (l_strip L); cbn [andb] in Hv; lia.
Qed.

Lemma text_length_prefix_only :
  l_fixed L = [] -> l_var L = [] -> length (format_text L variable v) = 6 + prefix_width (l_prefix L).
Proof.
  intros Ef Ev. rewrite format_text_eq. unfold head_text, VT, FT, var_tail. rewrite Ef, Ev.
  destruct mk_facts as (Hml & _). cbn [fixed_text flat_map]. destruct stripped; rewrite !app_length, Hml, PT_length; cbn [length]; lia.
Qed.

Definition guard_admits (len : nat) : Prop :=
  match l_cmp L with CLt => l_guard L <= len | CNe => len = l_guard L end.

Theorem roundtrip :
  guard_admits (length (format_text L variable v)) ->
  run_parse (canon_parse L) (format_text L variable v) 0 [] (repeat [] n) = POk v.
Proof.
  intros Hg. destruct mk_facts as (Hml & _ & Hmt & _ & _).
  pose proof text_ascii as Hasc. unfold asciis in Hasc.
  unfold canon_parse. cbn [app run_parse].
  rewrite (rune_count_ascii _ Hasc), nn_of_nat.
  assert (Eg : (match l_cmp L with CLt => length (format_text L variable v) <? l_guard L
                | CNe => negb (length (format_text L variable v) =? l_guard L) end) = false).
  { unfold guard_admits in Hg. destruct (l_cmp L); [apply Nat.ltb_ge; exact Hg | rewrite Hg, Nat.eqb_refl; reflexivity]. }
  rewrite Eg. clear Eg.
  rewrite format_text_eq. unfold head_text. rewrite <- !app_assoc.
  (* the marker *)
  assert (Es : slice (mk ++ PT ++ FT ++ VT) 0 6 = Some mk).
  { pose proof (slice_mid [] mk (PT ++ FT ++ VT)) as H. cbn [app length Nat.add] in H. rewrite Hml in H. exact H. }
  rewrite Es. replace (if l_ptrim L then trim_space mk else mk) with mk by (destruct (l_ptrim L); [symmetry; exact Hmt|reflexivity]).
  (* the fixed-offset elements *)
  rewrite <- Hml at 1.
  pose proof (run_parse_slices v (l_prefix L) mk (FT ++ VT)) as Hsl. fold PT in Hsl. rewrite Hsl by (first [exact HWp | exact HCp]). clear Hsl.
  destruct (l_len L) eqn:Elen.
  - cbn [app run_parse]. rewrite nn_of_nat.
    assert (Ecur : 6 + prefix_width (l_prefix L) = length (mk ++ PT)) by (rewrite app_length, Hml, PT_length; reflexivity).
    rewrite Ecur.
    replace (mk ++ PT ++ FT ++ VT) with ((mk ++ PT) ++ FT ++ VT) by (rewrite <- !app_assoc; reflexivity).
    pose proof (run_parse_fixed v (l_fixed L) (mk ++ PT) VT) as Hfx. fold FT in Hfx.
    rewrite Hfx by (first [exact HWf | exact HCf | exact (softd_no_brace _ VT_softd)]). clear Hfx.
    replace (length (mk ++ PT) + length FT) with (length head_text) by (unfold head_text; rewrite !app_length; lia).
    replace ((mk ++ PT) ++ FT ++ VT) with (head_text ++ VT) by (unfold head_text; rewrite <- !app_assoc; reflexivity).
    rewrite parse_var_part. cbn [run_parse]. rewrite verify_read_length_exact.
    rewrite <- !apply_sets_app. fold all_sets. rewrite final_vals. destruct v; reflexivity.
  - destruct (Hshape eq_refl) as [Ef Ev]. cbn [app run_parse].
    assert (Es2 : all_sets = prefix_sets v (l_prefix L)) by (unfold all_sets; rewrite Ef, Ev; cbn; apply app_nil_r).
    rewrite <- Es2, final_vals. destruct v; reflexivity.
Qed.

End RoundTrip.
