(* C09, line breaks in general: between two segments (and before the first one) the text may hold any
   run of line breaks - any concatenation of LF and CRLF, a different one after every segment, none
   included. The scanner and the re-split still cut the text into exactly its segments, so the result of
   a read depends on the segments alone: doubled separators, blank lines and mixed LF / CRLF texts read
   like the plain text. (A lone CR is not a line break for the reader: it stays in the segment.) *)
From Wire Require Import Base.Bytes Model.Converters Model.Validators Model.GoV Model.Codec Model.Message Model.Reader.
From Wire Require Import Theory.BytesFacts Theory.ReaderFacts Theory.ReaderTotal Theory.ScanSpec Theory.Segments.

Fixpoint break_run (s : bytes) : bool :=
  match s with
  | [] => true
  | b :: t =>
      if beqb b x0a then break_run t
      else if beqb b x0d then match t with c :: t' => beqb c x0a && break_run t' | [] => false end
      else false
  end.

Lemma break_run_cases s : break_run s = true ->
  s = [] \/ (exists t, s = x0a :: t /\ break_run t = true) \/ (exists t, s = x0d :: x0a :: t /\ break_run t = true).
Proof.
  destruct s as [|b t]; [left; reflexivity|]. cbn [break_run]. intros H.
  destruct (beqb b x0a) eqn:Ea.
  - apply beqb_eq in Ea. subst. right. left. eauto.
  - destruct (beqb b x0d) eqn:Ed; [|discriminate H]. apply beqb_eq in Ed. subst.
    destruct t as [|c t']; [discriminate H|]. apply andb_true_iff in H as [Hc Ht]. apply beqb_eq in Hc. subst.
    right. right. eauto.
Qed.

(* induction over the units of a run *)
Lemma break_run_rect (P : bytes -> Prop) :
  P [] -> (forall t, break_run t = true -> P t -> P (x0a :: t)) ->
  (forall t, break_run t = true -> P t -> P (x0d :: x0a :: t)) ->
  forall s, break_run s = true -> P s.
Proof.
  intros H0 H1 H2 s. remember (length s) as n eqn:En. revert s En.
  induction n as [n IH] using lt_wf_ind. intros s En Hs.
  destruct (break_run_cases s Hs) as [-> | [(t & -> & Ht) | (t & -> & Ht)]].
  - exact H0.
  - apply H1; [exact Ht|]. apply (IH (length t)); [cbn in En; lia|reflexivity|exact Ht].
  - apply H2; [exact Ht|]. apply (IH (length t)); [cbn in En; lia|reflexivity|exact Ht].
Qed.

Lemma break_no_brace s : break_run s = true -> no_brace s = true.
Proof. apply (break_run_rect (fun s => no_brace s = true)); [reflexivity| |]; intros t _ IH; cbn; exact IH. Qed.

(* the re-split removes a run of line breaks completely *)
Lemma break_stripped s : break_run s = true -> drop_lf (drop_crlf s) = [].
Proof.
  apply (break_run_rect (fun s => drop_lf (drop_crlf s) = [])); [reflexivity| |].
  - intros t _ IH. rewrite drop_crlf_cons by discriminate. unfold drop_lf in *. cbn [filter beqb]. cbn. exact IH.
  - intros t _ IH. cbn [drop_crlf]. exact IH.
Qed.

Lemma old_sep_is_run sep : sep_ok sep -> break_run sep = true.
Proof. intros [-> | [-> | ->]]; reflexivity. Qed.

(* ---- texts: a leading run, then every segment followed by its own run ---- *)
Definition piece (p : bytes * bytes) : bytes := fst p ++ snd p.
Definition text2 (pairs : list (bytes * bytes)) : bytes := concat (map piece pairs).
Definition pair_ok (p : bytes * bytes) : bool := seg_ok (fst p) && break_run (snd p).

Lemma text2_plain sep lines : text2 (map (fun l => (l, sep)) lines) = text_of sep lines.
Proof. unfold text2, text_of. rewrite map_map. reflexivity. Qed.

Fixpoint offsets2 (pos : nat) (pairs : list (bytes * bytes)) : list nat :=
  match pairs with
  | [] => []
  | p :: r => pos :: offsets2 (pos + length (piece p)) r
  end.

Lemma markers_text2 pairs : forallb pair_ok pairs = true ->
  forall pos, markers_from (text2 pairs) pos = offsets2 pos pairs.
Proof.
  induction pairs as [|[l s] r IH]; intros Hp pos; [reflexivity|].
  cbn [forallb] in Hp. apply andb_true_iff in Hp as [Hp Hr].
  unfold pair_ok in Hp. cbn [fst snd] in Hp. apply andb_true_iff in Hp as [Hl Hs].
  unfold seg_ok in Hl. apply andb_true_iff in Hl as [Hl Hbk]. apply andb_true_iff in Hl as [Hm Hnb].
  unfold text2. cbn [map concat offsets2]. fold (text2 r). unfold piece at 1. cbn [fst snd]. rewrite <- app_assoc.
  destruct (is_marker_at_head l Hm) as [t ->]. cbn [skipn] in Hnb.
  pose proof (is_marker_at_app (x7b :: t) (s ++ text2 r) Hm) as Hm'.
  cbn [app] in Hm'. cbn [app markers_from]. rewrite Hm'. cbn [app].
  f_equal.
  rewrite (markers_from_no_brace t (s ++ text2 r) (S pos) Hnb (fun _ _ => I)).
  rewrite (markers_from_no_brace s (text2 r) (S pos + length t) (break_no_brace s Hs) (fun _ _ => I)).
  rewrite IH by exact Hr. f_equal. unfold piece. cbn [fst snd]. rewrite app_length. cbn [length]. lia.
Qed.

Lemma text2_length pairs : length (text2 pairs) = fold_right (fun p n => length (piece p) + n) 0 pairs.
Proof. induction pairs as [|p r IH]; cbn; [reflexivity|]. unfold text2 in *. cbn [map concat]. rewrite app_length, IH. reflexivity. Qed.

Lemma pair_ok_long p : pair_ok p = true -> 6 <= length (piece p).
Proof.
  unfold pair_ok, piece. intros H. apply andb_true_iff in H as [H _]. apply seg_ok_nonempty in H. rewrite app_length. lia.
Qed.

Lemma split_text2 p r : forallb pair_ok (p :: r) = true ->
  split_fn (text2 (p :: r)) true = (length (piece p), Some (piece p)).
Proof.
  intros Hok.
  pose proof (markers_text2 (p :: r) Hok 0) as Hm. fold (markers (text2 (p :: r))) in Hm. cbn [offsets2] in Hm.
  cbn [forallb] in Hok. apply andb_true_iff in Hok as [Hp Hr]. pose proof (pair_ok_long p Hp) as Hlen.
  assert (Hne : exists b t, text2 (p :: r) = b :: t).
  { unfold text2. cbn [map concat]. destruct (piece p) as [|b t]; [cbn in Hlen; lia|]. exists b. eexists. reflexivity. }
  destruct Hne as (b & t & Ht). rewrite Ht in *. rewrite split_fn_cons, Hm. rewrite <- Ht.
  destruct r as [|p2 r2].
  - cbn [offsets2]. cbn [Nat.ltb Nat.leb]. unfold text2. cbn [map concat]. rewrite app_nil_r. reflexivity.
  - cbn [offsets2]. cbn [Nat.ltb Nat.leb]. replace (0 + length (piece p)) with (length (piece p)) by lia.
    f_equal. f_equal.
    unfold text2. cbn [map concat].
    rewrite firstn_app, Nat.sub_diag, firstn_all. cbn [firstn]. apply app_nil_r.
Qed.

Lemma tokens_ref_text2 final : forall pairs fuel acc,
  forallb pair_ok pairs = true -> length (text2 pairs) < max_token -> length pairs < fuel ->
  tokens_ref fuel (text2 pairs) final acc = (rev acc ++ map piece pairs, final_err final).
Proof.
  induction pairs as [|p r IH]; intros fuel acc Hok Hlen Hf.
  - destruct fuel; [cbn in Hf; lia|]. cbn. rewrite app_nil_r. reflexivity.
  - destruct fuel as [|f]; [cbn in Hf; lia|]. cbn [tokens_ref].
    assert (Hnext : next_ref (text2 (p :: r)) final = RTok (piece p) (text2 r)).
    { unfold next_ref. pose proof (split_text2 p r Hok) as Hs.
      destruct (text2 (p :: r)) as [|b t] eqn:Et.
      { exfalso. cbn [forallb] in Hok. apply andb_true_iff in Hok as [Hp _]. apply pair_ok_long in Hp.
        unfold text2 in Et. cbn [map concat] in Et. destruct (piece p); [cbn in Hp; lia|discriminate Et]. }
      rewrite <- Et in *. apply Nat.ltb_lt in Hlen. rewrite Hlen, Hs. f_equal.
      unfold text2. cbn [map concat]. rewrite skipn_app, Nat.sub_diag, skipn_all. reflexivity. }
    rewrite Hnext. cbn [forallb] in Hok. apply andb_true_iff in Hok as [_ Hr].
    rewrite IH; [|exact Hr| |cbn [length] in Hf; lia].
    + cbn [rev map]. rewrite <- app_assoc. reflexivity.
    + rewrite text2_length in *. cbn [fold_right] in Hlen. lia.
Qed.

Lemma sublines_piece p : pair_ok p = true -> sublines (piece p) = [fst p].
Proof.
  destruct p as [l s]. unfold pair_ok, piece. cbn [fst snd]. intros H. apply andb_true_iff in H as [Hl Hs].
  pose proof (sublines_token l [] (or_introl eq_refl) Hl) as P. rewrite app_nil_r in P.
  unfold sublines in *. unfold seg_ok in Hl. apply andb_true_iff in Hl as [_ Hbk].
  assert (E : drop_lf (drop_crlf (l ++ s)) = drop_lf (drop_crlf l)).
  { rewrite (drop_crlf_clean l s Hbk). unfold drop_lf. rewrite filter_app. fold (drop_lf l). fold (drop_lf (drop_crlf s)).
    rewrite (break_stripped s Hs), app_nil_r.
    pose proof (drop_crlf_clean l [] Hbk) as Q. rewrite app_nil_r in Q. cbn [drop_crlf] in Q. rewrite app_nil_r in Q. rewrite Q. reflexivity. }
  rewrite E. exact P.
Qed.

Lemma flat_map_sublines2 pairs : forallb pair_ok pairs = true -> flat_map sublines (map piece pairs) = map fst pairs.
Proof.
  induction pairs as [|p r IH]; intros H; [reflexivity|].
  cbn [forallb] in H. apply andb_true_iff in H as [Hp Hr].
  cbn [map flat_map]. rewrite (sublines_piece p Hp), (IH Hr). reflexivity.
Qed.

(* leading text without a brace (a header line, blank lines, anything that cannot hold a marker) is one
   token that holds no segment *)
Lemma no_brace_drop_crlf : forall n s, length s <= n -> no_brace s = true -> no_brace (drop_crlf s) = true.
Proof.
  induction n as [|n IH]; intros s Hl H.
  - destruct s; [reflexivity|cbn in Hl; lia].
  - destruct s as [|b t]; [reflexivity|]. cbn [no_brace forallb] in H. apply andb_true_iff in H as [Hb Ht].
    cbn [length] in Hl.
    assert (Hkeep : no_brace (b :: drop_crlf t) = true).
    { cbn [no_brace forallb]. rewrite Hb. apply (IH t); [lia|exact Ht]. }
    destruct (Byte.byte_eq_dec b x0d) as [->|Hne]; [|rewrite drop_crlf_cons by exact Hne; exact Hkeep].
    destruct t as [|c t']; [reflexivity|].
    destruct (Byte.byte_eq_dec c x0a) as [->|Hc].
    + cbn [drop_crlf]. cbn [no_brace forallb] in Ht. apply andb_true_iff in Ht as [_ Ht']. apply (IH t'); [cbn [length] in Hl; lia|exact Ht'].
    + assert (E : drop_crlf (x0d :: c :: t') = x0d :: drop_crlf (c :: t')) by (destruct c; try reflexivity; contradiction).
      rewrite E. exact Hkeep.
Qed.

Lemma no_brace_filter f s : no_brace s = true -> no_brace (filter f s) = true.
Proof.
  induction s as [|b t IH]; intros H; [reflexivity|]. cbn [no_brace forallb] in H. apply andb_true_iff in H as [Hb Ht].
  cbn [filter]. destruct (f b); [cbn [no_brace forallb]; rewrite Hb; exact (IH Ht)|exact (IH Ht)].
Qed.

Lemma markers_no_brace s : no_brace s = true -> markers s = [].
Proof.
  intros H. unfold markers. pose proof (markers_from_no_brace s [] 0 H (fun _ _ => I)) as P. rewrite app_nil_r in P. exact P.
Qed.

Lemma sublines_lead s : no_brace s = true -> sublines s = [].
Proof.
  intros H. unfold sublines.
  assert (Hn : no_brace (drop_lf (drop_crlf s)) = true).
  { unfold drop_lf. apply no_brace_filter. apply (no_brace_drop_crlf (length s) s (le_n _) H). }
  rewrite (markers_no_brace _ Hn). reflexivity.
Qed.

Lemma markers_lead lead pairs : no_brace lead = true -> forallb pair_ok pairs = true ->
  markers (lead ++ text2 pairs) = offsets2 (length lead) pairs.
Proof.
  intros Hl Hp. unfold markers.
  rewrite (markers_from_no_brace lead (text2 pairs) 0 Hl (fun _ _ => I)).
  apply markers_text2. exact Hp.
Qed.

Lemma next_ref_lead lead pairs final : lead <> [] -> no_brace lead = true -> forallb pair_ok pairs = true ->
  length (lead ++ text2 pairs) < max_token ->
  next_ref (lead ++ text2 pairs) final = RTok lead (text2 pairs).
Proof.
  intros Hne Hl Hp Hlen. unfold next_ref.
  destruct (lead ++ text2 pairs) as [|b t] eqn:Et.
  { destruct lead; [contradiction|discriminate Et]. }
  rewrite <- Et in *. apply Nat.ltb_lt in Hlen. rewrite Hlen.
  assert (Hs : split_fn (lead ++ text2 pairs) true = (length lead, Some lead)).
  { rewrite Et. rewrite split_fn_cons. rewrite <- Et. rewrite (markers_lead lead pairs Hl Hp).
    assert (Hpos : 0 <? length lead = true) by (apply Nat.ltb_lt; destruct lead; [contradiction|cbn; lia]).
    destruct pairs as [|p r].
    - cbn [offsets2]. unfold text2. cbn [map concat]. rewrite app_nil_r. reflexivity.
    - cbn [offsets2]. rewrite Hpos.
      destruct r; cbn [offsets2]; rewrite firstn_app, Nat.sub_diag, firstn_all; cbn [firstn]; rewrite app_nil_r; reflexivity. }
  rewrite Hs. rewrite skipn_app, Nat.sub_diag, skipn_all. reflexivity.
Qed.

Definition lead_tokens (lead : bytes) : list bytes := match lead with [] => [] | _ => [lead] end.

Lemma pairs_le_text pairs : forallb pair_ok pairs = true -> length pairs <= length (text2 pairs).
Proof.
  induction pairs as [|p r IH]; intros Hok; [cbn; lia|]. cbn [forallb] in Hok. apply andb_true_iff in Hok as [Hp Hr].
  apply pair_ok_long in Hp. specialize (IH Hr). rewrite text2_length in *. cbn [fold_right length]. lia.
Qed.

Theorem scan_segments2 lead pairs chunks final :
  no_brace lead = true -> forallb pair_ok pairs = true -> length (lead ++ text2 pairs) < max_token ->
  concat chunks = lead ++ text2 pairs ->
  scan chunks final = (lead_tokens lead ++ map piece pairs, final_err final).
Proof.
  intros Hl Hok Hlen Hc. rewrite scan_is_reference, Hc.
  pose proof (pairs_le_text pairs Hok) as G.
  destruct lead as [|b lead'].
  - cbn [app lead_tokens] in *. rewrite (tokens_ref_text2 final pairs _ [] Hok Hlen); [reflexivity|lia].
  - set (lead := b :: lead') in *. cbn [tokens_ref].
    rewrite (next_ref_lead lead pairs final ltac:(discriminate) Hl Hok Hlen).
    rewrite app_length in *.
    rewrite (tokens_ref_text2 final pairs _ [lead] Hok); [reflexivity|lia|subst lead; cbn [length] in *; lia].
Qed.

Theorem read_of_segments2 preset opts lead pairs chunks final :
  no_brace lead = true -> forallb pair_ok pairs = true -> length (lead ++ text2 pairs) < max_token ->
  concat chunks = lead ++ text2 pairs ->
  read_model preset opts chunks final = read_segments preset opts (map fst pairs) final.
Proof.
  intros Hl Hok Hlen Hc. unfold read_model, read_segments.
  rewrite (scan_segments2 lead pairs chunks final Hl Hok Hlen Hc).
  rewrite flat_map_app, (flat_map_sublines2 pairs Hok).
  assert (E : flat_map sublines (lead_tokens lead) = []).
  { destruct lead; [reflexivity|]. cbn [lead_tokens flat_map]. rewrite (sublines_lead _ Hl). reflexivity. }
  rewrite E. reflexivity.
Qed.

(* C09: which runs of line breaks stand before, between and after the segments is irrelevant *)
Theorem line_breaks_irrelevant preset opts lead1 lead2 pairs1 pairs2 chunks1 chunks2 final :
  map fst pairs1 = map fst pairs2 ->
  break_run lead1 = true -> break_run lead2 = true ->
  forallb pair_ok pairs1 = true -> forallb pair_ok pairs2 = true ->
  length (lead1 ++ text2 pairs1) < max_token -> length (lead2 ++ text2 pairs2) < max_token ->
  concat chunks1 = lead1 ++ text2 pairs1 -> concat chunks2 = lead2 ++ text2 pairs2 ->
  read_model preset opts chunks1 final = read_model preset opts chunks2 final.
Proof.
  intros E L1 L2 P1 P2 B1 B2 C1 C2.
  rewrite (read_of_segments2 preset opts lead1 pairs1 chunks1 final (break_no_brace _ L1) P1 B1 C1).
  rewrite (read_of_segments2 preset opts lead2 pairs2 chunks2 final (break_no_brace _ L2) P2 B2 C2).
  rewrite E. reflexivity.
Qed.

(* not vacuous: blank lines, doubled and mixed separators around two segments *)
Example runs_exist :
  break_run [x0a; x0d; x0a; x0a] = true /\
  break_run [x0d] = false /\ break_run [x0d; x0d; x0a] = false.
Proof. repeat split; reflexivity. Qed.

(* ---- C15: the entries of the error list sit at the segments' positions in the input ---- *)
(* a text of segments (well-formed as segments: a marker first, no further brace, no line break - their
   content may be anything, malformed elements included), separated by any runs of line breaks, read to the
   end: when some segment fails, the result is exactly the list of the failing segments' entries, each
   computed with the segment's 1-based ordinal in the input, in input order *)
Theorem errors_at_segment_positions preset opts lead pairs chunks :
  no_brace lead = true -> forallb pair_ok pairs = true -> length (lead ++ text2 pairs) < max_token ->
  concat chunks = lead ++ text2 pairs ->
  errors_of (map fst pairs) 0 <> [] ->
  read_model preset opts chunks FEOF = RErrors (errors_of (map fst pairs) 0).
Proof.
  intros Hl Hok Hlen Hc Hne.
  rewrite (read_of_segments2 preset opts lead pairs chunks FEOF Hl Hok Hlen Hc).
  unfold read_segments.
  pose proof (read_lines_errors (map fst pairs) 0 empty_tags []) as He.
  destruct (read_lines (map fst pairs) 0 empty_tags []) as [tgs errs]. cbn [snd rev app] in He. subst errs.
  cbn [final_err]. destruct (errors_of (map fst pairs) 0) as [|e r]; [contradiction|reflexivity].
Qed.

(* and when no segment fails, the result is the verdict of file validation on the assembled message *)
Theorem no_segment_error_means_file_validation preset opts lead pairs chunks :
  no_brace lead = true -> forallb pair_ok pairs = true -> length (lead ++ text2 pairs) < max_token ->
  concat chunks = lead ++ text2 pairs ->
  errors_of (map fst pairs) 0 = [] ->
  exists m, (read_model preset opts chunks FEOF = ROk m /\ verify m = Accept) \/
            (exists f e, read_model preset opts chunks FEOF = RErrors [RFileValidation f e] /\ verify m = Reject f e) \/
            read_model preset opts chunks FEOF = RErrors [RPanic] \/ read_model preset opts chunks FEOF = RErrors [RStuck].
Proof.
  intros Hl Hok Hlen Hc He.
  rewrite (read_of_segments2 preset opts lead pairs chunks FEOF Hl Hok Hlen Hc).
  unfold read_segments.
  pose proof (read_lines_errors (map fst pairs) 0 empty_tags []) as Hr.
  destruct (read_lines (map fst pairs) 0 empty_tags []) as [tgs errs]. cbn [snd rev app] in Hr. subst errs.
  cbn [final_err]. rewrite He.
  set (m := {| m_tags := tgs; m_opts := match opts with Some _ => opts | None => preset end |}).
  exists m. destruct (verify m) as [|f e| |] eqn:Ev; auto.
  right. left. exists f, e. auto.
Qed.

(* C04: text before the first marker that holds no brace is ignored - the read is that of the segments alone,
   whatever that text is (and it is the only part of such a text that is ignored: every segment is parsed) *)
Theorem leading_text_is_ignored preset opts lead pairs chunks chunks0 final :
  no_brace lead = true -> forallb pair_ok pairs = true ->
  length (lead ++ text2 pairs) < max_token ->
  concat chunks = lead ++ text2 pairs -> concat chunks0 = text2 pairs ->
  read_model preset opts chunks final = read_model preset opts chunks0 final.
Proof.
  intros Hl Hok Hlen Hc Hc0.
  rewrite (read_of_segments2 preset opts lead pairs chunks final Hl Hok Hlen Hc).
  assert (Hlen0 : length ([] ++ text2 pairs) < max_token) by (cbn [app]; rewrite app_length in Hlen; lia).
  rewrite (read_of_segments2 preset opts [] pairs chunks0 final eq_refl Hok Hlen0 Hc0). reflexivity.
Qed.

(* ---- C08: for an accepted text in which no tag repeats, every segment is reflected in the message ---- *)
Lemma assign_all_untouched i : forall asg tgs, ~ In i (map fst asg) -> nth i (assign_all asg tgs) None = nth i tgs None.
Proof.
  induction asg as [|[j w] r IH]; intros tgs Hn; [reflexivity|]. cbn [assign_all]. cbn [map fst] in Hn.
  rewrite IH by (intros H; apply Hn; right; exact H). rewrite nth_set_tag.
  destruct (i =? j) eqn:E; [apply Nat.eqb_eq in E; subst; exfalso; apply Hn; left; reflexivity|reflexivity].
Qed.

Lemma assign_all_length : forall asg tgs, length (assign_all asg tgs) = length tgs.
Proof. induction asg as [|[j w] r IH]; intros tgs; [reflexivity|]. cbn [assign_all]. rewrite IH. apply set_tag_length. Qed.

Lemma assign_all_get : forall asg tgs i v, NoDup (map fst asg) -> In (i, v) asg -> i < length tgs ->
  nth i (assign_all asg tgs) None = Some v.
Proof.
  induction asg as [|[j w] r IH]; intros tgs i v Hnd Hin Hl; [contradiction|].
  cbn [map fst] in Hnd. inversion Hnd as [|? ? Hni Hnd']; subst. cbn [assign_all].
  destruct Hin as [E|Hin].
  - injection E as -> ->. rewrite (assign_all_untouched i r _ Hni). rewrite nth_set_tag, Nat.eqb_refl.
    apply Nat.ltb_lt in Hl. rewrite Hl. reflexivity.
  - apply IH; [exact Hnd'|exact Hin|rewrite set_tag_length; exact Hl].
Qed.

Lemma no_errors_all_results : forall lines ln, errors_of lines ln = [] -> exists asg, results_of lines ln = Some asg.
Proof.
  induction lines as [|l r IH]; intros ln H; [exists []; reflexivity|].
  cbn [errors_of] in H. apply app_eq_nil in H as [H1 H2]. cbn [results_of]. unfold line_err in H1.
  destruct (parse_line l (S ln)) as [e|a]; [discriminate H1|].
  destruct (IH (S ln) H2) as [rest Hr]. rewrite Hr. exists (a :: rest). reflexivity.
Qed.

Theorem accepted_text_reflects_every_segment preset opts lead pairs chunks m :
  no_brace lead = true -> forallb pair_ok pairs = true -> length (lead ++ text2 pairs) < max_token ->
  concat chunks = lead ++ text2 pairs ->
  read_model preset opts chunks FEOF = ROk m ->
  exists asg, results_of (map fst pairs) 0 = Some asg /\ length asg = length pairs /\
    (NoDup (map fst asg) -> forall i v, In (i, v) asg -> i < length (m_tags m) -> nth i (m_tags m) None = Some v).
Proof.
  intros Hl Hok Hlen Hc Hr.
  rewrite (read_of_segments2 preset opts lead pairs chunks FEOF Hl Hok Hlen Hc) in Hr. unfold read_segments in Hr.
  pose proof (read_lines_errors (map fst pairs) 0 empty_tags []) as He.
  destruct (read_lines (map fst pairs) 0 empty_tags []) as [tgs errs] eqn:Erl. cbn [snd rev app] in He. subst errs.
  cbn [final_err] in Hr.
  destruct (errors_of (map fst pairs) 0) as [|e r] eqn:Ee; [|discriminate Hr].
  destruct (no_errors_all_results _ _ Ee) as [asg Hres]. exists asg. split; [exact Hres|].
  assert (Hlen_asg : forall lines ln a, results_of lines ln = Some a -> length a = length lines).
  { induction lines as [|l0 r0 IH0]; intros ln a H; cbn [results_of] in H; [injection H as <-; reflexivity|].
    destruct (parse_line l0 (S ln)) as [|x]; [discriminate H|]. destruct (results_of r0 (S ln)) as [rest|] eqn:Er0; [|discriminate H].
    injection H as <-. cbn [length]. rewrite (IH0 _ _ Er0). reflexivity. }
  split; [rewrite (Hlen_asg _ _ _ Hres); apply map_length|].
  rewrite (read_lines_ok _ _ empty_tags asg Hres) in Erl. injection Erl as <-.
  destruct (verify _) eqn:Ev; try discriminate Hr. injection Hr as <-. cbn [m_tags].
  intros Hnd i v Hin Hi. rewrite assign_all_length in Hi. apply assign_all_get; assumption.
Qed.
