(* C03, reader: for every input and every chunking the read ends in a message or an error list that
   contains no panic and no untranslated construct; the scanner's buffer never exceeds 64 KiB. *)
From Wire Require Import Base.Bytes Model.Converters Model.Validators Model.GoV Model.Codec Model.Message Model.Reader.
From Wire Require Import Theory.BytesFacts Theory.DLFacts Theory.VerifyFacts Theory.ReaderFacts Theory.DispatchFacts Theory.ParseSafety.
From WireGen Require Import Tags Verify Reader.

Definition pstep_ok (s : pstep) : bool := match s with PUnsupported _ => false | _ => true end.
Definition ob_parse_translated : bool := forallb (fun d => forallb pstep_ok (t_parse d)) tags.

Lemma run_parse_not_stuck steps : forallb pstep_ok steps = true ->
  forall rec cur mk vals, run_parse steps rec cur mk vals <> PStuck.
Proof.
  induction steps as [|st rest IH]; intros H rec cur mk vals; cbn [run_parse]; [discriminate|].
  cbn [forallb] in H. apply andb_true_iff in H as [H1 H2].
  destruct st; cbn [pstep_ok] in H1; try discriminate H1; cbv zeta;
    repeat first [ apply IH; assumption | discriminate
                 | match goal with |- context [match ?x with _ => _ end] => destruct x end ].
Qed.

Local Transparent tags.
Lemma parsers_safe : ob_parsers_safe = true. Proof. vm_compute. reflexivity. Qed.
Lemma parse_translated : ob_parse_translated = true. Proof. vm_compute. reflexivity. Qed.
Lemma ntags_is : length tags = ntags. Proof. reflexivity. Qed.
Global Opaque tags.

Lemma nth_tags_in ti : ti < length tags -> In (nth ti tags tag_Amount) tags.
Proof. intros H. apply nth_In. exact H. Qed.

Definition bad_err (e : rerr) : bool := match e with RPanic | RStuck => true | _ => false end.

Lemma dispatch_in_range mk ti fi label val :
  lookup_marker mk dispatch = Some (ti, fi, label, val) -> ti < length tags.
Proof.
  intros H. pose proof dispatch_arms as A. unfold ob_dispatch_arms in A. rewrite forallb_forall in A.
  assert (G : forall l, (forall a, In a l -> arm_ok a = true) -> lookup_marker mk l = Some (ti, fi, label, val) -> ti < length tags).
  { induction l as [|[k v] r IH]; intros Hl Hk; cbn [lookup_marker] in Hk; [discriminate|].
    destruct (bytes_eqb mk k).
    - injection Hk as ->. specialize (Hl _ (or_introl eq_refl)). cbn [arm_ok] in Hl.
      repeat (apply andb_true_iff in Hl as [Hl ?]).
      match goal with H0 : (ti <? length tags) = true |- _ => apply Nat.ltb_lt in H0; exact H0 end.
    - apply IH; [|exact Hk]. intros a Ha. apply Hl. right. exact Ha. }
  apply (G dispatch A H).
Qed.

Lemma validate_alone_clean ti v : ti < ntags -> clean (validate_alone ti v) = true.
Proof.
  intros Hti. unfold validate_alone.
  set (m := {| m_tags := set_tag ti v empty_tags; m_opts := None |}).
  change (run_tag_validate validate_progs m ti) with (tagv_of m ti).
  apply tag_validate_clean.
  - unfold wf_msg, m. cbn [m_tags]. rewrite set_tag_length. apply empty_tags_length.
  - unfold get_tag, m. cbn [m_tags]. rewrite nth_set_tag, Nat.eqb_refl, empty_tags_length.
    destruct (ti <? ntags) eqn:E; [reflexivity|apply Nat.ltb_ge in E; lia].
Qed.

(* one segment: never a panic, never an untranslated construct *)
Theorem parse_line_total l ln : match parse_line l ln with inl e => bad_err e = false | inr _ => True end.
Proof.
  unfold parse_line. destruct (rune_count l <? 6); [reflexivity|].
  destruct (lookup_marker (firstn 6 l) dispatch) as [[[[ti fi] label] val]|] eqn:El; [|reflexivity].
  pose proof (dispatch_in_range _ _ _ _ _ El) as Hti.
  pose proof (nth_tags_in ti Hti) as Hin.
  pose proof (parsers_never_index_out_of_bounds parsers_safe _ l Hin) as Hp.
  pose proof parse_translated as Ht. unfold ob_parse_translated in Ht. rewrite forallb_forall in Ht.
  pose proof (run_parse_not_stuck _ (Ht _ Hin) l 0 [] (map (fun _ => []) (t_elems (nth ti tags tag_Amount)))) as Hs.
  fold (parse_tag (nth ti tags tag_Amount) l) in Hs.
  destruct (parse_tag (nth ti tags tag_Amount) l) as [v|f er| |]; try reflexivity; try contradiction.
  destruct val; [|exact I].
  pose proof (validate_alone_clean ti v) as Hc. rewrite ntags_is in Hti. specialize (Hc Hti).
  destruct (validate_alone ti v); try reflexivity; discriminate Hc.
Qed.

Lemma errors_of_total lines : forall ln, forallb (fun e => negb (bad_err e)) (errors_of lines ln) = true.
Proof.
  induction lines as [|l r IH]; intros ln; cbn [errors_of]; [reflexivity|].
  unfold line_err. pose proof (parse_line_total l (S ln)) as H.
  destruct (parse_line l (S ln)) as [e|[fi v]]; cbn [forallb app]; [rewrite H; cbn; apply IH|apply IH].
Qed.

(* the whole read, any chunking, any final status of the source *)
Theorem read_model_total preset opts chunks final :
  match read_model preset opts chunks final with
  | ROk _ => True
  | RErrors errs => forallb (fun e => negb (bad_err e)) errs = true
  end.
Proof.
  unfold read_model. destruct (scan chunks final) as [toks stop].
  destruct (read_lines (flat_map sublines toks) 0 empty_tags []) as [tgs errs] eqn:R.
  pose proof (read_lines_errors (flat_map sublines toks) 0 empty_tags []) as He. rewrite R in He. cbn [snd rev app] in He.
  pose proof (read_lines_length (flat_map sublines toks) 0 empty_tags []) as Hl. rewrite R in Hl. cbn [fst] in Hl.
  assert (Hall : forallb (fun e => negb (bad_err e)) (match stop with Some e => errs ++ [RScanner e] | None => errs end) = true).
  { subst errs. destruct stop; [rewrite forallb_app, errors_of_total; reflexivity|apply errors_of_total]. }
  destruct (match stop with Some e => errs ++ [RScanner e] | None => errs end) as [|e0 rest] eqn:E; [|exact Hall].
  set (m := {| m_tags := tgs; m_opts := match opts with Some _ => opts | None => preset end |}).
  assert (Hw : wf_msg m). { unfold wf_msg, m. cbn [m_tags]. rewrite Hl. apply empty_tags_length. }
  pose proof (verify_clean m Hw) as Hc.
  destruct (verify m); try exact I; try reflexivity; discriminate Hc.
Qed.

(* memory: the scanner never holds more than its buffer, and the buffer never exceeds 64 KiB *)
Definition buf_ok (st : sstate) : Prop := length (s_pending st) <= s_cap st /\ s_cap st <= max_token.

Lemma scan_one_buf fuel final : forall st, buf_ok st ->
  match scan_one fuel final st with SToken _ st' => buf_ok st' | _ => True end.
Proof.
  induction fuel as [|f IH]; intros st [Hp Hc]; cbn [scan_one]; [exact I|].
  set (has_err := match s_err st with Some _ => true | None => false end).
  destruct (match s_pending st, has_err with [], false => (0, None) | p, _ => split_fn p has_err end) as [adv tok] eqn:Et.
  destruct tok as [t|].
  - destruct adv; (split; cbn [s_pending s_cap]; [rewrite skipn_length; lia|exact Hc]).
  - destruct adv as [|adv].
    + destruct (s_err st) as [[|e]|]; try exact I.
      destruct (s_cap st <=? length (s_pending st)) eqn:E.
      * destruct (max_token <=? s_cap st) eqn:E2; [exact I|]. apply IH. apply Nat.leb_gt in E2. split; cbn [s_pending s_cap].
        -- destruct (s_cap st =? 0) eqn:E3; [apply Nat.eqb_eq in E3; apply Nat.leb_le in E; unfold start_buf; lia|apply Nat.leb_le in E; apply Nat.min_glb; lia].
        -- destruct (s_cap st =? 0); [unfold start_buf, max_token; lia|apply Nat.le_min_r].
      * apply Nat.leb_gt in E. destruct (s_src st) as [|c r].
        -- apply IH. split; cbn [s_pending s_cap]; assumption.
        -- apply IH. split; cbn [s_pending s_cap]; [|exact Hc]. rewrite app_length, firstn_length. lia.
    + apply IH. split; cbn [s_pending s_cap]; [rewrite skipn_length; lia|exact Hc].
Qed.

(* ---------- termination: the fuel of the scanner model is never exhausted ---------- *)
Lemma markers_from_ge s : forall pos m, In m (markers_from s pos) -> pos <= m.
Proof.
  induction s as [|b t IH]; intros pos m H; cbn [markers_from] in H; [contradiction|].
  apply in_app_or in H. destruct H as [H|H].
  - destruct (is_marker_at (b :: t)); [destruct H as [<-|[]]; lia|contradiction].
  - specialize (IH (S pos) m H). lia.
Qed.

Lemma markers_second_pos s m0 m1 r : markers s = m0 :: m1 :: r -> 1 <= m1.
Proof.
  unfold markers. destruct s as [|b t]; cbn [markers_from]; [discriminate|].
  destruct (is_marker_at (b :: t)); cbn [app]; intros H.
  - injection H as _ H. assert (In m1 (markers_from t 1)) by (rewrite H; left; reflexivity).
    apply markers_from_ge in H0. exact H0.
  - assert (In m1 (markers_from t 1)) by (rewrite H; right; left; reflexivity).
    apply markers_from_ge in H0. exact H0.
Qed.

Lemma split_fn_none data e a : split_fn data e = (a, None) -> a = 0.
Proof.
  unfold split_fn. destruct data as [|b t], e; try (intros H; injection H as <-; reflexivity);
  destruct (markers _) as [|m0 [|m1 r]]; try (intros H; injection H as <-; reflexivity); try discriminate;
  destruct (0 <? m0); discriminate.
Qed.

Lemma split_fn_some data e a t : split_fn data e = (a, Some t) -> 1 <= a /\ data <> [].
Proof.
  unfold split_fn. destruct data as [|b d].
  - destruct e; cbn; discriminate.
  - intros H. split; [|discriminate].
    destruct (markers (b :: d)) as [|m0 [|m1 r]] eqn:Em.
    + destruct e; [injection H as <- _; cbn; lia|discriminate].
    + destruct e; [|discriminate]. destruct (0 <? m0) eqn:E0.
      * injection H as <- _. apply Nat.ltb_lt in E0. lia.
      * injection H as <- _. cbn. lia.
    + assert (E : (if 0 <? m0 then (m0, Some (firstn m0 (b :: d))) else (m1, Some (firstn m1 (b :: d)))) = (a, Some t)).
      { destruct e; exact H. }
      destruct (0 <? m0) eqn:E0.
      * injection E as <- _. apply Nat.ltb_lt in E0. lia.
      * injection E as <- _. apply (markers_second_pos _ _ _ _ Em).
Qed.

Lemma split_fn_eof_some data : data <> [] -> exists a t, split_fn data true = (a, Some t).
Proof.
  intros Hd. unfold split_fn. destruct data as [|b d]; [contradiction|].
  destruct (markers (b :: d)) as [|m0 [|m1 r]]; [eauto| |]; destruct (0 <? m0); eauto.
Qed.

Definition src_ok (st : sstate) : Prop := Forall (fun c => c <> []) (s_src st).
Definition remaining (st : sstate) : nat := length (s_pending st) + total_len (s_src st).
Definition measure (st : sstate) : nat :=
  2 * total_len (s_src st) + (match s_err st with None => 2 | Some _ => 0 end) +
  (if s_cap st <=? length (s_pending st) then 1 else 0).

Lemma total_len_cons c r : total_len (c :: r) = length c + total_len r.
Proof. reflexivity. Qed.

Lemma scan_one_progress fuel final : forall st, buf_ok st -> src_ok st ->
  (measure st < fuel -> scan_one fuel final st <> SFuel) /\
  match scan_one fuel final st with
  | SToken _ st' => src_ok st' /\ remaining st' < remaining st
  | _ => True
  end.
Proof.
  induction fuel as [|f IH]; intros st [Hp Hc] Hsrc; [split; [lia|exact I]|].
  cbn [scan_one].
  set (has_err := match s_err st with Some _ => true | None => false end).
  destruct (match s_pending st, has_err with [], false => (0, None) | p, _ => split_fn p has_err end) as [adv tok] eqn:Et.
  assert (Htok : forall t, tok = Some t -> 1 <= adv /\ s_pending st <> []).
  { intros t ->. destruct (s_pending st) as [|b p] eqn:Ep.
    - destruct has_err; [|discriminate Et]. apply split_fn_some in Et. tauto.
    - apply split_fn_some in Et. split; [tauto|discriminate]. }
  assert (Hnone : tok = None -> adv = 0).
  { intros ->. destruct (s_pending st) as [|b p]; [destruct has_err; [apply split_fn_none in Et; exact Et|injection Et as <-; reflexivity]|apply split_fn_none in Et; exact Et]. }
  destruct tok as [t|].
  - destruct (Htok t eq_refl) as [Ha Hne].
    assert (G : src_ok {| s_pending := skipn adv (s_pending st); s_src := s_src st; s_err := s_err st; s_cap := s_cap st |} /\
                remaining {| s_pending := skipn adv (s_pending st); s_src := s_src st; s_err := s_err st; s_cap := s_cap st |} < remaining st).
    { split; [exact Hsrc|]. unfold remaining. cbn [s_pending s_src]. rewrite skipn_length.
      destruct (s_pending st); [contradiction|cbn [length]; lia]. }
    destruct adv; (split; [discriminate|exact G]).
  - rewrite (Hnone eq_refl).
    destruct (s_err st) as [[|e]|] eqn:Ee; [split; [discriminate|exact I]|split; [discriminate|exact I]|].
    destruct (s_cap st <=? length (s_pending st)) eqn:E.
    + destruct (max_token <=? s_cap st) eqn:E2; [split; [discriminate|exact I]|].
      apply Nat.leb_le in E. apply Nat.leb_gt in E2.
      set (c' := if s_cap st =? 0 then start_buf else Nat.min (2 * s_cap st) max_token).
      assert (Hroom : length (s_pending st) < c' /\ c' <= max_token).
      { unfold c'. destruct (s_cap st =? 0) eqn:E3.
        - apply Nat.eqb_eq in E3. unfold start_buf, max_token. lia.
        - apply Nat.eqb_neq in E3. split; [apply Nat.min_glb_lt; lia|apply Nat.le_min_r]. }
      set (st' := {| s_pending := s_pending st; s_src := s_src st; s_err := None; s_cap := c' |}).
      destruct (IH st') as [IH1 IH2]; [unfold st'; split; cbn [s_pending s_cap]; lia|exact Hsrc|].
      split.
      * intros Hm. apply IH1. unfold measure, st' in *. cbn [s_pending s_src s_err s_cap] in *. rewrite Ee in Hm.
        destruct (s_cap st <=? length (s_pending st)) eqn:E4; [|apply Nat.leb_gt in E4; lia].
        destruct (c' <=? length (s_pending st)) eqn:E5; [apply Nat.leb_le in E5; lia|lia].
      * destruct (scan_one f final st') as [t st''| |]; try exact I. destruct IH2 as [A B]. split; [exact A|]. exact B.
    + apply Nat.leb_gt in E. destruct (s_src st) as [|c r] eqn:Es.
      * set (st' := {| s_pending := s_pending st; s_src := []; s_err := Some final; s_cap := s_cap st |}).
        destruct (IH st') as [IH1 IH2]; [unfold st'; split; cbn [s_pending s_cap]; lia|unfold st', src_ok; cbn [s_src]; constructor|].
        split.
        -- intros Hm. apply IH1. unfold measure, st' in *. cbn [s_pending s_src s_err s_cap] in *. rewrite Ee, Es in Hm.
           cbn [total_len fold_right] in *. destruct (s_cap st <=? length (s_pending st)); lia.
        -- destruct (scan_one f final st') as [t st''| |]; try exact I. destruct IH2 as [A B]. split; [exact A|].
           unfold remaining, st' in *. cbn [s_pending s_src] in *. rewrite Es. exact B.
      * unfold src_ok in Hsrc. rewrite Es in Hsrc. inversion Hsrc as [|? ? Hcne Hr]; subst.
        set (n := Nat.min (length c) (s_cap st - length (s_pending st))).
        assert (Hn : 1 <= n /\ n <= length c).
        { unfold n. destruct c; [contradiction|]. cbn [length]. split; [apply Nat.min_glb; lia|apply Nat.le_min_l]. }
        set (st' := {| s_pending := s_pending st ++ firstn n c;
                       s_src := match skipn n c with [] => r | _ => skipn n c :: r end; s_err := None; s_cap := s_cap st |}).
        assert (Hsrc' : src_ok st').
        { unfold src_ok, st'. cbn [s_src]. destruct (skipn n c) eqn:Ek; [exact Hr|]. constructor; [discriminate|exact Hr]. }
        assert (Htl : total_len (s_src st') = total_len (c :: r) - n).
        { unfold st'. cbn [s_src]. pose proof (skipn_length n c) as Hk. rewrite total_len_cons.
          destruct (skipn n c) eqn:Ek; [cbn [length] in Hk; lia|]. rewrite total_len_cons, Hk. lia. }
        destruct (IH st') as [IH1 IH2].
        { split; cbn [s_pending s_cap st']; [rewrite app_length, firstn_length; unfold n; lia|exact Hc]. }
        { exact Hsrc'. }
        split.
        -- intros Hm. apply IH1. unfold measure in *. rewrite Htl. cbn [s_pending s_err s_cap st'] in *. rewrite Ee, Es in Hm.
           rewrite total_len_cons in *.
           destruct (s_cap st <=? length (s_pending st)) eqn:E4; [apply Nat.leb_le in E4; lia|].
           destruct (s_cap st <=? length (s_pending st ++ firstn n c)); lia.
        -- destruct (scan_one f final st') as [t st''| |]; try exact I. destruct IH2 as [A B]. split; [exact A|].
           unfold remaining in *. rewrite Htl in B. cbn [s_pending st'] in B. rewrite app_length, firstn_length in B.
           rewrite Es, total_len_cons. rewrite total_len_cons in B. lia.
Qed.

(* does the token loop run out of fuel (its own or the scanner's)? *)
Fixpoint exhausts (fuel : nat) (final : fstatus) (st : sstate) : bool :=
  match fuel with
  | O => true
  | S f =>
      match scan_one fuel final st with
      | SToken _ st' => exhausts f final st'
      | SStop _ => false
      | SFuel => true
      end
  end.

Lemma scan_all_never_exhausts fuel final : forall st,
  buf_ok st -> src_ok st -> 2 * remaining st + 4 <= fuel -> exhausts fuel final st = false.
Proof.
  induction fuel as [|f IH]; intros st Hb Hs Hf; [lia|].
  cbn [exhausts].
  destruct (scan_one_progress (S f) final st Hb Hs) as [P1 P2].
  pose proof (scan_one_buf (S f) final st Hb) as Hb'.
  destruct (scan_one (S f) final st) as [t st'|e|] eqn:E.
  - destruct P2 as [Hs' Hr]. apply (IH st' Hb' Hs'). lia.
  - reflexivity.
  - exfalso. apply P1; [|reflexivity].
    unfold measure, remaining in *. destruct (s_err st); destruct (s_cap st <=? length (s_pending st)); lia.
Qed.

(* the reader's scan of any chunk sequence terminates within the model's fuel: the bound
   4 * (bytes + chunks) + 64 is never reached, so "fuel" results only mirror real termination *)
Theorem scan_terminates chunks final :
  let nonempty := filter (fun c => match c with [] => false | _ => true end) chunks in
  exhausts (4 * (total_len nonempty + length nonempty) + 64) final
           {| s_pending := []; s_src := nonempty; s_err := None; s_cap := 0 |} = false.
Proof.
  intros nonempty. apply scan_all_never_exhausts.
  - split; cbn [s_pending s_cap length]; lia.
  - unfold src_ok. cbn [s_src]. apply Forall_forall. intros c Hc. apply filter_In in Hc as [_ Hc]. destruct c; [discriminate|discriminate].
  - unfold remaining. cbn [s_pending s_src length]. lia.
Qed.

(* and scan_all reports the fuel error only when it is exhausted *)
Lemma scan_all_fuel_only_if_exhausted fuel final : forall st acc,
  exhausts fuel final st = false ->
  exists toks stop, scan_all fuel final st acc = (toks, stop) /\
    (stop = None \/ exists f0 st0, scan_one f0 final st0 = SStop stop).
Proof.
  induction fuel as [|f IH]; intros st acc H; [discriminate|].
  cbn [exhausts] in H. cbn [scan_all].
  destruct (scan_one (S f) final st) as [t st'|e|] eqn:E.
  - apply IH. exact H.
  - exists (rev acc), e. split; [reflexivity|]. right. exists (S f), st. exact E.
  - discriminate.
Qed.
