(* C01, file level, assembled: for every valid message whose present tags are covered (the regular
   tags with a static length guard, {1500} and {3600}) and whose element values are canonical FAIM text,
   the text written in either layout with any of the three separators reads back - under every
   chunking - to exactly that message. *)
From Coq Require Import Permutation.
From Wire Require Import Base.Bytes Model.Converters Model.Validators Model.GoV Model.Codec Model.Layout Model.Message Model.Writer Model.Reader.
From Wire Require Import Spec.Rules.
From Wire Require Import Theory.BytesFacts Theory.DLFacts Theory.VerifyFacts Theory.VerifyProps Theory.ReaderFacts Theory.ReaderTotal
     Theory.ScanSpec Theory.Segments Theory.WriterFacts Theory.CodecFacts Theory.CodecRoundTrip Theory.CodecTags Theory.DispatchFacts
     Theory.FileRoundTrip Theory.FormatShape Theory.TagLocal Theory.TagSpecial.
From WireGen Require Import Tags Writer Reader.

Definition i_ss : nat := tix "SenderSupplied".
Definition i_bfc : nat := tix "BusinessFunctionCode".
Definition i_ua : nat := tix "UnstructuredAddenda".
Definition i_omad : nat := tix "OutputMessageAccountabilityData".

(* tags whose round trip is proved *)
Definition covered (i : nat) : bool :=
  (i =? i_ss) || (i =? i_bfc) || (i =? i_ua) || (i =? i_omad) || layout_ok (nth i tags tag_Amount).

(* the reader's minimum-length guard admits the text of this value (static for 48 tags; for the 8 tags whose
   shortest canonical text is below the guard it is a condition on the value, which validity implies) *)
Definition guard_admits_b (L : layout) (len : nat) : bool :=
  match l_cmp L with CLt => l_guard L <=? len | CNe => len =? l_guard L end.
Definition guard_ok (d : tagdesc) (v : tagval) : bool :=
  guard_static d ||
  (guard_admits_b (recover d) (length (format_text (recover d) (true && t_format_takes_options d) v)) &&
   guard_admits_b (recover d) (length (format_text (recover d) (false && t_format_takes_options d) v))).

(* the canonical values of a covered tag: its own marker, canonical elements, FAIM text *)
Definition canonical_value (i : nat) (v : tagval) : bool :=
  (if i =? i_ss then ss_canonical v else if i =? i_bfc then bfc_canonical v else if i =? i_ua then ua_canonical v
   else if i =? i_omad then omad_canonical v else canonical_tag (nth i tags tag_Amount) v && guard_ok (nth i tags tag_Amount) v) &&
  bytes_eqb (tv_marker v) (t_marker (nth i tags tag_Amount)) && values_plain v.

Definition msg_covered (m : message) : Prop :=
  forall i v, get_tag m i = Some v -> covered i = true /\ canonical_value i v = true.

(* ---- per-run obligations ---- *)
Definition ob_dispatch_self : bool :=
  forallb (fun i => match lookup_marker (t_marker (nth i tags tag_Amount)) dispatch with
                    | Some (ti, fi, _, val) => (ti =? i) && (fi =? i) && val
                    | None => false
                    end) (seq 0 ntags).

Local Transparent tags.
Lemma dispatch_self : ob_dispatch_self = true. Proof. vm_compute. reflexivity. Qed.
Lemma format_heads : ob_format_heads = true. Proof. vm_compute. reflexivity. Qed.
Lemma plan_covers : ob_plan_covers = true. Proof. vm_compute. reflexivity. Qed.
Lemma ss_is : nth i_ss tags tag_Amount = tag_SenderSupplied. Proof. reflexivity. Qed.
Lemma bfc_is : nth i_bfc tags tag_Amount = tag_BusinessFunctionCode. Proof. reflexivity. Qed.
Lemma ss_parse : t_parse tag_SenderSupplied = [PGuard CLt 11; PTag false; PSlice 0 6 8 true; PSetLen 8; PFixed 1 8 "UserRequestCorrelation";
                                               PNeed 1 "TestProductionCode"; PDyn 2 1 true; PAlphaTail 3 1; PVerifyLen].
Proof. reflexivity. Qed.
Lemma ss_format : t_format tag_SenderSupplied = [FTag; FAlpha 0 2; FAlpha 1 8; FAlpha 2 1; FAlpha 3 1]. Proof. reflexivity. Qed.
Lemma ss_nelems : length (t_elems tag_SenderSupplied) = 4. Proof. reflexivity. Qed.
Lemma bfc_parse : t_parse tag_BusinessFunctionCode = [PGuard CLt 9; PTag false; PSlice 0 6 9 true; PSetLen 9; PVar 1 3 "TransactionTypeCode"; PVerifyLen].
Proof. reflexivity. Qed.
Lemma bfc_format : t_format tag_BusinessFunctionCode = [FTag; FAlpha 0 3; FBfcTtc 1 3]. Proof. reflexivity. Qed.
Lemma bfc_options : t_format_takes_options tag_BusinessFunctionCode = true. Proof. reflexivity. Qed.
Lemma bfc_nelems : length (t_elems tag_BusinessFunctionCode) = 2. Proof. reflexivity. Qed.
Lemma ua_is : nth i_ua tags tag_Amount = tag_UnstructuredAddenda. Proof. reflexivity. Qed.
Lemma ua_parse : t_parse tag_UnstructuredAddenda = [PGuard CLt 10; PTag false; PAddenda 0 1]. Proof. reflexivity. Qed.
Lemma ua_format : t_format tag_UnstructuredAddenda = [FTag; FAlphaZ 0 4; FAddenda 0 1]. Proof. reflexivity. Qed.
Lemma ua_nelems : length (t_elems tag_UnstructuredAddenda) = 2. Proof. reflexivity. Qed.
Lemma omad_is : nth i_omad tags tag_Amount = tag_OutputMessageAccountabilityData. Proof. reflexivity. Qed.
Lemma omad_parse : t_parse tag_OutputMessageAccountabilityData =
    [PGuard CLt 14; PTag false; PSetLen 6; PFixed 0 8 "OutputCycleDate"; PFixed 1 8 "OutputDestinationID";
     PNeed 6 "OutputSequenceNumber"; PDyn 2 6 false; PFixed 3 4 "OutputDate"; PFixed 4 4 "OutputTime";
     PFixed 5 4 "OutputFRBApplicationIdentification"; PVerifyLen].
Proof. reflexivity. Qed.
Lemma omad_format : t_format tag_OutputMessageAccountabilityData =
    [FForceFixed; FTag; FRightAlpha 0 8; FRightAlpha 1 8; FNumeric 2 6; FRightAlpha 3 4; FRightAlpha 4 4; FRightAlpha 5 4; FStripIfVariable].
Proof. reflexivity. Qed.
Lemma omad_nelems : length (t_elems tag_OutputMessageAccountabilityData) = 6. Proof. reflexivity. Qed.
Lemma ntags_len : length tags = ntags. Proof. reflexivity. Qed.
Global Opaque tags.

(* ---- one covered tag: its formatted line decodes to it ---- *)
Lemma covered_round_trip i v variable : covered i = true -> canonical_value i v = true ->
  exists txt, format_tag (nth i tags tag_Amount) variable v = Some txt /\ parse_tag (nth i tags tag_Amount) txt = POk v.
Proof.
  unfold covered, canonical_value. intros Hc Hv.
  apply andb_true_iff in Hv as [Hv _]. apply andb_true_iff in Hv as [Hv _].
  destruct (i =? i_ss) eqn:Es.
  - apply Nat.eqb_eq in Es. subst i. rewrite ss_is. apply (ss_round_trip v variable Hv ss_parse ss_format ss_nelems).
  - destruct (i =? i_bfc) eqn:Eb.
    + apply Nat.eqb_eq in Eb. subst i. rewrite bfc_is.
      apply (bfc_round_trip v variable Hv bfc_parse bfc_format bfc_options bfc_nelems).
    + destruct (i =? i_ua) eqn:Eu.
      { apply Nat.eqb_eq in Eu. subst i. rewrite ua_is. apply (ua_round_trip v variable Hv ua_parse ua_format ua_nelems). }
      destruct (i =? i_omad) eqn:Eo.
      { apply Nat.eqb_eq in Eo. subst i. rewrite omad_is. apply (omad_round_trip v variable Hv omad_parse omad_format omad_nelems). }
      cbn [orb] in Hc. apply andb_true_iff in Hv as [Hv Hg]. unfold guard_ok in Hg.
      destruct (guard_static (nth i tags tag_Amount)) eqn:Egs; [apply (tag_roundtrip_static _ v variable Hc Egs Hv)|].
      cbn [orb] in Hg. apply andb_true_iff in Hg as [Hg1 Hg2].
      apply (tag_roundtrip _ v variable Hc Hv). unfold guard_admits, guard_admits_b in *.
      destruct variable; destruct (l_cmp (recover (nth i tags tag_Amount)));
        try (apply Nat.leb_le; assumption); try (apply Nat.eqb_eq; assumption).
Qed.

Lemma rune_count_marker l : is_marker_at l = true -> 6 <= rune_count l.
Proof.
  destruct l as [|a [|d1 [|d2 [|d3 [|d4 [|z r]]]]]]; cbn [is_marker_at]; intros H; try discriminate H.
  apply andb_true_iff in H as [H Hz]. apply andb_true_iff in H as [H H4]. apply andb_true_iff in H as [H H3].
  apply andb_true_iff in H as [H H2]. apply andb_true_iff in H as [Ha H1].
  apply beqb_eq in Ha. apply beqb_eq in Hz. subst a z.
  assert (G : forall d, is_digit d = true -> is_ascii d = true) by (intros d Hd; destruct d; try discriminate Hd; reflexivity).
  rewrite (rune_count_cons_ascii x7b _ eq_refl), (rune_count_cons_ascii d1 _ (G d1 H1)), (rune_count_cons_ascii d2 _ (G d2 H2)),
          (rune_count_cons_ascii d3 _ (G d3 H3)), (rune_count_cons_ascii d4 _ (G d4 H4)), (rune_count_cons_ascii x7d _ eq_refl). lia.
Qed.

Lemma formatted_line_prefix d v variable line :
  format_head_ok d = true -> length (t_marker d) = 6 -> tv_marker v = t_marker d -> values_plain v = true ->
  format_tag d variable v = Some line -> firstn 6 line = t_marker d.
Proof.
  intros Hh Hl Hmk Hv Hf. unfold format_tag in Hf.
  destruct (format_head_cases d Hh) as (rest & Hrest & Hrun).
  destruct (Hrun v (variable && t_format_takes_options d)) as [var' Hr]. rewrite Hr in Hf.
  assert (Hs : shaped (t_marker d) (tv_marker v)) by (exists []; rewrite Hmk, app_nil_r; auto).
  destruct (run_format_shaped rest Hrest v _ _ line (t_marker d) Hv Hl Hs Hf) as (R & -> & _).
  rewrite firstn_app, Hl. replace (6 - 6) with 0 by reflexivity. rewrite firstn_O, app_nil_r. apply firstn_all2. lia.
Qed.

Theorem covered_line_decodes m i takes v variable line :
  wf_msg m -> verify m = Accept -> get_tag m i = Some v -> covered i = true -> canonical_value i v = true ->
  format_tag (nth i tags tag_Amount) (variable && takes) v = Some line -> decodes line (i, v).
Proof.
  intros Hw Hacc Hg Hc Hv Hf.
  assert (Hi : i < ntags).
  { apply (present_lt m i Hw). rewrite Hg. reflexivity. }
  set (d := nth i tags tag_Amount) in *.
  assert (Hin : In d tags) by (apply nth_In; rewrite ntags_len; exact Hi).
  pose proof format_heads as Hfh. unfold ob_format_heads in Hfh. rewrite forallb_forall in Hfh. specialize (Hfh d Hin).
  apply andb_true_iff in Hfh as [Hfh Hl6]. apply andb_true_iff in Hfh as [Hhead Hmark]. apply Nat.eqb_eq in Hl6.
  pose proof Hv as Hv'. unfold canonical_value in Hv'. apply andb_true_iff in Hv' as [Hv' Hplain]. apply andb_true_iff in Hv' as [_ Hmk].
  apply bytes_eqb_eq in Hmk. fold d in Hmk.
  pose proof (formatted_line_is_a_segment d v _ line Hhead Hmark Hl6 Hmk Hplain Hf) as Hseg.
  split; [exact Hseg|]. intros ln. unfold parse_line.
  assert (Hrc : (rune_count line <? 6) = false).
  { apply Nat.ltb_ge. apply rune_count_marker. unfold seg_ok in Hseg. apply andb_true_iff in Hseg as [Hseg _]. apply andb_true_iff in Hseg as [Hseg _]. exact Hseg. }
  rewrite Hrc, (formatted_line_prefix d v _ line Hhead Hl6 Hmk Hplain Hf).
  pose proof dispatch_self as Hds. unfold ob_dispatch_self in Hds. rewrite forallb_forall in Hds.
  specialize (Hds i). rewrite in_seq in Hds. specialize (Hds ltac:(lia)). fold d in Hds.
  destruct (lookup_marker (t_marker d) dispatch) as [[[[ti fi] label] val]|]; [|discriminate Hds].
  apply andb_true_iff in Hds as [Hds Hval]. apply andb_true_iff in Hds as [Hti Hfi].
  apply Nat.eqb_eq in Hti, Hfi. subst ti fi val. fold d.
  destruct (covered_round_trip i v (variable && takes) Hc Hv) as (txt & Hft & Hpt). fold d in Hft, Hpt.
  rewrite Hf in Hft. injection Hft as <-. rewrite Hpt.
  rewrite (validate_alone_is_tag_verdict m i v Hi Hg).
  rewrite (accepted_tags_valid m i Hw Hacc) by (rewrite Hg; reflexivity). reflexivity.
Qed.

Lemma plan_lines_has plan m variable i tk v : In (i, tk) plan -> get_tag m i = Some v ->
  forall lines, plan_lines plan m variable = Some lines -> lines <> [].
Proof.
  induction plan as [|[t takes] r IH]; intros Hin Hg lines H; [contradiction|].
  cbn [plan_lines] in H. destruct (plan_lines r m variable) as [rest|] eqn:Er; [|discriminate].
  destruct Hin as [E|Hin].
  - injection E as -> ->. rewrite Hg in H. destruct (format_tag _ _ v); [|discriminate]. injection H as <-. discriminate.
  - destruct (get_tag m t); [destruct (format_tag _ _ _); [|discriminate]; injection H as <-; discriminate|].
    injection H as <-. apply (IH Hin Hg rest eq_refl).
Qed.

(* ---- the theorem ---- *)
Theorem write_then_read_covered m variable nl t :
  wf_msg m -> msg_covered m -> sep_ok nl ->
  write_model m variable nl = WOk t -> length t < max_token ->
  forall chunks, concat chunks = t -> read_model None (m_opts m) chunks FEOF = ROk m.
Proof.
  intros Hw Hcov Hsep Hwr Hlen chunks Hc.
  assert (Hacc : verify m = Accept).
  { unfold write_model in Hwr. destruct (verify m); try discriminate Hwr. reflexivity. }
  assert (Hdec : forall i takes v line, In (i, takes) writer_plan -> get_tag m i = Some v ->
            format_tag (nth i tags tag_Amount) (variable && takes) v = Some line -> decodes line (i, v)).
  { intros i takes v line _ Hg Hf. destruct (Hcov i v Hg) as [C1 C2]. apply (covered_line_decodes m i takes v variable line Hw Hacc Hg C1 C2 Hf). }
  apply (write_then_read m variable nl t plan_covers Hw Hsep Hwr); try assumption.
  (* the text is more than a bare separator: {2000} is present in every accepted message *)
  destruct (accepted_amount_shape m Hw Hacc) as (a & Ha & _). unfold amount_of in Ha.
  destruct (get_tag m t_amount) as [va|] eqn:Eg; [|discriminate Ha].
  destruct (written_text_structure m variable nl t Hwr) as (lines & Hpl & Ht).
  assert (Hplan : exists tk, In (t_amount, tk) writer_plan).
  { pose proof plan_covers as Hp. unfold ob_plan_covers in Hp. apply andb_true_iff in Hp as [Hp _]. rewrite forallb_forall in Hp.
    assert (Hta : t_amount < ntags) by (apply (present_lt m t_amount Hw); rewrite Eg; reflexivity).
    specialize (Hp t_amount). rewrite in_seq in Hp. specialize (Hp ltac:(lia)).
    apply existsb_exists in Hp as (x & Hx & E). apply Nat.eqb_eq in E. subst x.
    apply in_map_iff in Hx as ([i tk] & E & Hin). cbn [fst] in E. subst i. exists tk. exact Hin. }
  destruct Hplan as [tk Hin].
  pose proof (plan_lines_has writer_plan m variable t_amount tk va Hin Eg lines Hpl) as Hne.
  pose proof (plan_lines_decode writer_plan m variable Hdec lines Hpl) as HF.
  destruct (Permutation_Forall2 (sort_lines_perm lines) HF) as (asg' & _ & HF').
  destruct (sort_lines lines) as [|l0 r0] eqn:Es.
  { exfalso. apply Hne. apply Permutation_nil. apply Permutation_sym. rewrite <- Es. apply sort_lines_perm. }
  pose proof (Forall2_seg_ok _ _ HF') as Hs0. cbn [forallb] in Hs0. apply andb_true_iff in Hs0 as [Hs0 _].
  apply seg_ok_nonempty in Hs0. intros E.
  assert (Hl : length (join_with nl (l0 :: r0) ++ nl) = length nl) by (rewrite <- Ht, E; reflexivity).
  rewrite (join_text nl (l0 :: r0)) in Hl by discriminate. rewrite text_of_length in Hl. cbn [fold_right] in Hl. lia.
Qed.

(* a decidable form of the coverage hypothesis *)
Definition msg_covered_b (m : message) : bool :=
  forallb (fun i => match get_tag m i with Some v => covered i && canonical_value i v | None => true end) (seq 0 ntags).

Lemma msg_covered_b_sound m : wf_msg m -> msg_covered_b m = true -> msg_covered m.
Proof.
  intros Hw H i v Hg. unfold msg_covered_b in H. rewrite forallb_forall in H.
  assert (Hi : i < ntags) by (apply (present_lt m i Hw); rewrite Hg; reflexivity).
  specialize (H i). rewrite in_seq in H. specialize (H ltac:(lia)). rewrite Hg in H.
  apply andb_true_iff in H. exact H.
Qed.
