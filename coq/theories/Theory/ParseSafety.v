(* C03, tag parsers: no Parse function can index out of bounds, whatever the input. An abstract
   interpretation of the regenerated step lists (a lower bound on the record length established by the
   guards, and how many bytes beyond the cursor are known to exist) with its soundness proof; the
   per-run obligation is that the checker accepts every tag. *)
From Wire Require Import Base.Bytes Model.Converters Model.Validators Model.GoV Model.Codec.
From Wire Require Import Theory.BytesFacts.
From WireGen Require Import Tags.

(* lb: length rec >= lb and rune_count rec >= lb (from the guards); need: length rec >= cur + need;
   tail: the cursor may lie beyond the end (after parseAlphaField at the tail) *)
Fixpoint safe_steps (steps : list pstep) (lb need : nat) (tail : bool) : bool :=
  match steps with
  | [] => true
  | st :: rest =>
      match st with
      | PGuard _ n => safe_steps rest (Nat.max lb (nn n)) need tail
      | PTag _ => (6 <=? lb) && safe_steps rest lb need tail
      | PSlice _ a b _ => (nn a <=? nn b) && (nn b <=? lb) && safe_steps rest lb need tail
      | PSetLen n => (nn n <=? lb) && safe_steps rest lb (lb - nn n) false
      | PFixed _ _ _ | PVar _ _ _ => negb tail && safe_steps rest lb 0 false
      | PNeed k _ => safe_steps rest lb (if tail then need else Nat.max need (nn k)) tail
      | PDyn _ k _ => negb tail && (nn k <=? need) && safe_steps rest lb (need - nn k) false
      | PAlphaTail _ _ => negb tail && safe_steps rest lb 0 true
      | PVerifyLen => safe_steps rest lb need tail
      | PAddenda _ _ => (10 <=? lb) && safe_steps rest lb need tail
      | PUnsupported _ => true
      end
  end.

Lemma slice_some s a b : a <= b -> b <= length s -> exists r, slice s a b = Some r.
Proof.
  intros H1 H2. unfold slice. destruct (a <=? b) eqn:E1; [|apply Nat.leb_gt in E1; lia].
  destruct (b <=? length s) eqn:E2; [|apply Nat.leb_gt in E2; lia]. cbn. eauto.
Qed.

Lemma slice_from_some s a : a <= length s -> slice_from s a = Some (skipn a s).
Proof. intros H. unfold slice_from. destruct (a <=? length s) eqn:E; [reflexivity|apply Nat.leb_gt in E; lia]. Qed.

Lemma index_byte_lt c s i : index_byte c s = Some i -> i < length s.
Proof.
  revert i. induction s as [|x t IH]; intros i H; cbn in H; [discriminate|].
  destruct (beqb x c); [injection H as <-; cbn; lia|].
  destruct (index_byte c t) as [j|]; [|discriminate]. injection H as <-. specialize (IH j eq_refl). cbn. lia.
Qed.

Lemma parse_fixed_read r mx got rd : parse_fixed r mx = (got, rd, None) -> rd <= length r.
Proof.
  unfold parse_fixed. destruct r as [|b t]; [intros H; injection H as _ <-; cbn; lia|].
  set (r := b :: t).
  assert (Hs : match index_byte lbrace r, index_byte delim r with
               | None, None => length r | Some a, None => a | None, Some b0 => b0 | Some a, Some b0 => Nat.max a b0 end <= length r).
  { destruct (index_byte lbrace r) as [a|] eqn:A, (index_byte delim r) as [b0|] eqn:B;
      try apply index_byte_lt in A; try apply index_byte_lt in B; lia. }
  revert Hs. generalize (match index_byte lbrace r, index_byte delim r with
               | None, None => length r | Some a, None => a | None, Some b0 => b0 | Some a, Some b0 => Nat.max a b0 end).
  intros size0 Hs. destruct (mx <? size0) eqn:E1.
  - intros H. injection H as _ <-. apply Nat.ltb_lt in E1. lia.
  - destruct (size0 <? mx); [discriminate|]. intros H. injection H as _ <-. exact Hs.
Qed.

Lemma parse_variable_read r mx got rd : parse_variable r mx = (got, rd, None) -> rd <= length r.
Proof.
  unfold parse_variable. destruct r as [|b t]; [intros H; injection H as _ <-; cbn; lia|].
  destruct (index_byte delim (b :: t)) as [i|] eqn:I; [|discriminate].
  intros H. injection H as _ <-. apply index_byte_lt in I. lia.
Qed.

Theorem safe_steps_sound steps : forall rec cur mk vals lb need tail,
  safe_steps steps lb need tail = true ->
  lb <= rune_count rec -> (tail = false -> cur + need <= length rec) ->
  run_parse steps rec cur mk vals <> PPanic.
Proof.
  induction steps as [|st rest IH]; intros rec cur mk vals lb need tail Hs Hlb Hcur; cbn [run_parse]; [discriminate|].
  pose proof (rune_count_le rec) as Hrl.
  destruct st; cbn [safe_steps] in Hs.
  - (* PGuard *)
    destruct c.
    + destruct (rune_count rec <? nn n) eqn:E; [discriminate|]. apply Nat.ltb_ge in E.
      apply (IH _ _ _ _ _ _ _ Hs); [lia|exact Hcur].
    + destruct (rune_count rec =? nn n) eqn:E; cbn [negb]; [|discriminate]. apply Nat.eqb_eq in E.
      apply (IH _ _ _ _ _ _ _ Hs); [lia|exact Hcur].
  - (* PTag *)
    apply andb_true_iff in Hs as [H6 Hs]. apply Nat.leb_le in H6.
    destruct (slice_some rec 0 6) as [r Hr]; [lia|lia|]. rewrite Hr. apply (IH _ _ _ _ _ _ _ Hs); assumption.
  - (* PSlice *)
    apply andb_true_iff in Hs as [Hs1 Hs]. apply andb_true_iff in Hs1 as [Ha Hb]. apply Nat.leb_le in Ha, Hb.
    destruct (slice_some rec (nn a) (nn b)) as [r Hr]; [lia|lia|]. rewrite Hr. apply (IH _ _ _ _ _ _ _ Hs); assumption.
  - (* PSetLen *)
    apply andb_true_iff in Hs as [Hn Hs]. apply Nat.leb_le in Hn.
    apply (IH _ _ _ _ _ _ _ Hs); [exact Hlb|]. intros _. lia.
  - (* PFixed *)
    apply andb_true_iff in Hs as [Ht Hs]. destruct tail; [discriminate|]. specialize (Hcur eq_refl).
    rewrite slice_from_some by lia.
    destruct (parse_fixed (skipn cur rec) (nn w)) as [[got rd] [err|]] eqn:P; [discriminate|].
    apply parse_fixed_read in P. rewrite skipn_length in P.
    apply (IH _ _ _ _ _ _ _ Hs); [exact Hlb|]. intros _. lia.
  - (* PVar *)
    apply andb_true_iff in Hs as [Ht Hs]. destruct tail; [discriminate|]. specialize (Hcur eq_refl).
    rewrite slice_from_some by lia.
    destruct (parse_variable (skipn cur rec) (nn w)) as [[got rd] [err|]] eqn:P; [discriminate|].
    apply parse_variable_read in P. rewrite skipn_length in P.
    apply (IH _ _ _ _ _ _ _ Hs); [exact Hlb|]. intros _. lia.
  - (* PNeed *)
    destruct (length rec <? cur + nn k) eqn:E; [discriminate|]. apply Nat.ltb_ge in E.
    apply (IH _ _ _ _ _ _ _ Hs); [exact Hlb|]. intros Ht. rewrite Ht. specialize (Hcur Ht). lia.
  - (* PDyn *)
    apply andb_true_iff in Hs as [Hs1 Hs]. apply andb_true_iff in Hs1 as [Ht Hk]. destruct tail; [discriminate|].
    specialize (Hcur eq_refl). apply Nat.leb_le in Hk.
    destruct (slice_some rec cur (cur + nn k)) as [r Hr]; [lia|lia|]. rewrite Hr.
    apply (IH _ _ _ _ _ _ _ Hs); [exact Hlb|]. intros _. lia.
  - (* PAlphaTail *)
    apply andb_true_iff in Hs as [Ht Hs]. destruct tail; [discriminate|]. specialize (Hcur eq_refl).
    rewrite slice_from_some by lia. apply (IH _ _ _ _ _ _ _ Hs); [exact Hlb|]. intros H. discriminate H.
  - (* PVerifyLen *)
    destruct (verify_read_length rec cur); [|discriminate]. apply (IH _ _ _ _ _ _ _ Hs); assumption.
  - (* PAddenda *)
    apply andb_true_iff in Hs as [H10 Hs]. apply Nat.leb_le in H10.
    destruct (slice_some rec 6 10) as [l Hl]; [lia|lia|]. rewrite Hl.
    destruct (Z.eqb (Z.of_nat (rune_count rec)) (10 + parse_num_field l)) eqn:E; cbn [negb]; [|discriminate].
    apply Z.eqb_eq in E.
    destruct (slice_some rec 10 (Z.to_nat (10 + parse_num_field l))) as [a Ha]; [lia|lia|]. rewrite Ha.
    apply (IH _ _ _ _ _ _ _ Hs); assumption.
  - discriminate.
Qed.

Definition ob_parsers_safe : bool := forallb (fun d => safe_steps (t_parse d) 0 0 false) tags.

Theorem parsers_never_index_out_of_bounds :
  ob_parsers_safe = true -> forall d rec, In d tags -> parse_tag d rec <> PPanic.
Proof.
  intros H d rec Hin. unfold ob_parsers_safe in H. rewrite forallb_forall in H.
  unfold parse_tag. apply (safe_steps_sound _ _ _ _ _ 0 0 false (H d Hin)); [lia|]. intros _. lia.
Qed.
