(* The element validators accept exactly their documented sets (C11), for ALL strings.
   Classes and code lists are the regenerated ones (WireGen); shapes are the hand model. *)
From Wire Require Import Base.Bytes Model.Validators Spec.Faim Theory.BytesFacts.
From WireGen Require Import Classes Codes Currency.

(* ---- character classes: exhaustive over the 256 byte values ---- *)
Lemma alnum_class_exact b : in_class alphanumericRegex_mask b = faim_char b.
Proof. destruct b; vm_compute; reflexivity. Qed.

Lemma numeric_class_exact b : in_class numericRegex_mask b = is_digit b.
Proof. destruct b; vm_compute; reflexivity. Qed.

Lemma amount_class_exact b : in_class amountRegex_mask b = amount_char b.
Proof. destruct b; vm_compute; reflexivity. Qed.

Lemma regex_shapes_recognised :
  alphanumericRegex_ok = true /\ numericRegex_ok = true /\ amountRegex_ok = true.
Proof. vm_compute. auto. Qed.

Lemma is_alphanumeric_exact s : is_alphanumeric s = forallb faim_char s.
Proof. unfold is_alphanumeric, all_in_class. apply forallb_ext. intros; apply alnum_class_exact. Qed.

Lemma is_numeric_exact s : is_numeric s = forallb is_digit s.
Proof. unfold is_numeric, all_in_class. apply forallb_ext. intros; apply numeric_class_exact. Qed.

Lemma is_amount_implied_exact s : is_amount_implied s = forallb is_digit s.
Proof. apply is_numeric_exact. Qed.

Lemma is_amount_exact s : is_amount s = forallb amount_char s.
Proof.
  unfold is_amount, all_in_class.
  rewrite (forallb_ext _ amount_char) by (intros; apply amount_class_exact).
  apply forallb_trim_byte. reflexivity.
Qed.

Lemma faim_excludes_framing b : faim_char b = true -> framing_char b = false.
Proof. destruct b; vm_compute; congruence. Qed.

Lemma faim_is_ascii b : faim_char b = true -> is_ascii b = true.
Proof. destruct b; vm_compute; congruence. Qed.

Lemma digit_is_ascii b : is_digit b = true -> is_ascii b = true.
Proof. destruct b; vm_compute; congruence. Qed.

(* ---- code lists: regenerated switch tables versus the published lists ---- *)
Definition subset_b (a b : list bytes) : bool := forallb (fun x => mem_bytes x b) a.
Definition same_set (a b : list bytes) : bool := subset_b a b && subset_b b a.

Lemma same_set_mem a b c : same_set a b = true -> mem_bytes c a = mem_bytes c b.
Proof.
  unfold same_set, subset_b. intros H. apply andb_true_iff in H as [H1 H2].
  rewrite forallb_forall in H1, H2.
  destruct (mem_bytes c a) eqn:Ea.
  - apply mem_bytes_In in Ea. symmetry. apply H1. exact Ea.
  - destruct (mem_bytes c b) eqn:Eb; [|reflexivity].
    apply mem_bytes_In in Eb. apply H2 in Eb. congruence.
Qed.

Definition code_lists_agree : bool :=
  forallb (fun '(n, l) => same_set (code_list n) l) Spec.Faim.code_lists.

Lemma code_lists_agree_true : code_lists_agree = true.
Proof. vm_compute. reflexivity. Qed.

Lemma code_list_exact name l c :
  In (name, l) Spec.Faim.code_lists -> in_code_list name c = mem_bytes c l.
Proof.
  intros Hin. pose proof code_lists_agree_true as H. unfold code_lists_agree in H.
  rewrite forallb_forall in H. specialize (H _ Hin). cbn beta iota in H.
  unfold in_code_list. apply same_set_mem. exact H.
Qed.

(* every generated list has a published counterpart (no unpublished list is in use) *)
Definition all_lists_published : bool :=
  forallb (fun '(n, _) => match assoc n Spec.Faim.code_lists with Some _ => true | None => false end)
          WireGen.Codes.code_lists.
Lemma all_lists_published_true : all_lists_published = true.
Proof. vm_compute. reflexivity. Qed.

(* ---- currency: exactly three letters naming an entry of the ISO table (library oracle) ---- *)
Lemma is_currency_code_exact s :
  is_currency_code s = true <-> length s = 3 /\ In (map upper_byte s) iso4217.
Proof.
  unfold is_currency_code. rewrite andb_true_iff, Nat.eqb_eq, mem_bytes_In. tauto.
Qed.

(* ---- dates ---- *)
Definition digit_bytes : list byte := [x30; x31; x32; x33; x34; x35; x36; x37; x38; x39].

Lemma is_digit_in b : is_digit b = true -> In b digit_bytes.
Proof. destruct b; vm_compute; intros H; try discriminate H; tauto. Qed.

Definition date_parts_ok (c1 c2 y1 y2 m1 m2 d1 d2 : byte) : bool :=
  is_century [c1; c2] && is_year [y1; y2] && is_month [m1; m2] && is_day [m1; m2] [d1; d2].

Definition date_spec_parts (c1 c2 m1 m2 d1 d2 : byte) : bool :=
  (let cc := 10 * dig c1 + dig c2 in (20 <=? cc) && (cc <=? 29)) &&
  (let mm := 10 * dig m1 + dig m2 in let dd := 10 * dig d1 + dig d2 in
   (1 <=? mm) && (mm <=? 12) && (1 <=? dd) && (dd <=? days_in_month mm)).

Definition forall_digits (p : byte -> bool) : bool := forallb p digit_bytes.

Lemma forall_digits_spec p : forall_digits p = true -> forall b, is_digit b = true -> p b = true.
Proof. unfold forall_digits. rewrite forallb_forall. intros H b Hb. apply H, is_digit_in, Hb. Qed.

Lemma century_sweep :
  forall_digits (fun c1 => forall_digits (fun c2 =>
    Bool.eqb (is_century [c1; c2]) (let cc := 10 * dig c1 + dig c2 in (20 <=? cc) && (cc <=? 29)))) = true.
Proof. vm_compute. reflexivity. Qed.

Lemma year_sweep :
  forall_digits (fun y1 => forall_digits (fun y2 => is_year [y1; y2])) = true.
Proof. vm_compute. reflexivity. Qed.

Lemma month_day_sweep :
  forall_digits (fun m1 => forall_digits (fun m2 => forall_digits (fun d1 => forall_digits (fun d2 =>
    Bool.eqb (is_month [m1; m2] && is_day [m1; m2] [d1; d2])
             (let mm := 10 * dig m1 + dig m2 in let dd := 10 * dig d1 + dig d2 in
              (1 <=? mm) && (mm <=? 12) && (1 <=? dd) && (dd <=? days_in_month mm)))))) = true.
Proof. vm_compute. reflexivity. Qed.

Lemma date_parts_exact c1 c2 y1 y2 m1 m2 d1 d2 :
  forallb is_digit [c1; c2; y1; y2; m1; m2; d1; d2] = true ->
  date_parts_ok c1 c2 y1 y2 m1 m2 d1 d2 = date_spec_parts c1 c2 m1 m2 d1 d2.
Proof.
  cbn [forallb]. intros H.
  repeat (apply andb_true_iff in H as [? H]).
  unfold date_parts_ok, date_spec_parts.
  pose proof (forall_digits_spec _ century_sweep c1 ltac:(assumption)) as Hc.
  pose proof (forall_digits_spec _ Hc c2 ltac:(assumption)) as Hc2. apply eqb_prop in Hc2.
  pose proof (forall_digits_spec _ year_sweep y1 ltac:(assumption)) as Hy.
  pose proof (forall_digits_spec _ Hy y2 ltac:(assumption)) as Hy2.
  pose proof (forall_digits_spec _ month_day_sweep m1 ltac:(assumption)) as Hm.
  pose proof (forall_digits_spec _ Hm m2 ltac:(assumption)) as Hm2.
  pose proof (forall_digits_spec _ Hm2 d1 ltac:(assumption)) as Hm3.
  pose proof (forall_digits_spec _ Hm3 d2 ltac:(assumption)) as Hm4. apply eqb_prop in Hm4.
  rewrite Hc2, Hy2. rewrite andb_true_r. rewrite <- andb_assoc. rewrite Hm4. reflexivity.
Qed.

Lemma validate_date_exact s : validate_date s = None <-> date_ok s = true.
Proof.
  unfold validate_date. rewrite is_numeric_exact.
  destruct (forallb is_digit s) eqn:Hd.
  2:{ (* not all digits: both sides reject *)
      split.
      - destruct (rune_count s =? 8); cbn; discriminate.
      - intros H. exfalso.
        destruct s as [|c1 [|c2 [|y1 [|y2 [|m1 [|m2 [|d1 [|d2 [|? ?]]]]]]]]]; try discriminate H.
        unfold date_ok in H. rewrite Hd in H. discriminate H. }
  assert (Hrc : rune_count s = length s).
  { apply rune_count_ascii. rewrite forallb_forall in Hd |- *. intros b Hb. apply digit_is_ascii, Hd, Hb. }
  rewrite Hrc.
  destruct s as [|c1 [|c2 [|y1 [|y2 [|m1 [|m2 [|d1 [|d2 [|e s']]]]]]]]];
    try (cbn; split; discriminate).
  change (length [c1; c2; y1; y2; m1; m2; d1; d2] =? 8) with true. cbn [negb].
  unfold sub. cbn [skipn firstn Nat.sub].
  pose proof (date_parts_exact c1 c2 y1 y2 m1 m2 d1 d2 Hd) as Hp.
  unfold date_parts_ok in Hp.
  unfold date_ok. rewrite Hd. cbn [andb].
  fold (date_spec_parts c1 c2 m1 m2 d1 d2). rewrite <- Hp.
  destruct (is_century [c1; c2]); cbn [negb andb]; [|split; discriminate].
  destruct (is_year [y1; y2]); cbn [negb andb]; [|split; discriminate].
  destruct (is_month [m1; m2]); cbn [negb andb]; [|split; discriminate].
  destruct (is_day [m1; m2] [d1; d2]); cbn [negb andb]; split; congruence.
Qed.

(* ---- identifier shapes ---- *)
Lemma is_blank_single c : is_blank [c] = is_ascii_ws c.
Proof. destruct c; vm_compute; reflexivity. Qed.

Lemma nonblank_faim_ws c : nonblank_faim c = faim_char c && negb (is_ascii_ws c).
Proof. destruct c; vm_compute; reflexivity. Qed.

Lemma nonblank_faim_ascii c : nonblank_faim c = true -> is_ascii c = true.
Proof. unfold nonblank_faim. intros H. apply andb_true_iff in H as [H _]. apply faim_is_ascii, H. Qed.

Lemma uid_code_ascii a b c d :
  mem_bytes [a; b; c; d] Spec.Faim.uid_codes = true ->
  is_ascii a = true /\ is_ascii b = true /\ is_ascii c = true /\ is_ascii d = true.
Proof.
  intros H. apply mem_bytes_In in H. cbn in H.
  repeat (destruct H as [H|H]; [inversion H; subst; vm_compute; auto|]). contradiction.
Qed.

Lemma rune_count_le_lt s n : length s < n -> (rune_count s <? n) = true.
Proof. intros H. apply Nat.ltb_lt. pose proof (rune_count_le s). lia. Qed.

Lemma validate_party_identifier_exact s : validate_party_identifier s = party_identifier_ok s.
Proof.
  destruct s as [|a t]; [reflexivity|].
  unfold validate_party_identifier, party_identifier_ok.
  destruct (beqb a x2f) eqn:Ea.
  - apply beqb_eq in Ea. subst a.
    rewrite rune_count_cons_ascii by reflexivity.
    destruct t as [|c rest]; [reflexivity|].
    pose proof (rune_count_pos c rest) as Hp.
    replace (S (rune_count (c :: rest)) <? 2) with false by (symmetry; apply Nat.ltb_ge; lia).
    unfold sub. cbn [skipn firstn Nat.sub]. rewrite bytes_eqb_refl.
    rewrite is_blank_single, is_alphanumeric_exact, nonblank_faim_ws. cbn [forallb].
    destruct (is_ascii_ws c); cbn [negb]; [rewrite andb_false_r; reflexivity | rewrite andb_true_r; reflexivity].
  - assert (Hs1 : bytes_eqb (sub (a :: t) 0 1) (bs "/") = false).
    { unfold sub. cbn [skipn firstn Nat.sub]. cbn. rewrite Ea. reflexivity. }
    rewrite Hs1.
    unfold validate_uid_party_identifier.
    destruct t as [|b [|c [|d [|sl [|e rest]]]]];
      try (rewrite (rune_count_le_lt _ 6) by (cbn; lia); destruct (rune_count _ <? 2); reflexivity).
    unfold sub. cbn [skipn firstn Nat.sub].
    rewrite is_blank_single, is_alphanumeric_exact, nonblank_faim_ws. cbn [forallb].
    change Model.Validators.uid_codes with Spec.Faim.uid_codes.
    destruct (mem_bytes [a; b; c; d] Spec.Faim.uid_codes) eqn:Hm; cbn [negb andb];
      [|destruct (_ <? 2); [reflexivity|]; destruct (_ <? 6); reflexivity].
    replace (bytes_eqb [sl] (bs "/")) with (beqb sl x2f) by (cbn; rewrite andb_true_r; reflexivity).
    destruct (beqb sl x2f) eqn:Hsl; cbn [negb andb];
      [|destruct (_ <? 2); [reflexivity|]; destruct (_ <? 6); reflexivity].
    destruct (is_ascii_ws e) eqn:Hws; cbn [negb andb];
      [rewrite andb_false_r; destruct (_ <? 2); [reflexivity|]; destruct (_ <? 6); reflexivity|].
    rewrite andb_true_r.
    destruct (faim_char e) eqn:Hfe; cbn [andb];
      [|destruct (_ <? 2); [reflexivity|]; destruct (_ <? 6); reflexivity].
    apply uid_code_ascii in Hm as (Ha & Hb & Hc & Hd).
    apply beqb_eq in Hsl. subst sl.
    rewrite !rune_count_cons_ascii by (first [assumption | reflexivity | apply faim_is_ascii; assumption]).
    reflexivity.
Qed.

Lemma optf_code_rng n : mem_bytes [n] optf_codes = in_rng n 49 56.
Proof. destruct n; vm_compute; reflexivity. Qed.

Lemma in_rng_ascii n : in_rng n 49 56 = true -> is_ascii n = true.
Proof. destruct n; vm_compute; congruence. Qed.

Lemma validate_option_f_line_exact s : validate_option_f_line s = option_f_line_ok s.
Proof.
  destruct s as [|n [|sl [|c rest]]]; try reflexivity;
    try (unfold validate_option_f_line; rewrite (rune_count_le_lt _ 3) by (cbn; lia); reflexivity).
  unfold validate_option_f_line, option_f_line_ok, sub. cbn [skipn firstn Nat.sub].
  rewrite optf_code_rng, is_blank_single, is_alphanumeric_exact, nonblank_faim_ws. cbn [forallb].
  replace (bytes_eqb [sl] (bs "/")) with (beqb sl x2f) by (cbn; rewrite andb_true_r; reflexivity).
  destruct (in_rng n 49 56) eqn:Hn; cbn [negb andb]; [|destruct (_ <? 3); reflexivity].
  destruct (beqb sl x2f) eqn:Hsl; cbn [negb andb]; [|destruct (_ <? 3); reflexivity].
  destruct (is_ascii_ws c) eqn:Hws; cbn [negb andb];
    [rewrite andb_false_r; destruct (_ <? 3); reflexivity|].
  rewrite andb_true_r.
  destruct (faim_char c) eqn:Hc; cbn [andb]; [|destruct (_ <? 3); reflexivity].
  apply beqb_eq in Hsl. subst sl.
  rewrite !rune_count_cons_ascii
    by (first [reflexivity | apply in_rng_ascii; assumption | apply faim_is_ascii; assumption]).
  reflexivity.
Qed.

Lemma validate_option_f_name_exact s : validate_option_f_name s = option_f_name_ok s.
Proof.
  destruct s as [|n [|sl [|c rest]]];
    try (unfold validate_option_f_name; rewrite (rune_count_le_lt _ 3) by (cbn; lia); reflexivity).
  unfold validate_option_f_name, option_f_name_ok, sub. cbn [skipn firstn Nat.sub].
  rewrite is_blank_single, is_alphanumeric_exact, nonblank_faim_ws. cbn [forallb].
  replace (bytes_eqb [sl] (bs "/")) with (beqb sl x2f) by (cbn; rewrite andb_true_r; reflexivity).
  replace (bytes_eqb [n] (bs "1")) with (beqb n x31) by (cbn; rewrite andb_true_r; reflexivity).
  destruct (beqb n x31) eqn:Hn; cbn [negb andb]; [|destruct (_ <? 3); reflexivity].
  destruct (beqb sl x2f) eqn:Hsl; cbn [negb andb]; [|destruct (_ <? 3); reflexivity].
  destruct (is_ascii_ws c) eqn:Hws; cbn [negb andb];
    [rewrite andb_false_r; destruct (_ <? 3); reflexivity|].
  rewrite andb_true_r.
  destruct (faim_char c) eqn:Hc; cbn [andb]; [|destruct (_ <? 3); reflexivity].
  apply beqb_eq in Hsl. subst sl. apply beqb_eq in Hn. subst n.
  rewrite !rune_count_cons_ascii by (first [reflexivity | apply faim_is_ascii; assumption]).
  reflexivity.
Qed.
