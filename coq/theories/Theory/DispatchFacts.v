(* Per-run obligations on the regenerated reader tables: shapes recognised, every dispatch arm parses
   its own type, validates, stores into its own field and is labelled with its record name; exactly the
   60 FAIM markers are dispatched, swept over all 10,000 four-digit markers. *)
From Wire Require Import Base.Bytes Model.GoV Model.Codec Model.Message Model.Reader Spec.Faim Theory.BytesFacts Theory.ValidatorsFacts.
From WireGen Require Import Tags Reader.

Definition ob_reader_shapes : bool :=
  dispatch_recognised && parse_line_guard_ok && parse_line_default_ok && read_loop_recognised && split_recognised &&
  new_reader_recognised && read_entry_points_ok && parse_error_wrapper_ok && tag_regex_ok && file_presets_ok.

Definition lower_byte (b : byte) : byte :=
  if in_rng b 65 90 then match Byte.of_N (bN b + 32) with Some u => u | None => b end else b.
Definition same_name (a b : string) : bool :=
  bytes_eqb (map lower_byte (list_byte_of_string a)) (map lower_byte (list_byte_of_string b)).

(* the record label is the record's type name (compared case-insensitively: the reader spells
   {6500} "FIAdditionalFiToFi") *)
Definition arm_ok (a : bytes * (nat * nat * string * bool)) : bool :=
  let '(mk, (ti, fi, label, val)) := a in
  let d := nth ti tags tag_Amount in
  (ti =? fi) && (ti <? length tags) && bytes_eqb mk (t_marker d) && val && same_name label (t_name d).

Definition ob_dispatch_arms : bool := forallb arm_ok dispatch.

Definition marker_of (d1 d2 d3 d4 : byte) : bytes := [x7b; d1; d2; d3; d4; x7d].

Definition is_some {A} (o : option A) : bool := match o with Some _ => true | None => false end.

(* all 10,000 markers {0000}..{9999}: dispatched exactly when it is one of the 60 FAIM tags *)
Definition ob_marker_sweep : bool :=
  forall_digits (fun d1 => forall_digits (fun d2 => forall_digits (fun d3 => forall_digits (fun d4 =>
    Bool.eqb (is_some (lookup_marker (marker_of d1 d2 d3 d4) dispatch)) (mem_bytes (marker_of d1 d2 d3 d4) faim_markers))))).

Definition ob_sixty : bool := (length dispatch =? 60) && (length faim_markers =? 60) && (length tags =? 60).

Lemma reader_shapes : ob_reader_shapes = true. Proof. vm_compute. reflexivity. Qed.
Lemma dispatch_arms : ob_dispatch_arms = true. Proof. vm_compute. reflexivity. Qed.
Lemma marker_sweep : ob_marker_sweep = true. Proof. vm_compute. reflexivity. Qed.
Lemma sixty : ob_sixty = true. Proof. vm_compute. reflexivity. Qed.

Theorem marker_dispatched_iff_faim d1 d2 d3 d4 :
  is_digit d1 = true -> is_digit d2 = true -> is_digit d3 = true -> is_digit d4 = true ->
  (lookup_marker (marker_of d1 d2 d3 d4) dispatch <> None <-> In (marker_of d1 d2 d3 d4) faim_markers).
Proof.
  intros H1 H2 H3 H4.
  pose proof (forall_digits_spec _ marker_sweep d1 H1) as Ha.
  pose proof (forall_digits_spec _ Ha d2 H2) as Hb.
  pose proof (forall_digits_spec _ Hb d3 H3) as Hc.
  pose proof (forall_digits_spec _ Hc d4 H4) as Hd. apply eqb_prop in Hd.
  rewrite <- mem_bytes_In, <- Hd.
  destruct (lookup_marker (marker_of d1 d2 d3 d4) dispatch); cbn; split; congruence.
Qed.

Theorem dispatch_fills_own_record mk ti fi label val :
  In (mk, (ti, fi, label, val)) dispatch ->
  ti = fi /\ mk = t_marker (nth ti tags tag_Amount) /\ val = true /\ same_name label (t_name (nth ti tags tag_Amount)) = true.
Proof.
  intros Hin. pose proof dispatch_arms as H. unfold ob_dispatch_arms in H. rewrite forallb_forall in H.
  specialize (H _ Hin). cbn in H.
  repeat (apply andb_true_iff in H as [H ?]).
  apply Nat.eqb_eq in H. apply bytes_eqb_eq in H2. auto.
Qed.
