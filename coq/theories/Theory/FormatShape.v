(* What a Format function can emit: the tag's marker followed by bytes taken from the element values,
   blanks, zeros and delimiters. Hence, when the values hold no brace and no line break (FAIM text) and
   the marker is a marker, every formatted line is a well-formed segment - for all 60 tags, both
   layouts (generic over the regenerated step lists). *)
From Wire Require Import Base.Bytes Model.Converters Model.Validators Model.GoV Model.Codec Model.Message Model.Reader.
From Wire Require Import Theory.BytesFacts Theory.ScanSpec Theory.Segments.
From WireGen Require Import Tags.

Definition plainb (b : byte) : bool := negb (beqb b x7b) && negb (beqb b x0a) && negb (beqb b x0d).
Definition plain (s : bytes) : bool := forallb plainb s.

Lemma plain_app a b : plain (a ++ b) = plain a && plain b.
Proof. apply forallb_app. Qed.

Lemma plain_firstn n s : plain s = true -> plain (firstn n s) = true.
Proof.
  revert n. induction s as [|b t IH]; intros [|n] H; cbn [firstn plain forallb] in *; try reflexivity.
  apply andb_true_iff in H as [Hb Ht]. unfold plain in IH. rewrite Hb, (IH n Ht). reflexivity.
Qed.

Lemma plain_skipn n s : plain s = true -> plain (skipn n s) = true.
Proof.
  revert n. induction s as [|b t IH]; intros [|n] H; cbn [skipn] in *; try exact H; try reflexivity.
  cbn [plain forallb] in H. apply andb_true_iff in H as [_ Ht]. apply IH. exact Ht.
Qed.

Lemma plain_brepeat c n : plainb c = true -> plain (brepeat c n) = true.
Proof. intros H. induction n as [|n IH]; cbn; [reflexivity|]. rewrite H. exact IH. Qed.

Lemma plain_format_alpha_field s mx var : plain s = true -> plain (format_alpha_field s mx var) = true.
Proof.
  intros H. unfold format_alpha_field. destruct (mx <? length s); [apply plain_firstn; exact H|].
  destruct var; [exact H|]. destruct (valid_size_uint (mx - length s)); [|reflexivity].
  rewrite plain_app, H. apply plain_brepeat. reflexivity.
Qed.

Lemma plain_numeric s mx : plain s = true -> plain (numeric_string_field s mx) = true.
Proof.
  intros H. unfold numeric_string_field. destruct (mx <? length s); [apply plain_skipn; exact H|].
  destruct (valid_size_uint (mx - length s)); [|reflexivity].
  rewrite plain_app, H, andb_true_r. apply plain_brepeat. reflexivity.
Qed.

Lemma plain_parse_alpha s mx : plain s = true -> plain (parse_alpha_field s mx) = true.
Proof.
  intros H. unfold parse_alpha_field. destruct (mx <? length s); [apply plain_skipn; exact H|].
  destruct (valid_size_uint (mx - length s)); [|reflexivity].
  rewrite plain_app, H. apply plain_brepeat. reflexivity.
Qed.

Definition values_plain (v : tagval) : bool := forallb plain (tv_elems v).

Lemma elem_val_plain v e : values_plain v = true -> plain (elem_val v e) = true.
Proof.
  unfold values_plain, elem_val. intros H. rewrite forallb_forall in H.
  destruct (Nat.lt_ge_cases e (length (tv_elems v))) as [Hl|Hl].
  - apply H. apply nth_In. exact Hl.
  - rewrite nth_overflow by exact Hl. reflexivity.
Qed.

(* strip_delimiters returns a prefix of its argument that keeps at least the first six bytes *)
Lemma strip_rev_suffix r : forall len, exists k, strip_rev r len = skipn k r /\ (len = length r -> Nat.min len 6 <= length r - k).
Proof.
  induction r as [|a t IH]; intros len; [exists 0; split; [reflexivity|cbn; lia]|].
  cbn [strip_rev]. destruct t as [|b t'].
  - exists 0. split; [reflexivity|]. intros ->. cbn. lia.
  - destruct (6 <? len) eqn:E6.
    + destruct (beqb a delim && beqb b delim && negb (len =? 7)) eqn:Ec.
      * destruct (IH (len - 1)) as (k & Hk & Hl). exists (S k). split; [exact Hk|].
        intros Hlen. apply Nat.ltb_lt in E6. cbn [length] in *.
        assert (Hl' : len - 1 = S (length t')) by lia. specialize (Hl Hl'). lia.
      * exists 0. split; [reflexivity|]. intros ->. cbn [length skipn]. lia.
    + exists 0. split; [reflexivity|]. intros ->. cbn [length skipn]. lia.
Qed.

Lemma strip_delimiters_prefix data : exists n, strip_delimiters data = firstn n data /\ Nat.min (length data) 6 <= n.
Proof.
  unfold strip_delimiters. destruct (strip_rev_suffix (rev data) (length data)) as (k & Hk & Hl).
  rewrite Hk. specialize (Hl (eq_sym (rev_length data))). rewrite rev_length in Hl.
  exists (length data - k). split; [|exact Hl].
  rewrite skipn_rev, rev_involutive. reflexivity.
Qed.

(* ---- the shape invariant along a Format program ---- *)
Definition shaped (mk acc : bytes) : Prop := exists R, acc = mk ++ R /\ plain R = true.

Lemma shaped_app mk acc x : shaped mk acc -> plain x = true -> shaped mk (acc ++ x).
Proof. intros (R & -> & HR) Hx. exists (R ++ x). split; [apply app_assoc_reverse|]. rewrite plain_app, HR, Hx. reflexivity. Qed.

Definition no_ftag (s : fstep) : bool := match s with FTag => false | _ => true end.

Lemma run_format_shaped steps : forallb no_ftag steps = true -> forall v var acc out mk,
  values_plain v = true -> length mk = 6 -> shaped mk acc ->
  run_format steps v var acc = Some out -> shaped mk out.
Proof.
  induction steps as [|st rest IH]; intros Hn v var acc out mk Hv Hmk Hs H; cbn [run_format] in H.
  - injection H as <-. exact Hs.
  - cbn [forallb] in Hn. apply andb_true_iff in Hn as [Hst Hrest].
    destruct st; cbn [no_ftag] in Hst; try discriminate Hst.
    + apply (IH Hrest v var _ out mk Hv Hmk (shaped_app _ _ _ Hs (plain_format_alpha_field _ _ false (elem_val_plain v e Hv))) H).
    + apply (IH Hrest v var _ out mk Hv Hmk (shaped_app _ _ _ Hs (plain_numeric _ _ (elem_val_plain v e Hv))) H).
    + refine (IH Hrest v var _ out mk Hv Hmk (shaped_app _ _ _ Hs _) H).
      destruct ((0 <? length (elem_val v e)) && (length (elem_val v e) <? nn w));
        [apply plain_numeric|apply plain_format_alpha_field]; apply elem_val_plain; exact Hv.
    + apply (IH Hrest v var _ out mk Hv Hmk (shaped_app _ _ _ Hs (plain_parse_alpha _ _ (elem_val_plain v e Hv))) H).
    + refine (IH Hrest v var _ out mk Hv Hmk (shaped_app _ _ _ Hs _) H).
      rewrite plain_app. apply andb_true_iff. split.
      * destruct (star && bytes_eqb (format_alpha_field (elem_val v e) (nn w) var) [Converters.delim]); [reflexivity|].
        apply plain_format_alpha_field. apply elem_val_plain. exact Hv.
      * destruct delim; reflexivity.
    + destruct (elem_val v e) as [|b x] eqn:Ee; [apply (IH Hrest v var acc out mk Hv Hmk Hs H)|].
      refine (IH Hrest v var _ out mk Hv Hmk (shaped_app _ _ _ Hs _) H).
      rewrite plain_app. apply andb_true_iff. split; [|reflexivity].
      pose proof (elem_val_plain v e Hv) as Hp. rewrite Ee in Hp.
      destruct var; [exact Hp|apply plain_format_alpha_field; exact Hp].
    + apply (IH Hrest v false acc out mk Hv Hmk Hs H).
    + refine (IH Hrest v var _ out mk Hv Hmk (shaped_app _ _ _ Hs _) H).
      destruct ((parse_num_field (elem_val v elen) <? 0)%Z || negb ((0 <? parse_num_field (elem_val v elen))%Z && (parse_num_field (elem_val v elen) <? Z.of_N max_buffer_growth)%Z)); [reflexivity|].
      apply plain_format_alpha_field. apply elem_val_plain. exact Hv.
    + refine (IH Hrest v var _ out mk Hv Hmk _ H). destruct var; [|exact Hs].
      destruct Hs as (R & -> & HR). destruct (strip_delimiters_prefix (mk ++ R)) as (n & Hn & Hmin). rewrite Hn.
      rewrite app_length, Hmk in Hmin. assert (H6 : 6 <= n) by lia.
      exists (firstn (n - 6) R). split; [|apply plain_firstn; exact HR].
      rewrite firstn_app, Hmk. rewrite firstn_all2 by lia. reflexivity.
    + discriminate H.
Qed.

(* per-run obligation: every Format program starts with the tag and never writes it again; every tag's
   marker is a marker *)
Definition format_head_ok (d : tagdesc) : bool :=
  match t_format d with
  | FTag :: rest => forallb no_ftag rest
  | FForceFixed :: FTag :: rest => forallb no_ftag rest
  | _ => false
  end.

Lemma format_head_cases d : format_head_ok d = true ->
  exists rest, forallb no_ftag rest = true /\
    forall v variable, exists var', run_format (t_format d) v variable [] = run_format rest v var' (tv_marker v).
Proof.
  unfold format_head_ok. destruct (t_format d) as [|s1 r1]; [discriminate|].
  destruct s1; try discriminate.
  - intros H. exists r1. split; [exact H|]. intros v variable. exists variable. reflexivity.
  - destruct r1 as [|s2 r2]; [discriminate|]. destruct s2; try discriminate.
    intros H. exists r2. split; [exact H|]. intros v variable. exists false. reflexivity.
Qed.
Definition ob_format_heads : bool :=
  forallb (fun d => format_head_ok d && is_marker_at (t_marker d) && (length (t_marker d) =? 6)) tags.

Lemma digit_plain d : is_digit d = true -> plainb d = true.
Proof. destruct d; intros H; try discriminate H; reflexivity. Qed.

Lemma marker_tail_plain mk : is_marker_at mk = true -> length mk = 6 -> plain (skipn 1 mk) = true /\ no_break mk = true.
Proof.
  destruct mk as [|a [|d1 [|d2 [|d3 [|d4 [|z [|y r]]]]]]]; cbn [length]; intros H Hl; try discriminate H; try lia.
  cbn [is_marker_at] in H.
  apply andb_true_iff in H as [H Hz]. apply andb_true_iff in H as [H H4]. apply andb_true_iff in H as [H H3].
  apply andb_true_iff in H as [H H2]. apply andb_true_iff in H as [Ha H1].
  apply beqb_eq in Ha. apply beqb_eq in Hz. subst a z.
  pose proof (digit_plain d1 H1) as P1. pose proof (digit_plain d2 H2) as P2.
  pose proof (digit_plain d3 H3) as P3. pose proof (digit_plain d4 H4) as P4.
  split.
  - cbn [skipn plain forallb]. rewrite P1, P2, P3, P4. reflexivity.
  - unfold plainb in *. cbn [no_break forallb].
    apply andb_true_iff in P1 as [P1 Q1]. apply andb_true_iff in P1 as [_ R1].
    apply andb_true_iff in P2 as [P2 Q2]. apply andb_true_iff in P2 as [_ R2].
    apply andb_true_iff in P3 as [P3 Q3]. apply andb_true_iff in P3 as [_ R3].
    apply andb_true_iff in P4 as [P4 Q4]. apply andb_true_iff in P4 as [_ R4].
    rewrite R1, Q1, R2, Q2, R3, Q3, R4, Q4. reflexivity.
Qed.

Theorem formatted_line_is_a_segment d v variable line :
  format_head_ok d = true -> is_marker_at (t_marker d) = true -> length (t_marker d) = 6 ->
  tv_marker v = t_marker d -> values_plain v = true ->
  format_tag d variable v = Some line -> seg_ok line = true.
Proof.
  intros Hh Hm Hl Hmk Hv Hf. unfold format_tag in Hf.
  destruct (format_head_cases d Hh) as (rest & Hrest & Hrun).
  destruct (Hrun v (variable && t_format_takes_options d)) as [var' Hr]. rewrite Hr in Hf.
  assert (Hs : shaped (t_marker d) (tv_marker v)) by (exists []; rewrite Hmk, app_nil_r; auto).
  destruct (run_format_shaped rest Hrest v _ _ line (t_marker d) Hv Hl Hs Hf) as (R & -> & HR).
  destruct (marker_tail_plain (t_marker d) Hm Hl) as [Hp Hb].
  unfold seg_ok. rewrite (is_marker_at_app _ R Hm). cbn [andb].
  assert (Hplain_nb : forall s, plain s = true -> no_brace s = true /\ no_break s = true).
  { induction s as [|b t IH]; intros H; [split; reflexivity|]. cbn [plain forallb] in H. apply andb_true_iff in H as [Hb0 Ht].
    destruct (IH Ht) as [A B]. unfold plainb in Hb0. apply andb_true_iff in Hb0 as [Hb0 H3]. apply andb_true_iff in Hb0 as [H1 H2].
    split; cbn [no_brace no_break forallb]; [rewrite H1; exact A|rewrite H2, H3; exact B]. }
  destruct (Hplain_nb R HR) as [RA RB].
  apply andb_true_iff. split.
  - destruct (t_marker d) as [|a mt] eqn:Em; [discriminate Hl|]. cbn [app skipn] in *.
    unfold no_brace. rewrite forallb_app. fold (no_brace mt). fold (no_brace R).
    destruct (Hplain_nb mt Hp) as [MA _]. rewrite MA, RA. reflexivity.
  - unfold no_break. rewrite forallb_app. fold (no_break (t_marker d)). fold (no_break R). rewrite Hb, RB. reflexivity.
Qed.
