(* C07, fixed layout: every element occupies exactly its width, so the segment of a tag has one
   length - 6 + the sum of the widths + one delimiter per delimited element - whatever the (canonical)
   values. Generic over regular layouts. *)
From Wire Require Import Base.Bytes Model.Converters Model.Validators Model.GoV Model.Codec Model.Layout.
From Wire Require Import Theory.BytesFacts Theory.ConvFacts Theory.CodecFacts Theory.CodecTags Theory.TagSpecial.
From WireGen Require Import Tags.

Definition fixed_len (L : layout) : nat :=
  6 + prefix_width (l_prefix L) + fixed_width (l_fixed L) + fold_right (fun s acc => vs_w s + 1 + acc) 0 (l_var L).

Lemma prefix_text_length v l :
  (forall s, In s l -> 1 <= ps_w s /\ small (ps_w s)) -> (forall s, In s l -> pslot_ok s (elem_val v (ps_e s)) = true) ->
  length (prefix_text v l) = prefix_width l.
Proof.
  induction l as [|s r IH]; intros Hw Hok; [reflexivity|].
  cbn [prefix_text flat_map prefix_width fold_right]. rewrite app_length. fold (prefix_text v r).
  destruct (Hw s (or_introl eq_refl)) as [H1 H2].
  destruct (pimg_facts s _ H1 H2 (Hok s (or_introl eq_refl))) as (Hl & _).
  rewrite Hl, IH; [reflexivity| |]; intros s' Hs'; [apply Hw|apply Hok]; right; exact Hs'.
Qed.

Lemma fixed_text_length v l :
  (forall s, In s l -> small (fs_w s)) -> (forall s, In s l -> clean (fs_w s) (elem_val v (fs_e s)) = true) ->
  length (fixed_text v l) = fixed_width l.
Proof.
  induction l as [|s r IH]; intros Hw Hok; [reflexivity|].
  cbn [fixed_text flat_map fixed_width fold_right]. rewrite app_length. fold (fixed_text v r).
  destruct (clean_parts _ _ (Hok s (or_introl eq_refl))) as (Hl & _).
  unfold alpha_field. rewrite (format_alpha_fixed _ _ Hl (Hw s (or_introl eq_refl))), (pad_length _ _ Hl).
  rewrite IH; [reflexivity| |]; intros s' Hs'; [apply Hw|apply Hok]; right; exact Hs'.
Qed.

Lemma var_text_length v l :
  (forall s, In s l -> 1 <= vs_w s /\ small (vs_w s)) -> (forall s, In s l -> clean (vs_w s) (elem_val v (vs_e s)) = true) ->
  length (var_text false v l) = fold_right (fun s acc => vs_w s + 1 + acc) 0 l.
Proof.
  induction l as [|s r IH]; intros Hw Hok; [reflexivity|].
  cbn [var_text flat_map fold_right]. rewrite !app_length. fold (var_text false v r). cbn [length].
  destruct (Hw s (or_introl eq_refl)) as [H1 H2].
  destruct (clean_parts _ _ (Hok s (or_introl eq_refl))) as (Hl & Ho & _).
  assert (Hv : length (vout false s (elem_val v (vs_e s))) = vs_w s).
  { unfold vout. rewrite (format_alpha_fixed _ _ Hl H2).
    assert (Hne : bytes_eqb (pad (vs_w s) (elem_val v (vs_e s))) [delim] = false).
    { destruct (bytes_eqb (pad (vs_w s) (elem_val v (vs_e s))) [delim]) eqn:E; [|reflexivity]. apply bytes_eqb_eq in E.
      assert (Hd : lacks_byte delim (pad (vs_w s) (elem_val v (vs_e s))) = true).
      { unfold pad. rewrite lacks_app, (okchars_lack_delim _ Ho), (lacks_repeat delim space _ eq_refl). reflexivity. }
      rewrite E in Hd. cbn in Hd. discriminate Hd. }
    rewrite Hne, andb_false_r. apply pad_length. exact Hl. }
  rewrite Hv, IH; [lia| |]; intros s' Hs'; [apply Hw|apply Hok]; right; exact Hs'.
Qed.

Theorem fixed_layout_length_is_constant d v :
  layout_ok d = true -> canonical_tag d v = true ->
  length (format_text (recover d) false v) = fixed_len (recover d).
Proof.
  intros Hok Hc. unfold layout_ok in Hok.
  apply andb_true_iff in Hok as [Hok Hmk]. apply andb_true_iff in Hok as [Hok _]. apply andb_true_iff in Hok as [Hok Hv].
  apply andb_true_iff in Hok as [Hok Hf]. apply andb_true_iff in Hok as [Hok Hp]. clear Hok.
  unfold canonical_tag in Hc. apply andb_true_iff in Hc as [Hc Hm]. apply bytes_eqb_eq in Hm.
  unfold canonical in Hc. apply andb_true_iff in Hc as [Hc _]. apply andb_true_iff in Hc as [Hc Hcv].
  apply andb_true_iff in Hc as [Hc Hcf]. apply andb_true_iff in Hc as [_ Hcp].
  rewrite forallb_forall in Hp, Hf, Hv, Hcp, Hcf, Hcv.
  unfold format_text. rewrite andb_false_r. unfold body_text. rewrite !app_length.
  rewrite (prefix_text_length v (l_prefix (recover d))), (fixed_text_length v (l_fixed (recover d))), (var_text_length v (l_var (recover d))).
  - unfold marker_ok in Hmk. apply andb_true_iff in Hmk as [Hmk _]. apply andb_true_iff in Hmk as [Hmk _].
    apply andb_true_iff in Hmk as [Hml _]. apply Nat.eqb_eq in Hml. rewrite Hm, Hml. unfold fixed_len. lia.
  - intros s Hs. specialize (Hv s Hs). apply andb_true_iff in Hv as [A B]. apply Nat.leb_le in A. apply N.ltb_lt in B. split; [exact A|exact B].
  - exact Hcv.
  - intros s Hs. specialize (Hf s Hs). apply andb_true_iff in Hf as [_ B]. apply N.ltb_lt in B. exact B.
  - exact Hcf.
  - intros s Hs. specialize (Hp s Hs). apply andb_true_iff in Hp as [A B]. apply Nat.leb_le in A. apply N.ltb_lt in B. split; [exact A|exact B].
  - exact Hcp.
Qed.

Theorem fixed_layout_segment_length d v : layout_ok d = true -> canonical_tag d v = true ->
  exists line, format_tag d false v = Some line /\ length line = fixed_len (recover d).
Proof.
  intros Hok Hc. exists (format_text (recover d) false v). split; [|apply fixed_layout_length_is_constant; assumption].
  pose proof Hok as Hok'. unfold layout_ok in Hok'. do 6 (apply andb_true_iff in Hok' as [Hok' _]).
  unfold regular in Hok'. apply andb_true_iff in Hok' as [_ Hf].
  destruct (list_eq_dec fstep_eq_dec (t_format d) (canon_format (recover d))) as [E|]; [|discriminate Hf].
  unfold format_tag. rewrite E. cbn [andb]. apply run_format_canon.
Qed.
