(* C09, separators (and the backbone of write-then-read): a text made of well-formed segments - each
   starts with a marker and holds no other '{', no line break - joined by any of the separators none /
   LF / CRLF is cut by the scanner and the re-split into exactly those segments. So the result of a
   read depends on the segments only, not on the separator and not on the chunking. *)
From Wire Require Import Base.Bytes Model.Converters Model.Validators Model.GoV Model.Codec Model.Message Model.Reader.
From Wire Require Import Theory.BytesFacts Theory.ReaderFacts Theory.ReaderTotal Theory.ScanSpec.

Definition no_brace (s : bytes) : bool := forallb (fun b => negb (beqb b x7b)) s.
Definition no_break (s : bytes) : bool := forallb (fun b => negb (beqb b x0a) && negb (beqb b x0d)) s.

(* a segment as the writer emits it *)
Definition seg_ok (l : bytes) : bool := is_marker_at l && no_brace (skipn 1 l) && no_break l.

Definition sep_ok (sep : bytes) : Prop := sep = [] \/ sep = [x0a] \/ sep = [x0d; x0a].

Definition text_of (sep : bytes) (lines : list bytes) : bytes := concat (map (fun l => l ++ sep) lines).

Lemma is_marker_at_head s : is_marker_at s = true -> exists t, s = x7b :: t.
Proof.
  destruct s as [|a t]; cbn; [discriminate|]. intros H.
  destruct t as [|d1 [|d2 [|d3 [|d4 [|z r]]]]]; try discriminate H.
  repeat (apply andb_true_iff in H as [H ?]). apply beqb_eq in H. subst. eauto.
Qed.

Lemma markers_from_no_brace x : forall rest pos, no_brace x = true ->
  (forall t, rest <> x7b :: t -> True) ->
  markers_from (x ++ rest) pos = markers_from rest (pos + length x).
Proof.
  induction x as [|b t IH]; intros rest pos Hx _; cbn [app length]; [rewrite Nat.add_0_r; reflexivity|].
  cbn [no_brace forallb] in Hx. apply andb_true_iff in Hx as [Hb Ht].
  cbn [markers_from].
  assert (Hm : is_marker_at (b :: t ++ rest) = false).
  { destruct (is_marker_at (b :: t ++ rest)) eqn:E; [|reflexivity]. apply is_marker_at_head in E as [t' E]. injection E as -> _.
    rewrite beqb_refl in Hb. discriminate Hb. }
  rewrite Hm. cbn [app]. rewrite (IH rest (S pos) Ht (fun _ _ => I)). f_equal. lia.
Qed.

Lemma sep_no_brace sep : sep_ok sep -> no_brace sep = true.
Proof. intros [-> | [-> | ->]]; reflexivity. Qed.

Fixpoint offsets (sep : bytes) (pos : nat) (lines : list bytes) : list nat :=
  match lines with
  | [] => []
  | l :: r => pos :: offsets sep (pos + length l + length sep) r
  end.

Lemma no_brace_app a b : no_brace (a ++ b) = no_brace a && no_brace b.
Proof. apply forallb_app. Qed.

(* the markers of the text are exactly the starts of its segments *)
Lemma markers_text sep lines : sep_ok sep -> forallb seg_ok lines = true ->
  forall pos, markers_from (text_of sep lines) pos = offsets sep pos lines.
Proof.
  intros Hsep. induction lines as [|l r IH]; intros Hl pos; [reflexivity|].
  cbn [forallb] in Hl. apply andb_true_iff in Hl as [Hl Hr].
  unfold seg_ok in Hl. apply andb_true_iff in Hl as [Hl Hbk]. apply andb_true_iff in Hl as [Hm Hnb].
  unfold text_of. cbn [map concat offsets]. fold (text_of sep r). rewrite <- app_assoc.
  destruct (is_marker_at_head l Hm) as [t ->]. cbn [skipn] in Hnb.
  pose proof (is_marker_at_app (x7b :: t) (sep ++ text_of sep r) Hm) as Hm'.
  cbn [app] in Hm'. cbn [app markers_from]. rewrite Hm'. cbn [app].
  f_equal.
  rewrite (markers_from_no_brace t (sep ++ text_of sep r) (S pos) Hnb (fun _ _ => I)).
  rewrite (markers_from_no_brace sep (text_of sep r) (S pos + length t) (sep_no_brace sep Hsep) (fun _ _ => I)).
  rewrite IH by exact Hr. f_equal. cbn [length]. lia.
Qed.

Lemma text_of_length sep lines : length (text_of sep lines) = fold_right (fun l n => length l + length sep + n) 0 lines.
Proof. induction lines as [|l r IH]; cbn; [reflexivity|]. unfold text_of in *. cbn [map concat]. rewrite !app_length, IH. lia. Qed.

Lemma seg_ok_nonempty l : seg_ok l = true -> 6 <= length l.
Proof.
  unfold seg_ok. intros H. apply andb_true_iff in H as [H _]. apply andb_true_iff in H as [H _].
  destruct (Nat.le_gt_cases 6 (length l)); [assumption|]. rewrite is_marker_at_short in H by assumption. discriminate.
Qed.

(* the split function on such a text at end of input: the first segment with its separator *)
Lemma split_text sep l r : sep_ok sep -> forallb seg_ok (l :: r) = true ->
  split_fn (text_of sep (l :: r)) true = (length l + length sep, Some (l ++ sep)).
Proof.
  intros Hsep Hok.
  pose proof (markers_text sep (l :: r) Hsep Hok 0) as Hm. fold (markers (text_of sep (l :: r))) in Hm. cbn [offsets] in Hm.
  cbn [forallb] in Hok. apply andb_true_iff in Hok as [Hl Hr]. pose proof (seg_ok_nonempty l Hl) as Hlen.
  assert (Hne : exists b t, text_of sep (l :: r) = b :: t).
  { unfold text_of. cbn [map concat]. destruct l as [|b t]; [cbn in Hlen; lia|]. exists b. eexists. reflexivity. }
  destruct Hne as (b & t & Ht). rewrite Ht in *. rewrite split_fn_cons, Hm. rewrite <- Ht.
  destruct r as [|l2 r2].
  - cbn [offsets]. cbn [Nat.ltb Nat.leb]. unfold text_of. cbn [map concat]. rewrite app_nil_r, app_length. reflexivity.
  - cbn [offsets]. cbn [Nat.ltb Nat.leb]. replace (0 + length l + length sep) with (length l + length sep) by lia.
    f_equal. f_equal.
    unfold text_of. cbn [map concat].
    replace (length l + length sep) with (length (l ++ sep)) by (rewrite app_length; lia).
    rewrite firstn_app, Nat.sub_diag, firstn_all. cbn [firstn]. apply app_nil_r.
Qed.

(* the reference tokenizer on such a text: one token per segment *)
Lemma tokens_ref_text sep final : sep_ok sep -> forall lines fuel acc,
  forallb seg_ok lines = true -> length (text_of sep lines) < max_token -> length lines < fuel ->
  tokens_ref fuel (text_of sep lines) final acc = (rev acc ++ map (fun l => l ++ sep) lines, final_err final).
Proof.
  intros Hsep. induction lines as [|l r IH]; intros fuel acc Hok Hlen Hf.
  - destruct fuel; [cbn in Hf; lia|]. cbn. rewrite app_nil_r. reflexivity.
  - destruct fuel as [|f]; [cbn in Hf; lia|]. cbn [tokens_ref].
    assert (Hnext : next_ref (text_of sep (l :: r)) final = RTok (l ++ sep) (text_of sep r)).
    { unfold next_ref. pose proof (split_text sep l r Hsep Hok) as Hs.
      destruct (text_of sep (l :: r)) as [|b t] eqn:Et.
      { exfalso. cbn [forallb] in Hok. apply andb_true_iff in Hok as [Hl _]. apply seg_ok_nonempty in Hl.
        unfold text_of in Et. cbn [map concat] in Et. destruct l; [cbn in Hl; lia|discriminate Et]. }
      rewrite <- Et in *. apply Nat.ltb_lt in Hlen. rewrite Hlen, Hs. f_equal.
      unfold text_of. cbn [map concat].
      replace (length l + length sep) with (length (l ++ sep)) by (rewrite app_length; lia).
      rewrite skipn_app, Nat.sub_diag, skipn_all. reflexivity. }
    rewrite Hnext. cbn [forallb] in Hok. apply andb_true_iff in Hok as [_ Hr].
    rewrite IH; [|exact Hr| |cbn [length] in Hf; lia].
    + cbn [rev map]. rewrite <- app_assoc. reflexivity.
    + rewrite text_of_length in *. cbn [fold_right] in Hlen. lia.
Qed.

(* ---- the re-split of one token ---- *)
Lemma drop_crlf_cons b t : b <> x0d -> drop_crlf (b :: t) = b :: drop_crlf t.
Proof. intros H. destruct b; try reflexivity. contradiction. Qed.

Lemma drop_crlf_clean l rest : no_break l = true -> drop_crlf (l ++ rest) = l ++ drop_crlf rest.
Proof.
  induction l as [|b t IH]; intros H; [reflexivity|].
  cbn [no_break forallb] in H. apply andb_true_iff in H as [Hb Ht]. apply andb_true_iff in Hb as [_ Hd].
  cbn [app]. rewrite drop_crlf_cons; [rewrite (IH Ht); reflexivity|].
  intros ->. rewrite beqb_refl in Hd. discriminate Hd.
Qed.

Lemma drop_lf_clean l : no_break l = true -> drop_lf l = l.
Proof.
  unfold drop_lf. induction l as [|b t IH]; intros H; [reflexivity|].
  cbn [no_break forallb] in H. apply andb_true_iff in H as [Hb Ht]. apply andb_true_iff in Hb as [Ha _].
  cbn [filter]. rewrite Ha. rewrite (IH Ht). reflexivity.
Qed.

Lemma strip_token l sep : sep_ok sep -> no_break l = true -> drop_lf (drop_crlf (l ++ sep)) = l.
Proof.
  intros Hsep Hl. rewrite (drop_crlf_clean l sep Hl).
  assert (Hs : drop_lf (l ++ drop_crlf sep) = l).
  { unfold drop_lf. rewrite filter_app. fold (drop_lf l). rewrite (drop_lf_clean l Hl).
    destruct Hsep as [-> | [-> | ->]]; cbn; apply app_nil_r. }
  exact Hs.
Qed.

Lemma sublines_token l sep : sep_ok sep -> seg_ok l = true -> sublines (l ++ sep) = [l].
Proof.
  intros Hsep Hl. unfold sublines. unfold seg_ok in Hl. apply andb_true_iff in Hl as [Hl Hbk]. apply andb_true_iff in Hl as [Hm Hnb].
  rewrite (strip_token l sep Hsep Hbk).
  assert (Hmk : markers l = [0]).
  { destruct (is_marker_at_head l Hm) as [t ->]. cbn [skipn] in Hnb. unfold markers. cbn [markers_from]. rewrite Hm. cbn [app].
    f_equal. pose proof (markers_from_no_brace t [] 1 Hnb (fun _ _ => I)) as P. rewrite app_nil_r in P. rewrite P. reflexivity. }
  rewrite Hmk. reflexivity.
Qed.

Lemma flat_map_sublines sep lines : sep_ok sep -> forallb seg_ok lines = true ->
  flat_map sublines (map (fun l => l ++ sep) lines) = lines.
Proof.
  intros Hsep. induction lines as [|l r IH]; intros H; [reflexivity|].
  cbn [forallb] in H. apply andb_true_iff in H as [Hl Hr].
  cbn [map flat_map]. rewrite (sublines_token l sep Hsep Hl), (IH Hr). reflexivity.
Qed.

(* ---- the scanner on any chunking of such a text ---- *)
Theorem scan_segments sep lines chunks final :
  sep_ok sep -> forallb seg_ok lines = true -> length (text_of sep lines) < max_token ->
  concat chunks = text_of sep lines ->
  scan chunks final = (map (fun l => l ++ sep) lines, final_err final).
Proof.
  intros Hsep Hok Hlen Hc. rewrite scan_is_reference, Hc.
  rewrite (tokens_ref_text sep final Hsep lines _ [] Hok Hlen).
  - reflexivity.
  - pose proof (text_of_length sep lines) as Hl.
    assert (G : length lines <= length (text_of sep lines)).
    { clear Hlen Hc Hl. induction lines as [|l r IH]; [cbn; lia|]. cbn [forallb] in Hok. apply andb_true_iff in Hok as [Hl Hr].
      apply seg_ok_nonempty in Hl. specialize (IH Hr). rewrite text_of_length in *. cbn [fold_right length]. lia. }
    lia.
Qed.

(* what a read of such a text computes: a function of the segments alone *)
Definition read_segments (preset opts : option (bool * bool)) (lines : list bytes) (final : fstatus) : rresult :=
  let '(tgs, errs) := read_lines lines 0 empty_tags [] in
  let errs := match final_err final with Some e => errs ++ [RScanner e] | None => errs end in
  match errs with
  | [] =>
      let o := match opts with Some _ => opts | None => preset end in
      let m := {| m_tags := tgs; m_opts := o |} in
      match verify m with
      | Accept => ROk m
      | Reject f e => RErrors [RFileValidation f e]
      | Panic => RErrors [RPanic]
      | Stuck => RErrors [RStuck]
      end
  | _ => RErrors errs
  end.

Theorem read_of_segments preset opts sep lines chunks final :
  sep_ok sep -> forallb seg_ok lines = true -> length (text_of sep lines) < max_token ->
  concat chunks = text_of sep lines ->
  read_model preset opts chunks final = read_segments preset opts lines final.
Proof.
  intros Hsep Hok Hlen Hc. unfold read_model, read_segments.
  rewrite (scan_segments sep lines chunks final Hsep Hok Hlen Hc).
  rewrite (flat_map_sublines sep lines Hsep Hok). reflexivity.
Qed.

(* C09: the separator between the segments - none, LF or CRLF - and the chunking are irrelevant *)
Theorem separator_irrelevant preset opts lines sep1 sep2 chunks1 chunks2 final :
  sep_ok sep1 -> sep_ok sep2 -> forallb seg_ok lines = true ->
  length (text_of sep1 lines) < max_token -> length (text_of sep2 lines) < max_token ->
  concat chunks1 = text_of sep1 lines -> concat chunks2 = text_of sep2 lines ->
  read_model preset opts chunks1 final = read_model preset opts chunks2 final.
Proof.
  intros H1 H2 Hok L1 L2 C1 C2.
  rewrite (read_of_segments preset opts sep1 lines chunks1 final H1 Hok L1 C1).
  rewrite (read_of_segments preset opts sep2 lines chunks2 final H2 Hok L2 C2). reflexivity.
Qed.
