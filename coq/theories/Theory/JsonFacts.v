(* C14: decoding the JSON encoding of a message restores it - every tag's presence and every
   element - provided the regenerated names are usable (distinct within a tag, no element name that
   is also a nested-struct member, distinct tag names): per-run obligations on WireGen.Tags. *)
From Wire Require Import Base.Bytes Model.GoV Model.Codec Model.Message Model.Json.
From WireGen Require Import Tags.

Lemma path_eqb_eq a : forall b, path_eqb a b = true <-> a = b.
Proof.
  induction a as [|x a IH]; intros [|y b]; cbn [path_eqb]; split; intros H; try reflexivity; try discriminate.
  - apply andb_true_iff in H as [H1 H2]. apply String.eqb_eq in H1. apply IH in H2. congruence.
  - injection H as -> ->. rewrite String.eqb_refl. apply IH. reflexivity.
Qed.

Lemma path_eqb_refl a : path_eqb a a = true.
Proof. apply path_eqb_eq. reflexivity. Qed.

Lemma mem_path_In p l : mem_path p l = true <-> In p l.
Proof.
  unfold mem_path. rewrite existsb_exists. split.
  - intros (q & Hq & E). apply path_eqb_eq in E. subst. exact Hq.
  - intros H. exists p. split; [exact H|apply path_eqb_refl].
Qed.

Lemma jget_app a b p : jget (a ++ b) p = match jget a p with Some l => Some l | None => jget b p end.
Proof. induction a as [|[q l] r IH]; cbn [app jget]; [reflexivity|]. destruct (path_eqb q p); [reflexivity|exact IH]. Qed.

(* ---- the leaves of one tag ---- *)
Definition gleaf (n : string) (ex : elem * bytes) : jdoc :=
  let '(e, x) := ex in if leaf_omitted e && is_empty x then [] else [(n :: e_json e, LStr x)].

Lemma tag_leaves_eq n d v : tag_leaves n d v = flat_map (gleaf n) (combine (t_elems d) (tv_elems v)).
Proof. reflexivity. Qed.

Lemma jget_leaves_absent n p es : forall xs, ~ In p (map e_json es) -> jget (flat_map (gleaf n) (combine es xs)) (n :: p) = None.
Proof.
  induction es as [|e es IH]; intros xs Hn; [reflexivity|]. destruct xs as [|x xs]; [reflexivity|].
  cbn [combine flat_map]. rewrite jget_app. cbn [map In] in Hn.
  assert (He : e_json e <> p) by tauto. assert (Hr : ~ In p (map e_json es)) by tauto.
  unfold gleaf at 1. destruct (leaf_omitted e && is_empty x); cbn [jget]; [apply IH; exact Hr|].
  destruct (path_eqb (n :: e_json e) (n :: p)) eqn:E; [|apply IH; exact Hr].
  apply path_eqb_eq in E. injection E as E. contradiction.
Qed.

Definition dflt_elem : elem := {| e_path := ""; e_json := []; e_omitempty := [] |}.

Lemma jget_leaves n es : forall xs k, length xs = length es -> NoDup (map e_json es) -> k < length es ->
  jget (flat_map (gleaf n) (combine es xs)) (n :: e_json (nth k es dflt_elem)) =
  if leaf_omitted (nth k es dflt_elem) && is_empty (nth k xs []) then None else Some (LStr (nth k xs [])).
Proof.
  induction es as [|e es IH]; intros xs k Hl Hnd Hk; [cbn in Hk; lia|].
  destruct xs as [|x xs]; [discriminate Hl|]. cbn [length] in Hl, Hk. injection Hl as Hl.
  cbn [map] in Hnd. inversion Hnd as [|? ? Hnin Hnd']; subst.
  cbn [combine flat_map]. rewrite jget_app. destruct k as [|k]; cbn [nth].
  - unfold gleaf at 1. destruct (leaf_omitted e && is_empty x); cbn [jget].
    + apply jget_leaves_absent. exact Hnin.
    + rewrite path_eqb_refl. reflexivity.
  - assert (Hne : e_json e <> e_json (nth k es dflt_elem)).
    { intros E. apply Hnin. rewrite E. apply in_map. apply nth_In. lia. }
    unfold gleaf at 1. destruct (leaf_omitted e && is_empty x); cbn [jget]; [apply IH; [exact Hl|exact Hnd'|lia]|].
    destruct (path_eqb (n :: e_json e) (n :: e_json (nth k es dflt_elem))) eqn:E.
    + apply path_eqb_eq in E. injection E as E. contradiction.
    + apply IH; [exact Hl|exact Hnd'|lia].
Qed.

(* member-less objects: never a string *)
Lemma jget_objs n qs p : match jget (map (fun q => (n :: q, LObj)) qs) p with Some (LStr _) => False | _ => True end.
Proof. induction qs as [|q r IH]; cbn [map jget]; [exact I|]. destruct (path_eqb (n :: q) p); [exact I|exact IH]. Qed.

Fixpoint nodup_paths (l : list path) : bool :=
  match l with [] => true | p :: r => negb (mem_path p r) && nodup_paths r end.

Lemma nodup_paths_NoDup l : nodup_paths l = true -> NoDup l.
Proof.
  induction l as [|p r IH]; cbn [nodup_paths]; intros H; [constructor|].
  apply andb_true_iff in H as [H1 H2]. constructor; [|apply IH; exact H2].
  intros Hin. apply mem_path_In in Hin. rewrite Hin in H1. discriminate.
Qed.

Definition is_nil {A} (l : list A) : bool := match l with [] => true | _ => false end.

Definition tag_names_ok (d : tagdesc) : bool :=
  nodup_paths (map e_json (t_elems d)) && negb (is_nil (innermost d)).

Definition elems_wf (d : tagdesc) (v : tagval) : Prop := length (tv_elems v) = length (t_elems d).

(* the entries of one encoded tag all start with the tag's name, none is null, and there is at least one *)
Lemma encode_tag_heads n d v en : In en (encode_tag n d v) -> head_is n (fst en) = true /\ is_null_at n en = false.
Proof.
  unfold encode_tag. intros H. apply in_app_or in H. destruct H as [H|H].
  - rewrite tag_leaves_eq in H. apply in_flat_map in H. destruct H as ([e x] & _ & H). unfold gleaf in H.
    destruct (leaf_omitted e && is_empty x); [contradiction|]. destruct H as [<-|[]]. split; [cbn; apply String.eqb_refl|cbn; destruct (e_json e); reflexivity].
  - apply in_map_iff in H. destruct H as (q & <- & _). split; [cbn; apply String.eqb_refl|cbn; destruct q; reflexivity].
Qed.

Lemma filter_all {A} (f : A -> bool) l : (forall x, In x l -> f x = true) -> filter f l = l.
Proof.
  induction l as [|x t IH]; intros H; cbn [filter]; [reflexivity|].
  rewrite (H x (or_introl eq_refl)), IH; [reflexivity|]. intros y Hy. apply H. right. exact Hy.
Qed.

Lemma encode_tag_nonempty n d v : tag_names_ok d = true -> encode_tag n d v <> [].
Proof.
  intros Hok. apply andb_true_iff in Hok as [_ Hin]. unfold encode_tag.
  destruct (tag_leaves n d v) as [|lf r] eqn:El; [|discriminate].
  cbn [app]. rewrite filter_all by (intros x _; reflexivity).
  destruct (innermost d); [discriminate Hin|discriminate].
Qed.

Lemma sub_all j n : (forall en, In en j -> head_is n (fst en) = true) -> sub j n = j.
Proof.
  unfold sub. induction j as [|en r IH]; intros H; cbn [filter]; [reflexivity|].
  rewrite (H en (or_introl eq_refl)). rewrite IH; [reflexivity|]. intros e He. apply H. right. exact He.
Qed.

Lemma sub_none j n : (forall en, In en j -> head_is n (fst en) = false) -> sub j n = [].
Proof.
  unfold sub. induction j as [|en r IH]; intros H; cbn [filter]; [reflexivity|].
  rewrite (H en (or_introl eq_refl)). apply IH. intros e He. apply H. right. exact He.
Qed.

Lemma sub_app a b n : sub (a ++ b) n = sub a n ++ sub b n.
Proof. unfold sub. apply filter_app. Qed.

Lemma nth_map_lt {A B} (f : A -> B) l : forall k d1 d2, k < length l -> nth k (map f l) d1 = f (nth k l d2).
Proof. induction l as [|x t IH]; intros [|k] d1 d2 H; cbn in *; try lia; [reflexivity|apply IH; lia]. Qed.

(* decoding one encoded tag, wherever it sits in the document *)
Theorem decode_encode_tag n d v pre post :
  tag_names_ok d = true -> elems_wf d v ->
  (forall en, In en pre -> head_is n (fst en) = false) -> (forall en, In en post -> head_is n (fst en) = false) ->
  decode_tag n d (pre ++ encode_tag n d v ++ post) = Some {| tv_marker := t_marker d; tv_elems := tv_elems v |}.
Proof.
  intros Hok Hwf Hpre Hpost. unfold decode_tag.
  rewrite !sub_app, (sub_none pre n Hpre), (sub_none post n Hpost), app_nil_r. cbn [app].
  rewrite (sub_all (encode_tag n d v) n); [|intros en He; apply (encode_tag_heads n d v en He)].
  assert (Hex : existsb (fun en => negb (is_null_at n en)) (encode_tag n d v) = true).
  { pose proof (encode_tag_nonempty n d v Hok) as Hne. destruct (encode_tag n d v) as [|en r] eqn:E; [contradiction|].
    cbn [existsb]. assert (Hin : In en (encode_tag n d v)) by (rewrite E; left; reflexivity).
    destruct (encode_tag_heads n d v en Hin) as [_ Hnl]. rewrite Hnl. reflexivity. }
  rewrite Hex. f_equal. f_equal.
  apply andb_true_iff in Hok as [Hnd _]. apply nodup_paths_NoDup in Hnd.
  unfold elems_wf in Hwf.
  apply nth_ext with (d := []) (d' := []); [rewrite map_length; symmetry; exact Hwf|].
  intros k Hk. rewrite map_length in Hk.
  etransitivity; [apply (nth_map_lt _ (t_elems d) k _ dflt_elem Hk)|]. unfold encode_tag. rewrite jget_app, tag_leaves_eq, (jget_leaves n (t_elems d) (tv_elems v) k Hwf Hnd Hk).
  destruct (leaf_omitted (nth k (t_elems d) dflt_elem) && is_empty (nth k (tv_elems v) [])) eqn:Eo; [|reflexivity].
  apply andb_true_iff in Eo as [_ Ee]. destruct (nth k (tv_elems v) []) as [|b t]; [|discriminate Ee].
  match goal with |- context [jget (map ?f ?qs) ?p] => pose proof (jget_objs n qs p) as Ho; destruct (jget (map f qs) p) as [[x| |]|]; try reflexivity; contradiction end.
Qed.

(* ---- the whole message ---- *)
Definition fname (f : string * string * bool) : string := snd (fst f).

Lemma encode_field_heads f d o en : In en (encode_field f d o) -> head_is (fname f) (fst en) = true.
Proof.
  destruct f as [[g n] om]. cbn [encode_field fname fst snd]. destruct o as [v|].
  - intros H. apply (encode_tag_heads n d v en H).
  - destruct om; [intros []|]. intros [<-|[]]. cbn. apply String.eqb_refl.
Qed.

Lemma encode_fields_heads fs : forall ds os en, In en (encode_fields fs ds os) -> exists f, In f fs /\ head_is (fname f) (fst en) = true.
Proof.
  induction fs as [|f fs IH]; intros ds os en H; [contradiction|].
  destruct ds as [|d ds]; [contradiction|]. destruct os as [|o os]; [contradiction|].
  cbn [encode_fields] in H. apply in_app_or in H. destruct H as [H|H].
  - exists f. split; [left; reflexivity|apply (encode_field_heads f d o en H)].
  - destruct (IH ds os en H) as (g & Hg & Hh). exists g. split; [right; exact Hg|exact Hh].
Qed.

Lemma head_is_two n n' p : head_is n p = true -> head_is n' p = true -> n = n'.
Proof. destruct p as [|x t]; cbn; [discriminate|]. intros A B. apply String.eqb_eq in A, B. congruence. Qed.

Definition normal_tag (d : tagdesc) (o : option tagval) : option tagval :=
  option_map (fun v => {| tv_marker := t_marker d; tv_elems := tv_elems v |}) o.

Fixpoint normal_tags (ds : list tagdesc) (os : list (option tagval)) : list (option tagval) :=
  match ds, os with d :: ds', o :: os' => normal_tag d o :: normal_tags ds' os' | _, _ => [] end.

Fixpoint all_wf (ds : list tagdesc) (os : list (option tagval)) : Prop :=
  match ds, os with
  | d :: ds', o :: os' => (match o with Some v => elems_wf d v | None => True end) /\ all_wf ds' os'
  | _, _ => True
  end.

Lemma decode_encode_fields fs : forall ds os pre,
  length ds = length fs -> length os = length fs ->
  NoDup (map fname fs) -> Forall (fun d => tag_names_ok d = true) ds -> all_wf ds os ->
  (forall en f, In en pre -> In f fs -> head_is (fname f) (fst en) = false) ->
  decode_fields fs ds (pre ++ encode_fields fs ds os) = normal_tags ds os.
Proof.
  induction fs as [|f fs IH]; intros ds os pre Hd Ho Hnd Hok Hwf Hpre.
  - destruct ds; [|discriminate Hd]. reflexivity.
  - destruct ds as [|d ds]; [discriminate Hd|]. destruct os as [|o os]; [discriminate Ho|].
    cbn [length] in Hd, Ho. injection Hd as Hd. injection Ho as Ho.
    cbn [map] in Hnd. inversion Hnd as [|? ? Hnin Hnd']; subst.
    inversion Hok as [|? ? Hokd Hok']; subst. cbn [all_wf] in Hwf. destruct Hwf as [Hwfo Hwf].
    destruct f as [[g n] om]. cbn [fname fst snd] in Hnin. cbn [decode_fields encode_fields normal_tags].
    assert (Hpost : forall en, In en (encode_fields fs ds os) -> head_is n (fst en) = false).
    { intros en He. destruct (encode_fields_heads fs ds os en He) as (f' & Hf' & Hh).
      destruct (head_is n (fst en)) eqn:E; [|reflexivity]. exfalso. apply Hnin.
      rewrite <- (head_is_two _ _ _ Hh E). apply in_map. exact Hf'. }
    assert (Hpre0 : forall en, In en pre -> head_is n (fst en) = false).
    { intros en He. apply (Hpre en (g, n, om) He). left. reflexivity. }
    f_equal.
    + cbn [encode_field]. destruct o as [v|]; cbn [normal_tag option_map].
      * apply decode_encode_tag; assumption.
      * unfold decode_tag. rewrite !sub_app, (sub_none pre n Hpre0), (sub_none _ n Hpost), app_nil_r. cbn [app].
        destruct om; [reflexivity|]. cbn [sub filter fst head_is]. rewrite String.eqb_refl. cbn [existsb is_null_at]. rewrite String.eqb_refl. reflexivity.
    + rewrite app_assoc. apply IH; try assumption.
      intros en f' He Hf'. apply in_app_or in He. destruct He as [He|He].
      * apply (Hpre en f' He). right. exact Hf'.
      * pose proof (encode_field_heads (g, n, om) d o en He) as Hh. cbn [fname fst snd] in Hh.
        destruct (head_is (fname f') (fst en)) eqn:E; [|reflexivity]. exfalso. apply Hnin.
        rewrite (head_is_two _ _ _ Hh E). apply in_map. exact Hf'.
Qed.

(* ---- per-run obligations and the theorem on the regenerated tables ---- *)
Fixpoint nodup_strings (l : list string) : bool :=
  match l with [] => true | x :: r => negb (existsb (String.eqb x) r) && nodup_strings r end.

Lemma nodup_strings_NoDup l : nodup_strings l = true -> NoDup l.
Proof.
  induction l as [|x r IH]; cbn [nodup_strings]; intros H; [constructor|].
  apply andb_true_iff in H as [H1 H2]. constructor; [|apply IH; exact H2].
  intros Hin. assert (E : existsb (String.eqb x) r = true) by (apply existsb_exists; exists x; split; [exact Hin|apply String.eqb_refl]).
  rewrite E in H1. discriminate.
Qed.

Definition ob_json_names : bool :=
  forallb tag_names_ok tags && nodup_strings (map fname msg_fields) && (length msg_fields =? length tags) &&
  forallb (fun d => String.eqb (t_unmarshal_restores d) (t_const d) && t_unmarshal_alias d) tags.

Definition canonical_markers (m : message) : Prop := normal_tags tags (m_tags m) = m_tags m.

Theorem json_round_trip : ob_json_names = true -> forall m,
  wf_msg m -> all_wf tags (m_tags m) ->
  m_tags (decode_msg (encode_msg m) (m_opts m)) = normal_tags tags (m_tags m).
Proof.
  intros Hob m Hw Hwf. unfold ob_json_names in Hob.
  apply andb_true_iff in Hob as [Hob _]. apply andb_true_iff in Hob as [Hob Hlen]. apply andb_true_iff in Hob as [Hok Hnd].
  apply Nat.eqb_eq in Hlen. unfold decode_msg, encode_msg. cbn [m_tags].
  change (encode_fields msg_fields tags (m_tags m)) with ([] ++ encode_fields msg_fields tags (m_tags m)).
  apply decode_encode_fields.
  - symmetry. exact Hlen.
  - unfold wf_msg, ntags in Hw. rewrite Hw. symmetry. exact Hlen.
  - apply nodup_strings_NoDup. exact Hnd.
  - apply Forall_forall. rewrite forallb_forall in Hok. exact Hok.
  - exact Hwf.
  - intros en f [].
Qed.

Corollary json_round_trip_exact : ob_json_names = true -> forall m,
  wf_msg m -> all_wf tags (m_tags m) -> canonical_markers m ->
  decode_msg (encode_msg m) (m_opts m) = m.
Proof.
  intros Hob m Hw Hwf Hc. pose proof (json_round_trip Hob m Hw Hwf) as H. unfold canonical_markers in Hc.
  destruct m as [tg op]. unfold decode_msg in *. cbn [m_tags m_opts] in *. rewrite H, Hc. reflexivity.
Qed.

(* ---- element-wise agreement of the published names ---- *)
Lemma find_assoc {B} (l : list (string * B)) k v : In (k, v) l -> NoDup (map fst l) ->
  find (fun p => String.eqb (fst p) k) l = Some (k, v).
Proof.
  induction l as [|[k' v'] l IH]; intros Hin Hnd; [contradiction|].
  cbn [find fst]. cbn [map fst] in Hnd. inversion Hnd as [|? ? Hni Hnd']; subst.
  destruct Hin as [E|Hin].
  - injection E as -> ->. rewrite String.eqb_refl. reflexivity.
  - destruct (String.eqb k' k) eqn:Ek.
    + apply String.eqb_eq in Ek. subst. exfalso. apply Hni. apply (in_map fst) in Hin. exact Hin.
    + apply IH; assumption.
Qed.

Lemma recorded_at_in except n g : recorded_at except n g = true -> In (n, g) except.
Proof.
  unfold recorded_at. intros H. apply existsb_exists in H as ([a b] & Hin & E). cbn [fst snd] in E.
  apply andb_true_iff in E as [E1 E2]. apply String.eqb_eq in E1, E2. subst. exact Hin.
Qed.

Lemma elementwise_sound except published :
  forallb (elementwise_agree except published) (map fst server_fields) = true ->
  forall tag selems celems gopath js jc,
  In (tag, selems) server_fields -> NoDup (map fst server_fields) ->
  In (tag, celems) published -> NoDup (map fst published) ->
  In (gopath, js) selems -> In (gopath, jc) celems -> NoDup (map fst celems) ->
  ~ In (tag, gopath) except ->
  js = jc.
Proof.
  intros H tag selems celems gopath js jc Hs Hsn Hc Hcn Hjs Hjc Hcen Hex.
  rewrite forallb_forall in H. specialize (H tag (in_map fst _ _ Hs)). cbn [fst] in H.
  unfold elementwise_agree in H.
  rewrite (find_assoc _ _ _ Hs Hsn), (find_assoc _ _ _ Hc Hcn) in H. cbn [option_map snd] in H.
  rewrite forallb_forall in H. specialize (H _ Hjs). cbn [fst snd] in H.
  apply orb_true_iff in H as [H|H]; [exfalso; apply Hex; apply recorded_at_in; exact H|].
  unfold same_field_same_name in H. cbn [fst snd] in H.
  rewrite (find_assoc _ _ _ Hjc Hcen) in H. cbn [snd] in H. apply path_eqb_eq in H. symmetry. exact H.
Qed.

Lemma msg_names_sound except server client : msg_names_agree except server client = true ->
  forall g js jc, In (g, js) server -> In (g, jc) client -> NoDup (map fst client) -> ~ In g except -> js = jc.
Proof.
  intros H g js jc Hs Hc Hn Hex. unfold msg_names_agree in H. rewrite forallb_forall in H. specialize (H _ Hs). cbn [fst snd] in H.
  apply orb_true_iff in H as [H|H].
  - exfalso. apply Hex. apply existsb_exists in H as (x & Hx & E). apply String.eqb_eq in E. subst. exact Hx.
  - rewrite (find_assoc _ _ _ Hc Hn) in H. cbn [snd] in H. apply String.eqb_eq in H. symmetry. exact H.
Qed.
