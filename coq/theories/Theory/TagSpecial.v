(* Round trip Parse(Format v) = v for the two mandatory tags whose layouts are outside the regular
   class: {1500} SenderSupplied (fixed slices, the last element kept untrimmed) and {3600}
   BusinessFunctionCode (an optional element that brings its own delimiter). Proved directly on the
   regenerated step lists, for both layouts and every canonical value. *)
From Wire Require Import Base.Bytes Model.Converters Model.Validators Model.GoV Model.Codec Model.Layout.
From Wire Require Import Theory.BytesFacts Theory.ConvFacts Theory.CodecFacts.
From WireGen Require Import Tags.

Definition ascii_str (s : bytes) : bool := forallb is_ascii s.

Lemma okchars_ascii x : forallb okchar x = true -> ascii_str x = true.
Proof.
  unfold ascii_str. intros H. rewrite forallb_forall in *. intros b Hb. apply okchar_ascii. apply H. exact Hb.
Qed.

Lemma ascii_app a b : ascii_str (a ++ b) = ascii_str a && ascii_str b.
Proof. apply forallb_app. Qed.

Lemma ascii_repeat_space k : ascii_str (repeat space k) = true.
Proof. induction k as [|k IH]; cbn; [reflexivity|exact IH]. Qed.

Lemma ascii_pad w x : ascii_str x = true -> ascii_str (pad w x) = true.
Proof. intros H. unfold pad. rewrite ascii_app, H, ascii_repeat_space. reflexivity. Qed.

Lemma clean_parts w x : clean w x = true -> length x <= w /\ forallb okchar x = true /\ trimmed x = true.
Proof.
  unfold clean. intros H. apply andb_true_iff in H as [H Ht]. apply andb_true_iff in H as [Hl Ho].
  apply Nat.leb_le in Hl. auto.
Qed.

(* ---------------- {3600} ---------------- *)
Definition bfc_canonical (v : tagval) : bool :=
  match tv_elems v with
  | [bfc; ttc] => marker_ok (tv_marker v) && clean 3 bfc && clean 3 ttc
  | _ => false
  end.

Theorem bfc_round_trip v variable : bfc_canonical v = true ->
  t_parse tag_BusinessFunctionCode = [PGuard CLt 9; PTag false; PSlice 0 6 9 true; PSetLen 9; PVar 1 3 "TransactionTypeCode"; PVerifyLen] ->
  t_format tag_BusinessFunctionCode = [FTag; FAlpha 0 3; FBfcTtc 1 3] ->
  t_format_takes_options tag_BusinessFunctionCode = true -> length (t_elems tag_BusinessFunctionCode) = 2 ->
  exists txt, format_tag tag_BusinessFunctionCode variable v = Some txt /\ parse_tag tag_BusinessFunctionCode txt = POk v.
Proof.
  intros Hc Hp Hf Hto Hne. unfold bfc_canonical in Hc.
  destruct v as [mk els]. cbn [tv_elems tv_marker] in Hc.
  destruct els as [|bfc [|ttc [|x r]]]; try discriminate Hc.
  apply andb_true_iff in Hc as [Hc Httc]. apply andb_true_iff in Hc as [Hmk Hbfc].
  destruct (clean_parts 3 bfc Hbfc) as (Lb & Ob & Tb). destruct (clean_parts 3 ttc Httc) as (Lt & Ot & Tt).
  unfold marker_ok in Hmk. apply andb_true_iff in Hmk as [Hmk Hmd]. apply andb_true_iff in Hmk as [Hmk Hmt].
  apply andb_true_iff in Hmk as [Hml Hma]. apply Nat.eqb_eq in Hml.
  assert (Hmasc : ascii_str mk = true).
  { unfold ascii_str. rewrite forallb_forall in *. intros b Hb. specialize (Hma b Hb). unfold is_ascii. exact Hma. }
  unfold format_tag, parse_tag. rewrite Hf, Hp, Hto, andb_true_r. cbn [run_format app elem_val tv_elems tv_marker nth].
  change (nn 3) with 3. change (nn 9) with 9. change (nn 6) with 6.
  unfold alpha_field. rewrite (format_alpha_fixed bfc 3 Lb) by (unfold small; cbn; lia).
  set (B := pad 3 bfc). assert (HBl : length B = 3) by (apply pad_length; exact Lb).
  assert (HBa : ascii_str B = true) by (apply ascii_pad, okchars_ascii; exact Ob).
  destruct ttc as [|tb tt].
  - (* no transaction type code: nothing follows the business function code *)
    exists (mk ++ B). split; [reflexivity|].
    cbn [run_parse]. change (nn 9) with 9. change (nn 6) with 6. change (nn 3) with 3.
    assert (Hrc : rune_count (mk ++ B) = 9).
    { rewrite rune_count_ascii by (rewrite ascii_app, Hmasc, HBa; reflexivity). rewrite app_length, Hml, HBl. reflexivity. }
    rewrite Hrc. cbn [Nat.ltb Nat.leb].
    assert (S1 : slice (mk ++ B) 0 6 = Some mk).
    { pose proof (slice_mid [] mk B) as P. cbn [app length] in P. rewrite Hml in P. exact P. }
    rewrite S1.
    assert (S2 : slice (mk ++ B) 6 9 = Some B).
    { pose proof (slice_mid mk B []) as P. rewrite app_nil_r, Hml, HBl in P. exact P. }
    rewrite S2. replace (trim_space B) with bfc by (symmetry; apply (trim_img false 3 bfc Hbfc)).
    assert (S3 : slice_from (mk ++ B) 9 = Some []).
    { pose proof (slice_from_app (mk ++ B) []) as P. rewrite app_nil_r, app_length, Hml, HBl in P. exact P. }
    rewrite S3. cbn [parse_variable Nat.add].
    assert (Hv : verify_read_length (mk ++ B) 9 = true).
    { pose proof (verify_read_length_exact (mk ++ B)) as P. rewrite app_length, Hml, HBl in P. exact P. }
    rewrite Hv. destruct (t_elems tag_BusinessFunctionCode) as [|e1 [|e2 [|e3 r']]]; cbn in Hne; try lia. reflexivity.
  - set (ttc := tb :: tt) in *.
    set (I := img variable 3 ttc).
    assert (HI : (if variable then ttc else format_alpha_field ttc 3 false) = I).
    { unfold I, img. destruct variable; [reflexivity|]. apply (format_alpha_fixed ttc 3 Lt). unfold small; cbn; lia. }
    exists (mk ++ B ++ I ++ [delim]). split.
    { f_equal. rewrite HI, <- !app_assoc. reflexivity. }
    cbn [run_parse]. change (nn 9) with 9. change (nn 6) with 6. change (nn 3) with 3.
    assert (HIa : ascii_str I = true).
    { unfold I, img. destruct variable; [apply okchars_ascii; exact Ot|apply ascii_pad, okchars_ascii; exact Ot]. }
    assert (Hrc : 9 <= rune_count (mk ++ B ++ I ++ [delim])).
    { rewrite rune_count_ascii by (rewrite !ascii_app, Hmasc, HBa, HIa; reflexivity). rewrite !app_length, Hml, HBl. lia. }
    destruct (rune_count (mk ++ B ++ I ++ [delim]) <? 9) eqn:Eg; [apply Nat.ltb_lt in Eg; lia|].
    assert (S1 : slice (mk ++ B ++ I ++ [delim]) 0 6 = Some mk).
    { pose proof (slice_mid [] mk (B ++ I ++ [delim])) as P. cbn [app length] in P. rewrite Hml in P. exact P. }
    rewrite S1.
    assert (S2 : slice (mk ++ B ++ I ++ [delim]) 6 9 = Some B).
    { pose proof (slice_mid mk B (I ++ [delim])) as P. rewrite Hml, HBl in P. exact P. }
    rewrite S2. replace (trim_space B) with bfc by (symmetry; apply (trim_img false 3 bfc Hbfc)).
    assert (S3 : slice_from (mk ++ B ++ I ++ [delim]) 9 = Some (I ++ [delim])).
    { pose proof (slice_from_app (mk ++ B) (I ++ [delim])) as P. rewrite app_length, Hml, HBl, <- app_assoc in P. exact P. }
    rewrite S3. unfold I at 1. change [delim] with (delim :: []).
    rewrite (parse_variable_img variable 3 ttc [] Httc). fold I.
    assert (Hv : verify_read_length (mk ++ B ++ I ++ delim :: []) (9 + S (length I)) = true).
    { pose proof (verify_read_length_exact (mk ++ B ++ I ++ delim :: [])) as P.
      rewrite !app_length, Hml, HBl in P. cbn [length] in P.
      replace (6 + (3 + (length I + 1))) with (9 + S (length I)) in P by lia. exact P. }
    rewrite Hv. destruct (t_elems tag_BusinessFunctionCode) as [|e1 [|e2 [|e3 r']]]; cbn in Hne; try lia. reflexivity.
Qed.

(* ---------------- {1500} ---------------- *)
Definition ss_canonical (v : tagval) : bool :=
  match tv_elems v with
  | [fv; urc; tpc; mdc] =>
      marker_ok (tv_marker v) && clean 2 fv && clean 8 urc && clean 1 tpc && (length mdc =? 1) && forallb okchar mdc
  | _ => false
  end.

Lemma okchars_pad_lacks_brace w x : forallb okchar x = true -> lacks_byte lbrace (pad w x) = true.
Proof. intros H. unfold pad. rewrite lacks_app, (okchars_lack_brace x H), (lacks_repeat lbrace space _ eq_refl). reflexivity. Qed.

Theorem ss_round_trip v variable : ss_canonical v = true ->
  t_parse tag_SenderSupplied = [PGuard CLt 11; PTag false; PSlice 0 6 8 true; PSetLen 8; PFixed 1 8 "UserRequestCorrelation";
                                PNeed 1 "TestProductionCode"; PDyn 2 1 true; PAlphaTail 3 1; PVerifyLen] ->
  t_format tag_SenderSupplied = [FTag; FAlpha 0 2; FAlpha 1 8; FAlpha 2 1; FAlpha 3 1] ->
  length (t_elems tag_SenderSupplied) = 4 ->
  exists txt, format_tag tag_SenderSupplied variable v = Some txt /\ parse_tag tag_SenderSupplied txt = POk v.
Proof.
  intros Hc Hp Hf Hne. unfold ss_canonical in Hc.
  destruct v as [mk els]. cbn [tv_elems tv_marker] in Hc.
  destruct els as [|fv [|urc [|tpc [|mdc [|x r]]]]]; try discriminate Hc.
  apply andb_true_iff in Hc as [Hc Hmo]. apply andb_true_iff in Hc as [Hc Hml1]. apply andb_true_iff in Hc as [Hc Htpc].
  apply andb_true_iff in Hc as [Hc Hurc]. apply andb_true_iff in Hc as [Hmk Hfv]. apply Nat.eqb_eq in Hml1.
  destruct (clean_parts 2 fv Hfv) as (Lf & Of & Tf). destruct (clean_parts 8 urc Hurc) as (Lu & Ou & Tu).
  destruct (clean_parts 1 tpc Htpc) as (Lt & Ot & Tt).
  unfold marker_ok in Hmk. apply andb_true_iff in Hmk as [Hmk Hmd]. apply andb_true_iff in Hmk as [Hmk Hmt].
  apply andb_true_iff in Hmk as [Hml Hma]. apply Nat.eqb_eq in Hml.
  assert (Hmasc : ascii_str mk = true).
  { unfold ascii_str. rewrite forallb_forall in *. intros b Hb. specialize (Hma b Hb). unfold is_ascii. exact Hma. }
  unfold format_tag, parse_tag. rewrite Hf, Hp. cbn [run_format app elem_val tv_elems tv_marker nth].
  change (nn 2) with 2. change (nn 8) with 8. change (nn 1) with 1.
  unfold alpha_field.
  rewrite (format_alpha_fixed fv 2 Lf) by (unfold small; cbn; lia).
  rewrite (format_alpha_fixed urc 8 Lu) by (unfold small; cbn; lia).
  rewrite (format_alpha_fixed tpc 1 Lt) by (unfold small; cbn; lia).
  rewrite (format_alpha_fixed mdc 1) by (try (unfold small; cbn; lia); lia).
  set (F := pad 2 fv). set (U := pad 8 urc). set (T := pad 1 tpc).
  assert (HD : pad 1 mdc = mdc) by (unfold pad; rewrite Hml1; cbn; apply app_nil_r). rewrite HD.
  assert (HFl : length F = 2) by (apply pad_length; exact Lf).
  assert (HUl : length U = 8) by (apply pad_length; exact Lu).
  assert (HTl : length T = 1) by (apply pad_length; exact Lt).
  exists (mk ++ F ++ U ++ T ++ mdc). split; [f_equal; rewrite <- !app_assoc; reflexivity|].
  remember (mk ++ F ++ U ++ T ++ mdc) as rec eqn:Erec.
  assert (Hlen : length rec = 18) by (rewrite Erec, !app_length, Hml, HFl, HUl, HTl, Hml1; reflexivity).
  assert (Hasc : ascii_str rec = true).
  { rewrite Erec, !ascii_app, Hmasc. unfold F, U, T.
    rewrite (ascii_pad 2 fv (okchars_ascii fv Of)), (ascii_pad 8 urc (okchars_ascii urc Ou)), (ascii_pad 1 tpc (okchars_ascii tpc Ot)), (okchars_ascii mdc Hmo). reflexivity. }
  cbn [run_parse]. change (nn 11) with 11. change (nn 6) with 6. change (nn 8) with 8. change (nn 1) with 1.
  rewrite (rune_count_ascii rec Hasc), Hlen. cbn [Nat.ltb Nat.leb].
  assert (S1 : slice rec 0 6 = Some mk).
  { rewrite Erec. pose proof (slice_mid [] mk (F ++ U ++ T ++ mdc)) as P. cbn [app length] in P. rewrite Hml in P. exact P. }
  rewrite S1.
  assert (S2 : slice rec 6 8 = Some F).
  { rewrite Erec. pose proof (slice_mid mk F (U ++ T ++ mdc)) as P. rewrite Hml, HFl in P. exact P. }
  rewrite S2. replace (trim_space F) with fv by (symmetry; apply (trim_img false 2 fv Hfv)).
  assert (S3 : slice_from rec 8 = Some (U ++ T ++ mdc)).
  { rewrite Erec. pose proof (slice_from_app (mk ++ F) (U ++ T ++ mdc)) as P. rewrite app_length, Hml, HFl, <- app_assoc in P. exact P. }
  rewrite S3.
  assert (Hrest : lacks_byte lbrace (T ++ mdc) = true).
  { rewrite lacks_app. unfold T. rewrite (okchars_pad_lacks_brace 1 tpc Ot), (okchars_lack_brace mdc Hmo). reflexivity. }
  unfold U at 1. rewrite (parse_fixed_pad 8 urc (T ++ mdc) ltac:(lia) Hurc Hrest).
  cbn [Nat.add Nat.ltb Nat.leb].
  assert (S4 : slice rec 16 17 = Some T).
  { rewrite Erec. pose proof (slice_mid (mk ++ F ++ U) T mdc) as P. rewrite !app_length, Hml, HFl, HUl, HTl, <- !app_assoc in P. exact P. }
  rewrite S4. replace (trim_space T) with tpc by (symmetry; apply (trim_img false 1 tpc Htpc)).
  assert (S5 : slice_from rec 17 = Some mdc).
  { rewrite Erec. pose proof (slice_from_app (mk ++ F ++ U ++ T) mdc) as P. rewrite !app_length, Hml, HFl, HUl, HTl, <- !app_assoc in P. exact P. }
  rewrite S5.
  assert (Hpa : parse_alpha_field mdc 1 = mdc).
  { unfold parse_alpha_field. rewrite Hml1. cbn. apply app_nil_r. }
  rewrite Hpa.
  assert (Hv : verify_read_length rec 18 = true).
  { pose proof (verify_read_length_exact rec) as P. rewrite Hlen in P. exact P. }
  rewrite Hv. destruct (t_elems tag_SenderSupplied) as [|e1 [|e2 [|e3 [|e4 [|e5 r']]]]]; cbn in Hne; try lia. reflexivity.
Qed.

(* ---------------- {8200} ---------------- *)
(* canonical: a four-digit length field, and the addenda within the length it declares *)
Definition ua_canonical (v : tagval) : bool :=
  match tv_elems v with
  | [len; add] =>
      marker_ok (tv_marker v) && (length len =? 4) && forallb is_digit len && clean (Z.to_nat (parse_num_field len)) add
  | _ => false
  end.

Lemma digit_okchar d : is_digit d = true -> okchar d = true.
Proof. destruct d; intros H; try discriminate H; reflexivity. Qed.

Lemma digit_not_ws d : is_digit d = true -> is_ascii_ws d = false.
Proof. destruct d; intros H; try discriminate H; reflexivity. Qed.

Lemma digits_val_bound s : forall acc, forallb is_digit s = true ->
  exists v, digits_val acc s = Some v /\ (acc * 10 ^ N.of_nat (length s) <= v < (acc + 1) * 10 ^ N.of_nat (length s))%N.
Proof.
  induction s as [|b t IH]; intros acc H; cbn [digits_val length].
  - exists acc. split; [reflexivity|]. cbn. lia.
  - cbn [forallb] in H. apply andb_true_iff in H as [Hb Ht]. rewrite Hb.
    destruct (IH (acc * 10 + (bN b - 48))%N Ht) as (v & Hv & Hlo & Hhi). exists v. split; [exact Hv|].
    assert (Hd : (bN b - 48 <= 9)%N). { destruct b; try discriminate Hb; cbn; lia. }
    rewrite Nat2N.inj_succ, N.pow_succ_r'. split; nia.
Qed.

Lemma last_in {A} (l : list A) d : l <> [] -> In (last l d) l.
Proof.
  induction l as [|a r IH]; intros H; [contradiction|]. destruct r as [|c r']; [left; reflexivity|].
  change (last (a :: c :: r') d) with (last (c :: r') d). right. apply IH. discriminate.
Qed.

Lemma digits_num_field len : forallb is_digit len = true -> length len = 4 ->
  (0 <= parse_num_field len < 10000)%Z.
Proof.
  intros Hd Hl. unfold parse_num_field.
  assert (Ho : forallb okchar len = true).
  { rewrite forallb_forall in *. intros b Hb. apply digit_okchar. apply Hd. exact Hb. }
  assert (Ht : trimmed len = true).
  { destruct len as [|b t]; [reflexivity|]. unfold trimmed. rewrite forallb_forall in Hd.
    rewrite (digit_not_ws b (Hd b (or_introl eq_refl))).
    assert (Hlast : In (last (b :: t) b) (b :: t)) by (apply last_in; discriminate).
    rewrite (digit_not_ws _ (Hd _ Hlast)). reflexivity. }
  rewrite (trim_space_clean len Ho Ht).
  destruct (digits_val_bound len 0%N Hd) as (v & Hv & Hlo & Hhi). rewrite Hl in Hhi. change (N.of_nat 4) with 4%N in Hhi.
  unfold atoi. destruct len as [|b t]; [discriminate Hl|].
  assert (Hb : is_digit b = true) by (cbn [forallb] in Hd; apply andb_true_iff in Hd; tauto).
  assert (E1 : beqb b x2d = false) by (destruct b; try discriminate Hb; reflexivity).
  assert (E2 : beqb b x2b = false) by (destruct b; try discriminate Hb; reflexivity).
  rewrite E1, E2, Hv. split; [lia|]. change ((0 + 1) * 10 ^ 4)%N with 10000%N in Hhi. lia.
Qed.

Theorem ua_round_trip v variable : ua_canonical v = true ->
  t_parse tag_UnstructuredAddenda = [PGuard CLt 10; PTag false; PAddenda 0 1] ->
  t_format tag_UnstructuredAddenda = [FTag; FAlphaZ 0 4; FAddenda 0 1] ->
  length (t_elems tag_UnstructuredAddenda) = 2 ->
  exists txt, format_tag tag_UnstructuredAddenda variable v = Some txt /\ parse_tag tag_UnstructuredAddenda txt = POk v.
Proof.
  intros Hc Hp Hf Hne. unfold ua_canonical in Hc.
  destruct v as [mk els]. cbn [tv_elems tv_marker] in Hc.
  destruct els as [|len [|add [|x r]]]; try discriminate Hc.
  apply andb_true_iff in Hc as [Hc Hadd]. apply andb_true_iff in Hc as [Hc Hdig]. apply andb_true_iff in Hc as [Hmk Hl4].
  apply Nat.eqb_eq in Hl4. set (al := parse_num_field len) in *.
  destruct (digits_num_field len Hdig Hl4) as [Hlo Hhi']. fold al in Hlo, Hhi'. assert (Hhi : (al < 100000)%Z) by lia.
  assert (Hlo0 : forallb okchar len = true).
  { rewrite forallb_forall in *. intros b0 Hb0. apply digit_okchar. apply Hdig. exact Hb0. }
  destruct (clean_parts _ _ Hadd) as (La & Oa & Ta).
  unfold marker_ok in Hmk. apply andb_true_iff in Hmk as [Hmk Hmd]. apply andb_true_iff in Hmk as [Hmk Hmt].
  apply andb_true_iff in Hmk as [Hml Hma]. apply Nat.eqb_eq in Hml.
  assert (Hmasc : ascii_str mk = true).
  { unfold ascii_str. rewrite forallb_forall in *. intros b Hb. specialize (Hma b Hb). unfold is_ascii. exact Hma. }
  unfold format_tag, parse_tag. rewrite Hf, Hp. cbn [run_format app elem_val tv_elems tv_marker nth]. fold al.
  change (nn 4) with 4.
  replace ((0 <? length len) && (length len <? 4)) with false by (rewrite Hl4; reflexivity).
  unfold alpha_field at 1. rewrite (format_alpha_fixed len 4) by (try lia; unfold small; cbn; lia).
  assert (Hpl : pad 4 len = len) by (unfold pad; rewrite Hl4; cbn; apply app_nil_r). rewrite Hpl.
  set (n := Z.to_nat al) in *.
  assert (Hbody : (if (al <? 0)%Z || negb ((0 <? al)%Z && (al <? Z.of_N max_buffer_growth)%Z) then [] else alpha_field add n) = pad n add).
  { destruct (al <? 0)%Z eqn:E0; [apply Z.ltb_lt in E0; lia|]. cbn [orb].
    destruct (0 <? al)%Z eqn:E1.
    - assert (E2 : (al <? Z.of_N max_buffer_growth)%Z = true) by (apply Z.ltb_lt; unfold max_buffer_growth; lia).
      rewrite E2. cbn [andb negb]. unfold alpha_field. apply format_alpha_fixed; [exact La|unfold small, n; lia].
    - cbn [andb negb]. apply Z.ltb_ge in E1. assert (al = 0%Z) by lia. unfold n in *. rewrite H in *. cbn in La.
      destruct add; [reflexivity|cbn in La; lia]. }
  rewrite Hbody.
  set (B := pad n add). assert (HBl : length B = n) by (apply pad_length; exact La).
  exists (mk ++ len ++ B). split; [f_equal; rewrite <- !app_assoc; reflexivity|].
  remember (mk ++ len ++ B) as rec eqn:Erec.
  assert (Hlen : length rec = 10 + n) by (rewrite Erec, !app_length, Hml, Hl4, HBl; lia).
  assert (Hasc : ascii_str rec = true).
  { rewrite Erec, !ascii_app, Hmasc, (okchars_ascii len Hlo0). unfold B. rewrite (ascii_pad n add (okchars_ascii add Oa)). reflexivity. }
  cbn [run_parse]. change (nn 10) with 10.
  rewrite (rune_count_ascii rec Hasc), Hlen.
  replace (10 + n <? 10) with false by (symmetry; apply Nat.ltb_ge; lia).
  assert (S1 : slice rec 0 6 = Some mk).
  { rewrite Erec. pose proof (slice_mid [] mk (len ++ B)) as P. cbn [app length] in P. rewrite Hml in P. exact P. }
  rewrite S1.
  assert (S2 : slice rec 6 10 = Some len).
  { rewrite Erec. pose proof (slice_mid mk len B) as P. rewrite Hml, Hl4 in P. exact P. }
  rewrite S2. fold al.
  assert (Hz : Z.eqb (Z.of_nat (10 + n)) (10 + al) = true) by (apply Z.eqb_eq; unfold n; lia).
  rewrite Hz. cbn [negb].
  assert (S3 : slice rec 10 (Z.to_nat (10 + al)) = Some B).
  { rewrite Erec. pose proof (slice_mid (mk ++ len) B []) as P. rewrite app_nil_r, app_length, Hml, Hl4, HBl, <- app_assoc in P.
    replace (Z.to_nat (10 + al)) with (6 + 4 + n) by (unfold n; lia). exact P. }
  rewrite S3. replace (trim_space B) with add by (symmetry; apply (trim_img false n add Hadd)).
  destruct (t_elems tag_UnstructuredAddenda) as [|e1 [|e2 [|e3 r']]]; cbn in Hne; try lia. reflexivity.
Qed.

(* ---------------- {1120} ---------------- *)
Definition omad_canonical (v : tagval) : bool :=
  match tv_elems v with
  | [a; b; c; d; e; f] =>
      marker_ok (tv_marker v) && clean 8 a && clean 8 b && (length c =? 6) && forallb okchar c &&
      clean 4 d && clean 4 e && clean 4 f
  | _ => false
  end.

Lemma parse_alpha_pad x w : length x <= w -> small w -> parse_alpha_field x w = pad w x.
Proof.
  intros Hl Hs. unfold parse_alpha_field, pad.
  replace (w <? length x) with false by (symmetry; apply Nat.ltb_ge; exact Hl).
  rewrite valid_size_small by (unfold small in *; lia).
  reflexivity.
Qed.

Theorem omad_round_trip v variable : omad_canonical v = true ->
  t_parse tag_OutputMessageAccountabilityData =
    [PGuard CLt 14; PTag false; PSetLen 6; PFixed 0 8 "OutputCycleDate"; PFixed 1 8 "OutputDestinationID";
     PNeed 6 "OutputSequenceNumber"; PDyn 2 6 false; PFixed 3 4 "OutputDate"; PFixed 4 4 "OutputTime";
     PFixed 5 4 "OutputFRBApplicationIdentification"; PVerifyLen] ->
  t_format tag_OutputMessageAccountabilityData =
    [FForceFixed; FTag; FRightAlpha 0 8; FRightAlpha 1 8; FNumeric 2 6; FRightAlpha 3 4; FRightAlpha 4 4; FRightAlpha 5 4; FStripIfVariable] ->
  length (t_elems tag_OutputMessageAccountabilityData) = 6 ->
  exists txt, format_tag tag_OutputMessageAccountabilityData variable v = Some txt /\ parse_tag tag_OutputMessageAccountabilityData txt = POk v.
Proof.
  intros Hc Hp Hf Hne. unfold omad_canonical in Hc.
  destruct v as [mk els]. cbn [tv_elems tv_marker] in Hc.
  destruct els as [|a [|b [|c [|d [|e [|f [|x r]]]]]]]; try discriminate Hc.
  apply andb_true_iff in Hc as [Hc Hcf]. apply andb_true_iff in Hc as [Hc Hce]. apply andb_true_iff in Hc as [Hc Hcd].
  apply andb_true_iff in Hc as [Hc Hoc]. apply andb_true_iff in Hc as [Hc Hlc]. apply andb_true_iff in Hc as [Hc Hcb].
  apply andb_true_iff in Hc as [Hmk Hca]. apply Nat.eqb_eq in Hlc.
  destruct (clean_parts 8 a Hca) as (La & Oa & _). destruct (clean_parts 8 b Hcb) as (Lb & Ob & _).
  destruct (clean_parts 4 d Hcd) as (Ld & Od & _). destruct (clean_parts 4 e Hce) as (Le & Oe & _). destruct (clean_parts 4 f Hcf) as (Lf & Of & _).
  unfold marker_ok in Hmk. apply andb_true_iff in Hmk as [Hmk Hmd]. apply andb_true_iff in Hmk as [Hmk Hmt].
  apply andb_true_iff in Hmk as [Hml Hma]. apply Nat.eqb_eq in Hml.
  assert (Hmasc : ascii_str mk = true).
  { unfold ascii_str. rewrite forallb_forall in *. intros b0 Hb. specialize (Hma b0 Hb). unfold is_ascii. exact Hma. }
  unfold format_tag, parse_tag. rewrite Hf, Hp. cbn [run_format app elem_val tv_elems tv_marker nth].
  change (nn 8) with 8. change (nn 6) with 6. change (nn 4) with 4.
  rewrite (parse_alpha_pad a 8 La), (parse_alpha_pad b 8 Lb), (parse_alpha_pad d 4 Ld), (parse_alpha_pad e 4 Le), (parse_alpha_pad f 4 Lf)
    by (unfold small; cbn; lia).
  rewrite (numeric_full c 6 Hlc).
  set (A := pad 8 a). set (B := pad 8 b). set (D := pad 4 d). set (E := pad 4 e). set (F := pad 4 f).
  assert (HAl : length A = 8) by (apply pad_length; exact La). assert (HBl : length B = 8) by (apply pad_length; exact Lb).
  assert (HDl : length D = 4) by (apply pad_length; exact Ld). assert (HEl : length E = 4) by (apply pad_length; exact Le).
  assert (HFl : length F = 4) by (apply pad_length; exact Lf).
  exists (mk ++ A ++ B ++ c ++ D ++ E ++ F). split; [f_equal; rewrite <- !app_assoc; reflexivity|].
  remember (mk ++ A ++ B ++ c ++ D ++ E ++ F) as rec eqn:Erec.
  assert (Hlen : length rec = 40) by (rewrite Erec, !app_length, Hml, HAl, HBl, Hlc, HDl, HEl, HFl; reflexivity).
  assert (Hasc : ascii_str rec = true).
  { rewrite Erec, !ascii_app, Hmasc. unfold A, B, D, E, F.
    rewrite (ascii_pad 8 a (okchars_ascii a Oa)), (ascii_pad 8 b (okchars_ascii b Ob)), (okchars_ascii c Hoc),
            (ascii_pad 4 d (okchars_ascii d Od)), (ascii_pad 4 e (okchars_ascii e Oe)), (ascii_pad 4 f (okchars_ascii f Of)). reflexivity. }
  assert (LB : forall w x, forallb okchar x = true -> lacks_byte lbrace (pad w x) = true) by (intros; apply okchars_pad_lacks_brace; assumption).
  cbn [run_parse]. change (nn 14) with 14. change (nn 6) with 6. change (nn 8) with 8. change (nn 4) with 4.
  rewrite (rune_count_ascii rec Hasc), Hlen. cbn [Nat.ltb Nat.leb].
  assert (S1 : slice rec 0 6 = Some mk).
  { rewrite Erec. pose proof (slice_mid [] mk (A ++ B ++ c ++ D ++ E ++ F)) as P. cbn [app length] in P. rewrite Hml in P. exact P. }
  rewrite S1.
  assert (T1 : slice_from rec 6 = Some (A ++ B ++ c ++ D ++ E ++ F)).
  { rewrite Erec. pose proof (slice_from_app mk (A ++ B ++ c ++ D ++ E ++ F)) as P. rewrite Hml in P. exact P. }
  rewrite T1. unfold A at 1.
  rewrite (parse_fixed_pad 8 a (B ++ c ++ D ++ E ++ F) ltac:(lia) Hca)
    by (rewrite !lacks_app; unfold B, D, E, F; rewrite !LB by assumption; rewrite (okchars_lack_brace c Hoc); reflexivity).
  cbn [Nat.add].
  assert (T2 : slice_from rec 14 = Some (B ++ c ++ D ++ E ++ F)).
  { rewrite Erec. pose proof (slice_from_app (mk ++ A) (B ++ c ++ D ++ E ++ F)) as P. rewrite app_length, Hml, HAl, <- app_assoc in P. exact P. }
  rewrite T2. unfold B at 1.
  rewrite (parse_fixed_pad 8 b (c ++ D ++ E ++ F) ltac:(lia) Hcb)
    by (rewrite !lacks_app; unfold D, E, F; rewrite !LB by assumption; rewrite (okchars_lack_brace c Hoc); reflexivity).
  cbn [Nat.add Nat.ltb Nat.leb].
  assert (S2 : slice rec 22 28 = Some c).
  { rewrite Erec. pose proof (slice_mid (mk ++ A ++ B) c (D ++ E ++ F)) as P. rewrite !app_length, Hml, HAl, HBl, Hlc, <- !app_assoc in P. exact P. }
  rewrite S2.
  assert (T3 : slice_from rec 28 = Some (D ++ E ++ F)).
  { rewrite Erec. pose proof (slice_from_app (mk ++ A ++ B ++ c) (D ++ E ++ F)) as P. rewrite !app_length, Hml, HAl, HBl, Hlc, <- !app_assoc in P. exact P. }
  rewrite T3. unfold D at 1.
  rewrite (parse_fixed_pad 4 d (E ++ F) ltac:(lia) Hcd) by (rewrite lacks_app; unfold E, F; rewrite !LB by assumption; reflexivity).
  cbn [Nat.add].
  assert (T4 : slice_from rec 32 = Some (E ++ F)).
  { rewrite Erec. pose proof (slice_from_app (mk ++ A ++ B ++ c ++ D) (E ++ F)) as P. rewrite !app_length, Hml, HAl, HBl, Hlc, HDl, <- !app_assoc in P. exact P. }
  rewrite T4. unfold E at 1.
  rewrite (parse_fixed_pad 4 e F ltac:(lia) Hce) by (unfold F; apply LB; assumption).
  cbn [Nat.add].
  assert (T5 : slice_from rec 36 = Some F).
  { rewrite Erec. pose proof (slice_from_app (mk ++ A ++ B ++ c ++ D ++ E) F) as P. rewrite !app_length, Hml, HAl, HBl, Hlc, HDl, HEl, <- !app_assoc in P. exact P. }
  rewrite T5.
  pose proof (parse_fixed_pad 4 f [] ltac:(lia) Hcf eq_refl) as PF. rewrite app_nil_r in PF. fold F in PF. rewrite PF.
  cbn [Nat.add].
  assert (Hv : verify_read_length rec 40 = true).
  { pose proof (verify_read_length_exact rec) as P. rewrite Hlen in P. exact P. }
  rewrite Hv. destruct (t_elems tag_OutputMessageAccountabilityData) as [|e1 [|e2 [|e3 [|e4 [|e5 [|e6 [|e7 r']]]]]]]; cbn in Hne; try lia. reflexivity.
Qed.
