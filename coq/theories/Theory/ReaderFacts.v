(* Facts about the reader model: stream faults and over-long segments never yield success (C08),
   accepted implies valid (C04), errors carry the ordinal of the offending sub-line (C15),
   order independence of the assignment phase (C09). *)
From Wire Require Import Base.Bytes Model.Converters Model.Validators Model.GoV Model.Codec Model.DL
     Model.Message Model.Reader Theory.BytesFacts Theory.DLFacts Theory.VerifyFacts Theory.VerifyProps.
From WireGen Require Import Tags Verify Reader.

(* ---------- the scanner's sticky status is either unset or the source's final status ---------- *)
Definition err_inv (final : fstatus) (st : sstate) : Prop := s_err st = None \/ s_err st = Some final.

Lemma scan_one_inv fuel final : forall st,
  err_inv final st ->
  match scan_one fuel final st with
  | SToken _ st' => err_inv final st'
  | SStop None => final = FEOF
  | _ => True
  end.
Proof.
  induction fuel as [|f IH]; intros st Hinv; [exact I|].
  unfold err_inv in Hinv. cbn [scan_one].
  set (has_err := match s_err st with Some _ => true | None => false end).
  destruct (match s_pending st, has_err with [], false => (0, None) | p, _ => split_fn p has_err end) as [adv tok] eqn:Et.
  destruct tok as [t|].
  - destruct adv; (unfold err_inv; cbn [s_err]; exact Hinv).
  - destruct adv as [|adv].
    + destruct (s_err st) as [[|e]|] eqn:Ee.
      * destruct Hinv as [H|H]; [discriminate H|]. inversion H. reflexivity.
      * exact I.
      * destruct (s_cap st <=? length (s_pending st)).
        -- destruct (max_token <=? s_cap st); [exact I|]. apply IH. unfold err_inv. left. reflexivity.
        -- destruct (s_src st) as [|c r].
           ++ apply IH. unfold err_inv. right. reflexivity.
           ++ apply IH. unfold err_inv. left. reflexivity.
    + apply IH. unfold err_inv. cbn [s_err]. rewrite Ee0 || exact Hinv.
Qed.

Lemma scan_all_stop fuel final : forall st acc toks,
  err_inv final st -> scan_all fuel final st acc = (toks, None) -> final = FEOF.
Proof.
  induction fuel as [|f IH]; intros st acc toks Hinv H; [discriminate H|].
  cbn [scan_all] in H. pose proof (scan_one_inv (S f) final st Hinv) as Hi.
  destruct (scan_one (S f) final st) as [t st'|e|].
  - eapply IH; [exact Hi | exact H].
  - destruct e; [discriminate H | exact Hi].
  - discriminate H.
Qed.

Lemma scan_stop_none chunks final toks : scan chunks final = (toks, None) -> final = FEOF.
Proof. unfold scan. apply scan_all_stop. left. reflexivity. Qed.

(* C08: a source that ends with an error other than end-of-file never produces a message *)
Theorem fault_never_succeeds preset opts chunks e m :
  read_model preset opts chunks (FErr e) <> ROk m.
Proof.
  unfold read_model. destruct (scan chunks (FErr e)) as [toks stop] eqn:Es.
  destruct stop as [s|].
  - destruct (read_lines (flat_map sublines toks) 0 empty_tags []) as [tgs errs].
    destruct (errs ++ [RScanner s]) eqn:E; [destruct errs; discriminate E|]. discriminate.
  - apply scan_stop_none in Es. discriminate Es.
Qed.

(* C08: success means the scanner stopped cleanly at end of file (no over-long segment, no fault) *)
Theorem success_means_clean_stop preset opts chunks final m :
  read_model preset opts chunks final = ROk m -> exists toks, scan chunks final = (toks, None) /\ final = FEOF.
Proof.
  unfold read_model. destruct (scan chunks final) as [toks stop] eqn:Es. intros H.
  destruct stop as [s|].
  - destruct (read_lines (flat_map sublines toks) 0 empty_tags []) as [tgs errs].
    destruct (errs ++ [RScanner s]) eqn:E; [destruct errs; discriminate E|]. discriminate H.
  - exists toks. split; [reflexivity|]. apply scan_stop_none in Es. exact Es.
Qed.

(* ---------- the read loop ---------- *)
Definition line_err (l : bytes) (ln : nat) : option rerr :=
  match parse_line l ln with inl e => Some e | inr _ => None end.

(* errors in order, each computed with the 1-based ordinal of its sub-line *)
Fixpoint errors_of (lines : list bytes) (ln : nat) : list rerr :=
  match lines with
  | [] => []
  | l :: r => (match line_err l (S ln) with Some e => [e] | None => [] end) ++ errors_of r (S ln)
  end.

Lemma read_lines_errors lines : forall ln tgs errs,
  snd (read_lines lines ln tgs errs) = rev errs ++ errors_of lines ln.
Proof.
  induction lines as [|l r IH]; intros ln tgs errs; cbn [read_lines errors_of].
  - rewrite app_nil_r. reflexivity.
  - unfold line_err. destruct (parse_line l (S ln)) as [e|[fi v]].
    + rewrite IH. cbn [rev]. rewrite <- app_assoc. reflexivity.
    + rewrite IH. reflexivity.
Qed.

(* C15: the reader's error list is exactly one entry per failing sub-line, in input order, each
   computed at that sub-line's ordinal position *)
Theorem reader_errors_are_per_segment lines :
  snd (read_lines lines 0 empty_tags []) = errors_of lines 0.
Proof. rewrite read_lines_errors. reflexivity. Qed.

(* what an entry looks like: a parse/validation failure names the line and the record label of its marker *)
Theorem line_error_shape l ln e :
  line_err l ln = Some e ->
  e = RTooShort \/ e = RInvalidTag (firstn 6 l) \/ e = RPanic \/ e = RStuck \/
  exists ti fi label v f er, lookup_marker (firstn 6 l) dispatch = Some (ti, fi, label, v) /\ e = RParse ln label f er.
Proof.
  unfold line_err, parse_line. intros H.
  destruct (rune_count l <? 6); [inversion H; auto|].
  destruct (lookup_marker (firstn 6 l) dispatch) as [[[[ti fi] label] val]|] eqn:El; [|inversion H; auto].
  destruct (parse_tag (nth ti tags tag_Amount) l) as [v|f er| |].
  - destruct val.
    + destruct (validate_alone ti v) as [|f er| |]; inversion H; subst; auto.
      do 4 right. exists ti, fi, label, true, f, er. auto.
    + discriminate H.
  - inversion H; subst. do 4 right. exists ti, fi, label, val, f, er. auto.
  - inversion H; auto.
  - inversion H; auto.
Qed.

(* an unknown marker is reported as an invalid tag naming the marker *)
Theorem unknown_marker_reported l ln :
  (rune_count l <? 6) = false -> lookup_marker (firstn 6 l) dispatch = None ->
  parse_line l ln = inl (RInvalidTag (firstn 6 l)).
Proof. intros H1 H2. unfold parse_line. rewrite H1, H2. reflexivity. Qed.

(* ---------- C04: accepted by the reader implies valid ---------- *)
Lemma set_tag_length i v l : length (set_tag i v l) = length l.
Proof. revert i. induction l as [|x l IH]; intros [|i]; cbn; auto. Qed.

Lemma read_lines_length lines : forall ln tgs errs,
  length (fst (read_lines lines ln tgs errs)) = length tgs.
Proof.
  induction lines as [|l r IH]; intros ln tgs errs; cbn [read_lines]; [reflexivity|].
  destruct (parse_line l (S ln)) as [e|[fi v]]; rewrite IH; [reflexivity | apply set_tag_length].
Qed.

Local Transparent ntags.
Lemma empty_tags_length : length empty_tags = ntags.
Proof. unfold empty_tags, ntags. apply map_length. Qed.
Global Opaque ntags.

Theorem accepted_is_valid preset opts chunks final m :
  read_model preset opts chunks final = ROk m ->
  wf_msg m /\ verify m = Accept /\
  (forall t, is_none (get_tag m t) = false -> tagv_of m t = Accept) /\
  m_opts m = match opts with Some _ => opts | None => preset end.
Proof.
  unfold read_model. destruct (scan chunks final) as [toks stop].
  destruct (read_lines (flat_map sublines toks) 0 empty_tags []) as [tgs errs] eqn:Er.
  intros H.
  destruct (match stop with Some e => errs ++ [RScanner e] | None => errs end); [|discriminate H].
  set (mm := {| m_tags := tgs; m_opts := match opts with Some _ => opts | None => preset end |}) in *.
  destruct (verify mm) eqn:Ev; try discriminate H. inversion H; subst m.
  assert (Hw : wf_msg mm).
  { unfold wf_msg, mm. cbn [m_tags].
    pose proof (read_lines_length (flat_map sublines toks) 0 empty_tags []) as Hl. rewrite Er in Hl. cbn [fst] in Hl.
    rewrite Hl. apply empty_tags_length. }
  repeat split; auto.
  intros t Ht. apply (accepted_tags_valid mm t Hw Ev Ht).
Qed.

(* ---------- C09: the assignment phase does not depend on the order of distinct segments ---------- *)
Lemma nth_set_tag i j v l : nth i (set_tag j v l) None = if (i =? j) && (j <? length l) then Some v else nth i l None.
Proof.
  revert i j. induction l as [|y l IH]; intros i j.
  - destruct j; cbn; rewrite andb_false_r; destruct i; reflexivity.
  - destruct j as [|j], i as [|i]; cbn [set_tag nth length]; try reflexivity. rewrite IH. reflexivity.
Qed.

Lemma set_tag_comm i j v w l : i <> j -> set_tag i v (set_tag j w l) = set_tag j w (set_tag i v l).
Proof.
  intros Hne. apply (nth_ext _ _ None None).
  - rewrite !set_tag_length. reflexivity.
  - intros k _. rewrite !nth_set_tag, !set_tag_length.
    destruct (k =? i) eqn:E1, (k =? j) eqn:E2; cbn [andb]; try reflexivity.
    apply Nat.eqb_eq in E1, E2. subst. contradiction.
Qed.

Fixpoint assign_all (as_ : list (nat * tagval)) (tgs : list (option tagval)) : list (option tagval) :=
  match as_ with
  | [] => tgs
  | (i, v) :: r => assign_all r (set_tag i v tgs)
  end.

Lemma assign_all_swap a b r tgs :
  fst a <> fst b -> assign_all (a :: b :: r) tgs = assign_all (b :: a :: r) tgs.
Proof. destruct a as [i v], b as [j w]. cbn [fst assign_all]. intros H. rewrite (set_tag_comm j i w v tgs) by congruence. reflexivity. Qed.

From Coq Require Import Permutation.

Theorem assignment_order_irrelevant as1 as2 tgs :
  Permutation as1 as2 -> NoDup (map fst as1) -> assign_all as1 tgs = assign_all as2 tgs.
Proof.
  intros Hp. revert tgs. induction Hp as [|x l l' Hp IH|x y l|l l' l'' Hp1 IH1 Hp2 IH2]; intros tgs Hnd.
  - reflexivity.
  - destruct x as [i v]. cbn [assign_all]. apply IH. inversion Hnd; assumption.
  - apply assign_all_swap. cbn [map] in Hnd. inversion Hnd as [|? ? Hn _]. intros E. apply Hn. left. symmetry. exact E.
  - rewrite IH1 by exact Hnd. apply IH2. apply (Permutation_NoDup (Permutation_map fst Hp1) Hnd).
Qed.

(* when every sub-line parses, the read loop is exactly the assignment of its results *)
Fixpoint results_of (lines : list bytes) (ln : nat) : option (list (nat * tagval)) :=
  match lines with
  | [] => Some []
  | l :: r => match parse_line l (S ln), results_of r (S ln) with
              | inr a, Some rest => Some (a :: rest)
              | _, _ => None
              end
  end.

Lemma read_lines_ok lines : forall ln tgs asg,
  results_of lines ln = Some asg -> read_lines lines ln tgs [] = (assign_all asg tgs, []).
Proof.
  induction lines as [|l r IH]; intros ln tgs asg H; cbn [results_of] in H.
  - inversion H. reflexivity.
  - cbn [read_lines]. destruct (parse_line l (S ln)) as [e|[fi v]]; [discriminate H|].
    destruct (results_of r (S ln)) as [rest|] eqn:Er; [|discriminate H]. inversion H; subst asg.
    cbn [assign_all]. apply IH. exact Er.
Qed.
