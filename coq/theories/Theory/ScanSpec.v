(* C09, chunking: the tokens the scanner produces are a function of the byte stream alone. A reference
   tokenizer over the whole stream (no chunks, no buffer) and a simulation proof: for every chunking of
   the stream, every buffer state, the scanner model returns exactly the reference tokens. *)
From Wire Require Import Base.Bytes Model.Converters Model.Validators Model.GoV Model.Codec Model.Message Model.Reader.
From Wire Require Import Theory.BytesFacts Theory.ReaderFacts Theory.ReaderTotal.

(* ---------- markers of an extended string ---------- *)
Lemma is_marker_at_app s x : is_marker_at s = true -> is_marker_at (s ++ x) = true.
Proof.
  destruct s as [|a [|d1 [|d2 [|d3 [|d4 [|z r]]]]]]; cbn; try discriminate. intros H. exact H.
Qed.

Lemma is_marker_at_short s : length s < 6 -> is_marker_at s = false.
Proof. destruct s as [|a [|d1 [|d2 [|d3 [|d4 [|z r]]]]]]; cbn; intros H; try reflexivity; lia. Qed.

Lemma is_marker_at_app_long s x : 6 <= length s -> is_marker_at (s ++ x) = is_marker_at s.
Proof. destruct s as [|a [|d1 [|d2 [|d3 [|d4 [|z r]]]]]]; cbn; intros H; try lia. reflexivity. Qed.

Lemma markers_from_short s : forall pos, length s < 6 -> markers_from s pos = [].
Proof.
  induction s as [|b t IH]; intros pos H; cbn [markers_from]; [reflexivity|].
  rewrite (is_marker_at_short (b :: t) H). cbn [app]. apply IH. cbn in H. lia.
Qed.

Lemma markers_from_app d x : forall pos, exists E, markers_from (d ++ x) pos = markers_from d pos ++ E.
Proof.
  induction d as [|b t IH]; intros pos; [exists (markers_from x pos); reflexivity|].
  cbn [app markers_from]. destruct (IH (S pos)) as [E' HE]. rewrite HE.
  destruct (Nat.le_gt_cases 6 (length (b :: t))) as [Hl|Hs].
  - change (b :: t ++ x) with ((b :: t) ++ x). rewrite (is_marker_at_app_long (b :: t) x Hl).
    exists E'. rewrite app_assoc. reflexivity.
  - rewrite (is_marker_at_short (b :: t) Hs). rewrite (markers_from_short t (S pos)) by (cbn in Hs; lia). cbn [app].
    eexists. reflexivity.
Qed.

Lemma markers_app d x : exists E, markers (d ++ x) = markers d ++ E.
Proof. apply markers_from_app. Qed.

Lemma markers_from_lt s : forall pos m, In m (markers_from s pos) -> m + 6 <= pos + length s.
Proof.
  induction s as [|b t IH]; intros pos m H; cbn [markers_from] in H; [contradiction|].
  apply in_app_or in H. destruct H as [H|H].
  - destruct (is_marker_at (b :: t)) eqn:E; [|contradiction]. destruct H as [<-|[]].
    destruct (Nat.le_gt_cases 6 (length (b :: t))); [lia|]. rewrite is_marker_at_short in E by assumption. discriminate.
  - specialize (IH (S pos) m H). cbn [length]. lia.
Qed.

(* ---------- the split function is stable under extension of its input ---------- *)
Lemma split_fn_cons b d e :
  split_fn (b :: d) e =
  match markers (b :: d) with
  | [] => if e then (length (b :: d), Some (b :: d)) else (0, None)
  | m0 :: rest =>
      match rest, e with
      | [], false => (0, None)
      | _, _ => if 0 <? m0 then (m0, Some (firstn m0 (b :: d)))
                else match rest with [] => (length (b :: d), Some (b :: d)) | m1 :: _ => (m1, Some (firstn m1 (b :: d))) end
      end
  end.
Proof. unfold split_fn. destruct e; reflexivity. Qed.

Theorem split_fn_stable d a t : split_fn d false = (a, Some t) -> forall x e, split_fn (d ++ x) e = (a, Some t).
Proof.
  intros H x e. destruct d as [|b d']; [discriminate|].
  rewrite split_fn_cons in H. change ((b :: d') ++ x) with (b :: (d' ++ x)). rewrite split_fn_cons.
  change (b :: (d' ++ x)) with ((b :: d') ++ x).
  destruct (markers (b :: d')) as [|m0 [|m1 r]] eqn:Em; try discriminate.
  destruct (markers_app (b :: d') x) as [E HE]. rewrite Em in HE. rewrite HE. cbn [app].
  assert (Hm0 : m0 + 6 <= length (b :: d')). { pose proof (markers_from_lt (b :: d') 0 m0) as P. unfold markers in Em. rewrite Em in P. apply P. left. reflexivity. }
  assert (Hm1 : m1 + 6 <= length (b :: d')). { pose proof (markers_from_lt (b :: d') 0 m1) as P. unfold markers in Em. rewrite Em in P. apply P. right. left. reflexivity. }
  assert (F0 : firstn m0 ((b :: d') ++ x) = firstn m0 (b :: d')) by (rewrite firstn_app; replace (m0 - length (b :: d')) with 0 by lia; cbn [firstn]; apply app_nil_r).
  assert (F1 : firstn m1 ((b :: d') ++ x) = firstn m1 (b :: d')) by (rewrite firstn_app; replace (m1 - length (b :: d')) with 0 by lia; cbn [firstn]; apply app_nil_r).
  cbn [app] in F0, F1.
  destruct (0 <? m0).
  - injection H as <- <-. rewrite F0. destruct e; reflexivity.
  - injection H as <- <-. rewrite F1. destruct e; reflexivity.
Qed.

Lemma split_fn_adv_le d e a t : split_fn d e = (a, Some t) -> a <= length d.
Proof.
  destruct d as [|b p]; [destruct e; cbn; discriminate|]. rewrite split_fn_cons.
  destruct (markers (b :: p)) as [|m0 [|m1 r]] eqn:Em.
  - destruct e; [intros H; injection H as <- _; apply Nat.le_refl|discriminate].
  - pose proof (markers_from_lt (b :: p) 0 m0) as P. unfold markers in Em. rewrite Em in P. specialize (P (or_introl eq_refl)).
    destruct e; [|discriminate]. destruct (0 <? m0); intros H; injection H as <- _; [lia|apply Nat.le_refl].
  - pose proof (markers_from_lt (b :: p) 0 m0) as P0. pose proof (markers_from_lt (b :: p) 0 m1) as P1. unfold markers in Em. rewrite Em in P0, P1.
    specialize (P0 (or_introl eq_refl)). specialize (P1 (or_intror (or_introl eq_refl))).
    intros H. assert (E : (if 0 <? m0 then (m0, Some (firstn m0 (b :: p))) else (m1, Some (firstn m1 (b :: p)))) = (a, Some t)) by (destruct e; exact H).
    destruct (0 <? m0); injection E as <- _; lia.
Qed.

Corollary split_fn_eof_agrees d a t : split_fn d false = (a, Some t) -> split_fn d true = (a, Some t).
Proof. intros H. pose proof (split_fn_stable d a t H [] true) as S. rewrite app_nil_r in S. exact S. Qed.

(* ---------- the reference tokenizer: whole stream, no chunks, no buffer ---------- *)
Inductive rnext := RTok (t : bytes) (rest : bytes) | REnd (e : option string).

Definition final_err (final : fstatus) : option string := match final with FEOF => None | FErr e => Some e end.

Definition next_ref (s : bytes) (final : fstatus) : rnext :=
  match s with
  | [] => REnd (final_err final)
  | _ =>
      if length s <? max_token then
        match split_fn s true with
        | (a, Some t) => RTok t (skipn a s)
        | _ => REnd (final_err final)
        end
      else
        match split_fn (firstn max_token s) false with
        | (a, Some t) => RTok t (skipn a s)
        | _ => REnd (Some "ErrTooLong"%string)
        end
  end.

Fixpoint tokens_ref (fuel : nat) (s : bytes) (final : fstatus) (acc : list bytes) : list bytes * option string :=
  match fuel with
  | O => (rev acc, Some "fuel"%string)
  | S f =>
      match next_ref s final with
      | RTok t rest => tokens_ref f rest final (t :: acc)
      | REnd e => (rev acc, e)
      end
  end.

(* ---------- simulation ---------- *)
Definition stream_of (st : sstate) : bytes := s_pending st ++ concat (s_src st).

Record sim_inv (final : fstatus) (st : sstate) : Prop := {
  sv_buf : buf_ok st;
  sv_src : src_ok st;
  sv_err : s_err st = None \/ (s_err st = Some final /\ s_src st = [] /\ length (s_pending st) < max_token)
}.

Lemma concat_total_len l : length (concat l) = total_len l.
Proof. induction l as [|c r IH]; cbn; [reflexivity|]. rewrite app_length, IH. reflexivity. Qed.

Lemma scan_one_sim fuel final : forall st, sim_inv final st ->
  match scan_one fuel final st with
  | SFuel => True
  | SToken t st' => next_ref (stream_of st) final = RTok t (stream_of st') /\ sim_inv final st'
  | SStop e => next_ref (stream_of st) final = REnd e
  end.
Proof.
  induction fuel as [|f IH]; intros st [[Hp Hc] Hsrc Herr]; [exact I|].
  cbn [scan_one].
  set (has_err := match s_err st with Some _ => true | None => false end).
  destruct (match s_pending st, has_err with [], false => (0, None) | p, _ => split_fn p has_err end) as [adv tok] eqn:Et.
  assert (Hnone : tok = None -> adv = 0).
  { intros ->. destruct (s_pending st) as [|b p]; [destruct has_err; [apply split_fn_none in Et; exact Et|injection Et as <-; reflexivity]|apply split_fn_none in Et; exact Et]. }
  destruct tok as [t|].
  - (* a token from the buffered bytes *)
    assert (Hsp : split_fn (s_pending st) has_err = (adv, Some t) /\ s_pending st <> []).
    { destruct (s_pending st) as [|b p] eqn:Ep; [destruct has_err; [cbn in Et; discriminate|discriminate]|split; [exact Et|discriminate]]. }
    destruct Hsp as [Hsp Hne].
    assert (Hadv : 1 <= adv /\ adv <= length (s_pending st)).
    { destruct (split_fn_some _ _ _ _ Hsp) as [A _]. split; [exact A|apply (split_fn_adv_le _ _ _ _ Hsp)]. }
    set (st' := {| s_pending := skipn adv (s_pending st); s_src := s_src st; s_err := s_err st; s_cap := s_cap st |}).
    assert (Hstream : stream_of st' = skipn adv (stream_of st)).
    { unfold stream_of, st'. cbn [s_pending s_src]. rewrite skipn_app. replace (adv - length (s_pending st)) with 0 by lia. reflexivity. }
    assert (Hinv' : sim_inv final st').
    { constructor.
      - split; unfold st'; cbn [s_pending s_cap]; [rewrite skipn_length; lia|exact Hc].
      - exact Hsrc.
      - unfold st'. cbn [s_err s_src s_pending]. destruct Herr as [E|(E1 & E2 & E3)]; [left; exact E|right; repeat split; try assumption; rewrite skipn_length; lia]. }
    assert (Hnext : next_ref (stream_of st) final = RTok t (skipn adv (stream_of st))).
    { unfold next_ref. destruct (stream_of st) as [|b0 r0] eqn:Es.
      { unfold stream_of in Es. apply app_eq_nil in Es as [Es _]. contradiction. }
      rewrite <- Es.
      destruct Herr as [E|(E1 & E2 & E3)].
      - (* no status yet: the split ran with at_eof = false *)
        assert (Hh : has_err = false) by (unfold has_err; rewrite E; reflexivity). rewrite Hh in Hsp.
        destruct (length (stream_of st) <? max_token) eqn:El.
        + unfold stream_of. rewrite (split_fn_stable _ _ _ Hsp (concat (s_src st)) true). reflexivity.
        + apply Nat.ltb_ge in El.
          assert (Hw : firstn max_token (stream_of st) = s_pending st ++ firstn (max_token - length (s_pending st)) (concat (s_src st))).
          { unfold stream_of. rewrite firstn_app. rewrite firstn_all2 by lia. reflexivity. }
          rewrite Hw, (split_fn_stable _ _ _ Hsp _ false). reflexivity.
      - (* the source has ended: the stream is the buffer *)
        assert (Hh : has_err = true) by (unfold has_err; rewrite E1; reflexivity). rewrite Hh in Hsp.
        unfold stream_of. rewrite E2. cbn [concat]. rewrite app_nil_r.
        assert (El : (length (s_pending st) <? max_token) = true) by (apply Nat.ltb_lt; exact E3).
        rewrite El, Hsp. reflexivity. }
    destruct adv as [|adv]; [lia|]. split; [rewrite Hnext, Hstream; reflexivity|exact Hinv'].
  - rewrite (Hnone eq_refl).
    destruct (s_err st) as [[|e]|] eqn:Ee.
    + (* clean end *)
      destruct Herr as [E|(E1 & E2 & E3)]; [discriminate E|]. injection E1 as E1.
      assert (Hpe : s_pending st = []).
      { destruct (s_pending st) as [|b p] eqn:Ep; [reflexivity|]. exfalso.
        destruct (split_fn_eof_some (b :: p)) as (a' & t' & Hs); [discriminate|].
        unfold has_err in Et. rewrite Hs in Et. discriminate Et. }
      unfold next_ref, stream_of. rewrite Hpe, E2. cbn. rewrite <- E1. reflexivity.
    + destruct Herr as [E|(E1 & E2 & E3)]; [discriminate E|]. injection E1 as E1.
      assert (Hpe : s_pending st = []).
      { destruct (s_pending st) as [|b p] eqn:Ep; [reflexivity|]. exfalso.
        destruct (split_fn_eof_some (b :: p)) as (a' & t' & Hs); [discriminate|].
        unfold has_err in Et. rewrite Hs in Et. discriminate Et. }
      unfold next_ref, stream_of. rewrite Hpe, E2. cbn. rewrite <- E1. reflexivity.
    + (* more data needed *)
      assert (Hh : has_err = false) by reflexivity.
      assert (Hsplit : s_pending st <> [] -> split_fn (s_pending st) false = (0, None)).
      { intros Hne. destruct (s_pending st) as [|b p]; [contradiction|]. rewrite Hh in Et. rewrite (Hnone eq_refl) in Et. exact Et. }
      destruct (s_cap st <=? length (s_pending st)) eqn:E.
      * apply Nat.leb_le in E. destruct (max_token <=? s_cap st) eqn:E2.
        -- (* the buffer is full at its maximum: token too long *)
           apply Nat.leb_le in E2. assert (Hlen : length (s_pending st) = max_token) by lia.
           assert (Hne : s_pending st <> []) by (intros Z; rewrite Z in Hlen; unfold max_token in Hlen; cbn in Hlen; lia).
           unfold next_ref. destruct (stream_of st) as [|b0 r0] eqn:Es.
           { unfold stream_of in Es. apply app_eq_nil in Es as [Es _]. contradiction. }
           rewrite <- Es.
           assert (El : (length (stream_of st) <? max_token) = false).
           { apply Nat.ltb_ge. unfold stream_of. rewrite app_length. lia. }
           rewrite El.
           assert (Hw : firstn max_token (stream_of st) = s_pending st).
           { unfold stream_of. rewrite firstn_app, <- Hlen. rewrite firstn_all. replace (length (s_pending st) - length (s_pending st)) with 0 by lia. cbn. apply app_nil_r. }
           rewrite Hw, (Hsplit Hne). reflexivity.
        -- (* grow the buffer *)
           apply Nat.leb_gt in E2.
           set (c' := if s_cap st =? 0 then start_buf else Nat.min (2 * s_cap st) max_token).
           assert (Hroom : length (s_pending st) <= c' /\ c' <= max_token).
           { unfold c'. destruct (s_cap st =? 0) eqn:E3.
             - apply Nat.eqb_eq in E3. unfold start_buf, max_token. lia.
             - apply Nat.eqb_neq in E3. split; [apply Nat.min_glb; lia|apply Nat.le_min_r]. }
           set (st' := {| s_pending := s_pending st; s_src := s_src st; s_err := None; s_cap := c' |}).
           assert (Hinv' : sim_inv final st').
           { constructor; [unfold st'; split; cbn [s_pending s_cap]; lia|exact Hsrc|left; reflexivity]. }
           specialize (IH st' Hinv'). change (stream_of st') with (stream_of st) in IH. exact IH.
      * apply Nat.leb_gt in E. destruct (s_src st) as [|c r] eqn:Es.
        -- (* the source is exhausted: record its final status *)
           set (st' := {| s_pending := s_pending st; s_src := []; s_err := Some final; s_cap := s_cap st |}).
           assert (Hinv' : sim_inv final st').
           { constructor; [unfold st'; split; cbn [s_pending s_cap]; lia|unfold st', src_ok; cbn [s_src]; constructor|].
             right. unfold st'. cbn [s_err s_src s_pending]. repeat split. lia. }
           specialize (IH st' Hinv').
           assert (Hs : stream_of st' = stream_of st) by (unfold stream_of, st'; cbn [s_pending s_src]; rewrite Es; reflexivity).
           rewrite Hs in IH. exact IH.
        -- (* read from the next chunk *)
           unfold src_ok in Hsrc. rewrite Es in Hsrc. inversion Hsrc as [|? ? Hcne Hr]; subst.
           set (n := Nat.min (length c) (s_cap st - length (s_pending st))).
           set (st' := {| s_pending := s_pending st ++ firstn n c;
                          s_src := match skipn n c with [] => r | _ => skipn n c :: r end; s_err := None; s_cap := s_cap st |}).
           assert (Hinv' : sim_inv final st').
           { constructor.
             - unfold st'. split; cbn [s_pending s_cap]; [rewrite app_length, firstn_length; unfold n; lia|exact Hc].
             - unfold src_ok, st'. cbn [s_src]. destruct (skipn n c) eqn:Ek; [exact Hr|]. constructor; [discriminate|exact Hr].
             - left. reflexivity. }
           specialize (IH st' Hinv').
           assert (Hs : stream_of st' = stream_of st).
           { unfold stream_of. rewrite Es. unfold st'. cbn [s_pending s_src].
             pose proof (firstn_skipn n c) as Hfs.
             rewrite <- (app_assoc (s_pending st)). f_equal.
             destruct (skipn n c) as [|b0 l0]; cbn [concat].
             - rewrite app_nil_r in Hfs. rewrite Hfs. reflexivity.
             - rewrite app_assoc, Hfs. reflexivity. }
           rewrite Hs in IH. exact IH.
Qed.

Lemma scan_all_sim fuel final : forall st acc, sim_inv final st -> exhausts fuel final st = false ->
  scan_all fuel final st acc = tokens_ref fuel (stream_of st) final acc.
Proof.
  induction fuel as [|f IH]; intros st acc Hinv Hex; [discriminate Hex|].
  cbn [exhausts] in Hex. cbn [scan_all tokens_ref].
  pose proof (scan_one_sim (S f) final st Hinv) as Hs.
  destruct (scan_one (S f) final st) as [t st'|e|].
  - destruct Hs as [Hn Hinv']. rewrite Hn. apply IH; assumption.
  - rewrite Hs. reflexivity.
  - discriminate Hex.
Qed.

Lemma next_ref_shrinks s final t rest : next_ref s final = RTok t rest -> length rest < length s.
Proof.
  unfold next_ref. destruct s as [|b r]; [discriminate|]. set (s := b :: r).
  destruct (length s <? max_token).
  - destruct (split_fn s true) as [a [t'|]] eqn:E; [|discriminate]. intros H. injection H as _ <-.
    destruct (split_fn_some _ _ _ _ E) as [A _]. rewrite skipn_length. unfold s. cbn [length]. lia.
  - destruct (split_fn (firstn max_token s) false) as [a [t'|]] eqn:E; [|discriminate]. intros H. injection H as _ <-.
    destruct (split_fn_some _ _ _ _ E) as [A _]. rewrite skipn_length. unfold s. cbn [length]. lia.
Qed.

Lemma tokens_ref_enough final : forall f1 f2 s acc, length s < f1 -> length s < f2 ->
  tokens_ref f1 s final acc = tokens_ref f2 s final acc.
Proof.
  induction f1 as [|f1 IH]; intros f2 s acc H1 H2; [lia|]. destruct f2 as [|f2]; [lia|].
  cbn [tokens_ref]. destruct (next_ref s final) as [t rest|e] eqn:E; [|reflexivity].
  apply next_ref_shrinks in E. apply IH; lia.
Qed.

Lemma concat_nonempty chunks : concat (filter (fun c : bytes => match c with [] => false | _ => true end) chunks) = concat chunks.
Proof. induction chunks as [|c r IH]; cbn; [reflexivity|]. destruct c; cbn; rewrite IH; reflexivity. Qed.

(* what the scanner returns is the reference tokenization of the concatenated stream *)
Theorem scan_is_reference chunks final :
  scan chunks final = tokens_ref (S (length (concat chunks))) (concat chunks) final [].
Proof.
  unfold scan. pose proof (scan_terminates chunks final) as Hex. cbv zeta in Hex.
  match type of Hex with exhausts ?F final ?ST = false =>
    assert (Hinv : sim_inv final ST);
    [ constructor;
      [ split; cbn [s_pending s_cap length]; lia
      | unfold src_ok; cbn [s_src]; apply Forall_forall; intros c Hc; apply filter_In in Hc as [_ Hc]; destruct c; discriminate
      | left; reflexivity ]
    | rewrite (scan_all_sim F final ST [] Hinv Hex);
      assert (Hs : stream_of ST = concat chunks) by (unfold stream_of; cbn [s_pending s_src app]; apply concat_nonempty);
      rewrite Hs; apply tokens_ref_enough; [|lia];
      rewrite <- Hs; unfold stream_of; cbn [s_pending s_src app]; rewrite concat_total_len; lia ]
  end.
Qed.

(* C09: however the same bytes are delivered, the tokens - and with them the whole read - are the same *)
Theorem scan_chunking_irrelevant chunks1 chunks2 final :
  concat chunks1 = concat chunks2 -> scan chunks1 final = scan chunks2 final.
Proof. intros H. rewrite !scan_is_reference, H. reflexivity. Qed.

Theorem read_chunking_irrelevant preset opts chunks1 chunks2 final :
  concat chunks1 = concat chunks2 -> read_model preset opts chunks1 final = read_model preset opts chunks2 final.
Proof. intros H. unfold read_model. rewrite (scan_chunking_irrelevant chunks1 chunks2 final H). reflexivity. Qed.
