(* The round trip applied to the regenerated tag table: for every regular tag, both layouts,
   every canonical value. Per-run obligations: the step lists ARE canonical lists of the recovered
   layout (regular), the layout is well-formed, markers are well-formed. *)
From Wire Require Import Base.Bytes Model.Converters Model.GoV Model.Codec Model.Layout
     Theory.BytesFacts Theory.ConvFacts Theory.CodecFacts Theory.CodecRoundTrip.
From WireGen Require Import Tags.

Definition nelems (d : tagdesc) : nat := length (t_elems d).

(* layout well-formedness without the guard condition *)
Definition layout_ok (d : tagdesc) : bool :=
  let L := recover d in
  regular d &&
  forallb (fun e => e <? nelems d) (slot_elems L) &&
  forallb (fun s => (1 <=? ps_w s) && (N.of_nat (ps_w s) <? 100000)%N) (l_prefix L) &&
  forallb (fun s => (1 <=? fs_w s) && (N.of_nat (fs_w s) <? 100000)%N) (l_fixed L) &&
  forallb (fun s => (1 <=? vs_w s) && (N.of_nat (vs_w s) <? 100000)%N) (l_var L) &&
  (l_len L || (match l_fixed L, l_var L with [], [] => true | _, _ => false end)) &&
  marker_ok (t_marker d).

(* the guard admits the shortest text of either layout, whatever the (canonical) values *)
Definition guard_static (d : tagdesc) : bool :=
  let L := recover d in
  match l_cmp L with
  | CLt => (l_guard L <=? min_len L false) && (negb (t_format_takes_options d) || (l_guard L <=? min_len L true))
  | CNe => negb (t_format_takes_options d) && (match l_fixed L, l_var L with [], [] => true | _, _ => false end) &&
           (l_guard L =? 6 + prefix_width (l_prefix L))
  end.

Definition special_tags : list string := ["OutputMessageAccountabilityData"; "SenderSupplied"; "BusinessFunctionCode"; "UnstructuredAddenda"]%string.
Definition is_special (d : tagdesc) : bool := existsb (String.eqb (t_name d)) special_tags.

Definition ob_all_regular : bool := forallb (fun d => is_special d || layout_ok d) tags.
Definition guard_needs_validity : list string := map t_name (filter (fun d => negb (is_special d) && negb (guard_static d)) tags).

Lemma all_regular : ob_all_regular = true. Proof. vm_compute. reflexivity. Qed.

Definition canonical_tag (d : tagdesc) (v : tagval) : bool :=
  canonical (nelems d) (recover d) v && bytes_eqb (tv_marker v) (t_marker d).

Lemma blank_repeat {A} (l : list A) : map (fun _ => @nil byte) l = repeat [] (length l).
Proof. induction l as [|x l IH]; [reflexivity|]. cbn. rewrite IH. reflexivity. Qed.

Lemma forallb_In {A} (p : A -> bool) l x : forallb p l = true -> In x l -> p x = true.
Proof. intros H. rewrite forallb_forall in H. apply H. Qed.

Theorem tag_roundtrip d v variable :
  layout_ok d = true -> canonical_tag d v = true ->
  guard_admits (recover d) (length (format_text (recover d) (variable && t_format_takes_options d) v)) ->
  exists txt, format_tag d variable v = Some txt /\ parse_tag d txt = POk v.
Proof.
  intros Hok Hcan Hg. unfold layout_ok in Hok.
  apply andb_true_iff in Hok as [Hok Hmarker]. apply andb_true_iff in Hok as [Hok Hshape].
  apply andb_true_iff in Hok as [Hok Hwv]. apply andb_true_iff in Hok as [Hok Hwf].
  apply andb_true_iff in Hok as [Hok Hwp]. apply andb_true_iff in Hok as [Hreg Hsl].
  unfold regular in Hreg. apply andb_true_iff in Hreg as [Hp Hf].
  destruct (list_eq_dec pstep_eq_dec (t_parse d) (canon_parse (recover d))) as [Ep|]; [|discriminate Hp].
  destruct (list_eq_dec fstep_eq_dec (t_format d) (canon_format (recover d))) as [Ef|]; [|discriminate Hf].
  unfold canonical_tag in Hcan. apply andb_true_iff in Hcan as [Hcan Hmk]. apply bytes_eqb_eq in Hmk.
  unfold canonical in Hcan.
  apply andb_true_iff in Hcan as [Hcan Hcu]. apply andb_true_iff in Hcan as [Hcan Hcv].
  apply andb_true_iff in Hcan as [Hcan Hcf]. apply andb_true_iff in Hcan as [Hlen Hcp]. apply Nat.eqb_eq in Hlen.
  exists (format_text (recover d) (variable && t_format_takes_options d) v). split.
  - unfold format_tag. rewrite Ef. apply run_format_canon.
  - unfold parse_tag. rewrite Ep, blank_repeat. fold (nelems d).
    assert (A1 : widths_ok (recover d)).
    { unfold widths_ok. split; [|split]; intros sl Hs; split.
      * pose proof (forallb_In _ _ sl Hwp Hs) as Hx. apply andb_true_iff in Hx as [Ha Hb]. apply Nat.leb_le in Ha. exact Ha.
      * pose proof (forallb_In _ _ sl Hwp Hs) as Hx. apply andb_true_iff in Hx as [Ha Hb]. apply N.ltb_lt in Hb. exact Hb.
      * pose proof (forallb_In _ _ sl Hwf Hs) as Hx. apply andb_true_iff in Hx as [Ha Hb]. apply Nat.leb_le in Ha. exact Ha.
      * pose proof (forallb_In _ _ sl Hwf Hs) as Hx. apply andb_true_iff in Hx as [Ha Hb]. apply N.ltb_lt in Hb. exact Hb.
      * pose proof (forallb_In _ _ sl Hwv Hs) as Hx. apply andb_true_iff in Hx as [Ha Hb]. apply Nat.leb_le in Ha. exact Ha.
      * pose proof (forallb_In _ _ sl Hwv Hs) as Hx. apply andb_true_iff in Hx as [Ha Hb]. apply N.ltb_lt in Hb. exact Hb. }
    assert (A2 : canon_vals (recover d) v).
    { unfold canon_vals. split; [|split]; intros sl Hs; [exact (forallb_In _ _ sl Hcp Hs) | exact (forallb_In _ _ sl Hcf Hs) | exact (forallb_In _ _ sl Hcv Hs)]. }
    assert (A3 : forall e, In e (slot_elems (recover d)) -> e < nelems d).
    { intros e He. apply Nat.ltb_lt. exact (forallb_In _ _ e Hsl He). }
    assert (A4 : forall e, e < nelems d -> ~ In e (slot_elems (recover d)) -> elem_val v e = []).
    { intros e He Hn. unfold unslotted in Hcu.
      assert (Hin : In e (filter (fun e0 => negb (existsb (Nat.eqb e0) (slot_elems (recover d)))) (seq 0 (nelems d)))).
      { apply filter_In. split; [apply in_seq; lia|]. apply negb_true_iff.
        destruct (existsb (Nat.eqb e) (slot_elems (recover d))) eqn:E; [|reflexivity].
        apply existsb_exists in E as [x [Hx Ex]]. apply Nat.eqb_eq in Ex. subst x. contradiction. }
      pose proof (forallb_In _ _ e Hcu Hin) as Hx. cbn beta in Hx. destruct (elem_val v e); [reflexivity|discriminate Hx]. }
    assert (A5 : marker_ok (tv_marker v) = true) by (rewrite Hmk; exact Hmarker).
    assert (A6 : l_len (recover d) = false -> l_fixed (recover d) = [] /\ l_var (recover d) = []).
    { intros El. rewrite El in Hshape. cbn [orb] in Hshape. destruct (l_fixed (recover d)), (l_var (recover d)); try discriminate Hshape. auto. }
    exact (roundtrip (recover d) (nelems d) v (variable && t_format_takes_options d) A1 A2 Hlen A4 A5 A6 Hg).
Qed.

(* the guard condition follows from the layout alone for the tags whose guard is static *)
Theorem tag_roundtrip_static d v variable :
  layout_ok d = true -> guard_static d = true -> canonical_tag d v = true ->
  exists txt, format_tag d variable v = Some txt /\ parse_tag d txt = POk v.
Proof.
  intros Hok Hgs Hcan. apply (tag_roundtrip d v variable Hok Hcan).
  pose proof Hok as Hok'. unfold layout_ok in Hok'.
  apply andb_true_iff in Hok' as [Hok' Hmarker]. apply andb_true_iff in Hok' as [Hok' Hshape].
  apply andb_true_iff in Hok' as [Hok' Hwv]. apply andb_true_iff in Hok' as [Hok' Hwf].
  apply andb_true_iff in Hok' as [Hok' Hwp]. apply andb_true_iff in Hok' as [Hreg Hsl].
  pose proof Hcan as Hcan'. unfold canonical_tag in Hcan'. apply andb_true_iff in Hcan' as [Hcan' Hmk]. apply bytes_eqb_eq in Hmk.
  unfold canonical in Hcan'.
  apply andb_true_iff in Hcan' as [Hcan' Hcu]. apply andb_true_iff in Hcan' as [Hcan' Hcv].
  apply andb_true_iff in Hcan' as [Hcan' Hcf]. apply andb_true_iff in Hcan' as [Hlen Hcp].
  assert (A1 : widths_ok (recover d)).
  { unfold widths_ok. split; [|split]; intros sl Hs; split.
    * pose proof (forallb_In _ _ sl Hwp Hs) as Hx. apply andb_true_iff in Hx as [Ha Hb]. apply Nat.leb_le in Ha. exact Ha.
    * pose proof (forallb_In _ _ sl Hwp Hs) as Hx. apply andb_true_iff in Hx as [Ha Hb]. apply N.ltb_lt in Hb. exact Hb.
    * pose proof (forallb_In _ _ sl Hwf Hs) as Hx. apply andb_true_iff in Hx as [Ha Hb]. apply Nat.leb_le in Ha. exact Ha.
    * pose proof (forallb_In _ _ sl Hwf Hs) as Hx. apply andb_true_iff in Hx as [Ha Hb]. apply N.ltb_lt in Hb. exact Hb.
    * pose proof (forallb_In _ _ sl Hwv Hs) as Hx. apply andb_true_iff in Hx as [Ha Hb]. apply Nat.leb_le in Ha. exact Ha.
    * pose proof (forallb_In _ _ sl Hwv Hs) as Hx. apply andb_true_iff in Hx as [Ha Hb]. apply N.ltb_lt in Hb. exact Hb. }
  assert (A2 : canon_vals (recover d) v).
  { unfold canon_vals. split; [|split]; intros sl Hs; [exact (forallb_In _ _ sl Hcp Hs) | exact (forallb_In _ _ sl Hcf Hs) | exact (forallb_In _ _ sl Hcv Hs)]. }
  assert (A5 : marker_ok (tv_marker v) = true) by (rewrite Hmk; exact Hmarker).
  unfold guard_admits, guard_static in *.
  destruct (l_cmp (recover d)).
  - apply andb_true_iff in Hgs as [Hg1 Hg2]. apply Nat.leb_le in Hg1.
    pose proof (text_length_ge (recover d) _ v (variable && t_format_takes_options d) A1 A2 eq_refl A5) as Hlen'.
    destruct (t_format_takes_options d) eqn:Et; cbn [negb orb andb] in *.
    + apply Nat.leb_le in Hg2. rewrite andb_true_r in *. destruct variable; lia.
    + rewrite andb_false_r in *. lia.
  - apply andb_true_iff in Hgs as [Hgs Hg3]. apply andb_true_iff in Hgs as [Hg1 Hg2]. apply Nat.eqb_eq in Hg3.
    apply negb_true_iff in Hg1. rewrite Hg1, andb_false_r.
    destruct (l_fixed (recover d)) eqn:Ef; [|discriminate Hg2]. destruct (l_var (recover d)) eqn:Ev; [|discriminate Hg2].
    rewrite (text_length_prefix_only (recover d) _ v false A1 A2 eq_refl A5 Ef Ev). symmetry. exact Hg3.
Qed.
