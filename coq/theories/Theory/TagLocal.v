(* A tag's own Validate reads nothing but that tag: its verdict inside a message is its verdict alone
   (what the reader computes per segment). Per-run obligation on the regenerated programs + proof. *)
From Wire Require Import Base.Bytes Model.Validators Model.GoV Model.Codec Model.Message Model.Reader.
From Wire Require Import Theory.BytesFacts Theory.ReaderFacts.
From WireGen Require Import Tags Verify.

Fixpoint local_s (t : nat) (e : sexpr) : bool :=
  match e with
  | SLit _ => true
  | SField t' _ | SMarker t' => Nat.eqb t' t
  | SCat a b => local_s t a && local_s t b
  | STrim a | STrimByte _ a => local_s t a
  end.

Fixpoint local_b (t : nat) (e : bexpr) : bool :=
  match e with
  | BTrue | BFalse => true
  | BEq a b => local_s t a && local_s t b
  | BNil t' => Nat.eqb t' t
  | BNot a => local_b t a
  | BAnd a b | BOr a b => local_b t a && local_b t b
  | BIn a _ | BLenGt a _ | BPrimErr _ a => local_s t a
  | BOptsNil | BOptSkipIMAD | BOptAllowMissingSS | BRequireSS => false
  end.

Fixpoint local_st (t : nat) (s : stmt) : bool :=
  match s with
  | TSkip | TRetNil | TRetErr _ _ | TUnsupported _ => true
  | TSeq a b => local_st t a && local_st t b
  | TIf c th el => local_b t c && local_st t th && local_st t el
  | TCheck _ a _ => local_s t a
  | TScope b => local_st t b
  | TValidate _ => false
  end.

Lemma eval_s_local t m1 m2 e : get_tag m1 t = get_tag m2 t -> local_s t e = true -> eval_s m1 e = eval_s m2 e.
Proof.
  intros Hg. induction e as [b|t' i|t'|a IHa b IHb|a IHa|c a IHa]; cbn [local_s eval_s]; intros H; try reflexivity.
  - apply Nat.eqb_eq in H. subst t'. rewrite Hg. reflexivity.
  - apply Nat.eqb_eq in H. subst t'. rewrite Hg. reflexivity.
  - apply andb_true_iff in H as [Ha Hb]. rewrite (IHa Ha), (IHb Hb). reflexivity.
  - rewrite (IHa H). reflexivity.
  - rewrite (IHa H). reflexivity.
Qed.

Lemma eval_b_local t m1 m2 e : get_tag m1 t = get_tag m2 t -> local_b t e = true -> eval_b m1 e = eval_b m2 e.
Proof.
  intros Hg. induction e; cbn [local_b eval_b]; intros H; try reflexivity; try discriminate H.
  - apply andb_true_iff in H as [Ha Hb]. rewrite (eval_s_local t m1 m2 a Hg Ha), (eval_s_local t m1 m2 b Hg Hb). reflexivity.
  - apply Nat.eqb_eq in H. subst. rewrite Hg. reflexivity.
  - rewrite (IHe H). reflexivity.
  - apply andb_true_iff in H as [Ha Hb]. rewrite (IHe1 Ha), (IHe2 Hb). reflexivity.
  - apply andb_true_iff in H as [Ha Hb]. rewrite (IHe1 Ha), (IHe2 Hb). reflexivity.
  - rewrite (eval_s_local t m1 m2 a Hg H). reflexivity.
  - rewrite (eval_s_local t m1 m2 a Hg H). reflexivity.
  - rewrite (eval_s_local t m1 m2 a Hg H). reflexivity.
Qed.

Lemma exec_local t tv1 tv2 m1 m2 s : get_tag m1 t = get_tag m2 t -> local_st t s = true -> exec tv1 m1 s = exec tv2 m2 s.
Proof.
  intros Hg. induction s; cbn [local_st exec]; intros H; try reflexivity; try discriminate H.
  - apply andb_true_iff in H as [Ha Hb]. rewrite (IHs1 Ha), (IHs2 Hb). reflexivity.
  - apply andb_true_iff in H as [H Hel]. apply andb_true_iff in H as [Hc Hth].
    rewrite (eval_b_local t m1 m2 c Hg Hc), (IHs1 Hth), (IHs2 Hel). reflexivity.
  - rewrite (eval_s_local t m1 m2 a Hg H). reflexivity.
  - rewrite (IHs H). reflexivity.
Qed.

Definition ob_tags_local : bool :=
  forallb (fun t => local_st t (nth t validate_progs (TUnsupported "no program"))) (seq 0 ntags).

Lemma tags_local : ob_tags_local = true.
Proof. vm_compute. reflexivity. Qed.

(* the verdict the reader computes for a parsed segment = the tag's verdict inside any message holding that value *)
Theorem validate_alone_is_tag_verdict m t v : t < ntags -> get_tag m t = Some v -> validate_alone t v = tagv_of m t.
Proof.
  intros Ht Hg. unfold validate_alone, tagv_of, run_tag_validate.
  set (m' := {| m_tags := set_tag t v empty_tags; m_opts := None |}).
  assert (Hg' : get_tag m' t = Some v).
  { unfold get_tag, m'. cbn [m_tags]. rewrite nth_set_tag, Nat.eqb_refl, empty_tags_length.
    destruct (t <? ntags) eqn:E; [reflexivity|apply Nat.ltb_ge in E; lia]. }
  rewrite Hg, Hg'. f_equal.
  pose proof tags_local as Hl. unfold ob_tags_local in Hl. rewrite forallb_forall in Hl.
  apply (exec_local t). { rewrite Hg, Hg'. reflexivity. }
  apply Hl. apply in_seq. lia.
Qed.
