(* Facts about the REGENERATED verify() and Validate() programs. The generic lemmas are proved once;
   the per-run obligations are closed boolean computations on the tables produced by the translator
   from /repo's current source (vm_compute). If the source changes a rule, an obligation evaluates
   to false and this file stops compiling. *)
From Wire Require Import Base.Bytes Model.Validators Model.GoV Model.Codec Model.DL Model.Message
     Theory.BytesFacts Theory.DLFacts Spec.Rules.
From WireGen Require Import Tags Verify.


Definition stuck_dl : list entry := [mk [] KStuck].
Definition vdl : list entry := match compile_top verify_prog with Some l => l | None => stuck_dl end.
Definition tdl (t : nat) : list entry :=
  match compile_top (nth t validate_progs (TUnsupported "no program")) with Some l => l | None => stuck_dl end.
Definition present (t : nat) : cube := [(AB (BNil t), false)].

(* ---- programs that never call another tag's Validate do not depend on the tag oracle ---- *)
Fixpoint no_validate (s : stmt) : bool :=
  match s with
  | TSeq a b => no_validate a && no_validate b
  | TIf _ a b => no_validate a && no_validate b
  | TScope a => no_validate a
  | TValidate _ => false
  | _ => true
  end.

Lemma exec_tagv_irrelevant tv1 tv2 m s : no_validate s = true -> exec tv1 m s = exec tv2 m s.
Proof.
  induction s as [|a IHa b IHb|c th IHt el IHe| |f e|name a f|body IH|t|src]; simpl; intros H; try reflexivity.
  - apply andb_true_iff in H as [Ha Hb]. rewrite (IHa Ha), (IHb Hb). reflexivity.
  - apply andb_true_iff in H as [Ha Hb]. rewrite (IHt Ha), (IHe Hb). reflexivity.
  - rewrite (IH H). reflexivity.
  - discriminate H.
Qed.

(* ---- programs that never read the validation options ---- *)
Fixpoint opt_free_b (b : bexpr) : bool :=
  match b with
  | BNot a => opt_free_b a
  | BAnd a c | BOr a c => opt_free_b a && opt_free_b c
  | BOptsNil | BOptSkipIMAD | BOptAllowMissingSS | BRequireSS => false
  | _ => true
  end.

Fixpoint opt_free (s : stmt) : bool :=
  match s with
  | TSeq a b => opt_free a && opt_free b
  | TIf c a b => opt_free_b c && opt_free a && opt_free b
  | TScope a => opt_free a
  | _ => true
  end.

Definition with_opts (m : message) (o : option (bool * bool)) : message :=
  {| m_tags := m_tags m; m_opts := o |}.

Lemma eval_s_opts m o e : eval_s (with_opts m o) e = eval_s m e.
Proof. induction e; simpl; try reflexivity; try (rewrite IHe; reflexivity). rewrite IHe1, IHe2. reflexivity. Qed.

Lemma eval_b_opts m o b : opt_free_b b = true -> eval_b (with_opts m o) b = eval_b m b.
Proof.
  induction b as [| |x y|t|a IHa|a IHa c IHc|a IHa c IHc|x l|x n|n x| | | |]; simpl; intros H;
    try reflexivity; try discriminate H; rewrite ?eval_s_opts; try reflexivity.
  - rewrite (IHa H). reflexivity.
  - apply andb_true_iff in H as [Ha Hc]. rewrite (IHa Ha), (IHc Hc). reflexivity.
  - apply andb_true_iff in H as [Ha Hc]. rewrite (IHa Ha), (IHc Hc). reflexivity.
Qed.

Lemma exec_opts tv m o s : opt_free s = true -> exec tv (with_opts m o) s = exec tv m s.
Proof.
  induction s as [|a IHa b IHb|c th IHt el IHe| |f e|name a f|body IH|t|src]; simpl; intros H; try reflexivity.
  - apply andb_true_iff in H as [Ha Hb]. rewrite (IHa Ha), (IHb Hb). reflexivity.
  - apply andb_true_iff in H as [H Hb]. apply andb_true_iff in H as [Hc Ha].
    rewrite (eval_b_opts m o c Hc), (IHt Ha), (IHe Hb). reflexivity.
  - rewrite eval_s_opts. reflexivity.
  - rewrite (IH H). reflexivity.
Qed.

(* ===================== per-run obligations (closed computations) ===================== *)
Definition ob_verify_compiles : bool := match compile_top verify_prog with Some _ => true | None => false end.
Definition ob_tags_compile : bool :=
  forallb (fun s => match compile_top s with Some _ => true | None => false end) validate_progs.
Definition ob_tags_no_validate : bool := forallb no_validate validate_progs.
Definition ob_tags_opt_free : bool := forallb opt_free validate_progs.
Definition ob_verify_panic_free : bool := panic_free vdl.
Definition ob_tags_panic_free : bool := forallb (fun t => panic_free_under (present t) (tdl t)) (seq 0 ntags).
(* every reject entry of the code is unreachable or implies a documented rule *)
Definition ob_code_within_rules : bool :=
  forallb (fun e => unsat (en_g e) || existsb (fun s => forallb (entails (en_g e)) s) rule_cubes) (rejects_of vdl).
(* every documented rule is enforced by some reject entry of the code *)
Definition ob_rules_enforced : bool := forallb (rejected vdl) rule_cubes.
Definition ob_file_validate_is_verify : bool := file_validate_is_verify.

Lemma verify_compiles : ob_verify_compiles = true. Proof. vm_compute. reflexivity. Qed.
Lemma tags_compile : ob_tags_compile = true. Proof. vm_compute. reflexivity. Qed.
Lemma tags_no_validate : ob_tags_no_validate = true. Proof. vm_compute. reflexivity. Qed.
Lemma tags_opt_free : ob_tags_opt_free = true. Proof. vm_compute. reflexivity. Qed.
Lemma verify_panic_free : ob_verify_panic_free = true. Proof. vm_compute. reflexivity. Qed.
Lemma tags_panic_free : ob_tags_panic_free = true. Proof. vm_compute. reflexivity. Qed.
Lemma code_within_rules : ob_code_within_rules = true. Proof. vm_compute. reflexivity. Qed.
Lemma rules_enforced : ob_rules_enforced = true. Proof. vm_compute. reflexivity. Qed.
Lemma file_validate_wraps_verify : ob_file_validate_is_verify = true. Proof. vm_compute. reflexivity. Qed.

Lemma verify_panic_free_u : panic_free_under [] vdl = true. Proof. exact verify_panic_free. Qed.

(* ===================== consequences ===================== *)
Lemma vdl_eq : compile_top verify_prog = Some vdl.
Proof. pose proof verify_compiles as H. unfold ob_verify_compiles, vdl in *. destruct (compile_top verify_prog); [reflexivity|discriminate]. Qed.

Lemma nth_validate_progs t : t < ntags -> In (nth t validate_progs (TUnsupported "no program")) validate_progs.
Proof. intros H. apply nth_In. unfold validate_progs. rewrite map_length. exact H. Qed.

Lemma tdl_eq t : t < ntags -> compile_top (nth t validate_progs (TUnsupported "no program")) = Some (tdl t).
Proof.
  intros Ht. pose proof tags_compile as H. unfold ob_tags_compile in H. rewrite forallb_forall in H.
  specialize (H _ (nth_validate_progs t Ht)). unfold tdl.
  destruct (compile_top (nth t validate_progs (TUnsupported "no program"))); [reflexivity|discriminate].
Qed.

(* from here on the big regenerated tables are never unfolded by tactics *)
Global Opaque vdl tdl rule_cubes verify_prog validate_progs tags ntags option_rules plain_rules.

Lemma present_lt m t : wf_msg m -> is_none (get_tag m t) = false -> t < ntags.
Proof.
  unfold wf_msg, get_tag. intros Hw Hp.
  destruct (Nat.lt_ge_cases t ntags) as [H|H]; [exact H|].
  rewrite nth_overflow in Hp by lia. discriminate Hp.
Qed.

Lemma present_holds tv m t : is_none (get_tag m t) = false -> cube_holds tv m (present t) = true.
Proof.
  unfold present, cube_holds, lit_holds. simpl. destruct (get_tag m t); [reflexivity|discriminate].
Qed.

(* a tag's own Validate never panics and never gets stuck *)
Theorem tag_validate_clean m t :
  wf_msg m -> is_none (get_tag m t) = false -> clean (tagv_of m t) = true.
Proof.
  intros Hw Hp. pose proof (present_lt m t Hw Hp) as Ht.
  unfold tagv_of, run_tag_validate. destruct (get_tag m t) eqn:Hg; [|discriminate Hp].
  rewrite (compile_top_exact (fun _ => Stuck) m _ (tdl t) (tdl_eq t Ht)).
  pose proof tags_panic_free as H. unfold ob_tags_panic_free in H. rewrite forallb_forall in H.
  assert (Hin : In t (seq 0 ntags)) by (apply in_seq; lia). specialize (H t Hin).
  (* the tag program has no KRejTag entries that matter: use an oracle that is clean *)
  pose proof tags_no_validate as Hnv. unfold ob_tags_no_validate in Hnv. rewrite forallb_forall in Hnv.
  specialize (Hnv _ (nth_validate_progs t Ht)).
  rewrite <- (compile_top_exact (fun _ => Stuck) m _ (tdl t) (tdl_eq t Ht)).
  rewrite (exec_tagv_irrelevant (fun _ => Stuck) (fun _ => Accept) m _ Hnv).
  rewrite (compile_top_exact (fun _ => Accept) m _ (tdl t) (tdl_eq t Ht)).
  assert (Hc : clean_o (dl_eval (fun _ => Accept) m (tdl t)) = true).
  { apply (panic_free_sound (fun _ => Accept) m (fun _ _ => eq_refl) (present t) (tdl t) H).
    apply present_holds. rewrite Hg. reflexivity. }
  destruct (dl_eval (fun _ => Accept) m (tdl t)) as [|v]; [reflexivity|].
  cbn [clean_o] in Hc. apply andb_true_iff in Hc as [Hc _]. exact Hc.
Qed.

Lemma verify_dl m : verify m = verdict_of (dl_eval (tagv_of m) m vdl).
Proof. unfold verify, run_verify. apply (compile_top_exact (tagv_of m) m verify_prog vdl vdl_eq). Qed.

Lemma nil_holds tv m : cube_holds tv m [] = true.
Proof. reflexivity. Qed.

(* C03(b): validating any message never panics (nor meets an untranslated construct) *)
Theorem verify_clean m : wf_msg m -> clean (verify m) = true.
Proof.
  intros Hw. rewrite verify_dl.
  pose proof (panic_free_sound (tagv_of m) m (fun t Hp => tag_validate_clean m t Hw Hp) [] vdl verify_panic_free_u (nil_holds _ _)) as H.
  destruct (dl_eval (tagv_of m) m vdl) as [|v]; [reflexivity|].
  cbn [clean_o] in H. apply andb_true_iff in H as [H _]. exact H.
Qed.

(* C05: acceptance is an order-free function of the reject guards *)
Theorem verify_accept_iff_no_reject m :
  wf_msg m ->
  (verify m = Accept <-> forall e, In e (rejects_of vdl) -> entry_holds (tagv_of m) m e = false).
Proof.
  intros Hw. rewrite verify_dl.
  apply (accept_iff_no_reject_holds (tagv_of m) m (fun t Hp => tag_validate_clean m t Hw Hp) [] vdl verify_panic_free_u (nil_holds _ _)).
Qed.

(* C05: accepted exactly when no documented rule cube holds *)
Theorem verify_accept_iff_rules m :
  wf_msg m ->
  (verify m = Accept <-> forall s, In s rule_cubes -> cube_holds (tagv_of m) m s = false).
Proof.
  intros Hw. rewrite (verify_accept_iff_no_reject m Hw). split.
  - intros H s Hs.
    destruct (cube_holds (tagv_of m) m s) eqn:Hc; [|reflexivity]. exfalso.
    pose proof rules_enforced as Hr. unfold ob_rules_enforced in Hr. rewrite forallb_forall in Hr.
    specialize (Hr s Hs). unfold rejected in Hr. apply existsb_exists in Hr as [e [Hin Hf]].
    pose proof (H e Hin) as Hn. rewrite (forces_sound (tagv_of m) m s e Hf Hc) in Hn. discriminate Hn.
  - intros H e He.
    destruct (entry_holds (tagv_of m) m e) eqn:Hh; [|reflexivity]. exfalso.
    pose proof code_within_rules as Hr. unfold ob_code_within_rules in Hr. rewrite forallb_forall in Hr.
    specialize (Hr e He). unfold entry_holds in Hh. apply andb_true_iff in Hh as [Hg _].
    apply orb_true_iff in Hr as [Hu|Hx].
    + rewrite (unsat_sound (tagv_of m) m _ Hu) in Hg. discriminate Hg.
    + apply existsb_exists in Hx as [s [Hs Hall]].
      assert (Hc : cube_holds (tagv_of m) m s = true).
      { unfold cube_holds. rewrite forallb_forall in Hall |- *. intros l Hl.
        apply (entails_sound (tagv_of m) m (en_g e) l (Hall l Hl) Hg). }
      rewrite (H s Hs) in Hc. discriminate Hc.
Qed.
