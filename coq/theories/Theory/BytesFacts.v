(* Generic facts about the byte-string primitives of Base/Bytes.v. *)
From Wire Require Import Base.Bytes.

Lemma beqb_eq a b : beqb a b = true <-> a = b.
Proof.
  unfold beqb. split.
  - apply Byte.byte_dec_bl.
  - intros ->. apply Byte.byte_dec_lb. reflexivity.
Qed.

Lemma beqb_refl a : beqb a a = true.
Proof. apply beqb_eq. reflexivity. Qed.

Lemma beqb_neq a b : beqb a b = false <-> a <> b.
Proof.
  split.
  - intros H E. apply beqb_eq in E. congruence.
  - intros H. destruct (beqb a b) eqn:E; [apply beqb_eq in E; contradiction | reflexivity].
Qed.

Lemma bytes_eqb_eq a b : bytes_eqb a b = true <-> a = b.
Proof.
  revert b. induction a as [|x a IH]; intros [|y b]; simpl; split; try congruence; try discriminate.
  - intros H. apply andb_true_iff in H as [H1 H2]. apply beqb_eq in H1. apply IH in H2. congruence.
  - intros H. inversion H; subst. apply andb_true_iff. split; [apply beqb_refl | apply IH; reflexivity].
Qed.

Lemma bytes_eqb_refl a : bytes_eqb a a = true.
Proof. apply bytes_eqb_eq. reflexivity. Qed.

Lemma mem_bytes_In x l : mem_bytes x l = true <-> In x l.
Proof.
  unfold mem_bytes. rewrite existsb_exists. split.
  - intros [y [Hy E]]. apply bytes_eqb_eq in E. subst. exact Hy.
  - intros H. exists x. split; [exact H | apply bytes_eqb_refl].
Qed.

Lemma forallb_rev {A} (p : A -> bool) l : forallb p (rev l) = forallb p l.
Proof.
  induction l as [|x l IH]; simpl; [reflexivity|].
  rewrite forallb_app, IH. simpl. rewrite andb_true_r. apply andb_comm.
Qed.

Lemma forallb_drop_while_same p c s :
  p c = true -> forallb p (drop_while (beqb c) s) = forallb p s.
Proof.
  intros Hc. induction s as [|b s IH]; simpl; [reflexivity|].
  destruct (beqb c b) eqn:E.
  - apply beqb_eq in E. subst b. rewrite Hc. simpl. exact IH.
  - reflexivity.
Qed.

Lemma forallb_trim_byte p c s : p c = true -> forallb p (trim_byte c s) = forallb p s.
Proof.
  intros Hc. unfold trim_byte.
  rewrite forallb_rev, forallb_drop_while_same, forallb_rev, forallb_drop_while_same by exact Hc.
  reflexivity.
Qed.

(* ---- rune counting ---- *)
Lemma rune_width_pos b t : 1 <= rune_width (b :: t).
Proof.
  unfold rune_width.
  repeat match goal with
         | |- context [if ?c then _ else _] => destruct c
         | |- context [match ?l with [] => _ | _ :: _ => _ end] => destruct l
         end; lia.
Qed.

Lemma rune_count_fuel_le f s : rune_count_fuel f s <= length s.
Proof.
  revert s. induction f as [|f IH]; intros s; simpl; [lia|].
  destruct s as [|b t]; [simpl; lia|].
  pose proof (rune_width_pos b t) as Hw.
  specialize (IH (skipn (rune_width (b :: t)) (b :: t))).
  rewrite skipn_length in IH. simpl length in *. lia.
Qed.

Lemma rune_count_le s : rune_count s <= length s.
Proof. apply rune_count_fuel_le. Qed.

Definition is_ascii (b : byte) : bool := (bN b <? 128)%N.

Lemma rune_width_ascii b t : is_ascii b = true -> rune_width (b :: t) = 1.
Proof. unfold is_ascii, rune_width. intros ->. reflexivity. Qed.

Lemma rune_count_fuel_any f1 f2 s :
  length s <= f1 -> length s <= f2 -> rune_count_fuel f1 s = rune_count_fuel f2 s.
Proof.
  revert f2 s. induction f1 as [|f1 IH]; intros f2 s H1 H2.
  - destruct s; [destruct f2; reflexivity | simpl in H1; lia].
  - destruct s as [|b t]; [destruct f2; reflexivity|].
    destruct f2 as [|f2]; [simpl in H2; lia|].
    cbn [rune_count_fuel].
    pose proof (rune_width_pos b t) as Hw.
    set (r := skipn (rune_width (b :: t)) (b :: t)).
    assert (Hr : length r <= length t).
    { unfold r. rewrite skipn_length. cbn [length]. lia. }
    cbn [length] in H1, H2.
    f_equal. apply IH; lia.
Qed.

Lemma rune_count_fuel_mono f s : length s <= f -> rune_count_fuel f s = rune_count_fuel (length s) s.
Proof. intros H. apply rune_count_fuel_any; [exact H | lia]. Qed.

Lemma rune_count_cons_ascii b t : is_ascii b = true -> rune_count (b :: t) = S (rune_count t).
Proof.
  intros Hb. unfold rune_count. cbn [length rune_count_fuel].
  rewrite (rune_width_ascii b t Hb). cbn [skipn]. reflexivity.
Qed.

Lemma rune_count_nil : rune_count [] = 0.
Proof. reflexivity. Qed.

Lemma rune_count_ascii s : forallb is_ascii s = true -> rune_count s = length s.
Proof.
  induction s as [|b t IH]; [reflexivity|].
  simpl. intros H. apply andb_true_iff in H as [Hb Ht].
  rewrite rune_count_cons_ascii by exact Hb. rewrite IH by exact Ht. reflexivity.
Qed.

Lemma rune_count_pos b t : 1 <= rune_count (b :: t).
Proof. unfold rune_count. cbn [length rune_count_fuel]. lia. Qed.

Lemma forallb_ext {A} (f g : A -> bool) l : (forall x, f x = g x) -> forallb f l = forallb g l.
Proof. intros H. induction l as [|x l IH]; simpl; [reflexivity|]. rewrite H, IH. reflexivity. Qed.
