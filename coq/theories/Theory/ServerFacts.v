(* Facts about the HTTP file store model (Model/Server.v): the store is a map (C16, sequential part),
   concurrent single-call handlers linearize at their repository call (C16, concurrent part), and
   every stored file is valid and can be rendered (C17). *)
From Coq Require Import Permutation.
From Wire Require Import Base.Bytes Model.GoV Model.Codec Model.Message Model.Writer Model.Reader Model.Server.
From Wire Require Import Theory.BytesFacts Theory.ReaderFacts Theory.WriterFacts.

(* ---------- the store is a map from identifier to file ---------- *)
Lemma bytes_eqb_neq a b : bytes_eqb a b = false <-> a <> b.
Proof.
  split.
  - intros H E. subst. rewrite bytes_eqb_refl in H. discriminate.
  - intros H. destruct (bytes_eqb a b) eqn:E; [|reflexivity]. apply bytes_eqb_eq in E. contradiction.
Qed.

Lemma st_get_del_same s id : st_get (st_del s id) id = None.
Proof.
  induction s as [|[k m] r IH]; cbn [st_del st_get]; [reflexivity|].
  destruct (bytes_eqb k id) eqn:E; [exact IH|]. cbn [st_get]. rewrite E. exact IH.
Qed.

Lemma st_get_del_other s id id' : id <> id' -> st_get (st_del s id) id' = st_get s id'.
Proof.
  intros Hne. induction s as [|[k m] r IH]; cbn [st_del st_get]; [reflexivity|].
  destruct (bytes_eqb k id) eqn:E.
  - apply bytes_eqb_eq in E. subst k. destruct (bytes_eqb id id') eqn:E2; [apply bytes_eqb_eq in E2; contradiction|exact IH].
  - cbn [st_get]. destruct (bytes_eqb k id'); [reflexivity|exact IH].
Qed.

Theorem get_after_put s id m id' :
  st_get (st_put s id m) id' = if bytes_eqb id id' then Some m else st_get s id'.
Proof.
  unfold st_put. cbn [st_get]. destruct (bytes_eqb id id') eqn:E; [reflexivity|].
  apply st_get_del_other. apply bytes_eqb_neq. exact E.
Qed.

Theorem get_after_delete s id id' :
  st_get (st_del s id) id' = if bytes_eqb id id' then None else st_get s id'.
Proof.
  destruct (bytes_eqb id id') eqn:E.
  - apply bytes_eqb_eq in E. subst. apply st_get_del_same.
  - apply st_get_del_other. apply bytes_eqb_neq. exact E.
Qed.

Theorem delete_idempotent s id : st_del (st_del s id) id = st_del s id.
Proof.
  induction s as [|[k m] r IH]; cbn [st_del]; [reflexivity|].
  destruct (bytes_eqb k id) eqn:E; [exact IH|]. cbn [st_del]. rewrite E, IH. reflexivity.
Qed.

Lemma keys_del s id k : In k (map fst (st_del s id)) <-> In k (map fst s) /\ k <> id.
Proof.
  induction s as [|[k0 m] r IH]; cbn [st_del map fst In]; [tauto|].
  destruct (bytes_eqb k0 id) eqn:E.
  - apply bytes_eqb_eq in E. subst k0. rewrite IH. split; [tauto|]. intros [[->|H] Hne]; [contradiction|tauto].
  - apply bytes_eqb_neq in E. cbn [map fst In]. rewrite IH. split.
    + intros [->|[H Hne]]; tauto.
    + intros [[->|H] Hne]; tauto.
Qed.

Lemma nodup_del s id : NoDup (map fst s) -> NoDup (map fst (st_del s id)).
Proof.
  induction s as [|[k m] r IH]; cbn [st_del map fst]; intros H; [constructor|].
  inversion H as [|? ? Hn Hr]; subst. destruct (bytes_eqb k id); [auto|].
  cbn [map fst]. constructor; [|auto]. rewrite keys_del. tauto.
Qed.

Lemma nodup_put s id m : NoDup (map fst s) -> NoDup (map fst (st_put s id m)).
Proof.
  intros H. unfold st_put. cbn [map fst]. constructor; [|apply nodup_del; exact H].
  rewrite keys_del. tauto.
Qed.

(* an identifier is listed exactly when get finds it *)
Theorem listed_iff_found s id : In id (map fst s) <-> st_get s id <> None.
Proof.
  induction s as [|[k m] r IH]; cbn [map fst In st_get]; [tauto|].
  destruct (bytes_eqb k id) eqn:E.
  - apply bytes_eqb_eq in E. subst. split; [discriminate|tauto].
  - apply bytes_eqb_neq in E. rewrite <- IH. tauto.
Qed.

Definition store_ok (st : sstate) : Prop := NoDup (map fst (ss_store st)).

Lemma step_with_store_ok fid st o : store_ok st -> store_ok (fst (step_with fid st o)).
Proof.
  unfold store_ok. intros H. destruct o; cbn [step_with]; try exact H.
  - destruct (read_model _ _ _ _); cbn [fst ss_store]; [apply nodup_put|]; exact H.
  - destruct (verify m); cbn [fst]; try exact H. destruct id; cbn [fst ss_store]; apply nodup_put; exact H.
  - destruct (st_get _ _); cbn [fst]; [|exact H]. destruct (verify m); cbn [fst ss_store]; try exact H. apply nodup_put; exact H.
  - cbn [fst ss_store]. apply nodup_del; exact H.
Qed.

(* every reachable state lists each file once: the count header equals the number of files *)
Fixpoint run_state (st : sstate) (ops : list op) : sstate :=
  match ops with [] => st | o :: r => run_state (fst (step st o)) r end.

Theorem reachable_store_ok ops : store_ok (run_state init ops).
Proof.
  assert (G : forall st, store_ok st -> store_ok (run_state st ops)).
  { induction ops as [|o r IH]; intros st H; cbn [run_state]; [exact H|]. apply IH. apply step_with_store_ok. exact H. }
  apply G. constructor.
Qed.

(* ---------- what each request answers, in terms of the map ---------- *)
Theorem get_answers_map st id :
  step st (OGet id) = (st, match st_get (ss_store st) id with Some m => ROkFile id m | None => RNotFound end).
Proof. reflexivity. Qed.

Theorem list_answers_map st : step st OList = (st, ROkList (map fst (ss_store st))).
Proof. reflexivity. Qed.

Theorem delete_answers st id :
  exists st', step st (ODelete id) = (st', ROkPlain) /\ ss_store st' = st_del (ss_store st) id.
Proof. eexists. split; reflexivity. Qed.

Theorem create_with_id_replaces st id m st' :
  id <> [] -> step st (OCreateMsg id m) = (st', RCreated id) ->
  forall id', st_get (ss_store st') id' = if bytes_eqb id id' then Some m else st_get (ss_store st) id'.
Proof.
  intros Hid H id'. unfold step in H. cbn [step_with] in H. destruct (verify m); try discriminate H.
  destruct id as [|b t]; [contradiction|]. injection H as <-. cbn [ss_store]. apply get_after_put.
Qed.

(* ---------- C17: every stored file is valid ---------- *)
Definition wf_op (o : op) : Prop :=
  match o with OCreateMsg _ m | OAdd _ m => wf_msg m | _ => True end.

Definition stored_valid (st : sstate) : Prop :=
  forall id m, st_get (ss_store st) id = Some m -> wf_msg m /\ verify m = Accept.

Lemma stored_valid_put st id m c f :
  stored_valid st -> wf_msg m -> verify m = Accept ->
  stored_valid {| ss_store := st_put (ss_store st) id m; ss_created := c; ss_fresh := f |}.
Proof.
  intros H Hw Hv id' m'. cbn [ss_store]. rewrite get_after_put. destruct (bytes_eqb id id'); [|apply H].
  intros E. injection E as <-. auto.
Qed.

Lemma step_with_stored_valid fid st o : wf_op o -> stored_valid st -> stored_valid (fst (step_with fid st o)).
Proof.
  intros Hwf H. destruct o; cbn [step_with]; try exact H.
  - destruct (read_model None (query_opts skip allow) [body] FEOF) as [m|] eqn:R; cbn [fst]; [|exact H].
    destruct (accepted_is_valid _ _ _ _ _ R) as (Hw & Hv & _). apply stored_valid_put; assumption.
  - destruct (verify m) eqn:Hv; cbn [fst]; try exact H. destruct id; cbn [fst]; apply stored_valid_put; assumption.
  - destruct (st_get _ _); cbn [fst]; [|exact H]. destruct (verify m) eqn:Hv; cbn [fst]; try exact H. apply stored_valid_put; assumption.
  - cbn [fst]. intros id' m'. cbn [ss_store]. rewrite get_after_delete. destruct (bytes_eqb id id'); [discriminate|apply H].
Qed.

Theorem reachable_stored_valid ops : Forall wf_op ops -> stored_valid (run_state init ops).
Proof.
  assert (G : forall st, Forall wf_op ops -> stored_valid st -> stored_valid (run_state st ops)).
  { induction ops as [|o r IH]; intros st Hf H; cbn [run_state]; [exact H|].
    inversion Hf; subst. apply IH; [assumption|]. apply step_with_stored_valid; assumption. }
  intros Hf. apply G; [exact Hf|]. intros id m H. discriminate H.
Qed.

(* the validate endpoint answers 200 exactly when library validation accepts the stored file *)
Theorem validate_endpoint_faithful st id m :
  st_get (ss_store st) id = Some m ->
  snd (step st (OValidate id)) = match verify m with Accept => ROkPlain | _ => RBad end.
Proof. intros H. unfold step. cbn [step_with snd]. rewrite H. reflexivity. Qed.

(* a stored file always validates and its contents can always be rendered, in every layout *)
Theorem stored_file_validates_and_renders st id m fmt nl variable sep :
  stored_valid st -> st_get (ss_store st) id = Some m -> writer_params fmt nl = Some (variable, sep) ->
  snd (step st (OValidate id)) = ROkPlain /\
  exists t, write_model m variable sep = WOk t /\ snd (step st (OContents id fmt nl)) = ROkBody t.
Proof.
  intros Hs Hg Hp. destruct (Hs id m Hg) as [Hw Hv]. split.
  - rewrite (validate_endpoint_faithful st id m Hg), Hv. reflexivity.
  - destruct (proj1 (write_succeeds_iff_valid m variable sep Hw formats_total_true) Hv) as [t Ht].
    exists t. split; [exact Ht|]. unfold step. cbn [step_with snd]. rewrite Hg, Hp, Ht. reflexivity.
Qed.

(* create answers 201 exactly when the library accepts the body, and stores what the library produced *)
Theorem create_text_faithful st skip allow body :
  match read_model None (query_opts skip allow) [body] FEOF with
  | ROk m => exists id st', step st (OCreateText skip allow body) = (st', RCreated id) /\ st_get (ss_store st') id = Some m
  | RErrors _ => step st (OCreateText skip allow body) = (st, RBad)
  end.
Proof.
  unfold step. cbn [step_with]. destruct (read_model _ _ _ _) as [m|]; [|reflexivity].
  eexists. eexists. split; [reflexivity|]. cbn [ss_store]. rewrite get_after_put, bytes_eqb_refl. reflexivity.
Qed.

Theorem create_json_faithful st id m :
  match verify m with
  | Accept => exists id' st', step st (OCreateMsg id m) = (st', RCreated id') /\ st_get (ss_store st') id' = Some m /\ (id <> [] -> id' = id)
  | _ => step st (OCreateMsg id m) = (st, RBad)
  end.
Proof.
  unfold step. cbn [step_with]. destruct (verify m); try reflexivity.
  destruct id as [|b t].
  - eexists. eexists. split; [reflexivity|]. cbn [ss_store]. rewrite get_after_put, bytes_eqb_refl. split; [reflexivity|]. intros H; contradiction.
  - eexists. eexists. split; [reflexivity|]. cbn [ss_store]. rewrite get_after_put, bytes_eqb_refl. split; [reflexivity|]. reflexivity.
Qed.

(* ---------- C16, concurrent part ---------- *)
Definition atomic_op (o : op) : bool := match o with OAdd _ _ => add_is_atomic | _ => true end.

(* a request that answers without a repository call answers the same in every state and changes nothing *)
Lemma zero_step_sound o r : zero_step o = Some r -> forall fid st, step_with fid st o = (st, r).
Proof.
  intros H fid st. destruct o; cbn [zero_step] in H; try discriminate H; cbn [step_with].
  - destruct (read_model _ _ _ _); [discriminate H|]. injection H as <-. reflexivity.
  - destruct (verify m); try discriminate H; injection H as <-; reflexivity.
  - injection H as <-. reflexivity.
Qed.

Lemma grant_atomic fid st o : atomic_op o = true ->
  grant fid st (TReady o) = (fst (step_with fid st o), TDone (snd (step_with fid st o))).
Proof.
  intros Ha. destruct o; cbn [grant]; try (destruct (step_with _ _ _); reflexivity).
  cbn [atomic_op] in Ha. rewrite Ha. destruct (step_with _ _ _); reflexivity.
Qed.

Lemma run_sequential_acc ops l : forall st acc,
  run_sequential l ops st acc = (fst (run_sequential l ops st []), rev acc ++ snd (run_sequential l ops st [])).
Proof.
  induction l as [|i r IH]; intros st acc; cbn [run_sequential].
  - cbn [fst snd rev]. rewrite app_nil_r. reflexivity.
  - destruct (nth_error ops i); [|apply IH]. destruct (step_with _ _ _) as [st' a].
    rewrite (IH st' ((i, a) :: acc)), (IH st' [(i, a)]). cbn [fst snd rev app]. rewrite <- app_assoc. reflexivity.
Qed.

Lemma run_sequential_snoc ops l i o st0 st rs st' a :
  run_sequential l ops st0 [] = (st, rs) -> nth_error ops i = Some o -> step_with (thread_fid i) st o = (st', a) ->
  run_sequential (l ++ [i]) ops st0 [] = (st', rs ++ [(i, a)]).
Proof.
  revert st0 st rs. induction l as [|j r IH]; intros st0 st rs H Ho Hs; cbn [app run_sequential] in *.
  - injection H as <- <-. rewrite Ho, Hs. reflexivity.
  - destruct (nth_error ops j); [|eapply IH; eauto].
    destruct (step_with (thread_fid j) st0 o0) as [st1 b].
    rewrite run_sequential_acc in H. injection H as H1 H2.
    rewrite run_sequential_acc. cbn [rev app] in *.
    destruct (run_sequential r ops st1 []) as [st2 rs2] eqn:E. cbn [fst snd] in *. subst st2 rs.
    rewrite (IH st1 st rs2 E Ho Hs). cbn [fst snd]. reflexivity.
Qed.

Lemma nth_error_set_nth_same {A} (l : list A) i x : i < length l -> nth_error (set_nth i x l) i = Some x.
Proof. revert i. induction l as [|y t IH]; intros [|i] H; cbn in *; try lia; [reflexivity|apply IH; lia]. Qed.

Lemma nth_error_set_nth_other {A} (l : list A) i j x : i <> j -> nth_error (set_nth i x l) j = nth_error l j.
Proof.
  revert i j. induction l as [|y t IH]; intros [|i] [|j] H; cbn; try reflexivity; try congruence.
  apply IH. congruence.
Qed.

Lemma set_nth_length {A} (l : list A) i x : length (set_nth i x l) = length l.
Proof. revert i. induction l as [|y t IH]; intros [|i]; cbn; auto. Qed.

Lemma NoDup_app_one (l : list nat) i : NoDup l -> ~ In i l -> NoDup (l ++ [i]).
Proof.
  intros H Hn. induction l as [|x t IH]; cbn; [constructor; [intros []|constructor]|].
  inversion H; subst. constructor.
  - intros Hin. apply in_app_or in Hin. destruct Hin as [Hin|[->|[]]]; [contradiction|apply Hn; left; reflexivity].
  - apply IH; [assumption|]. intros Hin. apply Hn. right. exact Hin.
Qed.

(* the invariant: the current state is the sequential run of the requests that have taken their
   step, in the order lin in which they took it *)
Record sched_inv (st0 : sstate) (ops : list op) (st : sstate) (ts : list thread) (lin : list nat) : Prop := {
  si_len : length ts = length ops;
  si_nodup : NoDup lin;
  si_range : forall i, In i lin -> i < length ops;
  si_seq : exists rs, run_sequential lin ops st0 [] = (st, rs) /\
           forall i o, nth_error ops i = Some o ->
             (nth_error ts i = Some (TReady o) /\ zero_step o = None /\ ~ In i lin) \/
             (exists r, nth_error ts i = Some (TDone r) /\ zero_step o = Some r /\ ~ In i lin) \/
             (exists r, nth_error ts i = Some (TDone r) /\ In (i, r) rs /\ In i lin)
}.

Lemma sched_inv_start st0 ops : sched_inv st0 ops st0 (map start_thread ops) [].
Proof.
  constructor; [apply map_length|constructor|intros i []|]. exists []. split; [reflexivity|].
  intros i o Ho. rewrite nth_error_map, Ho. cbn [option_map]. unfold start_thread.
  destruct (zero_step o) as [r|] eqn:Z; [right; left; exists r|left]; auto.
Qed.

Lemma sched_inv_grant st0 ops st ts lin i :
  forallb atomic_op ops = true -> sched_inv st0 ops st ts lin ->
  match nth_error ts i with
  | None => True
  | Some t => let '(st', t') := grant (thread_fid i) st t in
              exists lin', sched_inv st0 ops st' (set_nth i t' ts) lin' /\ (exists r, t' = TDone r)
  end.
Proof.
  intros Hat [Hlen Hnd Hrg (rs & Hseq & Hth)].
  destruct (nth_error ts i) as [t|] eqn:Ht; [|exact I].
  assert (Hi : i < length ops). { rewrite <- Hlen. apply nth_error_Some. congruence. }
  destruct (nth_error ops i) as [o|] eqn:Ho; [|apply nth_error_None in Ho; lia].
  assert (Ha : atomic_op o = true). { rewrite forallb_forall in Hat. apply Hat. eapply nth_error_In; eauto. }
  destruct (Hth i o Ho) as [(Ht' & Hz & Hnin) | [(r & Ht' & Hz & Hnin) | (r & Ht' & Hin & Hl)]]; rewrite Ht in Ht'; injection Ht' as ->.
  - (* the thread takes its step now *)
    rewrite (grant_atomic _ _ _ Ha). destruct (step_with (thread_fid i) st o) as [st' a] eqn:Hs. cbn [fst snd].
    exists (lin ++ [i]). split; [|eauto]. constructor.
    + rewrite set_nth_length. exact Hlen.
    + apply NoDup_app_one; assumption.
    + intros j Hj. apply in_app_or in Hj. destruct Hj as [Hj|[<-|[]]]; [apply Hrg; exact Hj|exact Hi].
    + exists (rs ++ [(i, a)]). split.
      * eapply run_sequential_snoc; eauto.
      * intros j o' Ho'. destruct (Nat.eq_dec j i) as [->|Hne].
        -- right. right. exists a. rewrite nth_error_set_nth_same by lia. rewrite Ho in Ho'. injection Ho' as <-.
           split; [reflexivity|]. split; apply in_or_app; right; left; reflexivity.
        -- rewrite nth_error_set_nth_other by congruence.
           destruct (Hth j o' Ho') as [(A & B & C) | [(r & A & B & C) | (r & A & B & C)]].
           ++ left. split; [exact A|]. split; [exact B|]. intros Hin. apply in_app_or in Hin. destruct Hin as [Hin|[Hin|[]]]; [contradiction|congruence].
           ++ right. left. exists r. split; [exact A|]. split; [exact B|]. intros Hin. apply in_app_or in Hin. destruct Hin as [Hin|[Hin|[]]]; [contradiction|congruence].
           ++ right. right. exists r. split; [exact A|]. split; apply in_or_app; left; assumption.
  - (* already answered without a repository call *)
    cbn [grant]. exists lin. split; [|eauto]. constructor; [rewrite set_nth_length; exact Hlen|exact Hnd|exact Hrg|].
    exists rs. split; [exact Hseq|]. intros j o' Ho'. destruct (Nat.eq_dec j i) as [->|Hne].
    + rewrite nth_error_set_nth_same by lia. rewrite Ho in Ho'. injection Ho' as <-. right. left. exists r. auto.
    + rewrite nth_error_set_nth_other by congruence. apply Hth. exact Ho'.
  - cbn [grant]. exists lin. split; [|eauto]. constructor; [rewrite set_nth_length; exact Hlen|exact Hnd|exact Hrg|].
    exists rs. split; [exact Hseq|]. intros j o' Ho'. destruct (Nat.eq_dec j i) as [->|Hne].
    + rewrite nth_error_set_nth_same by lia. rewrite Ho in Ho'. injection Ho' as <-. right. right. exists r. auto.
    + rewrite nth_error_set_nth_other by congruence. apply Hth. exact Ho'.
Qed.

Lemma grant_done_stays fid st r : grant fid st (TDone r) = (st, TDone r).
Proof. reflexivity. Qed.

Lemma sched_run_done_stays order : forall st ts i r,
  nth_error ts i = Some (TDone r) -> nth_error (snd (sched_run order st ts)) i = Some (TDone r).
Proof.
  induction order as [|j rest IH]; intros st ts i r H; cbn [sched_run]; [exact H|].
  destruct (nth_error ts j) as [t|] eqn:Ht; [|apply IH; exact H].
  destruct (grant (thread_fid j) st t) as [st' t'] eqn:G. apply IH.
  destruct (Nat.eq_dec j i) as [->|Hne].
  - rewrite Ht in H. injection H as ->. cbn [grant] in G. injection G as <- <-.
    rewrite nth_error_set_nth_same; [reflexivity|]. apply nth_error_Some. congruence.
  - rewrite nth_error_set_nth_other by exact Hne. exact H.
Qed.

Lemma sched_run_inv st0 ops order : forallb atomic_op ops = true -> forall st ts lin,
  sched_inv st0 ops st ts lin ->
  exists lin', sched_inv st0 ops (fst (sched_run order st ts)) (snd (sched_run order st ts)) lin' /\
    forall i, In i order -> i < length ops -> exists r, nth_error (snd (sched_run order st ts)) i = Some (TDone r).
Proof.
  intros Hat. induction order as [|j rest IH]; intros st ts lin Hinv; cbn [sched_run].
  - exists lin. split; [exact Hinv|]. intros i [].
  - pose proof (sched_inv_grant st0 ops st ts lin j Hat Hinv) as G.
    destruct (nth_error ts j) as [t|] eqn:Ht.
    + destruct (grant (thread_fid j) st t) as [st' t'] eqn:Gr. destruct G as (lin' & Hinv' & r & ->).
      destruct (IH st' (set_nth j (TDone r) ts) lin' Hinv') as (lin'' & Hinv'' & Hdone).
      exists lin''. split; [exact Hinv''|]. intros i [<-|Hin] Hi; [|apply Hdone; assumption].
      exists r. apply sched_run_done_stays. apply nth_error_set_nth_same. apply nth_error_Some. congruence.
    + destruct (IH st ts lin Hinv) as (lin'' & Hinv'' & Hdone).
      exists lin''. split; [exact Hinv''|]. intros i [<-|Hin] Hi; [|apply Hdone; assumption].
      exfalso. apply nth_error_None in Ht. rewrite (si_len _ _ _ _ _ Hinv) in Ht. lia.
Qed.

(* Any set of concurrent requests whose handlers make a single repository call has an outcome that
   executing them one at a time, in the order lin of their repository calls, also produces: same
   final store, same response for every request. Requests that answer without touching the
   repository answer the same in every state, so they fit anywhere in that order. *)
Theorem concurrent_requests_linearize st0 ops order :
  forallb atomic_op ops = true ->
  exists lin rs,
    NoDup lin /\ (forall i, In i lin -> i < length ops) /\
    run_sequential lin ops st0 [] = (fst (run_concurrent st0 ops order), rs) /\
    forall i o, nth_error ops i = Some o ->
      exists r, nth_error (snd (run_concurrent st0 ops order)) i = Some (TDone r) /\
        ((In i lin /\ In (i, r) rs) \/ (~ In i lin /\ forall fid st, step_with fid st o = (st, r))).
Proof.
  intros Hat. unfold run_concurrent.
  destruct (sched_run_inv st0 ops (order ++ drain (length ops)) Hat st0 (map start_thread ops) [] (sched_inv_start st0 ops))
    as (lin & [Hlen Hnd Hrg (rs & Hseq & Hth)] & Hdone).
  exists lin, rs. split; [exact Hnd|]. split; [exact Hrg|]. split; [exact Hseq|].
  intros i o Ho.
  assert (Hi : i < length ops). { apply nth_error_Some. congruence. }
  destruct (Hdone i) as [r Hr]; [|exact Hi|].
  { apply in_or_app. right. unfold drain. apply in_or_app. left. apply in_seq. lia. }
  exists r. split; [exact Hr|].
  destruct (Hth i o Ho) as [(A & _) | [(r' & A & Z & N) | (r' & A & B & C)]]; rewrite Hr in A.
  - discriminate A.
  - injection A as ->. right. split; [exact N|]. apply zero_step_sound. exact Z.
  - injection A as ->. left. auto.
Qed.

(* ---------- C18: logging context ---------- *)
Lemma log_contexts_private base rs : log_contexts false base rs = map (fun r => base ++ ids_of r) rs.
Proof. induction rs as [|r t IH]; cbn [log_contexts map]; [reflexivity|]. rewrite IH. reflexivity. Qed.

(* ---------- C16, real time: requests that arrive while others are in flight ---------- *)
Definition rt_started (t : rthread) : bool := match t with RNotStarted _ => false | RRunning _ => true end.
Definition rt_done (t : rthread) : option resp := match t with RRunning (TDone r) => Some r | _ => None end.

(* the invariant: the state is the sequential run of lin; every thread in lin has started and is done with
   the response the sequential run gives it; a thread that is done outside lin answered without the repository *)
Record rt_inv (st0 : sstate) (ops : list op) (st : sstate) (ts : list rthread) (lin : list nat) : Prop := {
  ri_len : length ts = length ops;
  ri_nodup : NoDup lin;
  ri_range : forall i, In i lin -> i < length ops;
  ri_seq : exists rs, run_sequential lin ops st0 [] = (st, rs) /\
           forall i o, nth_error ops i = Some o ->
             (nth_error ts i = Some (RNotStarted o) /\ ~ In i lin) \/
             (nth_error ts i = Some (RRunning (TReady o)) /\ zero_step o = None /\ ~ In i lin) \/
             (exists r, nth_error ts i = Some (RRunning (TDone r)) /\ zero_step o = Some r /\ ~ In i lin) \/
             (exists r, nth_error ts i = Some (RRunning (TDone r)) /\ In (i, r) rs /\ In i lin)
}.

Lemma rt_inv_start st0 ops : rt_inv st0 ops st0 (map RNotStarted ops) [].
Proof.
  constructor; [apply map_length|constructor|intros i []|]. exists []. split; [reflexivity|].
  intros i o Ho. left. rewrite nth_error_map, Ho. split; [reflexivity|intros []].
Qed.

Lemma rt_event_inv st0 ops e st ts lin :
  forallb atomic_op ops = true -> rt_inv st0 ops st ts lin ->
  let '(st', ts', lin') := rt_event e st ts lin in
  rt_inv st0 ops st' ts' lin' /\ (exists ext, lin' = lin ++ ext) /\
  (forall j, (forall t, nth_error ts' j = Some t -> rt_started t = false) -> ~ In j lin').
Proof.
  intros Hat [Hlen Hnd Hrg (rs & Hseq & Hth)].
  assert (Hns : forall j, (forall t, nth_error ts j = Some t -> rt_started t = false) -> ~ In j lin).
  { intros j Hj Hin. pose proof (Hrg j Hin) as Hlt.
    destruct (nth_error ops j) as [o|] eqn:Ho; [|apply nth_error_None in Ho; lia].
    destruct (Hth j o Ho) as [(A & B)|[(A & _ & B)|[(r & A & _ & B)|(r & A & _ & B)]]]; try contradiction;
      specialize (Hj _ A); discriminate Hj. }
  destruct e as [i|i]; cbn [rt_event].
  - (* a request arrives *)
    destruct (nth_error ts i) as [[o|t]|] eqn:Ht.
    + assert (Hi : i < length ops). { rewrite <- Hlen. apply nth_error_Some. congruence. }
      destruct (nth_error ops i) as [o'|] eqn:Ho; [|apply nth_error_None in Ho; lia].
      assert (o' = o).
      { destruct (Hth i o' Ho) as [(A & _)|[(A & _)|[(r & A & _)|(r & A & _)]]]; rewrite Ht in A; congruence. }
      subst o'. split; [|split; [exists []; rewrite app_nil_r; reflexivity|]].
      * constructor; [rewrite set_nth_length; exact Hlen|exact Hnd|exact Hrg|]. exists rs. split; [exact Hseq|].
        intros j o2 Ho2. destruct (Nat.eq_dec j i) as [->|Hne].
        -- rewrite nth_error_set_nth_same by lia. rewrite Ho in Ho2. injection Ho2 as <-.
           assert (Hnin : ~ In i lin).
           { destruct (Hth i o Ho) as [(_ & B)|[(A & _)|[(r & A & _)|(r & A & _)]]]; [exact B| | |]; rewrite Ht in A; discriminate A. }
           unfold start_thread. destruct (zero_step o) as [r|] eqn:Z.
           ++ right. right. left. exists r. auto.
           ++ right. left. auto.
        -- rewrite nth_error_set_nth_other by congruence. apply Hth. exact Ho2.
      * intros j Hj. apply Hns. intros t Htj. destruct (Nat.eq_dec j i) as [->|Hne].
        -- rewrite Ht in Htj. injection Htj as <-. reflexivity.
        -- apply Hj. rewrite nth_error_set_nth_other by congruence. exact Htj.
    + split; [constructor; eauto|split; [exists []; rewrite app_nil_r; reflexivity|exact Hns]].
    + split; [constructor; eauto|split; [exists []; rewrite app_nil_r; reflexivity|exact Hns]].
  - (* a repository step *)
    destruct (nth_error ts i) as [[o|t]|] eqn:Ht;
      try (split; [constructor; eauto|split; [exists []; rewrite app_nil_r; reflexivity|exact Hns]]).
    destruct t as [o|id m|r0]; try (split; [constructor; eauto|split; [exists []; rewrite app_nil_r; reflexivity|exact Hns]]).
    + assert (Hi : i < length ops). { rewrite <- Hlen. apply nth_error_Some. congruence. }
      destruct (nth_error ops i) as [o'|] eqn:Ho; [|apply nth_error_None in Ho; lia].
      assert (Hcase : o' = o /\ zero_step o = None /\ ~ In i lin).
      { destruct (Hth i o' Ho) as [(A & _)|[(A & B & C)|[(r & A & _)|(r & A & _)]]]; rewrite Ht in A; try discriminate A.
        injection A as <-. auto. }
      destruct Hcase as (-> & Hz & Hnin).
      assert (Ha : atomic_op o = true). { rewrite forallb_forall in Hat. apply Hat. eapply nth_error_In; eauto. }
      rewrite (grant_atomic _ _ _ Ha). destruct (step_with (thread_fid i) st o) as [st' a] eqn:Hs. cbn [fst snd].
      split; [|split; [exists [i]; reflexivity|]].
      * constructor; [rewrite set_nth_length; exact Hlen|apply NoDup_app_one; assumption| |].
        { intros j Hj. apply in_app_or in Hj. destruct Hj as [Hj|[<-|[]]]; [apply Hrg; exact Hj|exact Hi]. }
        exists (rs ++ [(i, a)]). split; [eapply run_sequential_snoc; eauto|].
        intros j o2 Ho2. destruct (Nat.eq_dec j i) as [->|Hne].
        -- right. right. right. exists a. rewrite nth_error_set_nth_same by lia. split; [reflexivity|].
           split; apply in_or_app; right; left; reflexivity.
        -- rewrite nth_error_set_nth_other by congruence.
           destruct (Hth j o2 Ho2) as [(A & B)|[(A & B & C)|[(r & A & B & C)|(r & A & B & C)]]].
           ++ left. split; [exact A|]. intros Hin. apply in_app_or in Hin. destruct Hin as [Hin|[Hin|[]]]; [contradiction|congruence].
           ++ right. left. split; [exact A|]. split; [exact B|]. intros Hin. apply in_app_or in Hin. destruct Hin as [Hin|[Hin|[]]]; [contradiction|congruence].
           ++ right. right. left. exists r. split; [exact A|]. split; [exact B|]. intros Hin. apply in_app_or in Hin. destruct Hin as [Hin|[Hin|[]]]; [contradiction|congruence].
           ++ right. right. right. exists r. split; [exact A|]. split; apply in_or_app; left; assumption.
      * intros j Hj Hin. apply in_app_or in Hin. destruct Hin as [Hin|[<-|[]]].
        -- revert Hin. apply Hns. intros t Htj. destruct (Nat.eq_dec j i) as [->|Hne].
           ++ specialize (Hj (RRunning (TDone a))). rewrite nth_error_set_nth_same in Hj by lia. specialize (Hj eq_refl). discriminate Hj.
           ++ apply Hj. rewrite nth_error_set_nth_other by congruence. exact Htj.
        -- specialize (Hj (RRunning (TDone a))). rewrite nth_error_set_nth_same in Hj by lia. specialize (Hj eq_refl). discriminate Hj.
    + (* a pending save: impossible when every request is a single call *)
      exfalso. assert (Hi : i < length ops). { rewrite <- Hlen. apply nth_error_Some. congruence. }
      destruct (nth_error ops i) as [o'|] eqn:Ho; [|apply nth_error_None in Ho; lia].
      destruct (Hth i o' Ho) as [(A & _)|[(A & _)|[(r & A & _)|(r & A & _)]]]; rewrite Ht in A; discriminate A.
Qed.

Lemma rt_run_inv st0 ops : forallb atomic_op ops = true -> forall es st ts lin,
  rt_inv st0 ops st ts lin ->
  let '(st', ts', lin') := rt_run es st ts lin in
  rt_inv st0 ops st' ts' lin' /\ (exists ext, lin' = lin ++ ext) /\
  (forall j, (forall t, nth_error ts' j = Some t -> rt_started t = false) -> ~ In j lin').
Proof.
  intros Hat. induction es as [|e r IH]; intros st ts lin Hinv; cbn [rt_run].
  - split; [exact Hinv|]. split; [exists []; rewrite app_nil_r; reflexivity|].
    (* not started => not in lin: from one no-op event *)
    pose proof (rt_event_inv st0 ops (EStart (length ts)) st ts lin Hat Hinv) as H. cbn [rt_event] in H.
    assert (Hn : nth_error ts (length ts) = None) by (apply nth_error_None; lia). rewrite Hn in H. tauto.
  - pose proof (rt_event_inv st0 ops e st ts lin Hat Hinv) as H.
    destruct (rt_event e st ts lin) as [[st1 ts1] lin1]. destruct H as (Hinv1 & (ext1 & E1) & _).
    specialize (IH st1 ts1 lin1 Hinv1). destruct (rt_run r st1 ts1 lin1) as [[st2 ts2] lin2].
    destruct IH as (Hinv2 & (ext2 & E2) & Hns). split; [exact Hinv2|]. split; [|exact Hns].
    exists (ext1 ++ ext2). rewrite E2, E1, app_assoc. reflexivity.
Qed.

(* Linearizability with real time. Requests arrive (EStart) and take their repository step (EStep) in any
   order of events. At every moment the store is the sequential run of lin, the order of the repository
   calls made so far, and each finished request has the response that run gives it. lin only grows at its
   end, and a request that has not arrived is not in it: so a request finished before another one arrives
   precedes it in the final order - the order is consistent with real time. *)
Theorem concurrent_requests_linearize_in_real_time st0 ops es1 es2 :
  forallb atomic_op ops = true ->
  let '(st1, ts1, lin1) := rt_run es1 st0 (map RNotStarted ops) [] in
  let '(st2, ts2, lin2) := rt_run es2 st1 ts1 lin1 in
  rt_inv st0 ops st1 ts1 lin1 /\ rt_inv st0 ops st2 ts2 lin2 /\
  (exists later, lin2 = lin1 ++ later) /\
  (forall j, (forall t, nth_error ts1 j = Some t -> rt_started t = false) -> ~ In j lin1).
Proof.
  intros Hat.
  pose proof (rt_run_inv st0 ops Hat es1 st0 (map RNotStarted ops) [] (rt_inv_start st0 ops)) as H1.
  destruct (rt_run es1 st0 (map RNotStarted ops) []) as [[st1 ts1] lin1]. destruct H1 as (I1 & _ & N1).
  pose proof (rt_run_inv st0 ops Hat es2 st1 ts1 lin1 I1) as H2.
  destruct (rt_run es2 st1 ts1 lin1) as [[st2 ts2] lin2]. destruct H2 as (I2 & E2 & _).
  auto.
Qed.
