(* Facts about trimming and the element converters (Model/Converters.v) on clean ASCII values. *)
From Wire Require Import Base.Bytes Model.Converters Model.GoV Model.Codec Model.Layout Theory.BytesFacts.

(* ---- ASCII bytes never start or end a multi-byte white-space rune ---- *)
Lemma ws2_ascii_lead b c : is_ascii b = true -> ws2 b c = false.
Proof. destruct b; try discriminate; reflexivity. Qed.
Lemma ws3_ascii_lead b c d : is_ascii b = true -> ws3 b c d = false.
Proof. destruct b; try discriminate; reflexivity. Qed.
Lemma ws2_ascii_last c b : is_ascii b = true -> ws2 c b = false.
Proof. unfold ws2. destruct b; try discriminate; intros _; cbn; rewrite ?andb_false_r; reflexivity. Qed.
Lemma ws3_ascii_last d c b : is_ascii b = true -> ws3 d c b = false.
Proof. unfold ws3. destruct b; try discriminate; intros _; cbn; rewrite ?andb_false_r; reflexivity. Qed.

Lemma trim_left_keep b t : is_ascii b = true -> is_ascii_ws b = false -> trim_left (b :: t) = b :: t.
Proof.
  intros Ha Hw. cbn [trim_left]. rewrite Hw.
  destruct t as [|c1 t1]; [reflexivity|]. rewrite (ws2_ascii_lead b c1 Ha).
  destruct t1 as [|c2 t2]; [reflexivity|]. rewrite (ws3_ascii_lead b c1 c2 Ha). reflexivity.
Qed.

Lemma trim_left_rev_keep b t : is_ascii b = true -> is_ascii_ws b = false -> trim_left_rev (b :: t) = b :: t.
Proof.
  intros Ha Hw. cbn [trim_left_rev]. rewrite Hw.
  destruct t as [|c1 t1]; [reflexivity|]. rewrite (ws2_ascii_last c1 b Ha).
  destruct t1 as [|c2 t2]; [reflexivity|]. rewrite (ws3_ascii_last c2 c1 b Ha). reflexivity.
Qed.

Lemma trim_left_spaces k t : trim_left (repeat space k ++ t) = trim_left t.
Proof. induction k as [|k IH]; [reflexivity|]. cbn [repeat app trim_left]. exact IH. Qed.

Lemma trim_left_rev_spaces k t : trim_left_rev (repeat space k ++ t) = trim_left_rev t.
Proof. induction k as [|k IH]; [reflexivity|]. cbn [repeat app trim_left_rev]. exact IH. Qed.

Lemma rev_repeat {A} (a : A) k : rev (repeat a k) = repeat a k.
Proof.
  induction k as [|k IH]; [reflexivity|]. cbn [repeat rev]. rewrite IH.
  clear IH. induction k as [|k IH]; [reflexivity|]. cbn [repeat app]. rewrite IH. reflexivity.
Qed.

Lemma okchar_ascii b : okchar b = true -> is_ascii b = true.
Proof. unfold okchar, is_ascii. intros H. apply andb_true_iff in H as [H _]. apply andb_true_iff in H as [H _]. exact H. Qed.

Lemma okchar_not_delim b : okchar b = true -> beqb b delim = false.
Proof. unfold okchar. intros H. apply andb_true_iff in H as [H _]. apply andb_true_iff in H as [_ H]. apply negb_true_iff in H. exact H. Qed.

Lemma okchar_not_brace b : okchar b = true -> beqb b lbrace = false.
Proof. unfold okchar. intros H. apply andb_true_iff in H as [_ H]. apply negb_true_iff in H. exact H. Qed.

Lemma last_rev_hd {A} (x : list A) b d : last (b :: x) d = hd d (rev (b :: x)).
Proof.
  revert b. induction x as [|c x IH]; intros b; [reflexivity|].
  change (last (b :: c :: x) d) with (last (c :: x) d). rewrite IH.
  cbn [rev]. destruct (rev x ++ [c]) eqn:E; [apply app_eq_nil in E as [_ E]; discriminate E|reflexivity].
Qed.

(* trimming a clean value, with or without blank padding, gives the value back *)
Lemma trim_space_padded x k :
  forallb okchar x = true -> trimmed x = true -> trim_space (x ++ repeat space k) = x.
Proof.
  intros Hok Htr. unfold trim_space.
  destruct x as [|b t].
  - cbn [app]. replace (repeat space k) with (repeat space k ++ []) by apply app_nil_r.
    rewrite trim_left_spaces. reflexivity.
  - cbn [trimmed] in Htr. apply andb_true_iff in Htr as [Hb Hl]. apply negb_true_iff in Hb, Hl.
    cbn [forallb] in Hok. apply andb_true_iff in Hok as [Hob Hot].
    cbn [app]. rewrite (trim_left_keep b (t ++ repeat space k) (okchar_ascii b Hob) Hb).
    unfold trim_right. change (b :: t ++ repeat space k) with ((b :: t) ++ repeat space k).
    rewrite rev_app_distr, rev_repeat, trim_left_rev_spaces.
    rewrite (last_rev_hd t b b) in Hl.
    assert (Hall : forallb okchar (rev (b :: t)) = true).
    { rewrite forallb_rev. cbn [forallb]. rewrite Hob, Hot. reflexivity. }
    destruct (rev (b :: t)) as [|l r] eqn:E; [cbn [rev] in E; apply app_eq_nil in E as [_ E]; discriminate E|].
    cbn [hd] in Hl. cbn [forallb] in Hall. apply andb_true_iff in Hall as [Hol _].
    rewrite (trim_left_rev_keep l r (okchar_ascii l Hol) Hl), <- E, rev_involutive. reflexivity.
Qed.

Lemma trim_space_clean x : forallb okchar x = true -> trimmed x = true -> trim_space x = x.
Proof. intros H1 H2. pose proof (trim_space_padded x 0 H1 H2) as H. cbn [repeat] in H. rewrite app_nil_r in H. exact H. Qed.

(* ---- index_byte ---- *)
Definition lacks_byte (c : byte) (s : bytes) : bool := forallb (fun b => negb (beqb b c)) s.

Lemma index_byte_lacks c s : lacks_byte c s = true -> index_byte c s = None.
Proof.
  induction s as [|b s IH]; [reflexivity|]. cbn [lacks_byte forallb index_byte]. intros H.
  apply andb_true_iff in H as [Hb Hs]. apply negb_true_iff in Hb. rewrite Hb, (IH Hs). reflexivity.
Qed.

Lemma index_byte_app c x r :
  lacks_byte c x = true ->
  index_byte c (x ++ r) = option_map (fun i => length x + i) (index_byte c r).
Proof.
  induction x as [|b x IH]; intros H.
  - cbn. destruct (index_byte c r); reflexivity.
  - cbn [lacks_byte forallb] in H. apply andb_true_iff in H as [Hb Hx]. apply negb_true_iff in Hb.
    cbn [app index_byte length]. rewrite Hb, (IH Hx). destruct (index_byte c r); reflexivity.
Qed.

Lemma index_byte_hit c x r : lacks_byte c x = true -> index_byte c (x ++ c :: r) = Some (length x).
Proof.
  intros H. rewrite (index_byte_app c x (c :: r) H). cbn [index_byte]. rewrite beqb_refl. cbn. f_equal. lia.
Qed.

Lemma lacks_app c a b : lacks_byte c (a ++ b) = lacks_byte c a && lacks_byte c b.
Proof. unfold lacks_byte. apply forallb_app. Qed.

Lemma lacks_repeat c d k : beqb d c = false -> lacks_byte c (repeat d k) = true.
Proof. intros H. induction k as [|k IH]; [reflexivity|]. cbn [repeat lacks_byte forallb]. rewrite H. exact IH. Qed.

Lemma okchars_lack_delim x : forallb okchar x = true -> lacks_byte delim x = true.
Proof.
  unfold lacks_byte. intros H. rewrite forallb_forall in H |- *. intros b Hb.
  rewrite (okchar_not_delim b (H b Hb)). reflexivity.
Qed.
Lemma okchars_lack_brace x : forallb okchar x = true -> lacks_byte lbrace x = true.
Proof.
  unfold lacks_byte. intros H. rewrite forallb_forall in H |- *. intros b Hb.
  rewrite (okchar_not_brace b (H b Hb)). reflexivity.
Qed.

(* ---- formatting ---- *)
Definition pad (w : nat) (x : bytes) : bytes := x ++ repeat space (w - length x).

Definition small (n : nat) : Prop := (N.of_nat n < 100000)%N.

Lemma valid_size_small n : small n -> valid_size_uint n = true.
Proof. unfold small. intros H. unfold valid_size_uint, max_buffer_growth. apply N.ltb_lt. lia. Qed.

Lemma format_alpha_fixed x w : length x <= w -> small w -> format_alpha_field x w false = pad w x.
Proof.
  intros Hl Hw. unfold format_alpha_field, pad.
  replace (w <? length x) with false by (symmetry; apply Nat.ltb_ge; exact Hl).
  rewrite valid_size_small by (unfold small in *; lia). reflexivity.
Qed.

Lemma format_alpha_variable x w : length x <= w -> format_alpha_field x w true = x.
Proof.
  intros Hl. unfold format_alpha_field.
  replace (w <? length x) with false by (symmetry; apply Nat.ltb_ge; exact Hl). reflexivity.
Qed.

Lemma numeric_full x w : length x = w -> numeric_string_field x w = x.
Proof.
  intros Hl. unfold numeric_string_field. rewrite Hl, Nat.ltb_irrefl, Nat.sub_diag.
  rewrite valid_size_small by (unfold small; lia). reflexivity.
Qed.

Lemma pad_length w x : length x <= w -> length (pad w x) = w.
Proof. intros H. unfold pad. rewrite app_length, repeat_length. lia. Qed.

(* the image of a variable element: padded in fixed layout, bare in variable layout *)
Definition img (variable : bool) (w : nat) (x : bytes) : bytes := if variable then x else pad w x.

Lemma img_lacks c variable w x : lacks_byte c x = true -> beqb space c = false -> lacks_byte c (img variable w x) = true.
Proof.
  intros Hx Hs. unfold img, pad. destruct variable; [exact Hx|].
  rewrite lacks_app, Hx, (lacks_repeat c space _ Hs). reflexivity.
Qed.

Lemma trim_img variable w x : clean w x = true -> trim_space (img variable w x) = x.
Proof.
  unfold clean. intros H. apply andb_true_iff in H as [H Ht]. apply andb_true_iff in H as [_ Ho].
  unfold img, pad. destruct variable; [apply trim_space_clean | apply trim_space_padded]; assumption.
Qed.

(* ---- parsing one element ---- *)
Lemma parse_variable_img variable w x rest :
  clean w x = true ->
  parse_variable (img variable w x ++ delim :: rest) w = (x, S (length (img variable w x)), None).
Proof.
  intros Hc. pose proof Hc as Hc'. unfold clean in Hc'. apply andb_true_iff in Hc' as [Hc' _].
  apply andb_true_iff in Hc' as [Hl Ho]. apply Nat.leb_le in Hl.
  unfold parse_variable.
  destruct (img variable w x ++ delim :: rest) eqn:E; [destruct (img variable w x); discriminate E|].
  rewrite <- E. clear E.
  rewrite (index_byte_hit delim (img variable w x) rest (img_lacks delim variable w x (okchars_lack_delim x Ho) eq_refl)).
  rewrite firstn_app, Nat.sub_diag, firstn_all. cbn [firstn]. rewrite app_nil_r, (trim_img variable w x Hc).
  replace (bytes_eqb x [delim]) with false.
  2:{ symmetry. destruct (bytes_eqb x [delim]) eqn:E; [|reflexivity]. apply bytes_eqb_eq in E. subst x.
      cbn in Ho. discriminate Ho. }
  replace (w <? length x) with false by (symmetry; apply Nat.ltb_ge; exact Hl). reflexivity.
Qed.

Lemma parse_variable_nil w : parse_variable [] w = ([], 0, None).
Proof. reflexivity. Qed.

Lemma parse_fixed_pad w x rest :
  1 <= w -> clean w x = true -> lacks_byte lbrace rest = true ->
  parse_fixed (pad w x ++ rest) w = (x, w, None).
Proof.
  intros Hw Hc Hr. pose proof Hc as Hc'. unfold clean in Hc'. apply andb_true_iff in Hc' as [Hc' _].
  apply andb_true_iff in Hc' as [Hl Ho]. apply Nat.leb_le in Hl.
  assert (Hpl : length (pad w x) = w) by (apply pad_length; exact Hl).
  unfold parse_fixed.
  destruct (pad w x ++ rest) eqn:E.
  { exfalso. assert (length (pad w x ++ rest) = 0) by (rewrite E; reflexivity). rewrite app_length, Hpl in H. lia. }
  rewrite <- E. clear E.
  assert (Hpb : lacks_byte lbrace (pad w x) = true).
  { unfold pad. rewrite lacks_app, (okchars_lack_brace x Ho), (lacks_repeat lbrace space _ eq_refl). reflexivity. }
  assert (Hpd : lacks_byte delim (pad w x) = true).
  { unfold pad. rewrite lacks_app, (okchars_lack_delim x Ho), (lacks_repeat delim space _ eq_refl). reflexivity. }
  rewrite (index_byte_lacks lbrace (pad w x ++ rest)) by (rewrite lacks_app, Hpb, Hr; reflexivity).
  rewrite (index_byte_app delim (pad w x) rest Hpd), Hpl.
  assert (Hfirst : trim_space (firstn w (pad w x ++ rest)) = x).
  { rewrite firstn_app, Hpl, Nat.sub_diag. cbn [firstn]. rewrite app_nil_r.
    rewrite firstn_all2 by lia. apply (trim_img false w x Hc). }
  destruct (index_byte delim rest) as [i|]; cbn [option_map].
  - destruct (w <? w + i) eqn:E1; [rewrite Hfirst; reflexivity|].
    apply Nat.ltb_ge in E1. assert (i = 0) by lia. subst i. rewrite Nat.add_0_r, Nat.ltb_irrefl, Hfirst. reflexivity.
  - rewrite app_length, Hpl.
    destruct (w <? w + length rest) eqn:E1; [rewrite Hfirst; reflexivity|].
    apply Nat.ltb_ge in E1. assert (length rest = 0) by lia. rewrite H, Nat.add_0_r, Nat.ltb_irrefl, Hfirst. reflexivity.
Qed.

Lemma verify_read_length_exact rec : verify_read_length rec (length rec) = true.
Proof. unfold verify_read_length. rewrite Nat.eqb_refl. reflexivity. Qed.

(* ---- stripDelimiters ---- *)
Lemma strip_rev_stop a t len : beqb a delim = false -> strip_rev (a :: t) len = a :: t.
Proof. intros H. cbn [strip_rev]. destruct t; [reflexivity|]. destruct (6 <? len); [|reflexivity]. rewrite H. reflexivity. Qed.

(* body ends with a non-delimiter and has at least the 6 marker bytes: k trailing delimiters collapse to one *)
Lemma strip_rev_stars k : forall a body,
  beqb a delim = false -> 6 <= length (a :: body) ->
  strip_rev (repeat delim (S k) ++ a :: body) (S k + length (a :: body)) = delim :: a :: body.
Proof.
  induction k as [|k IH]; intros a body Ha Hlen.
  - cbn [repeat app strip_rev]. destruct (6 <? 1 + length (a :: body)); [|reflexivity].
    rewrite beqb_refl, Ha. reflexivity.
  - change (repeat delim (S (S k)) ++ a :: body) with (delim :: (repeat delim (S k) ++ a :: body)).
    cbn [strip_rev]. change (repeat delim (S k) ++ a :: body) with (delim :: (repeat delim k ++ a :: body)).
    replace (6 <? S (S k) + length (a :: body)) with true by (symmetry; apply Nat.ltb_lt; cbn [length] in *; lia).
    rewrite beqb_refl. cbn [andb].
    replace (S (S k) + length (a :: body) =? 7) with false.
    2:{ symmetry. apply Nat.eqb_neq. cbn [length] in *. lia. }
    cbn [negb]. replace (S (S k) + length (a :: body) - 1) with (S k + length (a :: body)) by lia.
    change (delim :: repeat delim k ++ a :: body) with (repeat delim (S k) ++ a :: body).
    apply IH; assumption.
Qed.

Lemma strip_delimiters_stars body a k :
  beqb a delim = false -> 5 <= length body ->
  strip_delimiters (body ++ a :: repeat delim k) = body ++ a :: repeat delim (Nat.min k 1).
Proof.
  intros Ha Hl. unfold strip_delimiters.
  rewrite rev_app_distr. cbn [rev]. rewrite rev_repeat.
  destruct k as [|k].
  - cbn [repeat app Nat.min].
    rewrite (strip_rev_stop a (rev body) _ Ha). cbn [rev]. rewrite rev_involutive. reflexivity.
  - rewrite <- app_assoc. cbn [app].
    replace (length (body ++ a :: repeat delim (S k))) with (S k + length (a :: rev body)).
    2:{ rewrite app_length. cbn [length]. rewrite repeat_length, rev_length. lia. }
    rewrite (strip_rev_stars k a (rev body) Ha) by (cbn [length]; rewrite rev_length; lia).
    replace (Nat.min (S k) 1) with 1 by lia.
    cbn [rev repeat]. rewrite rev_involutive, <- app_assoc. reflexivity.
Qed.
