(* C01, file level: the composition of the writer model and the reader model. Given, for every present
   tag, that its formatted line is a well-formed segment which parses (and validates) back to the tag's
   value, the written text reads back to the same message - in every layout, under every chunking. *)
From Coq Require Import Permutation.
From Wire Require Import Base.Bytes Model.Converters Model.Validators Model.GoV Model.Codec Model.Layout Model.Message Model.Writer Model.Reader.
From Wire Require Import Theory.BytesFacts Theory.ReaderFacts Theory.ReaderTotal Theory.ScanSpec Theory.Segments Theory.WriterFacts.
From WireGen Require Import Tags Writer.

(* ---- the writer's text is the segment text of its sorted lines ---- *)
Lemma join_text nl l : l <> [] -> join_with nl l ++ nl = text_of nl l.
Proof.
  induction l as [|x t IH]; intros H; [contradiction|].
  destruct t as [|y t'].
  - cbn. rewrite app_nil_r. reflexivity.
  - change (join_with nl (x :: y :: t')) with (x ++ nl ++ join_with nl (y :: t')).
    change (text_of nl (x :: y :: t')) with ((x ++ nl) ++ text_of nl (y :: t')).
    rewrite <- (IH ltac:(discriminate)). rewrite <- !app_assoc. reflexivity.
Qed.

Lemma forallb_perm {A} (f : A -> bool) l l' : Permutation l l' -> forallb f l = true -> forallb f l' = true.
Proof.
  intros Hp H. rewrite forallb_forall in *. intros x Hx. apply H. apply (Permutation_in x (Permutation_sym Hp) Hx).
Qed.

(* ---- the assignments a message stands for, in plan order ---- *)
Fixpoint plan_pairs (plan : list (nat * bool)) (m : message) : list (nat * tagval) :=
  match plan with
  | [] => []
  | (t, _) :: r => match get_tag m t with Some v => (t, v) :: plan_pairs r m | None => plan_pairs r m end
  end.

(* line l is the written form of assignment a: it is a well-formed segment and reads back to a *)
Definition decodes (l : bytes) (a : nat * tagval) : Prop :=
  seg_ok l = true /\ forall ln, parse_line l ln = inr a.

Lemma plan_lines_decode plan m variable :
  (forall t takes v line, In (t, takes) plan -> get_tag m t = Some v ->
     format_tag (nth t tags tag_Amount) (variable && takes) v = Some line -> decodes line (t, v)) ->
  forall lines, plan_lines plan m variable = Some lines -> Forall2 decodes lines (plan_pairs plan m).
Proof.
  induction plan as [|[t takes] r IH]; intros Hd lines H; cbn [plan_lines plan_pairs] in *.
  - injection H as <-. constructor.
  - destruct (plan_lines r m variable) as [rest|] eqn:Er; [|discriminate].
    assert (IHr : Forall2 decodes rest (plan_pairs r m)).
    { apply IH; [|reflexivity]. intros t0 tk v line Hin. apply Hd. right. exact Hin. }
    destruct (get_tag m t) as [v|] eqn:Eg.
    + destruct (format_tag (nth t tags tag_Amount) (variable && takes) v) as [line|] eqn:Ef; [|discriminate].
      injection H as <-. constructor; [|exact IHr]. apply (Hd t takes v line); [left; reflexivity|exact Eg|exact Ef].
    + injection H as <-. exact IHr.
Qed.

Lemma results_of_decodes lines : forall asg ln, Forall2 decodes lines asg -> results_of lines ln = Some asg.
Proof.
  induction lines as [|l r IH]; intros asg ln H; inversion H as [|? a ? ra Hd Hr]; subst; [reflexivity|].
  cbn [results_of]. destruct Hd as [_ Hp]. rewrite Hp. rewrite (IH ra (S ln) Hr). reflexivity.
Qed.

Lemma Forall2_seg_ok lines asg : Forall2 decodes lines asg -> forallb seg_ok lines = true.
Proof. induction 1 as [|l a r ra [Hs _] _ IH]; [reflexivity|]. cbn [forallb]. rewrite Hs, IH. reflexivity. Qed.

(* ---- assigning every present tag rebuilds the message ---- *)
Lemma plan_pairs_fst plan m : forall a, In a (plan_pairs plan m) -> In (fst a) (map fst plan) /\ get_tag m (fst a) = Some (snd a).
Proof.
  induction plan as [|[t tk] r IH]; intros a H; cbn [plan_pairs] in H; [contradiction|].
  destruct (get_tag m t) as [v|] eqn:Eg.
  - destruct H as [<-|H]; [cbn; auto|]. destruct (IH a H) as [A B]. split; [right; exact A|exact B].
  - destruct (IH a H) as [A B]. split; [right; exact A|exact B].
Qed.

Lemma plan_pairs_nodup plan m : NoDup (map fst plan) -> NoDup (map fst (plan_pairs plan m)).
Proof.
  induction plan as [|[t tk] r IH]; intros H; cbn [plan_pairs]; [constructor|].
  cbn [map fst] in H. inversion H as [|? ? Hn Hr]; subst.
  destruct (get_tag m t); [|apply IH; exact Hr].
  cbn [map fst]. constructor; [|apply IH; exact Hr].
  intros Hin. apply in_map_iff in Hin as (a & Ea & Ha). apply plan_pairs_fst in Ha as [Ha _]. rewrite Ea in Ha. contradiction.
Qed.

Lemma nth_assign_all asg : forall tgs i, NoDup (map fst asg) ->
  nth i (assign_all asg tgs) None =
  match find (fun a => Nat.eqb (fst a) i) asg with
  | Some a => if fst a <? length tgs then Some (snd a) else nth i tgs None
  | None => nth i tgs None
  end.
Proof.
  induction asg as [|[j v] r IH]; intros tgs i Hnd; [reflexivity|].
  cbn [map fst] in Hnd. inversion Hnd as [|? ? Hn Hr]; subst.
  cbn [assign_all find fst]. rewrite (IH _ i Hr). rewrite set_tag_length.
  destruct (Nat.eqb j i) eqn:Eji.
  - apply Nat.eqb_eq in Eji. subst j.
    assert (Hf : find (fun a => Nat.eqb (fst a) i) r = None).
    { destruct (find (fun a => Nat.eqb (fst a) i) r) as [a|] eqn:Ef; [|reflexivity]. exfalso.
      apply find_some in Ef as [Hin He]. apply Nat.eqb_eq in He. apply Hn. rewrite <- He. apply in_map. exact Hin. }
    rewrite Hf. cbn [fst snd]. rewrite nth_set_tag, Nat.eqb_refl. destruct (i <? length tgs); reflexivity.
  - destruct (find (fun a => Nat.eqb (fst a) i) r) as [a|] eqn:Ef.
    + destruct (fst a <? length tgs); [reflexivity|]. rewrite nth_set_tag. rewrite Nat.eqb_sym, Eji. reflexivity.
    + rewrite nth_set_tag. rewrite Nat.eqb_sym, Eji. reflexivity.
Qed.

Definition ob_plan_covers : bool :=
  forallb (fun t => existsb (Nat.eqb t) (map fst writer_plan)) (seq 0 ntags) &&
  nodupb (map fst writer_plan).

Lemma nodupb_NoDup l : nodupb l = true -> NoDup l.
Proof.
  induction l as [|x r IH]; cbn [nodupb]; intros H; [constructor|].
  apply andb_true_iff in H as [H1 H2]. constructor; [|apply IH; exact H2].
  intros Hin. assert (E : existsb (Nat.eqb x) r = true) by (apply existsb_exists; exists x; split; [exact Hin|apply Nat.eqb_refl]).
  rewrite E in H1. discriminate.
Qed.

Lemma find_plan_pairs plan m i : In i (map fst plan) -> NoDup (map fst plan) ->
  find (fun a => Nat.eqb (fst a) i) (plan_pairs plan m) = match get_tag m i with Some v => Some (i, v) | None => None end.
Proof.
  induction plan as [|[t tk] r IH]; intros Hin Hnd; [contradiction|].
  cbn [map fst] in Hin, Hnd. inversion Hnd as [|? ? Hn Hr]; subst. cbn [plan_pairs].
  destruct (Nat.eq_dec t i) as [->|Hne].
  - destruct (get_tag m i) as [v|] eqn:Eg.
    + cbn [find fst]. rewrite Nat.eqb_refl. reflexivity.
    + destruct (find (fun a => Nat.eqb (fst a) i) (plan_pairs r m)) as [a|] eqn:Ef; [|reflexivity]. exfalso.
      apply find_some in Ef as [Ha He]. apply Nat.eqb_eq in He. apply plan_pairs_fst in Ha as [Ha _]. rewrite He in Ha. contradiction.
  - destruct Hin as [E|Hin]; [contradiction|].
    destruct (get_tag m t) as [v|].
    + cbn [find fst]. destruct (Nat.eqb t i) eqn:E; [apply Nat.eqb_eq in E; contradiction|]. apply IH; assumption.
    + apply IH; assumption.
Qed.

Theorem assign_plan_pairs m : ob_plan_covers = true -> wf_msg m ->
  assign_all (plan_pairs writer_plan m) empty_tags = m_tags m.
Proof.
  intros Hob Hw. unfold ob_plan_covers in Hob. apply andb_true_iff in Hob as [Hcov Hnd]. apply nodupb_NoDup in Hnd.
  rewrite forallb_forall in Hcov.
  assert (Hlen : length (assign_all (plan_pairs writer_plan m) empty_tags) = ntags).
  { assert (G : forall asg tgs, length (assign_all asg tgs) = length tgs).
    { induction asg as [|[j v] r IH]; intros tgs; [reflexivity|]. cbn [assign_all]. rewrite IH. apply set_tag_length. }
    rewrite G. apply empty_tags_length. }
  apply nth_ext with (d := None) (d' := None); [rewrite Hlen; symmetry; exact Hw|].
  intros i Hi. rewrite Hlen in Hi.
  rewrite (nth_assign_all _ empty_tags i (plan_pairs_nodup writer_plan m Hnd)).
  assert (Hin : In i (map fst writer_plan)).
  { specialize (Hcov i). rewrite in_seq in Hcov. assert (Hc : existsb (Nat.eqb i) (map fst writer_plan) = true) by (apply Hcov; lia).
    apply existsb_exists in Hc as (x & Hx & E). apply Nat.eqb_eq in E. subst. exact Hx. }
  rewrite (find_plan_pairs writer_plan m i Hin Hnd). unfold get_tag.
  destruct (nth i (m_tags m) None) as [v|] eqn:En.
  - cbn [fst snd]. rewrite empty_tags_length. destruct (i <? ntags) eqn:E; [reflexivity|apply Nat.ltb_ge in E; lia].
  - unfold empty_tags. clear. revert i. induction tags as [|d r IH]; intros [|i]; cbn; auto.
Qed.

(* ---- the composition ---- *)
Theorem write_then_read m variable nl t :
  ob_plan_covers = true -> wf_msg m -> sep_ok nl ->
  write_model m variable nl = WOk t -> t <> nl -> length t < max_token ->
  (forall i takes v line, In (i, takes) writer_plan -> get_tag m i = Some v ->
     format_tag (nth i tags tag_Amount) (variable && takes) v = Some line -> decodes line (i, v)) ->
  forall chunks, concat chunks = t ->
  read_model None (m_opts m) chunks FEOF = ROk m.
Proof.
  intros Hob Hw Hsep Hwr Hne Hlen Hdec chunks Hc.
  destruct (written_text_structure m variable nl t Hwr) as (lines & Hpl & Ht).
  assert (Hacc : verify m = Accept).
  { unfold write_model in Hwr. destruct (verify m); try discriminate Hwr. reflexivity. }
  pose proof (plan_lines_decode writer_plan m variable Hdec lines Hpl) as HF.
  pose proof (sort_lines_perm lines) as Hperm.
  destruct (Permutation_Forall2 Hperm HF) as (asg' & Hpa & HF').
  assert (Hsl : sort_lines lines <> []).
  { intros E. apply Hne. rewrite Ht, E. reflexivity. }
  assert (Htext : t = text_of nl (sort_lines lines)) by (rewrite Ht; apply join_text; exact Hsl).
  rewrite (read_of_segments None (m_opts m) nl (sort_lines lines) chunks FEOF Hsep (Forall2_seg_ok _ _ HF'));
    [|rewrite <- Htext; exact Hlen|rewrite <- Htext; exact Hc].
  unfold read_segments.
  rewrite (read_lines_ok (sort_lines lines) 0 empty_tags asg' (results_of_decodes _ _ 0 HF')).
  cbn [final_err].
  assert (Hnd : NoDup (map fst (plan_pairs writer_plan m))).
  { apply plan_pairs_nodup. unfold ob_plan_covers in Hob. apply andb_true_iff in Hob as [_ H]. apply nodupb_NoDup. exact H. }
  rewrite <- (assignment_order_irrelevant _ _ empty_tags Hpa Hnd).
  rewrite (assign_plan_pairs m Hob Hw).
  assert (Hm : {| m_tags := m_tags m; m_opts := match m_opts m with Some _ => m_opts m | None => None end |} = m).
  { destruct m as [tg [o|]]; reflexivity. }
  rewrite Hm, Hacc. reflexivity.
Qed.
