(* Go strings as byte lists, and the handful of Go standard-library string
   functions the wire code relies on (modelled, not verified; tied to the real
   functions by the L1 correspondence stream). No proofs here: see BytesFacts.v *)
From Coq Require Export Strings.String.
From Coq Require Export Strings.Byte NArith ZArith Bool Arith Lia List.
Export ListNotations.
Open Scope list_scope.

Definition bytes := list byte.

Definition bs (s : string) : bytes := list_byte_of_string s.

Definition beqb (a b : byte) : bool := Byte.eqb a b.

Fixpoint bytes_eqb (a b : bytes) : bool :=
  match a, b with
  | [], [] => true
  | x :: a', y :: b' => beqb x y && bytes_eqb a' b'
  | _, _ => false
  end.

Definition bN (b : byte) : N := Byte.to_N b.

(* lexicographic byte-wise order: Go's < and > on strings *)
Fixpoint bytes_ltb (a b : bytes) : bool :=
  match a, b with
  | _, [] => false
  | [], _ :: _ => true
  | x :: a', y :: b' =>
      if N.ltb (bN x) (bN y) then true
      else if N.ltb (bN y) (bN x) then false
      else bytes_ltb a' b'
  end.

Definition mem_bytes (x : bytes) (l : list bytes) : bool := existsb (bytes_eqb x) l.

(* s[a:b] with Go's panic made explicit *)
Definition slice (s : bytes) (a b : nat) : option bytes :=
  if (a <=? b) && (b <=? length s) then Some (firstn (b - a) (skipn a s)) else None.

Definition slice_from (s : bytes) (a : nat) : option bytes :=
  if a <=? length s then Some (skipn a s) else None.

(* strings.Index(s, single byte) *)
Fixpoint index_byte (c : byte) (s : bytes) : option nat :=
  match s with
  | [] => None
  | x :: t => if beqb x c then Some 0 else option_map S (index_byte c t)
  end.

Fixpoint has_prefix (p s : bytes) : bool :=
  match p, s with
  | [], _ => true
  | x :: p', y :: s' => beqb x y && has_prefix p' s'
  | _ :: _, [] => false
  end.

Definition is_digit (b : byte) : bool := (48 <=? bN b)%N && (bN b <=? 57)%N.

(* ---- unicode.IsSpace as far as strings.TrimSpace can observe it ---- *)
Definition is_ascii_ws (b : byte) : bool :=
  match b with
  | x09 | x0a | x0b | x0c | x0d | x20 => true
  | _ => false
  end.

(* left trim: ASCII white space and the UTF-8 encodings of U+0085 U+00A0 U+1680
   U+2000..U+200A U+2028 U+2029 U+202F U+205F U+3000 *)
Definition e280_space (b : byte) : bool :=
  ((128 <=? bN b)%N && (bN b <=? 138)%N) || beqb b xa8 || beqb b xa9 || beqb b xaf.

(* two- and three-byte UTF-8 encodings of the Unicode white-space runes above U+007F *)
Definition ws2 (b c1 : byte) : bool := beqb b xc2 && (beqb c1 x85 || beqb c1 xa0).
Definition ws3 (b c1 c2 : byte) : bool :=
  (beqb b xe1 && beqb c1 x9a && beqb c2 x80) ||
  (beqb b xe2 && beqb c1 x80 && e280_space c2) ||
  (beqb b xe2 && beqb c1 x81 && beqb c2 x9f) ||
  (beqb b xe3 && beqb c1 x80 && beqb c2 x80).

Fixpoint trim_left (s : bytes) : bytes :=
  match s with
  | [] => []
  | b :: t =>
      if is_ascii_ws b then trim_left t else
      match t with
      | [] => s
      | c1 :: t1 =>
          if ws2 b c1 then trim_left t1 else
          match t1 with
          | [] => s
          | c2 :: t2 => if ws3 b c1 c2 then trim_left t2 else s
          end
      end
  end.

(* the same recogniser on the reversed string (the last byte comes first) *)
Fixpoint trim_left_rev (s : bytes) : bytes :=
  match s with
  | [] => []
  | b :: t =>
      if is_ascii_ws b then trim_left_rev t else
      match t with
      | [] => s
      | c1 :: t1 =>
          if ws2 c1 b then trim_left_rev t1 else
          match t1 with
          | [] => s
          | c2 :: t2 => if ws3 c2 c1 b then trim_left_rev t2 else s
          end
      end
  end.

Definition trim_right (s : bytes) : bytes := rev (trim_left_rev (rev s)).

Definition trim_space (s : bytes) : bytes := trim_right (trim_left s).

(* ---- utf8.RuneCountInString ---- *)
(* number of bytes the rune at the head of s occupies (1 for invalid encodings) *)
Definition in_rng (b : byte) (lo hi : N) : bool := (lo <=? bN b)%N && (bN b <=? hi)%N.

Definition rune_width (s : bytes) : nat :=
  match s with
  | [] => 0
  | b :: t =>
      let n := bN b in
      if (n <? 128)%N then 1
      else if in_rng b 194 223 then
        match t with c1 :: _ => if in_rng c1 128 191 then 2 else 1 | _ => 1 end
      else if in_rng b 224 239 then
        let lo := if (n =? 224)%N then 160%N else 128%N in
        let hi := if (n =? 237)%N then 159%N else 191%N in
        match t with
        | c1 :: c2 :: _ => if in_rng c1 lo hi && in_rng c2 128 191 then 3 else 1
        | _ => 1
        end
      else if in_rng b 240 244 then
        let lo := if (n =? 240)%N then 144%N else 128%N in
        let hi := if (n =? 244)%N then 143%N else 191%N in
        match t with
        | c1 :: c2 :: c3 :: _ =>
            if in_rng c1 lo hi && in_rng c2 128 191 && in_rng c3 128 191 then 4 else 1
        | _ => 1
        end
      else 1
  end.

(* fuel-driven: fuel = length s always suffices since every rune has width >= 1 *)
Fixpoint rune_count_fuel (fuel : nat) (s : bytes) : nat :=
  match fuel with
  | O => 0
  | S f =>
      match s with
      | [] => 0
      | _ => S (rune_count_fuel f (skipn (rune_width s) s))
      end
  end.

Definition rune_count (s : bytes) : nat := rune_count_fuel (length s) s.

(* ---- strconv.Atoi as the code uses it (error ignored => 0; overflow not modelled:
        callers only pass slices of at most 4 bytes) ---- *)
Fixpoint digits_val (acc : N) (s : bytes) : option N :=
  match s with
  | [] => Some acc
  | b :: t => if is_digit b then digits_val (acc * 10 + (bN b - 48))%N t else None
  end.

Definition atoi (s : bytes) : Z :=
  match s with
  | [] => 0%Z
  | b :: t =>
      if beqb b x2d (* - *) then
        match t with [] => 0%Z | _ => match digits_val 0 t with Some v => (- Z.of_N v)%Z | None => 0%Z end end
      else if beqb b x2b (* + *) then
        match t with [] => 0%Z | _ => match digits_val 0 t with Some v => Z.of_N v | None => 0%Z end end
      else match digits_val 0 s with Some v => Z.of_N v | None => 0%Z end
  end.

(* strings.Repeat(c, n) *)
Definition brepeat (c : byte) (n : nat) : bytes := repeat c n.

(* strings.ReplaceAll(s, "\r\n", "") then (.., "\n", "") *)
Fixpoint drop_crlf (s : bytes) : bytes :=
  match s with
  | [] => []
  | b :: t =>
      match b, t with
      | x0d, x0a :: t' => drop_crlf t'
      | _, _ => b :: drop_crlf t
      end
  end.

Definition drop_lf (s : bytes) : bytes := filter (fun b => negb (beqb b x0a)) s.

(* strings.Trim(s, ",") *)
Fixpoint drop_while (p : byte -> bool) (s : bytes) : bytes :=
  match s with
  | [] => []
  | b :: t => if p b then drop_while p t else s
  end.
Definition trim_byte (c : byte) (s : bytes) : bytes :=
  rev (drop_while (beqb c) (rev (drop_while (beqb c) s))).

(* a 256-entry class as a bit set *)
Definition in_class (mask : N) (b : byte) : bool := N.testbit mask (bN b).
Definition all_in_class (mask : N) (s : bytes) : bool := forallb (in_class mask) s.

Definition all_bytes : list byte := map (fun n => match Byte.of_N (N.of_nat n) with Some b => b | None => x00 end) (seq 0 256).
