// Translator: regenerates the Coq data (gen/*.v) from /repo's current working tree.
// It fails closed: whatever it cannot classify becomes an explicit Unsupported node
// whose Coq semantics is Stuck, so the dependent theorems stop checking.
package main

import (
	"flag"
	"fmt"
	"go/ast"
	"go/parser"
	"go/token"
	"os"
	"path/filepath"
	"sort"
	"strings"
)

type Ctx struct {
	fset    *token.FileSet
	files   map[string]*ast.File     // by base name
	consts  map[string]string        // const name -> string value (string consts only)
	funcs   map[string]*ast.FuncDecl // "Recv.Name" or "Name"
	structs map[string]*ast.StructType
	vars    map[string]ast.Expr // package-level var initialisers
	src     map[string][]byte
	repo    string
	warn    []string
	tags    []*TagInfo
}

func (c *Ctx) warnf(f string, a ...any) { c.warn = append(c.warn, fmt.Sprintf(f, a...)) }

func recvName(fd *ast.FuncDecl) string {
	if fd.Recv == nil || len(fd.Recv.List) == 0 {
		return ""
	}
	switch t := fd.Recv.List[0].Type.(type) {
	case *ast.StarExpr:
		if id, ok := t.X.(*ast.Ident); ok {
			return id.Name
		}
	case *ast.Ident:
		return t.Name
	}
	return ""
}

func load(repo string) *Ctx {
	c := &Ctx{fset: token.NewFileSet(), files: map[string]*ast.File{}, consts: map[string]string{},
		funcs: map[string]*ast.FuncDecl{}, structs: map[string]*ast.StructType{}, vars: map[string]ast.Expr{},
		src: map[string][]byte{}, repo: repo}
	ents, err := os.ReadDir(repo)
	if err != nil {
		panic(err)
	}
	for _, e := range ents {
		n := e.Name()
		if e.IsDir() || !strings.HasSuffix(n, ".go") || strings.HasSuffix(n, "_test.go") {
			continue
		}
		p := filepath.Join(repo, n)
		b, err := os.ReadFile(p)
		if err != nil {
			panic(err)
		}
		// honour build tags: skip files guarded by a build constraint (our own hooks)
		if strings.Contains(string(b[:min(len(b), 400)]), "//go:build") {
			continue
		}
		f, err := parser.ParseFile(c.fset, p, b, parser.ParseComments)
		if err != nil {
			panic(err)
		}
		if f.Name.Name != "wire" {
			continue
		}
		c.files[n] = f
		c.src[n] = b
	}
	names := make([]string, 0, len(c.files))
	for n := range c.files {
		names = append(names, n)
	}
	sort.Strings(names)
	for _, n := range names {
		f := c.files[n]
		for _, d := range f.Decls {
			switch d := d.(type) {
			case *ast.FuncDecl:
				k := d.Name.Name
				if r := recvName(d); r != "" {
					k = r + "." + k
				}
				c.funcs[k] = d
			case *ast.GenDecl:
				for _, s := range d.Specs {
					switch s := s.(type) {
					case *ast.ValueSpec:
						for i, id := range s.Names {
							if i < len(s.Values) {
								if d.Tok == token.CONST {
									if bl, ok := s.Values[i].(*ast.BasicLit); ok && bl.Kind == token.STRING {
										c.consts[id.Name] = unquote(bl.Value)
									}
								} else {
									c.vars[id.Name] = s.Values[i]
								}
							}
						}
					case *ast.TypeSpec:
						if st, ok := s.Type.(*ast.StructType); ok {
							c.structs[s.Name.Name] = st
						}
					}
				}
			}
		}
	}
	return c
}

func min(a, b int) int {
	if a < b {
		return a
	}
	return b
}

func main() {
	repo := flag.String("repo", "/repo", "repository root")
	out := flag.String("out", "/verif/coq/gen", "output directory for generated .v files")
	dump := flag.String("dump", "", "debug dump")
	flag.Parse()
	c := load(*repo)
	if err := os.MkdirAll(*out, 0o755); err != nil {
		panic(err)
	}
	_ = dump
	write := func(name, content string) {
		p := filepath.Join(*out, name)
		old, err := os.ReadFile(p)
		if err == nil && string(old) == content {
			return // keep mtime: make will not rebuild
		}
		if err := os.WriteFile(p, []byte(content), 0o644); err != nil {
			panic(err)
		}
	}
	write("Codes.v", genCodes(c))
	write("Classes.v", genClasses(c))
	write("Currency.v", genCurrency(c))
	tags := genTagsAll(c)
	write("Tags.v", tags)
	write("Verify.v", genVerify(c))
	write("Reader.v", genReader(c))
	write("Writer.v", genWriter(c))
	write("Json.v", genJson(c))
	write("Handlers.v", genServer(c))
	write("Effects.v", genEffects(c))
	for _, w := range c.warn {
		fmt.Fprintln(os.Stderr, "translator: "+w)
	}
}
