package main

import (
	"fmt"
	"go/ast"
	"go/token"
	"math/big"
	"regexp/syntax"
	"strings"
)

// regexClass recognises `regexp.MustCompile(<lit>)` whose pattern is a single (possibly
// repeated) character class, and returns the set of single bytes < 0x80 that the class does
// NOT match (the validators use negated classes: a match means "reject"), plus whether every
// rune >= 0x80 is matched (i.e. rejected).
func (c *Ctx) regexClass(name string) (mask *big.Int, nonASCIIRejected bool, pattern string, ok bool) {
	e, found := c.vars[name]
	if !found {
		return nil, false, "", false
	}
	call, isCall := e.(*ast.CallExpr)
	if !isCall || len(call.Args) != 1 {
		return nil, false, "", false
	}
	sel, isSel := call.Fun.(*ast.SelectorExpr)
	if !isSel || sel.Sel.Name != "MustCompile" {
		return nil, false, "", false
	}
	bl, isLit := call.Args[0].(*ast.BasicLit)
	if !isLit || bl.Kind != token.STRING {
		return nil, false, "", false
	}
	pattern = unquote(bl.Value)
	re, err := syntax.Parse(pattern, syntax.Perl)
	if err != nil {
		return nil, false, pattern, false
	}
	re = re.Simplify()
	if re.Op == syntax.OpPlus && len(re.Sub) == 1 {
		re = re.Sub[0]
	}
	if re.Op != syntax.OpCharClass {
		return nil, false, pattern, false
	}
	matches := func(r rune) bool {
		for i := 0; i+1 < len(re.Rune); i += 2 {
			if re.Rune[i] <= r && r <= re.Rune[i+1] {
				return true
			}
		}
		return false
	}
	mask = new(big.Int)
	for b := 0; b < 0x80; b++ {
		if !matches(rune(b)) {
			mask.SetBit(mask, b, 1)
		}
	}
	// every rune >= 0x80 (and U+FFFD, which invalid bytes decode to) must be matched
	nonASCIIRejected = false
	for i := 0; i+1 < len(re.Rune); i += 2 {
		if re.Rune[i] <= 0x80 && re.Rune[i+1] >= 0x10FFFF {
			nonASCIIRejected = true
		}
	}
	return mask, nonASCIIRejected, pattern, true
}

func genClasses(c *Ctx) string {
	var b strings.Builder
	b.WriteString(genHeader)
	b.WriteString("\n(* byte classes accepted by the negated-class regexes of validators.go;\n   bit i set <-> the one-byte string i is NOT matched (i.e. accepted) *)\n")
	for _, n := range []string{"alphanumericRegex", "numericRegex", "amountRegex"} {
		mask, nonascii, pat, ok := c.regexClass(n)
		if !ok {
			c.warnf("regex %s not recognised as a negated character class (%q)", n, pat)
			fmt.Fprintf(&b, "Definition %s_mask : N := 0%%N.\nDefinition %s_ok : bool := false.\n", n, n)
			continue
		}
		fmt.Fprintf(&b, "Definition %s_mask : N := %s%%N.\nDefinition %s_ok : bool := %s. (* pattern recognised and every rune >= 0x80 rejected *)\n",
			n, mask.String(), n, coqBool(nonascii))
	}
	// the tag regex of reader.go
	if e, found := c.vars["tagRegex"]; found {
		if call, isCall := e.(*ast.CallExpr); isCall && len(call.Args) == 1 {
			if bl, isLit := call.Args[0].(*ast.BasicLit); isLit {
				fmt.Fprintf(&b, "Definition tagRegex_pattern : string := %s.\n", coqString(unquote(bl.Value)))
			}
		}
	}
	return b.String()
}
