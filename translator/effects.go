package main

import (
	"fmt"
	"go/ast"
	"go/token"
	"sort"
	"strings"
)

// genEffects: a syntactic effect scan of package wire. For every function it records the assignments
// whose target is reached through the receiver, through a pointer / map / slice parameter or through a
// package-level variable, and the functions it calls (by name, inside the package). The operations
// that must be pure - every Validate, fieldInclusion, String, Format, formatter accessor, the
// message-level rule functions, MarshalJSON - are then checked transitively.
func genEffects(c *Ctx) string {
	var b strings.Builder
	b.WriteString(genHeader)
	b.WriteString("\n")
	type finfo struct {
		key    string
		writes []string // "target" descriptions
		calls  []string // callee short names
		recv   string
	}
	infos := map[string]*finfo{}
	byName := map[string][]string{} // short name -> keys
	var keys []string
	for k := range c.funcs {
		keys = append(keys, k)
	}
	sort.Strings(keys)
	globals := map[string]bool{}
	for v := range c.vars {
		globals[v] = true
	}
	for _, k := range keys {
		fd := c.funcs[k]
		if fd.Body == nil {
			continue
		}
		fi := &finfo{key: k, recv: recvName(fd)}
		shared := map[string]string{} // identifier -> why it reaches caller-visible state
		if fd.Recv != nil && len(fd.Recv.List) > 0 {
			_, isPtr := fd.Recv.List[0].Type.(*ast.StarExpr)
			for _, n := range fd.Recv.List[0].Names {
				if isPtr {
					shared[n.Name] = "receiver"
				} else {
					shared[n.Name] = "" // value receiver: a copy
				}
			}
		}
		for _, p := range fd.Type.Params.List {
			switch p.Type.(type) {
			case *ast.StarExpr, *ast.MapType, *ast.ArrayType:
				for _, n := range p.Names {
					shared[n.Name] = "parameter"
				}
			}
		}
		local := map[string]bool{}
		// a local bound to the receiver / a shared parameter itself, to the address of something reached through
		// one, or to one of its members is an alias: writing through it writes the caller's data
		aliasRoot := func(e ast.Expr) (string, bool) {
			viaAddr := false
			for {
				switch y := e.(type) {
				case *ast.UnaryExpr:
					if y.Op == token.AND {
						viaAddr = true
						e = y.X
						continue
					}
				case *ast.SelectorExpr:
					e = y.X
					continue
				case *ast.IndexExpr:
					e = y.X
					continue
				case *ast.ParenExpr:
					e = y.X
					continue
				case *ast.CallExpr:
					// a pointer conversion (*T)(x) views the same data under another type
					if _, isParen := y.Fun.(*ast.ParenExpr); isParen && len(y.Args) == 1 {
						e = y.Args[0]
						continue
					}
				}
				break
			}
			id, ok := e.(*ast.Ident)
			if !ok {
				return "", false
			}
			why, sh := shared[id.Name]
			_ = viaAddr
			return id.Name, sh && why != ""
		}
		ast.Inspect(fd.Body, func(n ast.Node) bool {
			if x, ok := n.(*ast.AssignStmt); ok && len(x.Lhs) == len(x.Rhs) {
				for i, l := range x.Lhs {
					id, isId := l.(*ast.Ident)
					if !isId || id.Name == "_" {
						continue
					}
					switch r := x.Rhs[i].(type) {
					case *ast.Ident, *ast.UnaryExpr, *ast.SelectorExpr, *ast.IndexExpr, *ast.ParenExpr, *ast.CallExpr:
						if root, sh := aliasRoot(r); sh {
							if _, already := shared[id.Name]; !already {
								shared[id.Name] = "alias of " + root + " through"
							}
						}
					}
				}
			}
			return true
		})
		ast.Inspect(fd.Body, func(n ast.Node) bool {
			switch x := n.(type) {
			case *ast.AssignStmt:
				if x.Tok == token.DEFINE {
					for _, l := range x.Lhs {
						if id, ok := l.(*ast.Ident); ok {
							local[id.Name] = true
						}
					}
				}
			case *ast.ValueSpec:
				for _, id := range x.Names {
					local[id.Name] = true
				}
			case *ast.RangeStmt:
				if x.Tok == token.DEFINE {
					for _, e := range []ast.Expr{x.Key, x.Value} {
						if id, ok := e.(*ast.Ident); ok {
							local[id.Name] = true
						}
					}
				}
			}
			return true
		})
		target := func(e ast.Expr) (string, bool) {
			root := e
			depth := 0
			for {
				switch y := root.(type) {
				case *ast.SelectorExpr:
					root = y.X
					depth++
					continue
				case *ast.IndexExpr:
					root = y.X
					depth++
					continue
				case *ast.StarExpr:
					root = y.X
					depth++
					continue
				case *ast.ParenExpr:
					root = y.X
					continue
				}
				break
			}
			id, ok := root.(*ast.Ident)
			if !ok || id.Name == "_" {
				return "", false
			}
			if why, ok := shared[id.Name]; ok {
				if why != "" && depth > 0 { // assigning the variable itself rebinds a local name only
					return why + " " + c.src1(e), true
				}
				return "", false
			}
			if globals[id.Name] && !local[id.Name] {
				return "package variable " + c.src1(e), true
			}
			return "", false
		}
		ast.Inspect(fd.Body, func(n ast.Node) bool {
			switch x := n.(type) {
			case *ast.AssignStmt:
				if x.Tok != token.DEFINE {
					for _, l := range x.Lhs {
						if t, ok := target(l); ok {
							fi.writes = append(fi.writes, t)
						}
					}
				}
			case *ast.IncDecStmt:
				if t, ok := target(x.X); ok {
					fi.writes = append(fi.writes, t)
				}
			case *ast.CallExpr:
				switch f := x.Fun.(type) {
				case *ast.Ident:
					fi.calls = append(fi.calls, f.Name)
				case *ast.SelectorExpr:
					if id, ok := f.X.(*ast.Ident); ok {
						// pkg.Func of an imported package is outside the scan (standard library / moov base: read-only helpers)
						if _, isShared := shared[id.Name]; !isShared && !local[id.Name] && !globals[id.Name] {
							if id.Name != fi.recv {
								return true
							}
						}
					}
					fi.calls = append(fi.calls, f.Sel.Name)
				}
			}
			return true
		})
		infos[k] = fi
		short := k
		if i := strings.Index(k, "."); i >= 0 {
			short = k[i+1:]
		}
		byName[short] = append(byName[short], k)
	}
	// transitive closure by short name
	memo := map[string][]string{}
	var visit func(k string, seen map[string]bool) []string
	visit = func(k string, seen map[string]bool) []string {
		if seen[k] {
			return nil
		}
		seen[k] = true
		if r, ok := memo[k]; ok {
			return r
		}
		fi := infos[k]
		if fi == nil {
			return nil
		}
		var out []string
		for _, w := range fi.writes {
			out = append(out, k+": "+w)
		}
		for _, callee := range fi.calls {
			for _, ck := range byName[callee] {
				out = append(out, visit(ck, seen)...)
			}
		}
		return out
	}
	isPureRoot := func(k string) bool {
		short := k
		recv := ""
		if i := strings.Index(k, "."); i >= 0 {
			short, recv = k[i+1:], k[:i]
		}
		if recv == "Writer" || recv == "Reader" || recv == "File" {
			return recv == "File" && short == "Validate"
		}
		switch {
		case short == "Validate", short == "fieldInclusion", short == "String", short == "Format", short == "MarshalJSON", short == "verify":
			return true
		case recv != "" && recv != "converters" && (strings.HasSuffix(short, "Field") || strings.HasPrefix(short, "Format")):
			return c.tagByType(c.tags, recv) != nil
		case recv == "FEDWireMessage" && (strings.HasPrefix(short, "validate") || strings.HasPrefix(short, "check") || strings.HasPrefix(short, "is") || strings.HasPrefix(short, "require")):
			return true
		}
		return false
	}
	var roots, impure []string
	for _, k := range keys {
		if infos[k] == nil || !isPureRoot(k) {
			continue
		}
		roots = append(roots, k)
		ws := visit(k, map[string]bool{})
		seenW := map[string]bool{}
		for _, w := range ws {
			if !seenW[w] {
				seenW[w] = true
				impure = append(impure, fmt.Sprintf("(%s, %s)", coqString(k), coqString(w)))
			}
		}
	}
	// the writer: whatever it assigns must be its own state, never the file it is given
	var writerForeign []string
	for _, k := range keys {
		if infos[k] == nil || !strings.HasPrefix(k, "Writer.") {
			continue
		}
		for _, w := range infos[k].writes {
			if !strings.HasPrefix(w, "receiver w.") {
				writerForeign = append(writerForeign, coqString(k+": "+w))
			}
		}
	}
	fmt.Fprintf(&b, "(* operations that must not modify what they are given: %d functions scanned transitively *)\n", len(roots))
	fmt.Fprintf(&b, "Definition pure_roots_scanned : nat := %d.\n", len(roots))
	b.WriteString("(* (pure operation, assignment reachable from it whose target outlives the call) *)\n")
	b.WriteString("Definition impure_reach : list (string * string) := " + coqListNL(impure, "  ") + ".\n\n")
	b.WriteString("(* assignments in Writer methods to anything but the writer's own fields *)\n")
	b.WriteString("Definition writer_foreign_writes : list string := " + coqList(writerForeign) + ".\n")
	return b.String()
}
