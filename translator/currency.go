package main

import (
	"strings"

	"golang.org/x/text/currency"
)

// genCurrency dumps the oracle set behind validator.isCurrencyCode (golang.org/x/text/currency.ParseISO,
// the version pinned in the translator's go.mod = the one /repo/go.mod requires).
func genCurrency(c *Ctx) string {
	var codes []string
	for a := 'A'; a <= 'Z'; a++ {
		for b := 'A'; b <= 'Z'; b++ {
			for d := 'A'; d <= 'Z'; d++ {
				s := string([]rune{a, b, d})
				if _, err := currency.ParseISO(s); err == nil {
					codes = append(codes, s)
				}
			}
		}
	}
	var sb strings.Builder
	sb.WriteString(genHeader)
	sb.WriteString("\n(* upper-case 3-letter codes accepted by currency.ParseISO (oracle table, library data) *)\n")
	sb.WriteString("Definition iso4217 : list bytes :=\n  " + coqBytesList(codes) + ".\n")
	return sb.String()
}
