package main

import (
	"fmt"
	"go/ast"
	"strings"
)

// genWriter translates writer.go: the emission plan (which tag, Format(options) or String()), the
// writer's own mandatory-tag checks as a GoV program, and the shape facts of Write / the epilogue.
func genWriter(c *Ctx) string {
	var b strings.Builder
	b.WriteString(genHeader)
	b.WriteString("From Wire Require Import Model.GoV.\n\n")
	var plan []string
	var checks []string
	ok := true
	note := func(f string, a ...any) {
		ok = false
		c.warnf("writer: "+f, a...)
	}
	g := &gov{c: c, tags: c.tags, recv: "fwm", locals: map[string]string{}, typ: "Writer"}

	// emit recognises  X = append(X, fwm.T.Format(w.FormatOptions))  /  fwm.T.String()
	emit := func(s ast.Stmt, list string) (int, bool) {
		as, isAs := s.(*ast.AssignStmt)
		if !isAs || len(as.Lhs) != 1 || len(as.Rhs) != 1 || !isIdent(as.Lhs[0], list) {
			return 0, false
		}
		call, isCall := as.Rhs[0].(*ast.CallExpr)
		if !isCall || !isIdent(call.Fun, "append") || len(call.Args) != 2 || !isIdent(call.Args[0], list) {
			return 0, false
		}
		inner, isCall2 := call.Args[1].(*ast.CallExpr)
		if !isCall2 {
			return 0, false
		}
		sel, isSel := inner.Fun.(*ast.SelectorExpr)
		if !isSel {
			return 0, false
		}
		t := g.tagOfMsgExpr(sel.X)
		if t == nil {
			return 0, false
		}
		switch {
		case sel.Sel.Name == "Format" && len(inner.Args) == 1 && c.src1(inner.Args[0]) == "w.FormatOptions":
			plan = append(plan, fmt.Sprintf("(%d, true)", t.Index))
			return t.Index, true
		case sel.Sel.Name == "String" && len(inner.Args) == 0:
			plan = append(plan, fmt.Sprintf("(%d, false)", t.Index))
			return t.Index, true
		}
		return 0, false
	}

	// tagIf handles `if fwm.T != nil { append } [else { reject }]`
	tagIf := func(s ast.Stmt, list string) bool {
		ifs, isIf := s.(*ast.IfStmt)
		if !isIf || ifs.Init != nil || len(ifs.Body.List) != 1 {
			return false
		}
		be, isBin := ifs.Cond.(*ast.BinaryExpr)
		if !isBin || be.Op.String() != "!=" || !isIdent(be.Y, "nil") {
			return false
		}
		t := g.tagOfMsgExpr(be.X)
		if t == nil {
			return false
		}
		idx, okE := emit(ifs.Body.List[0], list)
		if !okE || idx != t.Index {
			return false
		}
		if ifs.Else == nil {
			return true
		}
		eb, isBlock := ifs.Else.(*ast.BlockStmt)
		if !isBlock || len(eb.List) != 1 {
			return false
		}
		rej := func(st ast.Stmt) (string, bool) {
			r, isRet := st.(*ast.ReturnStmt)
			if !isRet || len(r.Results) != 2 || !isIdent(r.Results[0], "nil") {
				return "", false
			}
			f, e, okf := fieldErrorExpr(r.Results[1])
			if !okf {
				return "", false
			}
			return fmt.Sprintf("(TRetErr %s %s)", coqString(f), coqString(e)), true
		}
		if r, okr := rej(eb.List[0]); okr {
			checks = append(checks, fmt.Sprintf("(TIf (BNil %d) %s TSkip)", t.Index, r))
			return true
		}
		if inner, isIf2 := eb.List[0].(*ast.IfStmt); isIf2 && inner.Init == nil && inner.Else == nil && len(inner.Body.List) == 1 {
			cond, okc := g.bexpr(inner.Cond)
			r, okr := rej(inner.Body.List[0])
			if okc && okr {
				checks = append(checks, fmt.Sprintf("(TIf (BNil %d) (TIf %s %s TSkip) TSkip)", t.Index, cond, r))
				return true
			}
		}
		return false
	}

	sub := func(name string) {
		fd, has := c.funcs["Writer."+name]
		if !has || fd.Body == nil {
			note("missing %s", name)
			return
		}
		st := fd.Body.List
		for i, s := range st {
			src := c.src1(s)
			switch {
			case i == 0 && src == "var lines []string":
			case i == len(st)-1 && src == "return lines, nil":
			case tagIf(s, "lines"):
			default:
				note("%s: unrecognised statement: %s", name, short(src))
			}
		}
	}

	epilogue := false
	if fd, has := c.funcs["Writer.writeFEDWireMessage"]; has && fd.Body != nil {
		st := fd.Body.List
		for i := 0; i < len(st); i++ {
			src := c.src1(st[i])
			switch {
			case src == "fwm := file.FEDWireMessage", src == "var outputLines []string":
			case strings.HasSuffix(src, "(fwm)") && strings.Contains(src, ", err := w.write") && i+2 < len(st):
				name := src[strings.Index(src, "w.write")+2 : len(src)-5]
				v := src[:strings.Index(src, ",")]
				if c.src1(st[i+1]) == "if err != nil { return err }" && c.src1(st[i+2]) == "outputLines = append(outputLines, "+v+"...)" {
					sub(name)
					i += 2
				} else {
					note("writeFEDWireMessage: unexpected use of %s", name)
				}
			case tagIf(st[i], "outputLines"):
			case src == "slices.Sort(outputLines)" && i+3 == len(st)-1:
				if c.src1(st[i+1]) == "w.w.WriteString(strings.Join(outputLines, w.NewlineCharacter))" &&
					c.src1(st[i+2]) == "w.w.WriteString(w.NewlineCharacter)" && c.src1(st[i+3]) == "return nil" {
					epilogue = true
					i += 3
				} else {
					note("writeFEDWireMessage: epilogue not recognised")
				}
			default:
				note("writeFEDWireMessage: unrecognised statement: %s", short(src))
			}
		}
	} else {
		note("missing writeFEDWireMessage")
	}
	writeShape := false
	if fd, has := c.funcs["Writer.Write"]; has && fd.Body != nil {
		writeShape = c.src1(fd.Body) == "{ if err := file.Validate(); err != nil { return err } w.lineNum = 0 if err := w.writeFEDWireMessage(file); err != nil { return err } w.lineNum++ return w.w.Flush() }"
	}
	newWriter := false
	if fd, has := c.funcs["NewWriter"]; has && fd.Body != nil {
		src := c.src1(fd.Body)
		newWriter = strings.Contains(src, "w: bufio.NewWriter(w)") && strings.Contains(src, `NewlineCharacter: "\n"`)
	}
	b.WriteString("(* emission order before sorting: (tag index, true = Format(w.FormatOptions) / false = String()) *)\n")
	b.WriteString("Definition writer_plan : list (nat * bool) :=\n  " + coqList(plan) + ".\n\n")
	b.WriteString("(* the writer's own mandatory-tag checks *)\nDefinition writer_checks : stmt :=\n  " + seq(checks) + ".\n\n")
	fmt.Fprintf(&b, "Definition writer_recognised : bool := %s.        (* every statement of the assembly functions classified *)\n", coqBool(ok))
	fmt.Fprintf(&b, "Definition writer_epilogue_ok : bool := %s.      (* slices.Sort; Join(lines, newline); trailing newline; return nil *)\n", coqBool(epilogue))
	fmt.Fprintf(&b, "Definition write_validates_then_flushes : bool := %s. (* Write: file.Validate() first, assemble, return w.w.Flush() *)\n", coqBool(writeShape))
	fmt.Fprintf(&b, "Definition new_writer_defaults_ok : bool := %s.  (* bufio.NewWriter(w), newline \"\\n\" *)\n", coqBool(newWriter))
	return b.String()
}
