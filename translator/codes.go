package main

import (
	"fmt"
	"go/ast"
	"go/token"
	"sort"
	"strings"
)

// constString resolves an expression made of string literals, string constants and `+`.
func (c *Ctx) constString(e ast.Expr) (string, bool) {
	switch e := e.(type) {
	case *ast.BasicLit:
		if e.Kind == token.STRING {
			return unquote(e.Value), true
		}
	case *ast.Ident:
		v, ok := c.consts[e.Name]
		return v, ok
	case *ast.BinaryExpr:
		if e.Op == token.ADD {
			a, ok1 := c.constString(e.X)
			b, ok2 := c.constString(e.Y)
			return a + b, ok1 && ok2
		}
	case *ast.ParenExpr:
		return c.constString(e.X)
	}
	return "", false
}

// codeListOf recognises
//
//	func (v *validator) isX(code string) error { switch code { case A, B, ...: return nil }; return ErrX }
//
// and returns the accepted literals and the name of the returned error.
func (c *Ctx) codeListOf(fd *ast.FuncDecl) (vals []string, errName string, ok bool) {
	if fd.Body == nil || len(fd.Body.List) != 2 || len(fd.Type.Params.List) != 1 {
		return nil, "", false
	}
	sw, ok1 := fd.Body.List[0].(*ast.SwitchStmt)
	ret, ok2 := fd.Body.List[1].(*ast.ReturnStmt)
	if !ok1 || !ok2 || sw.Init != nil || len(ret.Results) != 1 {
		return nil, "", false
	}
	param := fd.Type.Params.List[0].Names[0].Name
	if id, isId := sw.Tag.(*ast.Ident); !isId || id.Name != param {
		return nil, "", false
	}
	rid, isId := ret.Results[0].(*ast.Ident)
	if !isId {
		return nil, "", false
	}
	if len(sw.Body.List) != 1 {
		return nil, "", false
	}
	cc := sw.Body.List[0].(*ast.CaseClause)
	if len(cc.Body) != 1 {
		return nil, "", false
	}
	r2, isRet := cc.Body[0].(*ast.ReturnStmt)
	if !isRet || len(r2.Results) != 1 {
		return nil, "", false
	}
	if id, isId := r2.Results[0].(*ast.Ident); !isId || id.Name != "nil" {
		return nil, "", false
	}
	for _, e := range cc.List {
		s, okc := c.constString(e)
		if !okc {
			return nil, "", false
		}
		vals = append(vals, s)
	}
	return vals, rid.Name, true
}

// stringTable resolves a package-level []string-like composite literal (or an alias of one).
func (c *Ctx) stringTable(name string) ([]string, bool) {
	e, ok := c.vars[name]
	if !ok {
		return nil, false
	}
	for depth := 0; depth < 4; depth++ {
		if id, isId := e.(*ast.Ident); isId {
			e2, ok2 := c.vars[id.Name]
			if !ok2 {
				return nil, false
			}
			e = e2
			continue
		}
		break
	}
	cl, ok := e.(*ast.CompositeLit)
	if !ok {
		return nil, false
	}
	var out []string
	for _, el := range cl.Elts {
		s, okc := c.constString(el)
		if !okc {
			return nil, false
		}
		out = append(out, s)
	}
	return out, true
}

type codeList struct {
	name string
	vals []string
	err  string
}

func (c *Ctx) allCodeLists() []codeList {
	var out []codeList
	for k, fd := range c.funcs {
		if !strings.HasPrefix(k, "validator.is") {
			continue
		}
		if vals, en, ok := c.codeListOf(fd); ok {
			out = append(out, codeList{strings.TrimPrefix(k, "validator."), vals, en})
		}
	}
	sort.Slice(out, func(i, j int) bool { return out[i].name < out[j].name })
	return out
}

func genCodes(c *Ctx) string {
	var b strings.Builder
	b.WriteString(genHeader)
	b.WriteString("\n(* code-list validators: switch cases of validators.go, constants resolved through const.go *)\n")
	lists := c.allCodeLists()
	var items []string
	for _, l := range lists {
		items = append(items, fmt.Sprintf("(%s, (%s, %s))", coqString(l.name), coqBytesList(l.vals), coqString(l.err)))
	}
	b.WriteString("Definition code_lists : list (string * (list bytes * string)) :=\n  " + coqListNL(items, "  ") + ".\n\n")
	// string tables (type/subtype associations, FI id codes)
	var tnames []string
	for name := range c.vars {
		if _, ok := c.stringTable(name); ok {
			tnames = append(tnames, name)
		}
	}
	sort.Strings(tnames)
	items = nil
	for _, n := range tnames {
		t, _ := c.stringTable(n)
		items = append(items, fmt.Sprintf("(%s, %s)", coqString(n), coqBytesList(t)))
	}
	b.WriteString("Definition string_tables : list (string * list bytes) :=\n  " + coqListNL(items, "  ") + ".\n\n")
	// tag constants
	var tagNames []string
	for n := range c.consts {
		if strings.HasPrefix(n, "Tag") {
			tagNames = append(tagNames, n)
		}
	}
	sort.Strings(tagNames)
	items = nil
	for _, n := range tagNames {
		items = append(items, fmt.Sprintf("(%s, %s)", coqString(n), coqBytes(c.consts[n])))
	}
	b.WriteString("Definition tag_consts : list (string * bytes) :=\n  " + coqListNL(items, "  ") + ".\n")
	return b.String()
}
