package main

import (
	"fmt"
	"go/ast"
	"go/parser"
	"go/token"
	"os"
	"path/filepath"
	"sort"
	"strings"
)

// genServer translates cmd/server/files.go and storage.go: the route table, the sequence of
// repository calls each handler makes, whether a handler closure assigns to a variable it
// captured, the lock discipline of the in-memory repository, and - by comparison of the
// normalised source with the text the model was written from - whether each handler, GetWriter
// and validateOptsFromQuery still are what Model/Server.v models.
func genServer(c *Ctx) string {
	var b strings.Builder
	b.WriteString(genHeader)
	b.WriteString("\n")
	dir := filepath.Join(c.repo, "cmd", "server")
	funcs := map[string]*ast.FuncDecl{}
	for _, n := range []string{"files.go", "storage.go"} {
		src, err := os.ReadFile(filepath.Join(dir, n))
		if err != nil {
			c.warnf("server: cannot read %s", n)
			continue
		}
		f, err := parser.ParseFile(c.fset, filepath.Join(dir, n), src, 0)
		if err != nil {
			c.warnf("server: cannot parse %s: %v", n, err)
			continue
		}
		for _, d := range f.Decls {
			if fd, ok := d.(*ast.FuncDecl); ok {
				k := fd.Name.Name
				if r := recvName(fd); r != "" {
					k = r + "." + k
				}
				funcs[k] = fd
			}
		}
	}
	// routes
	var routes []string
	handlers := []string{}
	if fd := funcs["addFileRoutes"]; fd != nil && fd.Body != nil {
		for _, st := range fd.Body.List {
			s := c.src1(st)
			var method, path, h string
			// r.Methods("GET").Path("/files").HandlerFunc(getFiles(logger, repo))
			if !strings.HasPrefix(s, `r.Methods("`) {
				c.warnf("server: route statement not recognised: %s", short(s))
				routes = append(routes, fmt.Sprintf("(%s, %s, %s)", coqString("?"), coqString(short(s)), coqString("?")))
				continue
			}
			rest := strings.TrimPrefix(s, `r.Methods("`)
			i := strings.Index(rest, `").Path("`)
			j := strings.Index(rest, `").HandlerFunc(`)
			if i < 0 || j < 0 || !strings.HasSuffix(rest, "(logger, repo))") {
				c.warnf("server: route statement not recognised: %s", short(s))
				routes = append(routes, fmt.Sprintf("(%s, %s, %s)", coqString("?"), coqString(short(s)), coqString("?")))
				continue
			}
			method, path = rest[:i], rest[i+len(`").Path("`):j]
			h = strings.TrimSuffix(rest[j+len(`").HandlerFunc(`):], "(logger, repo))")
			routes = append(routes, fmt.Sprintf("(%s, %s, %s)", coqString(method), coqString(path), coqString(h)))
			handlers = append(handlers, h)
		}
	} else {
		c.warnf("server: addFileRoutes not found")
	}
	b.WriteString("(* addFileRoutes: (method, path, handler constructor) *)\n")
	b.WriteString("Definition routes : list (string * string * string) :=\n  " + coqListNL(routes, "  ") + ".\n\n")

	// per handler: closure body, repo calls in source order, assignments to captured variables, status constants
	var calls, recog, captured, statuses []string
	statusSet := map[string]bool{}
	for _, h := range handlers {
		fd := funcs[h]
		var lit *ast.FuncLit
		if fd != nil && fd.Body != nil && len(fd.Body.List) == 1 {
			if rs, ok := fd.Body.List[0].(*ast.ReturnStmt); ok && len(rs.Results) == 1 {
				lit, _ = rs.Results[0].(*ast.FuncLit)
			}
		}
		if lit == nil {
			c.warnf("server: handler %s is not `return func(w, r) {...}`", h)
			calls = append(calls, fmt.Sprintf("(%s, [%s])", coqString(h), coqString("?")))
			recog = append(recog, fmt.Sprintf("(%s, false)", coqString(h)))
			continue
		}
		// names declared inside the closure (params, :=, var, range, type switches are not used here)
		declared := map[string]bool{}
		for _, p := range lit.Type.Params.List {
			for _, n := range p.Names {
				declared[n.Name] = true
			}
		}
		ast.Inspect(lit.Body, func(n ast.Node) bool {
			switch x := n.(type) {
			case *ast.AssignStmt:
				if x.Tok == token.DEFINE {
					for _, l := range x.Lhs {
						if id, ok := l.(*ast.Ident); ok {
							declared[id.Name] = true
						}
					}
				}
			case *ast.ValueSpec:
				for _, id := range x.Names {
					declared[id.Name] = true
				}
			case *ast.RangeStmt:
				if x.Tok == token.DEFINE {
					for _, e := range []ast.Expr{x.Key, x.Value} {
						if id, ok := e.(*ast.Ident); ok {
							declared[id.Name] = true
						}
					}
				}
			}
			return true
		})
		// the per-request copy `logger := logger` must be the first statement for `logger` to count as local
		firstIsCopy := len(lit.Body.List) > 0 && c.src1(lit.Body.List[0]) == "logger := logger"
		var rc []string
		ast.Inspect(lit.Body, func(n ast.Node) bool {
			switch x := n.(type) {
			case *ast.CallExpr:
				if se, ok := x.Fun.(*ast.SelectorExpr); ok {
					if id, ok := se.X.(*ast.Ident); ok && id.Name == "repo" {
						rc = append(rc, se.Sel.Name)
					}
					if id, ok := se.X.(*ast.Ident); ok && id.Name == "w" && se.Sel.Name == "WriteHeader" && len(x.Args) == 1 {
						statusSet[c.src1(x.Args[0])] = true
					}
				}
			case *ast.AssignStmt:
				if x.Tok != token.DEFINE {
					for _, l := range x.Lhs {
						root := l
						for {
							switch y := root.(type) {
							case *ast.SelectorExpr:
								root = y.X
								continue
							case *ast.IndexExpr:
								root = y.X
								continue
							case *ast.StarExpr:
								root = y.X
								continue
							}
							break
						}
						if id, ok := root.(*ast.Ident); ok && id.Name != "_" {
							if !declared[id.Name] || (id.Name == "logger" && !firstIsCopy) {
								captured = append(captured, coqString(h+":"+id.Name))
							}
						}
					}
				}
			case *ast.IncDecStmt:
				if id, ok := x.X.(*ast.Ident); ok && !declared[id.Name] {
					captured = append(captured, coqString(h+":"+id.Name))
				}
			}
			return true
		})
		items := make([]string, len(rc))
		for i, x := range rc {
			items[i] = coqString(x)
		}
		calls = append(calls, fmt.Sprintf("(%s, %s)", coqString(h), coqList(items)))
		got := c.src1(lit.Body)
		want, has := serverExpected[h]
		ok := has && got == want
		if !ok {
			c.warnf("server: handler %s differs from the text the model was written from", h)
			if os.Getenv("VERIF_DUMP_SERVER") != "" {
				fmt.Fprintf(os.Stderr, "DUMP %s\n%s\n", h, got)
			}
		}
		recog = append(recog, fmt.Sprintf("(%s, %s)", coqString(h), coqBool(ok)))
	}
	for s := range statusSet {
		statuses = append(statuses, s)
	}
	sort.Strings(statuses)
	for i := range statuses {
		statuses[i] = coqString(statuses[i])
	}
	b.WriteString("(* repository calls of each handler closure, in source order *)\n")
	b.WriteString("Definition handler_repo_calls : list (string * list string) :=\n  " + coqListNL(calls, "  ") + ".\n\n")
	b.WriteString("(* handler closure body = the text Model/Server.v was written from *)\n")
	b.WriteString("Definition handler_recognised : list (string * bool) :=\n  " + coqListNL(recog, "  ") + ".\n\n")
	b.WriteString("(* assignments inside a handler closure to a variable declared outside it (shared by all requests of the route) *)\n")
	b.WriteString("Definition captured_assignments : list string := " + coqList(captured) + ".\n\n")
	b.WriteString("(* arguments of every w.WriteHeader call in the handlers *)\n")
	b.WriteString("Definition success_statuses : list string := " + coqList(statuses) + ".\n\n")

	// helpers
	helperOK := func(name string) bool {
		fd := funcs[name]
		if fd == nil || fd.Body == nil {
			return false
		}
		got := c.src1(fd.Body)
		ok := got == serverExpected[name]
		if !ok {
			c.warnf("server: %s differs from the text the model was written from", name)
			if os.Getenv("VERIF_DUMP_SERVER") != "" {
				fmt.Fprintf(os.Stderr, "DUMP %s\n%s\n", name, got)
			}
		}
		return ok
	}
	fmt.Fprintf(&b, "Definition get_writer_recognised : bool := %s.\n", coqBool(helperOK("GetWriter")))
	fmt.Fprintf(&b, "Definition validate_opts_recognised : bool := %s.\n", coqBool(helperOK("validateOptsFromQuery")))
	fmt.Fprintf(&b, "Definition get_file_id_recognised : bool := %s.\n", coqBool(helperOK("getFileId")))
	// repository: every method locks first and unlocks by defer; bodies recognised
	locked, bodies := true, true
	for _, m := range []string{"getFiles", "getFile", "saveFile", "deleteFile"} {
		fd := funcs["memoryWireFileRepository."+m]
		if fd == nil || fd.Body == nil || len(fd.Body.List) < 2 ||
			c.src1(fd.Body.List[0]) != "r.mu.Lock()" || c.src1(fd.Body.List[1]) != "defer r.mu.Unlock()" {
			locked = false
			c.warnf("server: repository method %s does not start with Lock / defer Unlock", m)
			continue
		}
		if !helperOK("memoryWireFileRepository." + m) {
			bodies = false
		}
	}
	// no other method of the repository touches files without the lock
	for k, fd := range funcs {
		if strings.HasPrefix(k, "memoryWireFileRepository.") {
			m := strings.TrimPrefix(k, "memoryWireFileRepository.")
			if m != "getFiles" && m != "getFile" && m != "saveFile" && m != "deleteFile" && fd.Body != nil {
				if len(fd.Body.List) < 2 || c.src1(fd.Body.List[0]) != "r.mu.Lock()" || c.src1(fd.Body.List[1]) != "defer r.mu.Unlock()" {
					locked = false
					c.warnf("server: repository method %s does not lock", m)
				}
			}
		}
	}
	// package-level variables of cmd/server written from any function other than main / init (state that would
	// outlive a request): files.go, storage.go, http.go
	var pkgWrites []string
	{
		pkgVars := map[string]bool{}
		var fds []*ast.FuncDecl
		for _, n := range []string{"files.go", "storage.go", "http.go"} {
			src, err := os.ReadFile(filepath.Join(dir, n))
			if err != nil {
				continue
			}
			f, err := parser.ParseFile(c.fset, filepath.Join(dir, n), src, 0)
			if err != nil {
				continue
			}
			for _, d := range f.Decls {
				switch x := d.(type) {
				case *ast.GenDecl:
					if x.Tok == token.VAR {
						for _, sp := range x.Specs {
							if vs, ok := sp.(*ast.ValueSpec); ok {
								for _, id := range vs.Names {
									pkgVars[id.Name] = true
								}
							}
						}
					}
				case *ast.FuncDecl:
					fds = append(fds, x)
				}
			}
		}
		for _, fd := range fds {
			if fd.Body == nil || fd.Name.Name == "main" || fd.Name.Name == "init" {
				continue
			}
			local := map[string]bool{}
			if fd.Type.Params != nil {
				for _, p := range fd.Type.Params.List {
					for _, n := range p.Names {
						local[n.Name] = true
					}
				}
			}
			ast.Inspect(fd.Body, func(n ast.Node) bool {
				switch x := n.(type) {
				case *ast.AssignStmt:
					if x.Tok == token.DEFINE {
						for _, l := range x.Lhs {
							if id, ok := l.(*ast.Ident); ok {
								local[id.Name] = true
							}
						}
					}
				case *ast.ValueSpec:
					for _, id := range x.Names {
						local[id.Name] = true
					}
				}
				return true
			})
			rootOf := func(e ast.Expr) string {
				for {
					switch x := e.(type) {
					case *ast.SelectorExpr:
						e = x.X
					case *ast.IndexExpr:
						e = x.X
					case *ast.StarExpr:
						e = x.X
					case *ast.ParenExpr:
						e = x.X
					case *ast.Ident:
						return x.Name
					default:
						return ""
					}
				}
			}
			ast.Inspect(fd.Body, func(n ast.Node) bool {
				switch x := n.(type) {
				case *ast.AssignStmt:
					if x.Tok != token.DEFINE {
						for _, l := range x.Lhs {
							if r := rootOf(l); r != "" && pkgVars[r] && !local[r] {
								pkgWrites = append(pkgWrites, coqString(fd.Name.Name+":"+r))
							}
						}
					}
				case *ast.IncDecStmt:
					if r := rootOf(x.X); r != "" && pkgVars[r] && !local[r] {
						pkgWrites = append(pkgWrites, coqString(fd.Name.Name+":"+r))
					}
				}
				return true
			})
		}
		sort.Strings(pkgWrites)
	}
	b.WriteString("(* assignments to package-level variables of cmd/server from functions other than main / init *)\n")
	b.WriteString("Definition package_var_writes : list string := " + coqList(pkgWrites) + ".\n")
	fmt.Fprintf(&b, "Definition repo_methods_locked : bool := %s.      (* each repository method: r.mu.Lock(); defer r.mu.Unlock() first *)\n", coqBool(locked))
	fmt.Fprintf(&b, "Definition repo_bodies_recognised : bool := %s.   (* map insert / delete / lookup by ID / copy-out listing *)\n", coqBool(bodies))
	return b.String()
}
