package main

import (
	"bytes"
	"fmt"
	"go/ast"
	"go/printer"
	"go/token"
	"reflect"
	"sort"
	"strconv"
	"strings"
)

type Elem struct {
	Path     []string
	Embedded []bool // which path components are embedded (anonymous) struct fields
	JSON     []string
	Omit     []bool
}

type TagInfo struct {
	Type     string
	Const    string
	Marker   string
	Elems    []Elem
	Index    int
	MsgField string // field of FEDWireMessage holding *Type
	MsgJSON  string
	MsgOmit  bool
}

func (c *Ctx) src1(n ast.Node) string {
	var b bytes.Buffer
	printer.Fprint(&b, c.fset, n)
	s := b.String()
	return strings.Join(strings.Fields(s), " ")
}

func short(s string) string {
	if len(s) > 160 {
		return s[:160] + "..."
	}
	return s
}

func jsonTag(f *ast.Field) (name string, omit bool, has bool) {
	if f.Tag == nil {
		return "", false, false
	}
	st := reflect.StructTag(unquote(f.Tag.Value))
	v, ok := st.Lookup("json")
	if !ok {
		return "", false, false
	}
	parts := strings.Split(v, ",")
	for _, p := range parts[1:] {
		if p == "omitempty" {
			omit = true
		}
	}
	return parts[0], omit, true
}

func (c *Ctx) flatten(typeName string, path []string, emb []bool, jp []string, op []bool, depth int) []Elem {
	st, ok := c.structs[typeName]
	if !ok || depth > 6 {
		return nil
	}
	var out []Elem
	for _, f := range st.Fields.List {
		tid, isIdent := f.Type.(*ast.Ident)
		if !isIdent {
			continue
		}
		names := []string{}
		embedded := false
		if len(f.Names) == 0 {
			names = []string{tid.Name}
			embedded = true
		} else {
			for _, n := range f.Names {
				names = append(names, n.Name)
			}
		}
		for _, n := range names {
			if n == "tag" || tid.Name == "validator" || tid.Name == "converters" {
				continue
			}
			jn, omit, has := jsonTag(f)
			if tid.Name == "string" {
				if !ast.IsExported(n) {
					continue
				}
				if !has || jn == "" {
					jn = n
				}
				if jn == "-" {
					continue
				}
				out = append(out, Elem{Path: append(append([]string{}, path...), n), Embedded: append(append([]bool{}, emb...), false),
					JSON: append(append([]string{}, jp...), jn), Omit: append(append([]bool{}, op...), omit)})
			} else if _, isStruct := c.structs[tid.Name]; isStruct {
				njp, nop := jp, op
				if !(embedded && !has) {
					if !has || jn == "" {
						jn = n
					}
					njp = append(append([]string{}, jp...), jn)
					nop = append(append([]bool{}, op...), omit)
				}
				out = append(out, c.flatten(tid.Name, append(append([]string{}, path...), n), append(append([]bool{}, emb...), embedded), njp, nop, depth+1)...)
			}
		}
	}
	return out
}

// tagTypes finds every struct with an unexported `tag string` field and resolves its marker through
// the constructor `New<Type>` (tag: Tag<...>).
func (c *Ctx) tagTypes() []*TagInfo {
	var out []*TagInfo
	for name, st := range c.structs {
		hasTag := false
		for _, f := range st.Fields.List {
			for _, n := range f.Names {
				if n.Name == "tag" {
					hasTag = true
				}
			}
		}
		if !hasTag {
			continue
		}
		ti := &TagInfo{Type: name}
		if fd, ok := c.funcs["New"+name]; ok && fd.Body != nil {
			ast.Inspect(fd.Body, func(n ast.Node) bool {
				if kv, isKV := n.(*ast.KeyValueExpr); isKV {
					if k, isId := kv.Key.(*ast.Ident); isId && k.Name == "tag" {
						if v, isId2 := kv.Value.(*ast.Ident); isId2 {
							ti.Const = v.Name
							ti.Marker = c.consts[v.Name]
						}
					}
				}
				return true
			})
		}
		if ti.Marker == "" {
			c.warnf("tag type %s: constructor/marker not recognised", name)
		}
		ti.Elems = c.flatten(name, nil, nil, nil, nil, 0)
		out = append(out, ti)
	}
	sort.Slice(out, func(i, j int) bool {
		if out[i].Marker != out[j].Marker {
			return out[i].Marker < out[j].Marker
		}
		return out[i].Type < out[j].Type
	})
	for i, t := range out {
		t.Index = i
	}
	// FEDWireMessage fields
	if st, ok := c.structs["FEDWireMessage"]; ok {
		for _, f := range st.Fields.List {
			se, isStar := f.Type.(*ast.StarExpr)
			if !isStar || len(f.Names) != 1 {
				continue
			}
			id, isId := se.X.(*ast.Ident)
			if !isId {
				continue
			}
			for _, t := range out {
				if t.Type == id.Name {
					t.MsgField = f.Names[0].Name
					jn, omit, _ := jsonTag(f)
					t.MsgJSON, t.MsgOmit = jn, omit
				}
			}
		}
	}
	return out
}

func (c *Ctx) tagByType(tags []*TagInfo, name string) *TagInfo {
	for _, t := range tags {
		if t.Type == name {
			return t
		}
	}
	return nil
}

func (c *Ctx) tagByMsgField(tags []*TagInfo, name string) *TagInfo {
	for _, t := range tags {
		if t.MsgField == name {
			return t
		}
	}
	return nil
}

// selPath splits x.A.B.C into ("x", [A B C]).
func selPath(e ast.Expr) (root string, path []string, ok bool) {
	switch e := e.(type) {
	case *ast.Ident:
		return e.Name, nil, true
	case *ast.SelectorExpr:
		r, p, ok := selPath(e.X)
		if !ok {
			return "", nil, false
		}
		return r, append(p, e.Sel.Name), true
	case *ast.ParenExpr:
		return selPath(e.X)
	}
	return "", nil, false
}

// elemIndex resolves a field path (possibly omitting embedded components) to an element index.
func (t *TagInfo) elemIndex(path []string) int {
	for i, e := range t.Elems {
		if reflect.DeepEqual(e.Path, path) {
			return i
		}
	}
	for i, e := range t.Elems {
		var reduced []string
		for k, p := range e.Path {
			if k < len(e.Embedded) && e.Embedded[k] {
				continue
			}
			reduced = append(reduced, p)
		}
		if reflect.DeepEqual(reduced, path) {
			return i
		}
	}
	return -1
}

func intLit(e ast.Expr) (int, bool) {
	if bl, ok := e.(*ast.BasicLit); ok && bl.Kind == token.INT {
		v, err := strconv.Atoi(bl.Value)
		return v, err == nil
	}
	return 0, false
}

func isIdent(e ast.Expr, name string) bool {
	id, ok := e.(*ast.Ident)
	return ok && id.Name == name
}

// callOn recognises recv.method(args...) and returns method name.
func callOn(e ast.Expr, recv string) (method string, args []ast.Expr, ok bool) {
	call, isCall := e.(*ast.CallExpr)
	if !isCall {
		return "", nil, false
	}
	sel, isSel := call.Fun.(*ast.SelectorExpr)
	if !isSel || !isIdent(sel.X, recv) {
		return "", nil, false
	}
	return sel.Sel.Name, call.Args, true
}

// recordSlice recognises record[a:b] / record[length:] forms: returns lo, hi expressions (nil when absent).
func recordSlice(e ast.Expr) (lo, hi ast.Expr, ok bool) {
	se, isSlice := e.(*ast.SliceExpr)
	if !isSlice || !isIdent(se.X, "record") || se.Slice3 {
		return nil, nil, false
	}
	return se.Low, se.High, true
}

// lengthPlus recognises `length` (k=0) or `length+k` / `length + k`.
func lengthPlus(e ast.Expr) (int, bool) {
	if isIdent(e, "length") {
		return 0, true
	}
	if be, ok := e.(*ast.BinaryExpr); ok && be.Op == token.ADD && isIdent(be.X, "length") {
		return intLit(be.Y)
	}
	return 0, false
}

func (c *Ctx) unsupportedP(n ast.Node) string {
	return fmt.Sprintf("PUnsupported %s", coqString(short(c.src1(n))))
}

// parseSteps translates <Type>.Parse.
func (c *Ctx) parseSteps(t *TagInfo) []string {
	fd, ok := c.funcs[t.Type+".Parse"]
	if !ok || fd.Body == nil || fd.Recv == nil || len(fd.Recv.List[0].Names) != 1 {
		return []string{"PUnsupported \"no Parse\"%string"}
	}
	recv := fd.Recv.List[0].Names[0].Name
	if len(fd.Type.Params.List) != 1 || len(fd.Type.Params.List[0].Names) != 1 || fd.Type.Params.List[0].Names[0].Name != "record" {
		return []string{"PUnsupported \"Parse parameter\"%string"}
	}
	stmts := fd.Body.List
	var out []string
	// special case: the length-prefixed {8200}
	if st := c.addendaParse(t, recv, stmts); st != nil {
		return st
	}
	for i := 0; i < len(stmts); i++ {
		s := stmts[i]
		switch s := s.(type) {
		case *ast.IfStmt:
			// guard: if utf8.RuneCountInString(record) OP n { return New...Err(..) }
			if be, ok := s.Cond.(*ast.BinaryExpr); ok && s.Init == nil && s.Else == nil {
				if call, isCall := be.X.(*ast.CallExpr); isCall && c.src1(call) == "utf8.RuneCountInString(record)" {
					if n, okn := intLit(be.Y); okn && len(s.Body.List) == 1 && isLenErrReturn(s.Body.List[0]) {
						switch be.Op {
						case token.LSS:
							out = append(out, fmt.Sprintf("PGuard CLt %d", n))
							continue
						case token.NEQ:
							out = append(out, fmt.Sprintf("PGuard CNe %d", n))
							continue
						}
					}
				}
				// need: if len(record) < length+k { return fieldError("F", ErrValidLength) }
				if call, isCall := be.X.(*ast.CallExpr); isCall && c.src1(call) == "len(record)" && be.Op == token.LSS {
					if k, okk := lengthPlus(be.Y); okk && len(s.Body.List) == 1 {
						if f, e, okr := fieldErrorReturn(s.Body.List[0]); okr && e == "ErrValidLength" {
							out = append(out, fmt.Sprintf("PNeed %d %s", k, coqString(f)))
							continue
						}
					}
				}
			}
			// verify: if err := x.verifyDataWithReadLength(record, length); err != nil { return NewTagMaxLengthErr(err) }
			if s.Init != nil {
				if as, isAs := s.Init.(*ast.AssignStmt); isAs && len(as.Rhs) == 1 {
					if m, args, okc := callOn(as.Rhs[0], recv); okc && m == "verifyDataWithReadLength" && len(args) == 2 &&
						isIdent(args[0], "record") && isIdent(args[1], "length") && c.src1(s.Cond) == "err != nil" &&
						len(s.Body.List) == 1 && c.src1(s.Body.List[0]) == "return NewTagMaxLengthErr(err)" {
						out = append(out, "PVerifyLen")
						continue
					}
				}
			}
			out = append(out, c.unsupportedP(s))
		case *ast.AssignStmt:
			// length := n
			if len(s.Lhs) == 1 && isIdent(s.Lhs[0], "length") && len(s.Rhs) == 1 && s.Tok == token.DEFINE {
				if n, okn := intLit(s.Rhs[0]); okn {
					out = append(out, fmt.Sprintf("PSetLen %d", n))
					continue
				}
			}
			// value, read, err := x.parse{Fixed,Variable}StringField(record[length:], w)  + 3 follow-up statements
			if len(s.Lhs) == 3 && len(s.Rhs) == 1 && isIdent(s.Lhs[0], "value") && isIdent(s.Lhs[1], "read") && isIdent(s.Lhs[2], "err") {
				if m, args, okc := callOn(s.Rhs[0], recv); okc && (m == "parseVariableStringField" || m == "parseFixedStringField") && len(args) == 2 {
					lo, hi, oks := recordSlice(args[0])
					w, okw := intLit(args[1])
					if oks && okw && hi == nil && isIdent(lo, "length") && i+3 < len(stmts) {
						ifs, ok1 := stmts[i+1].(*ast.IfStmt)
						asg, ok2 := stmts[i+2].(*ast.AssignStmt)
						inc, ok3 := stmts[i+3].(*ast.AssignStmt)
						if ok1 && ok2 && ok3 && ifs.Init == nil && c.src1(ifs.Cond) == "err != nil" && len(ifs.Body.List) == 1 &&
							len(asg.Lhs) == 1 && len(asg.Rhs) == 1 && isIdent(asg.Rhs[0], "value") && asg.Tok == token.ASSIGN &&
							c.src1(inc) == "length += read" {
							f, e, okr := fieldErrorReturn(ifs.Body.List[0])
							root, path, okp := selPath(asg.Lhs[0])
							if okr && e == "err" && okp && root == recv {
								if idx := t.elemIndex(path); idx >= 0 {
									kind := "PVar"
									if m == "parseFixedStringField" {
										kind = "PFixed"
									}
									out = append(out, fmt.Sprintf("%s %d %d %s", kind, idx, w, coqString(f)))
									i += 3
									continue
								}
							}
						}
					}
				}
			}
			// length += k   (only after PDyn/PAlphaTail, folded there)
			// x.tag = record[:6] | x.tag = x.parseStringField(record[:6])
			if len(s.Lhs) == 1 && len(s.Rhs) == 1 && s.Tok == token.ASSIGN {
				root, path, okp := selPath(s.Lhs[0])
				if okp && root == recv {
					rhs := s.Rhs[0]
					trim := false
					if m, args, okc := callOn(rhs, recv); okc && m == "parseStringField" && len(args) == 1 {
						rhs = args[0]
						trim = true
					}
					// parseAlphaField(record[length:], w) ; length += w
					if m, args, okc := callOn(s.Rhs[0], recv); okc && m == "parseAlphaField" && len(args) == 2 {
						lo, hi, oks := recordSlice(args[0])
						w, okw := intLit(args[1])
						if oks && okw && hi == nil && isIdent(lo, "length") && i+1 < len(stmts) && c.src1(stmts[i+1]) == fmt.Sprintf("length += %d", w) {
							if idx := t.elemIndex(path); idx >= 0 {
								out = append(out, fmt.Sprintf("PAlphaTail %d %d", idx, w))
								i++
								continue
							}
						}
					}
					if lo, hi, oks := recordSlice(rhs); oks {
						if len(path) == 1 && path[0] == "tag" {
							a, oka := 0, lo == nil
							if lo != nil {
								a, oka = intLit(lo)
							}
							b, okb := intLit(hi)
							if oka && okb && a == 0 && b == 6 {
								out = append(out, fmt.Sprintf("PTag %s", coqBool(trim)))
								continue
							}
						} else if idx := t.elemIndex(path); idx >= 0 {
							a, oka := intLit(lo)
							b, okb := intLit(hi)
							if lo != nil && hi != nil && oka && okb {
								out = append(out, fmt.Sprintf("PSlice %d %d %d %s", idx, a, b, coqBool(trim)))
								continue
							}
							// record[length : length+k] ; length += k
							if lo != nil && hi != nil && isIdent(lo, "length") {
								if k, okk := lengthPlus(hi); okk && k > 0 && i+1 < len(stmts) && c.src1(stmts[i+1]) == fmt.Sprintf("length += %d", k) {
									out = append(out, fmt.Sprintf("PDyn %d %d %s", idx, k, coqBool(trim)))
									i++
									continue
								}
							}
						}
					}
				}
			}
			out = append(out, c.unsupportedP(s))
		case *ast.ReturnStmt:
			if len(s.Results) == 1 && isIdent(s.Results[0], "nil") && i == len(stmts)-1 {
				continue
			}
			out = append(out, c.unsupportedP(s))
		default:
			out = append(out, c.unsupportedP(s))
		}
	}
	return out
}

func isLenErrReturn(s ast.Stmt) bool {
	r, ok := s.(*ast.ReturnStmt)
	if !ok || len(r.Results) != 1 {
		return false
	}
	call, isCall := r.Results[0].(*ast.CallExpr)
	if !isCall {
		return false
	}
	id, isId := call.Fun.(*ast.Ident)
	return isId && (id.Name == "NewTagMinLengthErr" || id.Name == "NewTagWrongLengthErr")
}

// fieldErrorReturn recognises `return fieldError("F", X, ...)` and returns F and the source text of X
// (an identifier such as err / ErrFieldRequired, or the constructor name for New...(..) errors).
func fieldErrorReturn(s ast.Stmt) (field, err string, ok bool) {
	r, isRet := s.(*ast.ReturnStmt)
	if !isRet || len(r.Results) != 1 {
		return "", "", false
	}
	return fieldErrorExpr(r.Results[0])
}

func fieldErrorExpr(e ast.Expr) (field, err string, ok bool) {
	call, isCall := e.(*ast.CallExpr)
	if !isCall {
		return "", "", false
	}
	id, isId := call.Fun.(*ast.Ident)
	if !isId {
		return "", "", false
	}
	if id.Name == "fieldError" && len(call.Args) >= 2 {
		bl, isLit := call.Args[0].(*ast.BasicLit)
		if !isLit || bl.Kind != token.STRING {
			return "", "", false
		}
		switch a := call.Args[1].(type) {
		case *ast.Ident:
			return unquote(bl.Value), a.Name, true
		case *ast.CallExpr:
			if fid, isF := a.Fun.(*ast.Ident); isF && strings.HasPrefix(fid.Name, "New") {
				return unquote(bl.Value), strings.TrimPrefix(fid.Name, "New"), true
			}
		}
		return "", "", false
	}
	if strings.HasPrefix(id.Name, "NewErr") || id.Name == "NewFieldWrongLengthErr" {
		return "", strings.TrimPrefix(id.Name, "New"), true
	}
	return "", "", false
}

// addendaParse recognises the exact shape of UnstructuredAddenda.Parse.
func (c *Ctx) addendaParse(t *TagInfo, recv string, stmts []ast.Stmt) []string {
	if len(stmts) != 7 {
		return nil
	}
	want := []string{
		"if utf8.RuneCountInString(record) < 10 { return NewTagWrongLengthErr(10, utf8.RuneCountInString(record)) }",
		recv + ".tag = record[:6]",
		recv + ".AddendaLength = record[6:10]",
		"al := " + recv + ".parseNumField(" + recv + ".AddendaLength)",
		"if utf8.RuneCountInString(record) != 10+al { return NewTagWrongLengthErr(10+al, utf8.RuneCountInString(record)) }",
		recv + ".Addenda = " + recv + ".parseStringField(record[10 : 10+al])",
		"return nil",
	}
	for i, s := range stmts {
		if c.src1(s) != want[i] {
			return nil
		}
	}
	el, ea := t.elemIndex([]string{"AddendaLength"}), t.elemIndex([]string{"Addenda"})
	if el < 0 || ea < 0 {
		return nil
	}
	return []string{"PGuard CLt 10", "PTag false", fmt.Sprintf("PAddenda %d %d", el, ea)}
}

// accessor resolves a zero-arg or (options)-arg accessor method of the tag into a format step.
func (c *Ctx) accessorStep(t *TagInfo, method string, withDelim bool) (string, bool) {
	fd, ok := c.funcs[t.Type+"."+method]
	if !ok || fd.Body == nil || len(fd.Recv.List[0].Names) != 1 {
		return "", false
	}
	recv := fd.Recv.List[0].Names[0].Name
	body := fd.Body.List
	takesOpts := len(fd.Type.Params.List) == 1
	elemOf := func(e ast.Expr) int {
		root, path, okp := selPath(e)
		if !okp || root != recv {
			return -1
		}
		return t.elemIndex(path)
	}
	if len(body) == 1 {
		r, isRet := body[0].(*ast.ReturnStmt)
		if isRet && len(r.Results) == 1 {
			if m, args, okc := callOn(r.Results[0], recv); okc {
				switch {
				case m == "alphaField" && len(args) == 2 && !takesOpts && !withDelim:
					if idx, w := elemOf(args[0]), args[1]; idx >= 0 {
						if n, okn := intLit(w); okn {
							return fmt.Sprintf("FAlpha %d %d", idx, n), true
						}
					}
				case m == "numericStringField" && len(args) == 2 && !takesOpts && !withDelim:
					if idx := elemOf(args[0]); idx >= 0 {
						if n, okn := intLit(args[1]); okn {
							return fmt.Sprintf("FNumeric %d %d", idx, n), true
						}
					}
				case m == "parseAlphaField" && len(args) == 2 && !takesOpts && !withDelim:
					if idx := elemOf(args[0]); idx >= 0 {
						if n, okn := intLit(args[1]); okn {
							return fmt.Sprintf("FRightAlpha %d %d", idx, n), true
						}
					}
				case m == "formatAlphaField" && len(args) == 3 && takesOpts && isIdent(args[2], "options"):
					if idx := elemOf(args[0]); idx >= 0 {
						if n, okn := intLit(args[1]); okn {
							return fmt.Sprintf("FOpt %d %d %s false", idx, n, coqBool(withDelim)), true
						}
					}
				}
			}
		}
	}
	// if n := len(x); n > 0 && n < w { return numericStringField(x, w) }; return alphaField(x, w)
	if len(body) == 2 && !takesOpts && !withDelim {
		if r, isRet := body[1].(*ast.ReturnStmt); isRet && len(r.Results) == 1 {
			if m, args, okc := callOn(r.Results[0], recv); okc && m == "alphaField" && len(args) == 2 {
				idx := elemOf(args[0])
				n, okn := intLit(args[1])
				if idx >= 0 && okn {
					x := c.src1(args[0])
					want := fmt.Sprintf("if n := len(%s); n > 0 && n < %d { return %s.numericStringField(%s, %d) }", x, n, recv, x, n)
					if c.src1(body[0]) == want {
						return fmt.Sprintf("FAlphaZ %d %d", idx, n), true
					}
				}
			}
		}
	}
	// output := formatAlphaField(x, n, options); if output == "*" { output = "" }; return output
	if len(body) == 3 && takesOpts {
		if as, isAs := body[0].(*ast.AssignStmt); isAs && len(as.Lhs) == 1 && isIdent(as.Lhs[0], "output") && len(as.Rhs) == 1 {
			if m, args, okc := callOn(as.Rhs[0], recv); okc && m == "formatAlphaField" && len(args) == 3 && isIdent(args[2], "options") {
				idx := elemOf(args[0])
				n, okn := intLit(args[1])
				if idx >= 0 && okn && c.src1(body[1]) == `if output == "*" { output = "" }` && c.src1(body[2]) == "return output" {
					return fmt.Sprintf("FOpt %d %d %s true", idx, n, coqBool(withDelim)), true
				}
			}
		}
	}
	return "", false
}

func (c *Ctx) unsupportedF(n ast.Node) string {
	return fmt.Sprintf("FUnsupported %s", coqString(short(c.src1(n))))
}

// formatSteps translates <Type>.Format(options) if present, else <Type>.String().
func (c *Ctx) formatSteps(t *TagInfo) (steps []string, takesOptions bool) {
	fd, ok := c.funcs[t.Type+".Format"]
	takesOptions = ok
	if ok {
		// String() must delegate to Format with VariableLengthFields: false
		if sd, oks := c.funcs[t.Type+".String"]; oks && sd.Body != nil {
			src := c.src1(sd.Body)
			if !strings.Contains(src, ".Format(FormatOptions{ VariableLengthFields: false, })") && !strings.Contains(src, ".Format(FormatOptions{})") {
				c.warnf("%s.String does not delegate to Format: %s", t.Type, src)
			}
		}
	} else {
		fd, ok = c.funcs[t.Type+".String"]
	}
	if !ok || fd.Body == nil || len(fd.Recv.List[0].Names) != 1 {
		return []string{"FUnsupported \"no Format/String\"%string"}, takesOptions
	}
	recv := fd.Recv.List[0].Names[0].Name
	stmts := fd.Body.List
	for i := 0; i < len(stmts); i++ {
		s := stmts[i]
		src := c.src1(s)
		switch {
		case src == "var buf strings.Builder":
		case strings.HasPrefix(src, "buf.Grow(") && !strings.Contains(src, "size"):
		case src == "buf.WriteString("+recv+".tag)":
			steps = append(steps, "FTag")
		case src == "options.VariableLengthFields = false":
			steps = append(steps, "FForceFixed")
		case src == "return buf.String()" && i == len(stmts)-1:
		case src == "if options.VariableLengthFields { return "+recv+".stripDelimiters(buf.String()) } else { return buf.String() }" && i == len(stmts)-1:
			steps = append(steps, "FStripIfVariable")
		case src == "if size := "+recv+".parseNumField("+recv+".AddendaLength); validSizeInt(size) { buf.Grow(size) }":
			// capacity hint only
		default:
			done := false
			if es, isExpr := s.(*ast.ExprStmt); isExpr {
				if call, isCall := es.X.(*ast.CallExpr); isCall && c.src1(call.Fun) == "buf.WriteString" && len(call.Args) == 1 {
					arg := call.Args[0]
					withDelim := false
					if be, isBin := arg.(*ast.BinaryExpr); isBin && be.Op == token.ADD && isIdent(be.Y, "Delimiter") {
						arg = be.X
						withDelim = true
					}
					if m, args, okc := callOn(arg, recv); okc {
						if (len(args) == 0) || (len(args) == 1 && isIdent(args[0], "options")) {
							if m == "AddendaField" && t.Type == "UnstructuredAddenda" {
								if st, oka := c.addendaField(t); oka {
									steps = append(steps, st)
									done = true
								}
							} else if st, oka := c.accessorStep(t, m, withDelim); oka {
								steps = append(steps, st)
								done = true
							}
						}
					}
				}
			}
			// BusinessFunctionCode element 02
			if !done && src == "typeCode := "+recv+".FormatTransactionTypeCode(options)" && i+2 < len(stmts) &&
				c.src1(stmts[i+1]) == "buf.WriteString(typeCode)" &&
				c.src1(stmts[i+2]) == "if "+recv+".TransactionTypeCode != \"\" { buf.WriteString(Delimiter) }" {
				if st, okb := c.bfcTtc(t); okb {
					steps = append(steps, st)
					i += 2
					done = true
				}
			}
			if !done {
				steps = append(steps, c.unsupportedF(s))
			}
		}
	}
	return steps, takesOptions
}

func (c *Ctx) bfcTtc(t *TagInfo) (string, bool) {
	fd, ok := c.funcs[t.Type+".FormatTransactionTypeCode"]
	if !ok || fd.Body == nil {
		return "", false
	}
	recv := fd.Recv.List[0].Names[0].Name
	want := fmt.Sprintf(`{ if %s.TransactionTypeCode == "" { return "" } if options.VariableLengthFields { return %s.TransactionTypeCode } return %s.formatAlphaField(%s.TransactionTypeCode, 3, options) }`, recv, recv, recv, recv)
	if c.src1(fd.Body) != want {
		c.warnf("bfcTtc body: %s", c.src1(fd.Body))
		return "", false
	}
	idx := t.elemIndex([]string{"TransactionTypeCode"})
	if idx < 0 {
		return "", false
	}
	return fmt.Sprintf("FBfcTtc %d 3", idx), true
}

func (c *Ctx) addendaField(t *TagInfo) (string, bool) {
	fd, ok := c.funcs[t.Type+".AddendaField"]
	if !ok || fd.Body == nil {
		return "", false
	}
	recv := fd.Recv.List[0].Names[0].Name
	want := fmt.Sprintf(`{ max := %s.parseNumField(%s.AddendaLength) if max < 0 || !validSizeInt(max) { return "" } return %s.alphaField(%s.Addenda, uint(max)) }`, recv, recv, recv, recv)
	if c.src1(fd.Body) != want {
		return "", false
	}
	el, ea := t.elemIndex([]string{"AddendaLength"}), t.elemIndex([]string{"Addenda"})
	if el < 0 || ea < 0 {
		return "", false
	}
	return fmt.Sprintf("FAddenda %d %d", el, ea), true
}

// unmarshalInfo recognises the alias-type UnmarshalJSON and the constant it restores.
func (c *Ctx) unmarshalInfo(t *TagInfo) (restores string, alias bool) {
	fd, ok := c.funcs[t.Type+".UnmarshalJSON"]
	if !ok || fd.Body == nil {
		return "", false
	}
	recv := fd.Recv.List[0].Names[0].Name
	src := c.src1(fd.Body)
	alias = strings.Contains(src, "type Alias "+t.Type) && strings.Contains(src, "(*Alias)("+recv+")")
	for _, s := range fd.Body.List {
		if as, isAs := s.(*ast.AssignStmt); isAs && len(as.Lhs) == 1 && len(as.Rhs) == 1 {
			if c.src1(as.Lhs[0]) == recv+".tag" {
				if id, isId := as.Rhs[0].(*ast.Ident); isId {
					restores = id.Name
				}
			}
		}
	}
	return restores, alias
}

func genTagsAll(c *Ctx) string {
	tags := c.tagTypes()
	c.tags = tags
	var b strings.Builder
	b.WriteString(genHeader)
	b.WriteString("From Wire Require Import Model.GoV Model.Codec.\n\n")
	var names []string
	for _, t := range tags {
		var elems []string
		for _, e := range t.Elems {
			var js, om []string
			for _, j := range e.JSON {
				js = append(js, coqString(j))
			}
			for _, o := range e.Omit {
				om = append(om, coqBool(o))
			}
			elems = append(elems, fmt.Sprintf("{| e_path := %s; e_json := %s; e_omitempty := %s |}", coqString(strings.Join(e.Path, ".")), coqList(js), coqList(om)))
		}
		ps := c.parseSteps(t)
		fs, takes := c.formatSteps(t)
		val := c.validateProg(t)
		restores, alias := c.unmarshalInfo(t)
		for _, s := range append(append([]string{}, ps...), fs...) {
			if strings.Contains(s, "Unsupported") {
				c.warnf("%s: %s", t.Type, s)
			}
		}
		name := "tag_" + t.Type
		names = append(names, name)
		fmt.Fprintf(&b, "Definition %s : tagdesc := {|\n  t_name := %s; t_const := %s; t_marker := %s;\n  t_elems := %s;\n  t_parse := %s;\n  t_format := %s;\n  t_format_takes_options := %s;\n  t_validate :=\n    %s;\n  t_unmarshal_restores := %s; t_unmarshal_alias := %s |}.\n\n",
			name, coqString(t.Type), coqString(t.Const), coqBytes(t.Marker),
			coqListNL(elems, "    "), coqListNL(ps, "    "), coqListNL(fs, "    "), coqBool(takes), val, coqString(restores), coqBool(alias))
	}
	b.WriteString("Definition tags : list tagdesc :=\n  " + coqListNL(names, "  ") + ".\n\n")
	// message struct: tag index -> field name, json name, omitempty
	var mf []string
	for _, t := range tags {
		mf = append(mf, fmt.Sprintf("(%s, %s, %s)", coqString(t.MsgField), coqString(t.MsgJSON), coqBool(t.MsgOmit)))
	}
	b.WriteString("(* FEDWireMessage field, JSON name and omitempty for each tag index *)\nDefinition msg_fields : list (string * string * bool) :=\n  " + coqListNL(mf, "  ") + ".\n")
	return b.String()
}
