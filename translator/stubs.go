package main

import "sort"


func genJson(c *Ctx) string    { return genHeader }
func genEffects(c *Ctx) string { return genHeader }

func sortStrings(s []string) { sort.Strings(s) }
