package main

import "sort"

func sortStrings(s []string) { sort.Strings(s) }
