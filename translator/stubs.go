package main

import "sort"

func genReader(c *Ctx) string  { return genHeader }

func genJson(c *Ctx) string    { return genHeader }
func genServer(c *Ctx) string  { return genHeader }
func genEffects(c *Ctx) string { return genHeader }

func sortStrings(s []string) { sort.Strings(s) }
