package main

import (
	"fmt"
	"go/ast"
	"go/parser"
	"os"
	"path/filepath"
	"reflect"
	"sort"
	"strings"
)

// genJson translates the two published descriptions of the JSON element names: the generated
// client models (client/model_*.go) and the OpenAPI document (openapi.yaml). For each element of
// the message object it emits the paths of the string leaves below it.
func genJson(c *Ctx) string {
	var b strings.Builder
	b.WriteString(genHeader)
	b.WriteString("\n")
	// ---- client models ----
	type field struct {
		json   string
		typ    string
		goName string
	}
	structs := map[string][]field{}
	clientOK := true
	dir := filepath.Join(c.repo, "client")
	ents, _ := os.ReadDir(dir)
	for _, e := range ents {
		n := e.Name()
		if !strings.HasPrefix(n, "model_") || !strings.HasSuffix(n, ".go") {
			continue
		}
		src, err := os.ReadFile(filepath.Join(dir, n))
		if err != nil {
			continue
		}
		f, err := parser.ParseFile(c.fset, filepath.Join(dir, n), src, 0)
		if err != nil {
			clientOK = false
			c.warnf("json: cannot parse %s", n)
			continue
		}
		for _, d := range f.Decls {
			gd, ok := d.(*ast.GenDecl)
			if !ok {
				continue
			}
			for _, s := range gd.Specs {
				ts, ok := s.(*ast.TypeSpec)
				if !ok {
					continue
				}
				st, ok := ts.Type.(*ast.StructType)
				if !ok {
					continue
				}
				var fs []field
				for _, fl := range st.Fields.List {
					if fl.Tag == nil {
						continue
					}
					tag := reflect.StructTag(unquote(fl.Tag.Value)).Get("json")
					name := strings.Split(tag, ",")[0]
					if name == "" || name == "-" {
						continue
					}
					goName := ""
					if len(fl.Names) == 1 {
						goName = fl.Names[0].Name
					}
					fs = append(fs, field{name, c.src1(fl.Type), goName})
				}
				structs[ts.Name.Name] = fs
			}
		}
	}
	var flatten func(typ string, depth int) [][]string
	flatten = func(typ string, depth int) [][]string {
		typ = strings.TrimPrefix(typ, "*")
		fs, ok := structs[typ]
		if !ok || depth > 6 {
			return [][]string{{}} // a leaf
		}
		var out [][]string
		for _, f := range fs {
			for _, p := range flatten(f.typ, depth+1) {
				out = append(out, append([]string{f.json}, p...))
			}
		}
		return out
	}
	emit := func(name string, m map[string][][]string, order []string) {
		var items []string
		for _, k := range order {
			var ps []string
			for _, p := range m[k] {
				var q []string
				for _, x := range p {
					q = append(q, coqString(x))
				}
				ps = append(ps, coqList(q))
			}
			items = append(items, fmt.Sprintf("(%s, %s)", coqString(k), coqList(ps)))
		}
		fmt.Fprintf(&b, "Definition %s : list (string * list (list string)) :=\n  %s.\n\n", name, coqListNL(items, "  "))
	}
	cm := map[string][][]string{}
	var corder []string
	root, ok := structs["FedWireMessage"]
	if !ok {
		clientOK = false
		c.warnf("json: client model FedWireMessage not found")
	}
	for _, f := range root {
		cm[f.json] = flatten(f.typ, 0)
		corder = append(corder, f.json)
	}
	b.WriteString("(* generated client models: element of the message object -> paths of the leaves below it *)\n")
	emit("client_paths", cm, corder)
	// the same leaves with the Go field path that holds each of them: (Go path, JSON path)
	type leaf struct {
		gopath []string
		jpath  []string
	}
	var flattenGo func(typ string, depth int) []leaf
	flattenGo = func(typ string, depth int) []leaf {
		typ = strings.TrimPrefix(typ, "*")
		fs, ok := structs[typ]
		if !ok || depth > 6 {
			return []leaf{{}}
		}
		var out []leaf
		for _, f := range fs {
			for _, l := range flattenGo(f.typ, depth+1) {
				out = append(out, leaf{append([]string{f.goName}, l.gopath...), append([]string{f.json}, l.jpath...)})
			}
		}
		return out
	}
	var citems []string
	for _, f := range root {
		var ls []string
		for _, l := range flattenGo(f.typ, 0) {
			var q []string
			for _, x := range l.jpath {
				q = append(q, coqString(x))
			}
			ls = append(ls, fmt.Sprintf("(%s, %s)", coqString(strings.Join(l.gopath, ".")), coqList(q)))
		}
		citems = append(citems, fmt.Sprintf("(%s, %s)", coqString(f.json), coqList(ls)))
	}
	// the message object itself: (lower-cased Go field name, JSON name) on both sides
	var cmf, smf []string
	for _, f := range root {
		cmf = append(cmf, fmt.Sprintf("(%s, %s)", coqString(strings.ToLower(f.goName)), coqString(f.json)))
	}
	for _, t := range c.tags {
		smf = append(smf, fmt.Sprintf("(%s, %s)", coqString(strings.ToLower(t.MsgField)), coqString(t.MsgJSON)))
	}
	b.WriteString("(* the message object: (lower-cased Go field name, JSON name) in the generated client model and in FEDWireMessage *)\n")
	fmt.Fprintf(&b, "Definition client_msg_names : list (string * string) :=\n  %s.\n\n", coqListNL(cmf, "  "))
	fmt.Fprintf(&b, "Definition server_msg_names : list (string * string) :=\n  %s.\n\n", coqListNL(smf, "  "))
	b.WriteString("(* generated client models: element of the message object -> (Go field path, JSON path) of each leaf *)\n")
	fmt.Fprintf(&b, "Definition client_fields : list (string * list (string * list string)) :=\n  %s.\n\n", coqListNL(citems, "  "))

	// ---- OpenAPI document ----
	openOK := true
	om := map[string][][]string{}
	var oorder []string
	if src, err := os.ReadFile(filepath.Join(c.repo, "openapi.yaml")); err != nil {
		openOK = false
		c.warnf("json: cannot read openapi.yaml")
	} else {
		tree := parseYAMLTree(string(src))
		schemas := tree.child("components").child("schemas")
		if schemas == nil {
			openOK = false
			c.warnf("json: components/schemas not found in openapi.yaml")
		} else {
			var flat func(n *ynode, depth int) [][]string
			flat = func(n *ynode, depth int) [][]string {
				if n == nil || depth > 8 {
					return [][]string{{}}
				}
				if r := n.child("$ref"); r != nil {
					name := strings.TrimPrefix(strings.Trim(r.value, `'"`), "#/components/schemas/")
					return flat(schemas.child(name), depth+1)
				}
				props := n.child("properties")
				if props == nil {
					return [][]string{{}}
				}
				var out [][]string
				for _, k := range props.keys {
					for _, p := range flat(props.kids[k], depth+1) {
						out = append(out, append([]string{k}, p...))
					}
				}
				return out
			}
			msg := schemas.child("FEDWireMessage")
			if msg == nil || msg.child("properties") == nil {
				openOK = false
				c.warnf("json: schema FEDWireMessage not found")
			} else {
				for _, k := range msg.child("properties").keys {
					om[k] = flat(msg.child("properties").kids[k], 0)
					oorder = append(oorder, k)
				}
			}
		}
	}
	b.WriteString("(* OpenAPI document: element of the FEDWireMessage schema -> paths of the leaves below it *)\n")
	emit("openapi_paths", om, oorder)
	fmt.Fprintf(&b, "Definition client_models_read : bool := %s.\n", coqBool(clientOK))
	fmt.Fprintf(&b, "Definition openapi_read : bool := %s.\n", coqBool(openOK))
	_ = sort.Strings
	return b.String()
}

// ---- a minimal reader for the block-mapping subset of YAML that openapi.yaml uses ----
type ynode struct {
	value string
	keys  []string
	kids  map[string]*ynode
}

func (n *ynode) child(k string) *ynode {
	if n == nil {
		return nil
	}
	return n.kids[k]
}

func parseYAMLTree(src string) *ynode {
	root := &ynode{kids: map[string]*ynode{}}
	type frame struct {
		indent int
		node   *ynode
	}
	stack := []frame{{-1, root}}
	skipDeeperThan := -1 // inside a block scalar or a sequence item: ignore lines indented deeper than this
	for _, line := range strings.Split(src, "\n") {
		trimmed := strings.TrimSpace(line)
		if trimmed == "" || strings.HasPrefix(trimmed, "#") {
			continue
		}
		indent := len(line) - len(strings.TrimLeft(line, " "))
		if skipDeeperThan >= 0 {
			if indent > skipDeeperThan {
				continue
			}
			skipDeeperThan = -1
		}
		if strings.HasPrefix(trimmed, "- ") || trimmed == "-" {
			// sequence item: its content is not needed (required lists, enums, parameters)
			skipDeeperThan = indent
			continue
		}
		i := strings.Index(trimmed, ":")
		if i <= 0 {
			continue
		}
		key := strings.TrimSpace(strings.Trim(strings.TrimSpace(trimmed[:i]), `'"`))
		val := strings.TrimSpace(trimmed[i+1:])
		if j := strings.Index(val, " #"); j >= 0 {
			val = strings.TrimSpace(val[:j])
		}
		for len(stack) > 1 && stack[len(stack)-1].indent >= indent {
			stack = stack[:len(stack)-1]
		}
		parent := stack[len(stack)-1].node
		n := &ynode{value: val, kids: map[string]*ynode{}}
		if _, dup := parent.kids[key]; !dup {
			parent.keys = append(parent.keys, key)
		}
		parent.kids[key] = n
		if val == "|" || val == ">" || strings.HasPrefix(val, "|") || strings.HasPrefix(val, ">") {
			skipDeeperThan = indent
			continue
		}
		if val == "" {
			stack = append(stack, frame{indent, n})
		}
	}
	return root
}
