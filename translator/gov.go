package main

import (
	"fmt"
	"go/ast"
	"go/token"
	"strings"
)

// gov translates the validation fragment of Go into the GoV deep embedding (coq/theories/Model/GoV.v).
type gov struct {
	c      *Ctx
	tags   []*TagInfo
	recv   string            // receiver identifier of the function being translated
	self   *TagInfo          // tag mode: the tag whose Validate is being translated; nil in message mode
	prefix []string          // tag mode: path prefix when a method of an embedded struct is inlined
	locals map[string]string // local string variables -> GoV sexpr (substituted)
	depth  int
	typ    string // type owning the current method (for resolving calls on the receiver)
}

func (g *gov) unsupS(n ast.Node) string {
	g.c.warnf("GoV: unsupported statement in %s: %s", g.typ, g.c.src1(n))
	return fmt.Sprintf("(TUnsupported %s)", coqString(short(g.c.src1(n))))
}

var validatorPrims = map[string]bool{
	"isAlphanumeric": true, "isNumeric": true, "isAmount": true, "isAmountImplied": true, "isCurrencyCode": true,
	"validateDate": true, "validatePartyIdentifier": true, "validateUIDPartyIdentifier": true,
	"validateOptionFLine": true, "validateOptionFName": true, "isCentury": true, "isYear": true,
}

func (g *gov) isValidatorCall(e ast.Expr) (name string, arg ast.Expr, ok bool) {
	m, args, okc := callOn(e, g.recv)
	if !okc || len(args) != 1 {
		return "", nil, false
	}
	if validatorPrims[m] {
		return m, args[0], true
	}
	if fd, has := g.c.funcs["validator."+m]; has {
		if _, _, isList := g.c.codeListOf(fd); isList {
			return m, args[0], true
		}
	}
	return "", nil, false
}

// sexpr translates a string-valued expression; ok=false when not recognised.
func (g *gov) sexpr(e ast.Expr) (string, bool) {
	switch e := e.(type) {
	case *ast.ParenExpr:
		return g.sexpr(e.X)
	case *ast.BasicLit:
		if e.Kind == token.STRING {
			return "(SLit " + coqBytes(unquote(e.Value)) + ")", true
		}
	case *ast.Ident:
		if v, ok := g.locals[e.Name]; ok {
			return v, true
		}
		if v, ok := g.c.consts[e.Name]; ok {
			return "(SLit " + coqBytes(v) + ")", true
		}
	case *ast.BinaryExpr:
		if e.Op == token.ADD {
			a, ok1 := g.sexpr(e.X)
			b, ok2 := g.sexpr(e.Y)
			if ok1 && ok2 {
				return "(SCat " + a + " " + b + ")", true
			}
		}
	case *ast.CallExpr:
		if g.c.src1(e.Fun) == "strings.TrimSpace" && len(e.Args) == 1 {
			a, ok := g.sexpr(e.Args[0])
			if ok {
				return "(STrim " + a + ")", true
			}
		}
		// strings.Trim(x, "c") with a one-byte ASCII cutset
		if g.c.src1(e.Fun) == "strings.Trim" && len(e.Args) == 2 {
			if cs, isConst := g.c.constString(e.Args[1]); isConst && len(cs) == 1 && cs[0] < 0x80 {
				a, ok := g.sexpr(e.Args[0])
				if ok {
					return fmt.Sprintf("(STrimByte x%02x %s)", cs[0], a), true
				}
			}
		}
	case *ast.SelectorExpr:
		root, path, ok := selPath(e)
		if !ok || root != g.recv {
			return "", false
		}
		if g.self != nil {
			if len(path) == 1 && path[0] == "tag" && len(g.prefix) == 0 {
				return fmt.Sprintf("(SMarker %d)", g.self.Index), true
			}
			full := append(append([]string{}, g.prefix...), path...)
			if idx := g.self.elemIndex(full); idx >= 0 {
				return fmt.Sprintf("(SField %d %d)", g.self.Index, idx), true
			}
			return "", false
		}
		// message mode: fwm.<TagField>.<path>
		if len(path) >= 2 {
			if t := g.c.tagByMsgField(g.tags, path[0]); t != nil {
				if len(path) == 2 && path[1] == "tag" {
					return fmt.Sprintf("(SMarker %d)", t.Index), true
				}
				if idx := t.elemIndex(path[1:]); idx >= 0 {
					return fmt.Sprintf("(SField %d %d)", t.Index, idx), true
				}
			}
		}
	}
	return "", false
}

func (g *gov) tagOfMsgExpr(e ast.Expr) *TagInfo {
	if g.self != nil {
		return nil
	}
	root, path, ok := selPath(e)
	if !ok || root != g.recv || len(path) != 1 {
		return nil
	}
	return g.c.tagByMsgField(g.tags, path[0])
}

func (g *gov) bexpr(e ast.Expr) (string, bool) {
	switch e := e.(type) {
	case *ast.ParenExpr:
		return g.bexpr(e.X)
	case *ast.UnaryExpr:
		if e.Op == token.NOT {
			a, ok := g.bexpr(e.X)
			if ok {
				return "(BNot " + a + ")", true
			}
		}
	case *ast.BinaryExpr:
		switch e.Op {
		case token.LAND, token.LOR:
			a, ok1 := g.bexpr(e.X)
			b, ok2 := g.bexpr(e.Y)
			if ok1 && ok2 {
				if e.Op == token.LAND {
					return "(BAnd " + a + " " + b + ")", true
				}
				return "(BOr " + a + " " + b + ")", true
			}
		case token.GTR:
			// len(x) > n
			if call, isCall := e.X.(*ast.CallExpr); isCall && isIdent(call.Fun, "len") && len(call.Args) == 1 {
				if n, okn := intLit(e.Y); okn {
					if a, oka := g.sexpr(call.Args[0]); oka {
						return fmt.Sprintf("(BLenGt %s %d)", a, n), true
					}
				}
			}
		case token.EQL, token.NEQ:
			wrap := func(s string) string {
				if e.Op == token.NEQ {
					return "(BNot " + s + ")"
				}
				return s
			}
			x, y := e.X, e.Y
			if isIdent(x, "nil") {
				x, y = y, x
			}
			if isIdent(y, "nil") {
				if t := g.tagOfMsgExpr(x); t != nil {
					return wrap(fmt.Sprintf("(BNil %d)", t.Index)), true
				}
				if g.self == nil && g.c.src1(x) == g.recv+".ValidateOptions" {
					return wrap("BOptsNil"), true
				}
				return "", false
			}
			// comparison with a constant: membership in a one-element list (same atom shape as switch/Contains)
			if v, isConst := g.c.constString(y); isConst {
				if a, ok1 := g.sexpr(x); ok1 {
					return wrap("(BIn " + a + " " + coqBytesList([]string{v}) + ")"), true
				}
			}
			if v, isConst := g.c.constString(x); isConst {
				if b, ok2 := g.sexpr(y); ok2 {
					return wrap("(BIn " + b + " " + coqBytesList([]string{v}) + ")"), true
				}
			}
			a, ok1 := g.sexpr(x)
			b, ok2 := g.sexpr(y)
			if ok1 && ok2 {
				return wrap("(BEq " + a + " " + b + ")"), true
			}
		}
	case *ast.CallExpr:
		// table.Contains(x)
		if sel, isSel := e.Fun.(*ast.SelectorExpr); isSel && sel.Sel.Name == "Contains" && len(e.Args) == 1 {
			if id, isId := sel.X.(*ast.Ident); isId {
				if tbl, ok := g.c.stringTable(id.Name); ok {
					a, oka := g.sexpr(e.Args[0])
					if oka {
						return "(BIn " + a + " " + coqBytesList(tbl) + ")", true
					}
				}
			}
		}
		if g.c.src1(e.Fun) == "slices.Contains" && len(e.Args) == 2 {
			if id, isId := e.Args[0].(*ast.Ident); isId {
				if tbl, ok := g.c.stringTable(id.Name); ok {
					a, oka := g.sexpr(e.Args[1])
					if oka {
						return "(BIn " + a + " " + coqBytesList(tbl) + ")", true
					}
				}
			}
		}
		if g.self == nil && g.c.src1(e) == g.recv+".requireSenderSupplied()" {
			if g.c.requireSSRecognised() {
				return "BRequireSS", true
			}
		}
	case *ast.SelectorExpr:
		if g.self == nil {
			switch g.c.src1(e) {
			case g.recv + ".ValidateOptions.SkipMandatoryIMAD":
				return "BOptSkipIMAD", true
			case g.recv + ".ValidateOptions.AllowMissingSenderSupplied":
				return "BOptAllowMissingSS", true
			}
		}
	}
	return "", false
}

// requireSSRecognised checks the body of FEDWireMessage.requireSenderSupplied against the shape GoV's
// BRequireSS models (nil options => required; otherwise !AllowMissingSenderSupplied).
func (c *Ctx) requireSSRecognised() bool {
	fd, ok := c.funcs["FEDWireMessage.requireSenderSupplied"]
	if !ok || fd.Body == nil {
		return false
	}
	want := "{ opts := &ValidateOpts{} if fwm != nil && fwm.ValidateOptions != nil { opts = fwm.ValidateOptions } return !opts.AllowMissingSenderSupplied }"
	return c.src1(fd.Body) == want
}

// validateIfPresentRecognised checks the generic helper against the shape the RangeStmt translation assumes.
func (c *Ctx) validateIfPresentRecognised() bool {
	fd, ok := c.funcs["validateIfPresent"]
	if !ok || fd.Body == nil {
		return false
	}
	return c.src1(fd.Body) == "{ if tag == nil { return nil } return tag.Validate() }"
}

func seq(items []string) string {
	if len(items) == 0 {
		return "TSkip"
	}
	if len(items) == 1 {
		return items[0]
	}
	return "(TSeq " + items[0] + "\n      " + seq(items[1:]) + ")"
}

func (g *gov) block(stmts []ast.Stmt) string {
	var items []string
	for _, s := range stmts {
		if x := g.stmt(s); x != "" {
			items = append(items, x)
		}
	}
	return seq(items)
}

// inlineCall translates a call whose error result is propagated: returns a statement that continues
// when the callee returns nil and returns the callee's error otherwise.
func (g *gov) inlineCall(call ast.Expr) (string, bool) {
	ce, isCall := call.(*ast.CallExpr)
	if !isCall {
		return "", false
	}
	sel, isSel := ce.Fun.(*ast.SelectorExpr)
	if !isSel {
		return "", false
	}
	// validator primitive returned as is: field ""
	if name, arg, ok := g.isValidatorCall(call); ok {
		a, oka := g.sexpr(arg)
		if oka {
			return fmt.Sprintf("(TCheck %s %s %s)", coqString(name), a, coqString("")), true
		}
		return "", false
	}
	if len(ce.Args) != 0 {
		return "", false
	}
	root, path, okp := selPath(sel.X)
	if !okp || root != g.recv || g.depth > 8 {
		return "", false
	}
	method := sel.Sel.Name
	if g.self == nil {
		// message mode
		if len(path) == 0 {
			fd, ok := g.c.funcs["FEDWireMessage."+method]
			if !ok || fd.Body == nil || len(fd.Type.Params.List) != 0 {
				return "", false
			}
			sub := &gov{c: g.c, tags: g.tags, recv: fd.Recv.List[0].Names[0].Name, locals: map[string]string{}, depth: g.depth + 1, typ: "FEDWireMessage." + method}
			return "(TScope " + sub.block(fd.Body.List) + ")", true
		}
		if len(path) == 1 && method == "Validate" {
			if t := g.c.tagByMsgField(g.tags, path[0]); t != nil {
				return fmt.Sprintf("(TValidate %d)", t.Index), true
			}
		}
		return "", false
	}
	// tag mode: method of the tag itself or of an embedded/named sub-struct
	owner := g.typ
	full := append(append([]string{}, g.prefix...), path...)
	if len(path) > 0 {
		// resolve the struct type reached through `path`
		tn := g.typ
		for _, p := range path {
			st, ok := g.c.structs[tn]
			if !ok {
				return "", false
			}
			found := ""
			for _, f := range st.Fields.List {
				id, isId := f.Type.(*ast.Ident)
				if !isId {
					continue
				}
				if len(f.Names) == 0 && id.Name == p {
					found = id.Name
				}
				for _, n := range f.Names {
					if n.Name == p {
						found = id.Name
					}
				}
			}
			if found == "" {
				return "", false
			}
			tn = found
		}
		owner = tn
	}
	fd, ok := g.c.funcs[owner+"."+method]
	if !ok || fd.Body == nil || len(fd.Type.Params.List) != 0 || len(fd.Recv.List[0].Names) != 1 {
		return "", false
	}
	sub := &gov{c: g.c, tags: g.tags, recv: fd.Recv.List[0].Names[0].Name, self: g.self, prefix: full, locals: map[string]string{}, depth: g.depth + 1, typ: owner}
	return "(TScope " + sub.block(fd.Body.List) + ")", true
}

func (g *gov) retStmt(r *ast.ReturnStmt) string {
	if len(r.Results) != 1 {
		return g.unsupS(r)
	}
	e := r.Results[0]
	if isIdent(e, "nil") {
		return "TRetNil"
	}
	if f, en, ok := fieldErrorExpr(e); ok && en != "err" {
		return fmt.Sprintf("(TRetErr %s %s)", coqString(f), coqString(en))
	}
	if x, ok := g.inlineCall(e); ok {
		return "(TSeq " + x + " TRetNil)"
	}
	return g.unsupS(r)
}

func (g *gov) stmt(s ast.Stmt) string {
	switch s := s.(type) {
	case *ast.ReturnStmt:
		return g.retStmt(s)
	case *ast.BlockStmt:
		return g.block(s.List)
	case *ast.AssignStmt:
		if s.Tok == token.DEFINE && len(s.Lhs) == 1 && len(s.Rhs) == 1 {
			if id, isId := s.Lhs[0].(*ast.Ident); isId {
				if v, ok := g.sexpr(s.Rhs[0]); ok {
					g.locals[id.Name] = v
					return ""
				}
			}
		}
		return g.unsupS(s)
	case *ast.IfStmt:
		// if x := <string expr>; cond { ... }   (local binding, substituted)
		if s.Init != nil {
			if as, isAs := s.Init.(*ast.AssignStmt); isAs && as.Tok == token.DEFINE && len(as.Lhs) == 1 && len(as.Rhs) == 1 && !isIdent(as.Lhs[0], "err") {
				if id, isId := as.Lhs[0].(*ast.Ident); isId {
					if v, ok := g.sexpr(as.Rhs[0]); ok {
						saved, had := g.locals[id.Name]
						g.locals[id.Name] = v
						s2 := *s
						s2.Init = nil
						out := g.stmt(&s2)
						if had {
							g.locals[id.Name] = saved
						} else {
							delete(g.locals, id.Name)
						}
						return out
					}
				}
			}
		}
		// if err := CALL; err != nil { return err | return fieldError("F", err, ..) }
		if s.Init != nil {
			as, isAs := s.Init.(*ast.AssignStmt)
			if isAs && len(as.Lhs) == 1 && isIdent(as.Lhs[0], "err") && len(as.Rhs) == 1 && g.c.src1(s.Cond) == "err != nil" &&
				s.Else == nil && len(s.Body.List) == 1 {
				ret, isRet := s.Body.List[0].(*ast.ReturnStmt)
				if isRet && len(ret.Results) == 1 {
					if isIdent(ret.Results[0], "err") {
						if x, ok := g.inlineCall(as.Rhs[0]); ok {
							return x
						}
					} else if f, en, ok := fieldErrorExpr(ret.Results[0]); ok {
						if name, arg, okv := g.isValidatorCall(as.Rhs[0]); okv {
							if a, oka := g.sexpr(arg); oka {
								if en == "err" {
									return fmt.Sprintf("(TCheck %s %s %s)", coqString(name), a, coqString(f))
								}
								return fmt.Sprintf("(TIf (BPrimErr %s %s) (TRetErr %s %s) TSkip)", coqString(name), a, coqString(f), coqString(en))
							}
						}
					}
				}
			}
			return g.unsupS(s)
		}
		cnd, ok := g.bexpr(s.Cond)
		if !ok {
			return g.unsupS(s)
		}
		th := g.block(s.Body.List)
		el := "TSkip"
		if s.Else != nil {
			el = g.stmt(s.Else)
			if el == "" {
				el = "TSkip"
			}
		}
		return "(TIf " + cnd + "\n      " + th + "\n      " + el + ")"
	case *ast.RangeStmt:
		// for _, err := range []error{ validateIfPresent(fwm.X), ... } { if err != nil { return err } }
		if g.self == nil && g.c.validateIfPresentRecognised() && isIdent(s.Value, "err") && len(s.Body.List) == 1 &&
			g.c.src1(s.Body.List[0]) == "if err != nil { return err }" {
			if cl, isCL := s.X.(*ast.CompositeLit); isCL && g.c.src1(cl.Type) == "[]error" {
				var items []string
				ok := true
				for _, el := range cl.Elts {
					call, isCall := el.(*ast.CallExpr)
					if !isCall || !isIdent(call.Fun, "validateIfPresent") || len(call.Args) != 1 {
						ok = false
						break
					}
					t := g.tagOfMsgExpr(call.Args[0])
					if t == nil {
						ok = false
						break
					}
					items = append(items, fmt.Sprintf("(TIf (BNot (BNil %d)) (TValidate %d) TSkip)", t.Index, t.Index))
				}
				if ok {
					return seq(items)
				}
			}
		}
		return g.unsupS(s)
	case *ast.SwitchStmt:
		if s.Init != nil || s.Tag == nil {
			return g.unsupS(s)
		}
		tag, ok := g.sexpr(s.Tag)
		if !ok {
			return g.unsupS(s)
		}
		type arm struct {
			vals []string
			body string
		}
		var arms []arm
		def := "TSkip"
		for _, cs := range s.Body.List {
			cc := cs.(*ast.CaseClause)
			for _, st := range cc.Body {
				if _, isFall := st.(*ast.BranchStmt); isFall {
					return g.unsupS(s)
				}
			}
			body := g.block(cc.Body)
			if cc.List == nil {
				def = body
				continue
			}
			var vals []string
			for _, e := range cc.List {
				v, okc := g.c.constString(e)
				if !okc {
					return g.unsupS(s)
				}
				vals = append(vals, v)
			}
			arms = append(arms, arm{vals, body})
		}
		out := def
		for i := len(arms) - 1; i >= 0; i-- {
			out = "(TIf (BIn " + tag + " " + coqBytesList(arms[i].vals) + ")\n      " + arms[i].body + "\n      " + out + ")"
		}
		return out
	}
	return g.unsupS(s)
}

func (c *Ctx) validateProg(t *TagInfo) string {
	fd, ok := c.funcs[t.Type+".Validate"]
	if !ok || fd.Body == nil || len(fd.Recv.List[0].Names) != 1 {
		c.warnf("%s: no Validate", t.Type)
		return "(TUnsupported \"no Validate\"%string)"
	}
	g := &gov{c: c, tags: c.tags, recv: fd.Recv.List[0].Names[0].Name, self: t, locals: map[string]string{}, typ: t.Type}
	return g.block(fd.Body.List)
}

func genVerify(c *Ctx) string {
	var b strings.Builder
	b.WriteString(genHeader)
	b.WriteString("From Wire Require Import Model.GoV.\n\n")
	fd, ok := c.funcs["FEDWireMessage.verify"]
	prog := "(TUnsupported \"no verify\"%string)"
	if ok && fd.Body != nil {
		g := &gov{c: c, tags: c.tags, recv: fd.Recv.List[0].Names[0].Name, locals: map[string]string{}, typ: "FEDWireMessage.verify"}
		prog = g.block(fd.Body.List)
	}
	b.WriteString("(* FEDWireMessage.verify with every helper inlined (TScope) *)\nDefinition verify_prog : stmt :=\n  " + prog + ".\n\n")
	// File.Validate must be a thin wrapper of verify
	fv := "false"
	if f, ok := c.funcs["File.Validate"]; ok && f.Body != nil {
		if c.src1(f.Body) == "{ if err := f.FEDWireMessage.verify(); err != nil { return err } return nil }" {
			fv = "true"
		}
	}
	b.WriteString("Definition file_validate_is_verify : bool := " + fv + ".\n\n")
	// helper functions never reached from verify (documentation of dead rules)
	reached := map[string]bool{}
	var walk func(name string)
	walk = func(name string) {
		if reached[name] {
			return
		}
		reached[name] = true
		f, ok := c.funcs["FEDWireMessage."+name]
		if !ok || f.Body == nil {
			return
		}
		ast.Inspect(f.Body, func(n ast.Node) bool {
			if call, isCall := n.(*ast.CallExpr); isCall {
				if sel, isSel := call.Fun.(*ast.SelectorExpr); isSel {
					if id, isId := sel.X.(*ast.Ident); isId && id.Name == f.Recv.List[0].Names[0].Name {
						walk(sel.Sel.Name)
					}
				}
			}
			return true
		})
	}
	walk("verify")
	var dead []string
	for k := range c.funcs {
		if strings.HasPrefix(k, "FEDWireMessage.") {
			n := strings.TrimPrefix(k, "FEDWireMessage.")
			if !reached[n] && (strings.HasPrefix(n, "validate") || strings.HasPrefix(n, "check") || strings.HasPrefix(n, "invalid") || strings.HasPrefix(n, "is")) {
				dead = append(dead, n)
			}
		}
	}
	sortStrings(dead)
	var ds []string
	for _, d := range dead {
		ds = append(ds, coqString(d))
	}
	b.WriteString("(* rule helpers of fedWireMessage.go that verify() never reaches *)\nDefinition unreached_rule_helpers : list string := " + coqList(ds) + ".\n")
	return b.String()
}
