module verif/translator

go 1.21

require (
	golang.org/x/text v0.17.0
	gopkg.in/yaml.v3 v3.0.1
)
