package main

import (
	"fmt"
	"go/ast"
	"strings"
)

// genReader translates reader.go: the dispatch table (marker -> record label, parsed type, validates,
// assigned message field) and the shape facts of the read loop, the splitter and the constructors.
func genReader(c *Ctx) string {
	var b strings.Builder
	b.WriteString(genHeader)
	b.WriteString("\n")
	type arm struct {
		marker            string
		label             string
		typeIdx, fieldIdx int
		validates         bool
	}
	var arms []arm
	ok := true
	note := func(f string, a ...any) {
		ok = false
		c.warnf("reader: "+f, a...)
	}
	g := &gov{c: c, tags: c.tags, recv: "r", locals: map[string]string{}, typ: "Reader"}
	_ = g

	// parse<Tag> helpers
	helper := func(name string) (label string, typeIdx, fieldIdx int, validates bool, okh bool) {
		fd, has := c.funcs["Reader."+name]
		if !has || fd.Body == nil {
			return "", 0, 0, false, false
		}
		st := fd.Body.List
		if len(st) != 6 && len(st) != 5 {
			return "", 0, 0, false, false
		}
		src := make([]string, len(st))
		for i, s := range st {
			src[i] = c.src1(s)
		}
		if !strings.HasPrefix(src[0], "r.tagName = \"") {
			return "", 0, 0, false, false
		}
		label = unquote(strings.TrimPrefix(src[0], "r.tagName = "))
		// v := new(T)
		as, isAs := st[1].(*ast.AssignStmt)
		if !isAs || len(as.Lhs) != 1 || len(as.Rhs) != 1 {
			return "", 0, 0, false, false
		}
		v, isId := as.Lhs[0].(*ast.Ident)
		call, isCall := as.Rhs[0].(*ast.CallExpr)
		if !isId || !isCall || !isIdent(call.Fun, "new") || len(call.Args) != 1 {
			return "", 0, 0, false, false
		}
		tn, isT := call.Args[0].(*ast.Ident)
		if !isT {
			return "", 0, 0, false, false
		}
		tt := c.tagByType(c.tags, tn.Name)
		if tt == nil {
			return "", 0, 0, false, false
		}
		if src[2] != fmt.Sprintf("if err := %s.Parse(r.line); err != nil { return r.parseError(err) }", v.Name) {
			return "", 0, 0, false, false
		}
		k := 3
		if src[k] == fmt.Sprintf("if err := %s.Validate(); err != nil { return r.parseError(err) }", v.Name) {
			validates = true
			k++
		}
		if k+1 >= len(st)+0 && k+1 != len(st)-0 {
			// fallthrough to checks below
		}
		if k >= len(st)-1 {
			return "", 0, 0, false, false
		}
		pre := "r.currentFEDWireMessage."
		if !strings.HasPrefix(src[k], pre) || !strings.HasSuffix(src[k], " = "+v.Name) {
			return "", 0, 0, false, false
		}
		field := strings.TrimSuffix(strings.TrimPrefix(src[k], pre), " = "+v.Name)
		ft := c.tagByMsgField(c.tags, field)
		if ft == nil || src[k+1] != "return nil" || k+2 != len(st) {
			return "", 0, 0, false, false
		}
		return label, tt.Index, ft.Index, validates, true
	}

	guardOK, defaultOK := false, false
	if fd, has := c.funcs["Reader.parseLine"]; has && fd.Body != nil && len(fd.Body.List) == 3 {
		guardOK = c.src1(fd.Body.List[0]) == `if n := utf8.RuneCountInString(r.line); n < 6 { return fmt.Errorf("line %q is too short for tag", r.line) }`
		if sw, isSw := fd.Body.List[1].(*ast.SwitchStmt); isSw && c.src1(sw.Tag) == "r.line[:6]" && sw.Init == nil {
			for _, cs := range sw.Body.List {
				cc := cs.(*ast.CaseClause)
				if cc.List == nil {
					defaultOK = c.src1(&ast.BlockStmt{List: cc.Body}) == "{ if r.lineNum == 1 && !tagRegex.MatchString(r.line[:6]) { r.headerData = r.line return nil } return NewErrInvalidTag(r.line[:6]) }"
					continue
				}
				if len(cc.List) != 1 || len(cc.Body) != 1 {
					note("parseLine: unrecognised case arm %s", short(c.src1(cc)))
					continue
				}
				marker, okm := c.constString(cc.List[0])
				body := c.src1(cc.Body[0])
				if !okm || !strings.HasPrefix(body, "if err := r.parse") || !strings.HasSuffix(body, "(); err != nil { return err }") {
					note("parseLine: unrecognised case arm %s", short(c.src1(cc)))
					continue
				}
				hn := strings.TrimSuffix(strings.TrimPrefix(body, "if err := r."), "(); err != nil { return err }")
				label, ti, fi, val, okh := helper(hn)
				if !okh {
					note("parse helper %s not recognised", hn)
					continue
				}
				arms = append(arms, arm{marker, label, ti, fi, val})
			}
		} else {
			note("parseLine: switch not recognised")
		}
		if c.src1(fd.Body.List[2]) != "return nil" {
			note("parseLine: tail not recognised")
		}
	} else {
		note("parseLine not recognised")
	}
	var items []string
	for _, a := range arms {
		items = append(items, fmt.Sprintf("(%s, (%d, %d, %s, %s))", coqBytes(a.marker), a.typeIdx, a.fieldIdx, coqString(a.label), coqBool(a.validates)))
	}
	b.WriteString("(* parseLine dispatch: marker -> (parsed tag type, message field it is stored in, record label, calls Validate) *)\n")
	b.WriteString("Definition dispatch : list (bytes * (nat * nat * string * bool)) :=\n  " + coqListNL(items, "  ") + ".\n\n")

	readOK := false
	if fd, has := c.funcs["Reader.read"]; has && fd.Body != nil {
		want := `{ spiltString := func(line string) []string { line = strings.ReplaceAll(strings.ReplaceAll(line, "\r\n", ""), "\n", "") indexes := tagRegex.FindAllStringIndex(line, -1) var result []string last := len(line) for i := range indexes { index := indexes[len(indexes)-1-i][0] result = append([]string{line[index:last]}, result...) last = index } return result } r.lineNum = 0 for r.scanner.Scan() { line := r.scanner.Text() for _, subLine := range spiltString(line) { r.lineNum++ r.line = subLine if err := r.parseLine(); err != nil { r.errors.Add(err) } } } if err := r.scanner.Err(); err != nil { r.errors.Add(err) } presetOpts := r.File.FEDWireMessage.ValidateOptions r.File.AddFEDWireMessage(r.currentFEDWireMessage) if r.File.FEDWireMessage.ValidateOptions == nil { r.File.FEDWireMessage.ValidateOptions = presetOpts } r.currentFEDWireMessage = FEDWireMessage{} if r.errors.Empty() { if opts != nil { r.File.SetValidation(opts) } err := r.File.Validate() if err == nil { return r.File, nil } r.errors.Add(fmt.Errorf("file validation failed: %v", err)) } return r.File, r.errors }`
		readOK = c.src1NoComments(fd.Body) == want
		if !readOK {
			c.warnf("reader: read loop not recognised: %s", short(c.src1NoComments(fd.Body)))
		}
	}
	splitOK := false
	if fd, has := c.funcs["scanLinesWithSegmentFormat"]; has && fd.Body != nil {
		want := `{ if atEOF && len(data) == 0 { return 0, nil, nil } indexes := tagRegex.FindAllIndex(data, -1) if len(indexes) == 0 { if !atEOF { return 0, nil, nil } return len(data), data, nil } if len(indexes) < 2 && !atEOF { return 0, nil, nil } firstIndex := indexes[0] if firstIndex[0] > 0 { return firstIndex[0], data[:firstIndex[0]], nil } if len(indexes) == 1 { return len(data), data, nil } secondIndex := indexes[1] length := secondIndex[0] return length, data[:length], nil }`
		splitOK = c.src1NoComments(fd.Body) == want
		if !splitOK {
			c.warnf("reader: split function not recognised")
		}
	}
	newReaderOK := false
	if fd, has := c.funcs["NewReader"]; has && fd.Body != nil {
		newReaderOK = c.src1NoComments(fd.Body) == "{ reader := &Reader{ scanner: bufio.NewScanner(r), File: *NewFile(opts...), } reader.scanner.Split(scanLinesWithSegmentFormat) return reader }"
	}
	entryOK := false
	if f1, has1 := c.funcs["Reader.Read"]; has1 {
		if f2, has2 := c.funcs["Reader.ReadWithOpts"]; has2 {
			entryOK = c.src1(f1.Body) == "{ return r.read(nil) }" && c.src1(f2.Body) == "{ return r.read(opts) }"
		}
	}
	parseErrOK := false
	if fd, has := c.funcs["Reader.parseError"]; has && fd.Body != nil {
		parseErrOK = c.src1(fd.Body) == "{ if err == nil { return nil } if _, ok := err.(*base.ParseError); ok { return err } return &base.ParseError{ Line: r.lineNum, Record: r.tagName, Err: err, } }"
	}
	tagRe := false
	if e, found := c.vars["tagRegex"]; found {
		tagRe = c.src1(e) == "regexp.MustCompile(`{([0-9]{4})}`)"
	}
	// file.go: presets and SetValidation
	fileOK := false
	if f1, h1 := c.funcs["File.SetValidation"]; h1 {
		if f2, h2 := c.funcs["IncomingFile"]; h2 {
			if f3, h3 := c.funcs["OutgoingFile"]; h3 {
				fileOK = c.src1(f1.Body) == "{ if f == nil || opts == nil { return } f.FEDWireMessage.ValidateOptions = opts }" &&
					c.src1(f2.Body) == "{ return func(f *File) { if f != nil { if f.FEDWireMessage.ValidateOptions == nil { f.FEDWireMessage.ValidateOptions = &ValidateOpts{} } f.FEDWireMessage.ValidateOptions.AllowMissingSenderSupplied = true } } }" &&
					c.src1(f3.Body) == "{ return func(f *File) { if f != nil { if f.FEDWireMessage.ValidateOptions == nil { f.FEDWireMessage.ValidateOptions = &ValidateOpts{} } f.FEDWireMessage.ValidateOptions.AllowMissingSenderSupplied = false } } }"
			}
		}
	}
	fmt.Fprintf(&b, "Definition dispatch_recognised : bool := %s.   (* every arm of parseLine and every parse<Tag> helper classified *)\n", coqBool(ok))
	fmt.Fprintf(&b, "Definition parse_line_guard_ok : bool := %s.   (* rune count < 6 => too short *)\n", coqBool(guardOK))
	fmt.Fprintf(&b, "Definition parse_line_default_ok : bool := %s. (* default arm => invalid tag (the header branch needs a non-marker first line, which sub-lines never are) *)\n", coqBool(defaultOK))
	fmt.Fprintf(&b, "Definition read_loop_recognised : bool := %s.  (* scan; re-split; parseLine; scanner.Err(); keep preset; options; Validate *)\n", coqBool(readOK))
	fmt.Fprintf(&b, "Definition split_recognised : bool := %s.      (* scanLinesWithSegmentFormat *)\n", coqBool(splitOK))
	fmt.Fprintf(&b, "Definition new_reader_recognised : bool := %s.\n", coqBool(newReaderOK))
	fmt.Fprintf(&b, "Definition read_entry_points_ok : bool := %s.  (* Read = read(nil), ReadWithOpts = read(opts) *)\n", coqBool(entryOK))
	fmt.Fprintf(&b, "Definition parse_error_wrapper_ok : bool := %s. (* ParseError{Line: lineNum, Record: tagName} *)\n", coqBool(parseErrOK))
	fmt.Fprintf(&b, "Definition tag_regex_ok : bool := %s.\n", coqBool(tagRe))
	fmt.Fprintf(&b, "Definition file_presets_ok : bool := %s.       (* SetValidation / IncomingFile / OutgoingFile *)\n", coqBool(fileOK))
	return b.String()
}
